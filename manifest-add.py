#!/usr/bin/env python3
# manifest-add.py <ID> <category> <level text> <level note>  : register (or update) a check in MANIFEST.json
import json,sys
id,cat,text,note=sys.argv[1:5]
p='/verif/MANIFEST.json'
m=json.load(open(p))
e={"property_id":id,"quick_cmd":"./check %s --tier quick"%id,"thorough_cmd":"./check %s --tier thorough"%id,
   "evidence_file":"/verif/evidence/%s.json"%id,"replay_cmd_template":"./check %s --replay {path}"%id,"engine":"govc",
   "level_claimed":{"category":cat,"text":text,"design_ref":"DESIGN.md section 4 (%s)"%id},
   "level_note":note,
   "technique":"contract-based deductive verification: WP over go/ssa, contracts in //@ comments, z3/cvc5 portfolio"}
m['checks']=[c for c in m['checks'] if c['property_id']!=id]+[e]
m['checks'].sort(key=lambda c:c['property_id'])
m['not_applicable']=[n for n in m.get('not_applicable',[]) if n['property_id']!=id]
for eng in m.get('engines',[]):
    if eng.get('name')=='govc' and id not in eng.get('serves_properties',[]):
        eng['serves_properties']=sorted(eng.get('serves_properties',[])+[id])
json.dump(m,open(p,'w'),indent=1)
print("registered",id)
