#!/bin/bash
# Must-fail corpus: every patch under selftest/<ID>/*.diff is applied to a scratch
# worktree of /repo (HEAD + the uncommitted contract mirror), the property's check
# is run against it, and it must report a VIOLATION naming an obligation that
# matches the patch's "# expect:" line. Usage: [SELFTEST_GLOB='seeded_*'] selftest/run.sh [ID ...]
set -u
cd "$(dirname "$0")/.."
export GOFLAGS=-mod=mod GOPROXY=off
WT=/tmp/govc-selftest-wt-$$
cleanup() { git -C /repo worktree remove --force "$WT" >/dev/null 2>&1; rm -rf "$WT"; }
trap cleanup EXIT
cleanup
git -C /repo worktree add --detach "$WT" HEAD >/dev/null 2>&1 || { echo "cannot create worktree"; exit 2; }
# carry over uncommitted working-tree changes of /repo (e.g. contract files)
(cd /repo && git diff HEAD) | (cd "$WT" && git apply --allow-empty 2>/dev/null)
fail=0; total=0
ids=("$@"); [ ${#ids[@]} -eq 0 ] && ids=($(ls selftest | grep -E '^C[0-9]+$'))
for id in "${ids[@]}"; do
  for p in selftest/$id/${SELFTEST_GLOB:-*}.diff; do
    [ -e "$p" ] || continue
    total=$((total+1))
    expect=$(grep -m1 '^# expect:' "$p" | sed 's/^# expect: *//')
    (cd "$WT" && git apply "$OLDPWD/$p") || { echo "SELFTEST-ERROR $p: patch does not apply"; fail=$((fail+1)); continue; }
    out=$(GOVC_REPO="$WT" GOVC_CONTRACTS=${GOVC_CONTRACTS:-} timeout 900 ./bin/govc check "$id" --no-evidence 2>&1)
    (cd "$WT" && git checkout -q -- . )
    if echo "$out" | grep -q "^VIOLATION property=$id .*obligation=[^ ]*$expect"; then
      echo "ok    $p  -> $(echo "$out" | grep -m1 "^VIOLATION.*$expect" | sed 's/.*obligation=//')"
    else
      echo "MISS  $p  (expected a violation matching '$expect')"
      echo "$out" | grep -E "VIOLATION|ENGINE" | head -5 | sed 's/^/      /'
      fail=$((fail+1))
    fi
  done
done
echo "selftest: $((total-fail))/$total must-fail patches detected"
[ $fail -eq 0 ]
