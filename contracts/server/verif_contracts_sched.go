//go:build verif

// Contracts for the scheduler (server/sched.go, PsHandler in routes.go): properties
// C01, C02, C11, C15. Monitor-style reasoning: fields declared `guarded` may only be
// accessed while their mutex is held (or on a fresh, unpublished object); at Lock the
// guarded fields are forgotten (other goroutines may have changed them), so every
// critical section is verified for all states the discipline admits.
package server

//@ guarded (runnerRef).refCount, expireTimer, sessionDuration, expiresAt, loading by refMu
//@ guarded (runnerRef).llama, model, Options, gpus by refMu | (Scheduler).loadedMu
//@ guarded (Scheduler).loaded by loadedMu
//@ lockinv (Scheduler).loadedMu : this.loaded != nil

// llm.LlamaServer is external; its methods do not touch scheduler state.
//@ extern func llm.(LlamaServer).Close
//@   modifies nothing
//@ extern func llm.(LlamaServer).Ping
//@   modifies nothing
//@ extern func llm.(LlamaServer).WaitUntilRunning
//@   modifies nothing
//@ extern func llm.(LlamaServer).EstimatedVRAM
//@   modifies nothing
//@ extern func llm.(LlamaServer).EstimatedTotal
//@   modifies nothing
//@ extern func llm.(LlamaServer).EstimatedVRAMByGPU
//@   modifies nothing
//@ extern func (Scheduler).newServerFn
//@   modifies nothing
//@   ensures result.1 == nil ==> result.0 != nil
//@ extern func time.(*Timer).Stop
//@   modifies nothing
//@ extern func time.(*Timer).Reset
//@   modifies nothing
//@ extern func time.AfterFunc
//@   modifies nothing
//@ extern func (*runnerRef).waitForVRAMRecovery
//@   modifies nothing

// C01: "The refMu must already be held when calling unload" and nobody holds a reference.
//@ func (*runnerRef).unload
//@   requires held(runner.refMu) && runner.refCount == 0
// C15: llama/model/Options/gpus are read by holders of loadedMu alone (PsHandler, ...), so
// they may only be written with both refMu and loadedMu held.
//@   requires heldany(Scheduler.loadedMu)
//@   modifies runner.expireTimer, runner.model, runner.llama, runner.Options, runner.gpus
//@   ensures runner.llama == nil

// C01: a runner that has been shut down (llama == nil after unload) is never handed to a
// request; the reference is taken before the runner is sent.
//@ func (*LlmRequest).useLoadedRunner
//@   assert-at send successCh : sent.llama != nil
//@   ghost-at entry : ghost_replies := 0
//@   ghost-at send successCh : ghost_replies := ghost_replies + 1
//@   assert-at return : (result ==> ghost_replies == 1) && (!result ==> ghost_replies == 0)
// C02 (drain): reference balance: a reference is taken iff the runner is handed out, and
// then exactly one finisher goroutine is started to give it back.
//@   ghost-at entry : ghost_fin := 0
//@   ghost-at after call sync.(*Mutex).Lock #1 : ghost_rc0 := runner.refCount
//@   assume-at after call sync.(*Mutex).Lock #1 : runner.refCount < 9223372036854775807   -- range assumption: fewer than 2^63 concurrent references (uint counter does not wrap)
//@   ghost-at call useLoadedRunner$1 : ghost_fin := ghost_fin + 1
//@   assert-at return : (result ==> ghost_fin == 1 && runner.refCount == ghost_rc0 + 1) && (!result ==> ghost_fin == 0 && runner.refCount == ghost_rc0)

//@ func (*Scheduler).load
//@   ghost-at entry : ghost_replies := 0
//@   ghost-at send errCh : ghost_replies := ghost_replies + 1
//@   ghost-at call load$1 : ghost_replies := ghost_replies + 1     -- handing over to the goroutine that sends the one reply
//@   assert-at return : ghost_replies == 1

//@ func (*Scheduler).load$1
//@   requires held(runner.refMu) && runner.llama != nil && runner.refCount == 1
//@   ghost-at entry : ghost_replies := 0
//@   ghost-at send errCh : ghost_replies := ghost_replies + 1
//@   ghost-at send successCh : ghost_replies := ghost_replies + 1
//@   assert-at send successCh : sent.llama != nil
//@   assert-at return : ghost_replies == 1
// C02 (drain): reference balance. The request's reference (refCount == 1 from load) is
// either dropped here (failed load) or handed to exactly one finisher goroutine, which
// posts the one finished event that drops it - never both, never neither.
//@   ghost-at entry : ghost_fin := 0
//@   ghost-at call load$1$1 : ghost_fin := ghost_fin + 1
//@   assert-at return : ghost_fin <= 1 && runner.refCount == ghost_fin

// C11: the loaded map (whose size is compared with the configured maximum, and which is
// searched per model path) covers every live runner: an entry is deleted only after the
// runner has been shut down (unload: llama == nil), inside the same critical section.
//@ func (*Scheduler).processCompleted
//@   assert-at call delete #1 : runner.llama == nil
//@   assert-at call delete #1 : held(s.loadedMu)
// C02 (drain: every runner that was started is shut down once nobody uses it): an expiry event is
// put off (re-posted by the retry goroutine) only because somebody still holds a reference - the
// finished event of that holder brings the next expiry. An idle runner is unloaded by THIS event.
// (added after seeded change C02-seed3, which also put it off while `loading` was set)
//@   assert-at call processCompleted$2 : runner.refCount > 0

// C02: the caller of GetRunner is never blocked: the queue send sits in a select with
// default, and the busy error goes to a fresh channel of capacity 1.
//@ func (*Scheduler).GetRunner
//@   opt nonblocking on

// C11: a new runner is started only when no runner exists for that model (read under
// loadedMu in the same iteration; processPending is the only inserter).
//@ func (*Scheduler).processPending
//@   assert-at call loadFn : runner == nil
// C02 (every request gets its reply provided the requests ahead of it complete): before the
// pending loop parks on unloadedCh, the runner chosen for eviction is certain to produce an
// unloaded event without any further help: its keep-alive is cancelled (sessionDuration == 0,
// no timer pending), so the finished event of its last user expires it at once, and if it is
// already idle the expiry has been posted (added after seeded change C02-seed2).
//@   ghost-at after call sync.(*Mutex).Lock : ghost_posted := 0
//@   ghost-at send expiredCh : ghost_posted := 1
//@   assert-at call sync.(*Mutex).Unlock : (runnerToExpire != nil && arg0 == &runnerToExpire.refMu) ==> (runnerToExpire.sessionDuration == 0 && runnerToExpire.expireTimer == nil && (runnerToExpire.refCount == 0 ==> ghost_posted == 1))

// C02: exactly one reply on this path too.
//@ func (*Scheduler).processCompleted$1

//@ func (*Scheduler).expireRunner
//@   assert-at send expiredCh : sent.refCount == 0 && held(sent.refMu)

//@ func (*Scheduler).findRunnerToUnload
//@ func (*Scheduler).unloadAllRunners
// C11 (placement: a new runner is started only where it fits in the memory the loaded models
// leave free): the memory left free is computed from EVERY loaded runner. r.ghost_acct records
// that r's per-GPU prediction was asked for and added; after the loop every loaded runner
// that has a server (llama != nil) has been accounted for, unless there are no GPUs.
// (added after seeded change C11-seed2, which skipped runners whose lock was busy)
//@ func (*Scheduler).updateFreeSpace
//@   ghost-at after call EstimatedVRAMByGPU : r.ghost_acct := 1
//@   loop 1 invariant forall k string :: visited(k) ==> (s.loaded[k] == nil || s.loaded[k].llama == nil || len(allGpus) == 0 || s.loaded[k].ghost_acct == 1)
//@   loop 1 invariant forall k string :: has(s.loaded, k) ==> rangehad(k)
//@   loop 2 invariant rangeindex >= 0 ==> r.ghost_acct == 1
//@   loop 2 invariant forall k string :: visited(k) && k != rangekey ==> (s.loaded[k] == nil || s.loaded[k].llama == nil || len(allGpus) == 0 || s.loaded[k].ghost_acct == 1)
//@   assert-at call sync.(*Mutex).Unlock : arg0 == &s.loadedMu ==> (forall k string :: has(s.loaded, k) ==> (s.loaded[k] == nil || s.loaded[k].llama == nil || len(allGpus) == 0 || s.loaded[k].ghost_acct == 1))
//@ func (*Scheduler).filterGPUsWithoutLoadingModels
//@ func (*runnerRef).needsReload
//@   assume-at entry : runner.numParallel >= 1      -- set to max(1, n) in load before the runner is published, never changed

// C11 ("a request ... is served by a runner started with its options", and a compatible request
// reuses it): whatever parallelism p the placement settles on, the fit is predicted and the runner
// is started with the request's context scaled by THAT p (needsReload later divides the loaded
// NumCtx by numParallel to compare it with a new request's). Added after seeded change C11-seed3.
//@ func pickBestFullFitByLibrary
//@   opt safe panic
// (1) every assignment of the context stores origNumCtx * p for the p being tried;
// (2) every fit prediction runs with the context stored for the SAME p it is asked about;
// (3) the parallelism reported back is the p of the successful prediction.
//@   assert-at store NumCtx : stored == wrapint(req.origNumCtx * p)
//@   ghost-at store NumCtx : ghost_ctx := stored
//@   ghost-at store NumCtx : ghost_p := p
//@   assert-at call PredictServerFit : req.opts.NumCtx == ghost_ctx && arg5 == ghost_p && arg5 == p
//@   ghost-at call PredictServerFit : ghost_pp := p
//@   assert-at store numParallel : stored == ghost_pp
//@   loop 3 invariant req.opts.NumCtx == ghost_ctx
//@   loop 3 invariant ghost_p == p

