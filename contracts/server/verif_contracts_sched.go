//go:build verif

// Contracts for the scheduler (server/sched.go, PsHandler in routes.go): properties
// C01, C02, C11, C15. Monitor-style reasoning: fields declared `guarded` may only be
// accessed while their mutex is held (or on a fresh, unpublished object); at Lock the
// guarded fields are forgotten (other goroutines may have changed them), so every
// critical section is verified for all states the discipline admits.
package server

//@ guarded (runnerRef).refCount, expireTimer, sessionDuration, expiresAt, loading by refMu
//@ guarded (runnerRef).llama, model, Options, gpus by refMu | (Scheduler).loadedMu
//@ guarded (Scheduler).loaded by loadedMu
// C15/C11 (added by the audit; one lockinv per mutex, so the original `this.loaded != nil` is kept as the
// first conjunct): whenever loadedMu is free, every entry of the loaded map is a runner that has
// not been torn down (model and server present) and is keyed by its own model path.
//@ lockinv (Scheduler).loadedMu : this.loaded != nil && (forall k string :: has(this.loaded, k) ==> (this.loaded[k] != nil && this.loaded[k].model != nil && this.loaded[k].llama != nil && this.loaded[k].modelPath == k))
// C15 (no request makes the server panic) / C01 (a runner that has been shut down is never handed out):
// a runner is either complete or torn down - model, server and Options are set together (load) and
// cleared together (unload). Every function that finds a runner decides "torn down?" by looking at
// ONE of them (needsReload: Options, useLoadedRunner / updateFreeSpace: llama) and then dereferences
// the others (needsReload: runner.model.AdapterPaths, runner.llama.Ping), so whenever refMu is free
// the three must agree. Proved at every release of refMu, assumed at every acquisition.
// (added after seeded change C15-seed4, in which unload left Options behind)
// C11/C15 (coverage extension): ... and the parallelism a runner records is at least 1 - needsReload divides the
// loaded context by it (a zero would panic in the scheduler's goroutine). load clamps it before the
// runner is published; nobody writes it afterwards. This replaces the former assume-at in needsReload.
//@ lockinv (runnerRef).refMu : (this.Options == nil <==> this.llama == nil) && (this.model == nil <==> this.llama == nil) && this.numParallel >= 1

// llm.LlamaServer is external; its methods do not touch scheduler state.
//@ extern func llm.(LlamaServer).Close
//@   modifies nothing
//@ extern func llm.(LlamaServer).Ping
//@   modifies nothing
//@ extern func llm.(LlamaServer).WaitUntilRunning
//@   modifies nothing
//@ extern func llm.(LlamaServer).EstimatedVRAM
//@   modifies nothing
//@ extern func llm.(LlamaServer).EstimatedTotal
//@   modifies nothing
//@ extern func llm.(LlamaServer).EstimatedVRAMByGPU
//@   modifies nothing
//@ extern func (Scheduler).newServerFn
//@   modifies nothing
//@   ensures result.1 == nil ==> result.0 != nil
//@ extern func time.(*Timer).Stop
//@   modifies nothing
//@ extern func time.(*Timer).Reset
//@   modifies nothing
//@ extern func time.AfterFunc
//@   modifies nothing
//@   ensures result != nil
// (*runnerRef).waitForVRAMRecovery: was a trusted extern (`modifies nothing`); now a verified contract
// with the same frame, see verif_contracts_sched2.go.

// C01: "The refMu must already be held when calling unload" and nobody holds a reference.
//@ func (*runnerRef).unload
//@   requires held(runner.refMu) && runner.refCount == 0
// C15: llama/model/Options/gpus are read by holders of loadedMu alone (PsHandler, ...), so
// they may only be written with both refMu and loadedMu held.
//@   requires heldany(Scheduler.loadedMu)
//@   modifies runner.expireTimer, runner.model, runner.llama, runner.Options, runner.gpus
//@   ensures runner.llama == nil
// C02 (every runner that was started is shut down) / C01 (at most once): unload closes the
// server it finds, exactly once, and nothing else; afterwards there is no server left to close.
//@   ghost-at entry : ghost_had := ite(runner.llama != nil, 1, 0)
//@   ghost-at entry : ghost_closed := 0
//@   assert-at call Close : recv == runner.llama
//@   ghost-at call Close : ghost_closed := ghost_closed + 1
//@   assert-at return : ghost_closed == ghost_had
//@   ensures runner.expireTimer == nil && runner.model == nil
// C15: ... and nothing else of the torn-down runner is left either: Options (the field needsReload
// tests before it dereferences model and llama) and the GPU list are cleared with the rest.
//@   ensures runner.Options == nil && len(runner.gpus) == 0

// C01: a runner that has been shut down (llama == nil after unload) is never handed to a
// request; the reference is taken before the runner is sent.
//@ func (*LlmRequest).useLoadedRunner
//@   assert-at send successCh : sent.llama != nil
//@   ghost-at entry : ghost_replies := 0
//@   ghost-at send successCh : ghost_replies := ghost_replies + 1
//@   assert-at return : (result ==> ghost_replies == 1) && (!result ==> ghost_replies == 0)
// C02 (drain): reference balance: a reference is taken iff the runner is handed out, and
// then exactly one finisher goroutine is started to give it back.
//@   ghost-at entry : ghost_fin := 0
//@   ghost-at after call sync.(*Mutex).Lock #1 : ghost_rc0 := runner.refCount
//@   assume-at after call sync.(*Mutex).Lock #1 : runner.refCount < 9223372036854775807   -- range assumption: fewer than 2^63 concurrent references (uint counter does not wrap)
//@   ghost-at call useLoadedRunner$1 : ghost_fin := ghost_fin + 1
//@   assert-at return : (result ==> ghost_fin == 1 && runner.refCount == ghost_rc0 + 1) && (!result ==> ghost_fin == 0 && runner.refCount == ghost_rc0)
// C01 (mechanism: refCount++ and timer stop under refMu BEFORE the runner is sent): at the
// hand-off the reference is already counted, no keep-alive timer is pending and refMu is held.
//@   assert-at send successCh : sent == runner && held(runner.refMu) && runner.refCount == ghost_rc0 + 1 && runner.expireTimer == nil
// C02: the request is refused (to be placed again) only because the runner has been shut down;
// a granted request's keep-alive replaces the runner's.
//@   assert-at return : !result ==> runner.llama == nil
//@   assert-at return : (result && pending.sessionDuration != nil) ==> runner.sessionDuration == pending.sessionDuration.Duration

//@ func (*Scheduler).load
//@   requires !heldany(runnerRef.refMu)     -- lock order (verif_contracts_lockorder.go): called with no runner lock held
//@   ghost-at entry : ghost_replies := 0
//@   ghost-at send errCh : ghost_replies := ghost_replies + 1
//@   ghost-at call load$1 : ghost_replies := ghost_replies + 1     -- handing over to the goroutine that sends the one reply
//@   assert-at return : ghost_replies == 1
// C11 (one runner per model; served by a runner started with the request's options): the server
// is started for the request's model with the request's options and the parallelism that the
// runner records (needsReload divides the context by it: at least 1); the runner is published
// under the request's model path, which is also the key it will be deleted by; it is marked as
// loading and records the GPUs it was placed on (filterGPUsWithoutLoadingModels relies on both).
//@   assert-at call newServerFn : arg1 == req.model.ModelPath && arg5.Runner.NumCtx == req.opts.Runner.NumCtx && arg6 == numParallel && arg6 >= 1
//@   assert-at call sync.(*Mutex).Unlock #1 : has(s.loaded, req.model.ModelPath) && s.loaded[req.model.ModelPath] == runner && runner.modelPath == req.model.ModelPath
//@   assert-at call load$1 : runner.numParallel == numParallel && runner.numParallel >= 1
//@   assert-at call load$1 : runner.loading
//@   assert-at call load$1 : runner.model == req.model
// C02 (drain): the keep-alive of a new runner is the request's, else the configured default.
//@   ghost-at after call envconfig.KeepAlive : ghost_ka := result
//@   assert-at call load$1 : runner.sessionDuration == ite(req.sessionDuration != nil, req.sessionDuration.Duration, ghost_ka) && runner.expireTimer == nil
// C02: an error reply carries an error.
//@   assert-at send errCh : sent != nil
//@   assume-at call newServerFn : req != nil && req.model != nil      -- Go semantics: req.model.ModelPath is evaluated for this call; with a nil req or a nil req.model execution would have stopped there (req != nil is what makes Options: &req.opts a non-nil pointer)

//@ func (*Scheduler).load$1
//@   requires held(runner.refMu) && runner.llama != nil && runner.refCount == 1
// C15: the runner the goroutine inherits is complete (lock invariant of refMu, which it releases)
//@   requires runner.model != nil && runner.Options != nil
//@   ghost-at entry : ghost_replies := 0
//@   ghost-at send errCh : ghost_replies := ghost_replies + 1
//@   ghost-at send successCh : ghost_replies := ghost_replies + 1
//@   assert-at send successCh : sent.llama != nil
//@   assert-at return : ghost_replies == 1
// C02 (drain): reference balance. The request's reference (refCount == 1 from load) is
// either dropped here (failed load) or handed to exactly one finisher goroutine, which
// posts the one finished event that drops it - never both, never neither.
//@   ghost-at entry : ghost_fin := 0
//@   ghost-at call load$1$1 : ghost_fin := ghost_fin + 1
//@   assert-at return : ghost_fin <= 1 && runner.refCount == ghost_fin
// C02 (mechanism: failed load drops its reference, reports the error and posts an expiry): when
// the reference is dropped here, exactly one expiry of THIS runner is posted (nobody else will:
// no timer is armed, no finished event will come); when it is handed to the finisher, none.
//@   ghost-at entry : ghost_exp := 0
//@   ghost-at send expiredCh : ghost_exp := ghost_exp + 1
//@   assert-at send expiredCh : sent == runner && sent.refCount == 0 && held(sent.refMu)
//@   assert-at return : ghost_exp == 1 - ghost_fin
// C01/C11: the runner handed out is the one that was loaded, no longer marked as loading
// (a runner stuck in `loading` keeps its GPUs excluded from placement for good), holding
// exactly the request's reference; an error reply carries an error.
//@   assert-at send successCh : sent == runner && sent.loading == false && sent.refCount == 1 && held(sent.refMu)
//@   assert-at send errCh : sent != nil
//@   requires runner.numParallel >= 1         -- lock invariant of refMu (released here): proved at the go statement in load

// C11: the loaded map (whose size is compared with the configured maximum, and which is
// searched per model path) covers every live runner: an entry is deleted only after the
// runner has been shut down (unload: llama == nil), inside the same critical section.
//@ func (*Scheduler).processCompleted
//@   requires !heldany(runnerRef.refMu)     -- lock order (verif_contracts_lockorder.go): called with no runner lock held
//@   assert-at call delete #1 : runner.llama == nil
//@   assert-at call delete #1 : held(s.loadedMu)
// C02 (drain: every runner that was started is shut down once nobody uses it): an expiry event is
// put off (re-posted by the retry goroutine) only because somebody still holds a reference - the
// finished event of that holder brings the next expiry. An idle runner is unloaded by THIS event.
// (added after seeded change C02-seed3, which also put it off while `loading` was set)
//@   assert-at call processCompleted$2 : runner.refCount > 0
// C01/C02 (mechanism: the finish event decrements and arms/resets the keep-alive timer): the finished
// event is applied to the runner loaded for the finished request's model; it gives back exactly ONE
// reference; when that leaves the runner idle, the runner is certain to expire: either its expiry
// has been posted (always when its keep-alive is zero: eviction / explicit unload are waiting for
// it) or a keep-alive timer is pending. The expiry is posted only for an idle runner, under refMu.
//@   assert-at call sync.(*Mutex).Unlock #1 : (has(s.loaded, finished.model.ModelPath) ==> runner == s.loaded[finished.model.ModelPath]) && (!has(s.loaded, finished.model.ModelPath) ==> runner == nil)
//@   ghost-at after call sync.(*Mutex).Lock #2 : ghost_rc1 := runner.refCount
//@   ghost-at after call sync.(*Mutex).Lock #2 : ghost_posted := 0
//@   ghost-at send expiredCh #1 : ghost_posted := 1
//@   assert-at send expiredCh #1 : sent == runner && sent.refCount == 0 && held(sent.refMu) && sent.expireTimer == nil
//@   assert-at call sync.(*Mutex).Unlock #2 : ghost_rc1 > 0 ==> runner.refCount == ghost_rc1 - 1
//@   assert-at call sync.(*Mutex).Unlock #2 : runner.refCount == 0 ==> (ghost_posted == 1 || runner.expireTimer != nil)
//@   assert-at call sync.(*Mutex).Unlock #2 : (runner.refCount == 0 && runner.sessionDuration <= 0) ==> ghost_posted == 1
//@   assert-at call sync.(*Mutex).Unlock #2 : runner.refCount > 0 ==> ghost_posted == 0
// C02 (mechanism: unload: Close, delete from loaded, then post unloadedCh): every expiry that shuts
// a runner down posts exactly one unloaded event afterwards (the pending loop is parked on it), and
// an unloaded event is posted only after a shutdown. ghost_unl = events owed.
//@   ghost-at entry : ghost_unl := 0
//@   ghost-at after call unload : ghost_unl := ghost_unl + 1
//@   assert-at send unloadedCh : ghost_unl == 1
//@   ghost-at send unloadedCh : ghost_unl := ghost_unl - 1
//@   loop 1 invariant ghost_unl == 0
//@   loop 1 invariant !heldany(runnerRef.refMu)
// the runner that is unloaded is the expired one, and the entry removed is the one it is keyed by
//@   assert-at call unload : arg0 == runner && held(runner.refMu)
//@   assert-at call delete #1 : arg1 == runner.modelPath
// the put-off expiry is re-posted for the same runner
//@   assert-at call processCompleted$2 : arg0 == runner
// C11/C01 (the loaded map covers every live runner): the entry removed is the expired runner's OWN
// entry - a stale expiry of a runner that has already been removed must not remove the entry of a
// newer runner that was loaded under the same model path in the meantime.
//@   assert-at call delete #1 : has(s.loaded, runner.modelPath) ==> s.loaded[runner.modelPath] == runner
// C15 (the list of running models never reports a runner that has been torn down) / C02 (nothing is
// reported as loaded): when loadedMu is released after the shutdown, the runner that was shut down is
// no longer in the loaded map.
// (stated for every release after the shutdown - ghost_unl == 1 between unload and the unloaded event - instead of a numbered Unlock site)
//@   assert-at call sync.(*Mutex).Unlock : ghost_unl == 1 ==> runner.llama == nil && (!has(s.loaded, runner.modelPath) || s.loaded[runner.modelPath] != runner)

// C02: the caller of GetRunner is never blocked: the queue send sits in a select with
// default, and the busy error goes to a fresh channel of capacity 1.
//@ func (*Scheduler).GetRunner
//@   opt nonblocking on
// C02: the request that is queued carries the caller's context (the finisher waits on it), model and
// keep-alive and the two reply channels that are returned; the busy reply is ErrMaxQueue, sent at
// most once.
//@   ghost-at entry : ghost_busy := 0
//@   ghost-at send errCh : ghost_busy := ghost_busy + 1
//@   assert-at send errCh : sent == ErrMaxQueue
//@   assert-at send pendingReqCh : sent.ctx == c && sent.model == model && sent.sessionDuration == sessionDuration && sent.successCh != nil && sent.errCh != nil
//@   assert-at return : ghost_busy <= 1 && result.0 == req.successCh && result.1 == req.errCh
// C11 (processPending records the request's own context once, "origNumCtx == 0" meaning "not yet
// recorded"): a new request enters the queue with nothing recorded and with a context that is not 0,
// so the value recorded on its first scheduling attempt can never be mistaken for "not recorded".
//@   assert-at send pendingReqCh : sent.origNumCtx == 0 && sent.opts.NumCtx >= 4

// C11: a new runner is started only when no runner exists for that model (read under
// loadedMu in the same iteration; processPending is the only inserter).
//@ func (*Scheduler).processPending
//@   requires !heldany(runnerRef.refMu)     -- lock order (verif_contracts_lockorder.go): called with no runner lock held
//@   assert-at call loadFn : runner == nil
// C02 (every request gets its reply provided the requests ahead of it complete): before the
// pending loop parks on unloadedCh, the runner chosen for eviction is certain to produce an
// unloaded event without any further help: its keep-alive is cancelled (sessionDuration == 0,
// no timer pending), so the finished event of its last user expires it at once, and if it is
// already idle the expiry has been posted (added after seeded change C02-seed2).
//@   ghost-at after call sync.(*Mutex).Lock : ghost_posted := 0
//@   ghost-at send expiredCh : ghost_posted := 1
//@   assert-at call sync.(*Mutex).Unlock : (runnerToExpire != nil && arg0 == &runnerToExpire.refMu) ==> (runnerToExpire.sessionDuration == 0 && runnerToExpire.expireTimer == nil && (runnerToExpire.refCount == 0 ==> ghost_posted == 1))
// C02 (never none, never both, inside the pending loop): a request taken from the queue (and
// not already cancelled) leaves the placement loop only after exactly ONE of: an error reply, a
// hand-over to loadFn (which replies exactly once, see load), a successful useLoadedRunner
// (replies exactly once), or the requeue goroutine (puts it back on the queue). ghost_owed is
// the number of answers still owed: 1 at every head of the placement loop (a `continue` after an
// answer would answer twice), 0 at every head of the outer loop (a `break` without an answer
// would lose the request). Only the shutdown returns leave a request unanswered.
//@   ghost-at entry : ghost_owed := 0
//@   ghost-at after call envconfig.NumParallel : ghost_owed := 1
//@   ghost-at send errCh : ghost_owed := ghost_owed - 1
//@   ghost-at call loadFn : ghost_owed := ghost_owed - 1
//@   ghost-at after call useLoadedRunner : ghost_owed := ghost_owed - ite(result, 1, 0)
//@   ghost-at call processPending$1 : ghost_owed := ghost_owed - 1
//@   loop 1 invariant ghost_owed == 0
//@   loop 2 invariant ghost_owed == 1
//@   loop 3 invariant ghost_owed == 1
//@   loop 1 invariant !heldany(runnerRef.refMu)
//@   loop 2 invariant !heldany(runnerRef.refMu)
//@   loop 3 invariant !heldany(runnerRef.refMu)
// C02: the finished event of a reused runner goes to the scheduler's own finished queue.
//@   assert-at call useLoadedRunner : arg0 == pending && arg1 == runner && arg2 == s.finishedReqCh
// C11 (limit, one per model): the decision is taken on a snapshot read under loadedMu in THIS
// iteration: the runner looked up is the one for the request's model, the count is the map size.
//@   assert-at call sync.(*Mutex).Unlock #1 : (has(s.loaded, pending.model.ModelPath) ==> runner == s.loaded[pending.model.ModelPath]) && (!has(s.loaded, pending.model.ModelPath) ==> runner == nil)
//@   assert-at call sync.(*Mutex).Unlock #1 : loadedCount == len(s.loaded)
// C11 (limit): when a maximum is configured, a runner is started only while the number of loaded
// runners is below it (the two reads of the setting in the capacity test are recorded).
//@   ghost-at after call envconfig.MaxRunners #1 : ghost_m1 := result
//@   ghost-at after call envconfig.MaxRunners #2 : ghost_m2 := result
//@   assert-at call loadFn : ghost_m1 <= 0 || loadedCount < wrapint(ghost_m2)
// C11 (incompatible options: the runner of THAT model is replaced, nobody else's)
//@   assert-at call sync.(*Mutex).Lock #2 : runner != nil ==> runnerToExpire == runner
// C01 (eviction enqueues an expiry only for an idle victim, under its refMu)
//@   assert-at send expiredCh : sent == runnerToExpire && sent.refCount == 0 && held(sent.refMu)
// C11 ("a request ... is served by a runner started with ITS options"; a compatible request reuses
// the runner): every context the placement tries is origNumCtx * p (pickBestFullFitByLibrary, and the
// CPU path below), and needsReload divides the loaded context by the parallelism again - so
// origNumCtx has to be THE REQUEST'S context, whatever the number of scheduling attempts: it is
// recorded once, from the context the request arrived with, and a request that comes back from the
// queue (requeue goroutine) keeps the value recorded the first time, even though its opts.NumCtx has
// been scaled by an earlier attempt in the meantime. ghost_o0 / ghost_n0 = origNumCtx / opts.NumCtx
// of the request as it is taken off the queue (schedAttempts++ is the first thing done with it).
// (added after seeded change C11-seed4, which re-recorded it on every attempt)
//@   ghost-at store schedAttempts : ghost_o0 := pending.origNumCtx
//@   ghost-at store schedAttempts : ghost_n0 := pending.opts.NumCtx
//@   assert-at store origNumCtx : ghost_o0 == 0 && stored == ghost_n0
//@   assert-at call Err #1 : pending.origNumCtx == ite(ghost_o0 != 0, ghost_o0, ghost_n0) && pending.opts.NumCtx == ghost_n0
// the CPU path scales the request's context by the parallelism it loads with (site names match by
// suffix: #1 is the store to origNumCtx above, #2 the store to opts.NumCtx)
//@   assert-at store NumCtx #2 : stored == wrapint(pending.origNumCtx * numParallel)
// ... so that the runner is started (loadFn) with the request's context scaled by the parallelism
// it is started with: on the CPU path for the first model (sched.go:217), when the model fits next
// to the loaded ones (:255, by the postcondition of pickBestFullFitByLibrary), and for the first
// model when a full fit was found (:237). (Call ordinals follow the SSA block order.)
//@   assert-at call loadFn #2 : pending.opts.NumCtx == wrapint(pending.origNumCtx * arg3)
//@   assert-at call loadFn #3 : pending.opts.NumCtx == wrapint(pending.origNumCtx * arg3)
//@   assert-at call loadFn #4 : g != nil ==> pending.opts.NumCtx == wrapint(pending.origNumCtx * arg3)
// (coverage extension) one of the two remaining loadFn calls: the first model with the partial-fit
// fallback when no parallelism has been settled by then (pickBestPartialFitByLibrary settles on 1 and
// restores the request's own context, postcondition).
//@   ghost-at call pickBestPartialFitByLibrary : ghost_np0 := numParallel
//@   assert-at call loadFn #4 : (g == nil && ghost_np0 <= 0) ==> (arg3 == 1 && pending.opts.NumCtx == pending.origNumCtx)
// C11 (making room evicts an idle runner when one exists): the victim of the CPU path is the one the helper chose
//@   assert-at call maybeFindCPURunnerToUnload : arg1 == pending && arg3 == gpus

// C02: exactly one reply on this path too.
//@ func (*Scheduler).processCompleted$1
// (keep-alive timer callback) C02 drain: posts exactly one expiry of its runner, under refMu,
// with the timer reference cleared.
//@   ghost-at entry : ghost_exp := 0
//@   ghost-at send expiredCh : ghost_exp := ghost_exp + 1
//@   assert-at send expiredCh : sent == runner && held(runner.refMu) && runner.expireTimer == nil
//@   assert-at return : ghost_exp == 1

// C02: the helper goroutines do the one thing the counting above relies on.
// retry goroutine of a put-off expiry: re-posts that runner's expiry exactly once
//@ func (*Scheduler).processCompleted$2
//@   ghost-at entry : ghost_exp := 0
//@   ghost-at send expiredCh : ghost_exp := ghost_exp + 1
//@   assert-at send expiredCh : sent == runner
//@   assert-at return : ghost_exp == 1
// requeue goroutine: puts THE pending request back on the queue exactly once
//@ func (*Scheduler).processPending$1
//@   ghost-at entry : ghost_q := 0
//@   ghost-at send pendingReqCh : ghost_q := ghost_q + 1
//@   assert-at send pendingReqCh : sent == pending
//@   assert-at return : ghost_q == 1
// finisher goroutines: post exactly one finished event, for their own request
//@ func (*Scheduler).load$1$1
//@   ghost-at entry : ghost_f := 0
//@   ghost-at send finishedReqCh : ghost_f := ghost_f + 1
//@   assert-at send finishedReqCh : sent == req
//@   assert-at return : ghost_f == 1
// C01 (the reference lives as long as the request): the finished event, which gives the reference
// back, is posted only after the Done channel of THE REQUEST'S OWN context has been asked for (the
// receive on it follows immediately) - not some other context's, and not unconditionally.
//@   ghost-at entry : ghost_waited := 0
//@   assert-at call Done : recv == req.ctx
//@   ghost-at after call Done : ghost_waited := 1
//@   assert-at send finishedReqCh : ghost_waited == 1
//@ func (*LlmRequest).useLoadedRunner$1
//@   ghost-at entry : ghost_f := 0
//@   ghost-at send : ghost_f := ghost_f + 1      -- (the channel is a captured parameter, not a field: any send)
//@   assert-at send : sent == pending
//@   assert-at return : ghost_f == 1
// C01: as in load$1$1 - the reference is given back only once the request's own context is done.
//@   ghost-at entry : ghost_waited := 0
//@   assert-at call Done : recv == pending.ctx
//@   ghost-at after call Done : ghost_waited := 1
//@   assert-at send : ghost_waited == 1

//@ func (*Scheduler).expireRunner
//@   requires !heldany(runnerRef.refMu)     -- lock order (verif_contracts_lockorder.go): called with no runner lock held
//@   assert-at send expiredCh : sent.refCount == 0 && held(sent.refMu)
// C01/C02 (mechanism: explicit unload only enqueues an expiry when refCount<=0, otherwise zeroes the
// keep-alive and waits for the finish event): when refMu is released the keep-alive is cancelled
// (so the finished event of the last user expires the runner at once) and an idle runner's expiry
// has been posted; the runner is the one loaded for that model.
//@   ghost-at entry : ghost_posted := 0
//@   ghost-at send expiredCh : ghost_posted := 1
//@   assert-at send expiredCh : sent == runner
//@   assert-at call sync.(*Mutex).Unlock! : runner.sessionDuration == 0 && runner.expireTimer == nil && (runner.refCount == 0 ==> ghost_posted == 1)
//@   assert-at call sync.(*Mutex).Lock #2 : runner == s.loaded[model.ModelPath]

//@ func (*Scheduler).findRunnerToUnload
//@   requires !heldany(runnerRef.refMu)     -- lock order (verif_contracts_lockorder.go): called with no runner lock held
// C11 (making room evicts an idle runner when one exists; victims ordered by keep-alive then name):
// the candidates are sorted before the choice; a runner returned from the idle scan was read as
// idle (refCount == 0 under its refMu); the fallback (first of the sorted list) is taken only after
// EVERY candidate has been read and found busy; nil only when nothing is loaded.
//@   ghost-at entry : ghost_sorted := 0
//@   ghost-at call sort.Sort : ghost_sorted := 1
//@   ghost-at entry : ghost_n := 0
//@   ghost-at after call sync.(*Mutex).Lock #2 : ghost_n := ghost_n + 1
//@   loop 2 invariant ghost_n == rangeindex + 1
//@   assert-at return #1 : len(runnerList) == 0
//@   assert-at return #2 : rc == 0 && result == runner && ghost_sorted == 1
//@   assert-at return #3 : ghost_n == len(runnerList) && ghost_sorted == 1 && len(runnerList) > 0 && result == runnerList[0]
//@ func (*Scheduler).unloadAllRunners
//@   requires !heldany(runnerRef.refMu)     -- lock order (verif_contracts_lockorder.go): called with no runner lock held
// C01 (shut down only ...) / C02 (every runner that was started is shut down): at shutdown a server is
// closed only through the loaded map, with loadedMu held (so not concurrently with unload, which needs
// loadedMu too), and EVERY loaded runner that has a server is closed before loadedMu is released.
//@   assert-at call Close : recv == runner.llama && runner.llama != nil && held(s.loadedMu)
//@   ghost-at after call Close : runner.ghost_shut := 1
//@   loop 1 invariant forall k string :: visited(k) ==> (s.loaded[k] == nil || s.loaded[k].llama == nil || s.loaded[k].ghost_shut == 1)
//@   loop 1 invariant forall k string :: has(s.loaded, k) ==> rangehad(k)
//@   assert-at call sync.(*Mutex).Unlock~ : forall k string :: has(s.loaded, k) ==> (s.loaded[k] == nil || s.loaded[k].llama == nil || s.loaded[k].ghost_shut == 1)
// C11 (placement: a new runner is started only where it fits in the memory the loaded models
// leave free): the memory left free is computed from EVERY loaded runner. r.ghost_acct records
// that r's per-GPU prediction was asked for and added; after the loop every loaded runner
// that has a server (llama != nil) has been accounted for, unless there are no GPUs.
// (added after seeded change C11-seed2, which skipped runners whose lock was busy)
//@ func (*Scheduler).updateFreeSpace
//@   requires !heldany(runnerRef.refMu)     -- lock order (verif_contracts_lockorder.go): called with no runner lock held
//@   ghost-at after call EstimatedVRAMByGPU : r.ghost_acct := 1
//@   loop 1 invariant forall k string :: visited(k) ==> (s.loaded[k] == nil || s.loaded[k].llama == nil || len(allGpus) == 0 || s.loaded[k].ghost_acct == 1)
//@   loop 1 invariant forall k string :: has(s.loaded, k) ==> rangehad(k)
//@   loop 2 invariant rangeindex >= 0 ==> r.ghost_acct == 1
//@   loop 2 invariant forall k string :: visited(k) && k != rangekey ==> (s.loaded[k] == nil || s.loaded[k].llama == nil || len(allGpus) == 0 || s.loaded[k].ghost_acct == 1)
//@   assert-at call sync.(*Mutex).Unlock : arg0 == &s.loadedMu ==> (forall k string :: has(s.loaded, k) ==> (s.loaded[k] == nil || s.loaded[k].llama == nil || len(allGpus) == 0 || s.loaded[k].ghost_acct == 1))
// C11 (placement in the memory the loaded models leave free): the free memory of a GPU is only
// ever LOWERED by the prediction (to total - predicted, or 0 when the prediction exceeds the total).
//@   assert-at store FreeMemory : stored <= allGpus[i].FreeMemory && (stored == 0 || stored == allGpus[i].TotalMemory - p)
//@ func (*Scheduler).filterGPUsWithoutLoadingModels
//@   requires !heldany(runnerRef.refMu)     -- lock order (verif_contracts_lockorder.go): called with no runner lock held
// C11 (avoid GPUs with loads in flight): a GPU is dropped from the result only because a runner that
// is still loading was placed on it.
//@   assert-at call append #2 : runner.loading && ret[i].ID == busyGPU.ID
//@ func (*runnerRef).needsReload
//@   assert-at after call sync.(*Mutex).Lock : runner.numParallel >= 1      -- (was an assume-at at entry) now proved: conjunct of the lock invariant of refMu, established by load (max(1, n)) before the runner is published and kept at every release
// C11 (reload when options/adapters/projectors differ or the runner does not answer a ping; reuse
// when compatible): the runner is reported reusable (false) only when all three comparisons said
// "equal" AND the ping succeeded - each recorded from the call that made it; a runner that has
// been shut down (Options == nil) always needs a reload. The comparison of the options is made on
// the loaded context divided by the runner's parallelism against the request's context.
//@   ghost-at entry : ghost_eq1 := 0
//@   ghost-at entry : ghost_eq2 := 0
//@   ghost-at entry : ghost_eq3 := 0
//@   ghost-at entry : ghost_ping := 0
//@   ghost-at after call reflect.DeepEqual #1 : ghost_eq1 := ite(result, 1, 0)
//@   ghost-at after call reflect.DeepEqual #2 : ghost_eq2 := ite(result, 1, 0)
//@   ghost-at after call reflect.DeepEqual #3 : ghost_eq3 := ite(result, 1, 0)
//@   ghost-at after call Ping : ghost_ping := ite(result == nil, 1, 0)
//@   assert-at return : !result ==> (ghost_eq1 == 1 && ghost_eq2 == 1 && ghost_eq3 == 1 && ghost_ping == 1)
//@   assert-at return : result ==> (runner.Options == nil || ghost_eq1 == 0 || ghost_eq2 == 0 || ghost_eq3 == 0 || ghost_ping == 0)
//@   assert-at call Ping : recv == runner.llama && held(runner.refMu)
// C15 (no request makes the server panic - needsReload runs in the scheduler's own goroutine, outside
// gin's Recovery): the model and the server of the runner are dereferenced only when they are there
// (a runner found in the loaded map may have been torn down before refMu was obtained).
//@   assert-at call reflect.DeepEqual #1 : runner.model != nil
//@   assert-at call reflect.DeepEqual #2 : runner.model != nil
//@   assert-at call Ping : runner.llama != nil
//@   assert-at call reflect.DeepEqual #3 : optsExisting.NumCtx == runner.Options.Runner.NumCtx / runner.numParallel && optsNew.NumCtx == req.opts.Runner.NumCtx

// C11 ("a request ... is served by a runner started with its options", and a compatible request
// reuses it): whatever parallelism p the placement settles on, the fit is predicted and the runner
// is started with the request's context scaled by THAT p (needsReload later divides the loaded
// NumCtx by numParallel to compare it with a new request's). Added after seeded change C11-seed3.
//@ func pickBestFullFitByLibrary
//@   opt safe panic
// (1) every assignment of the context stores origNumCtx * p for the p being tried;
// (2) every fit prediction runs with the context stored for the SAME p it is asked about;
// (3) the parallelism reported back is the p of the successful prediction.
//@   assert-at store NumCtx : stored == wrapint(req.origNumCtx * p)
//@   ghost-at store NumCtx : ghost_ctx := stored
//@   ghost-at store NumCtx : ghost_p := p
//@   assert-at call PredictServerFit : req.opts.NumCtx == ghost_ctx && arg5 == ghost_p && arg5 == p
//@   ghost-at call PredictServerFit : ghost_pp := p
//@   assert-at store numParallel : stored == ghost_pp
//@   loop 3 invariant req.opts.NumCtx == ghost_ctx
//@   loop 3 invariant ghost_p == p
// (4) a placement is reported only when the prediction for it said "fits"; otherwise nil.
//@   assert-at return #1 : ok && len(result) == 1 && result[0].ID == g.ID
//@   assert-at return #2 : ok && len(result) == len(sgl)
//@   assert-at call PredictServerFit #1 : len(arg0) == 1 && arg0[0].ID == g.ID
//@   assert-at call PredictServerFit #2 : len(arg0) == len(sgl)
// (5) the request's own context (origNumCtx, recorded once by processPending) is only read here, and
// when a placement is reported the request is left with exactly that context scaled by the
// parallelism reported back - these are the options the runner is then started with (load).
// (added after seeded change C11-seed4)
//@   ensures req.origNumCtx == old(req.origNumCtx)
//@   assume-at after call sort.Sort : req.origNumCtx == old(req.origNumCtx)      -- library fact: sort.Sort over the fresh copy of the GPU list (discover.ByFreeMemory: Len/Less/Swap on GpuInfo elements) does not touch the request
//@   loop 1 invariant req.origNumCtx == old(req.origNumCtx)
//@   loop 2 invariant req.origNumCtx == old(req.origNumCtx)
//@   loop 3 invariant req.origNumCtx == old(req.origNumCtx)
//@   loop 4 invariant req.origNumCtx == old(req.origNumCtx)
//@   ensures result != nil ==> req.opts.NumCtx == wrapint(req.origNumCtx * (*numParallel))
// (coverage extension) the parallelism is written only together with a reported placement: no store to
// *numParallel has been executed when nil is reported
//@   ghost-at entry : ghost_w := 0
//@   ghost-at store numParallel : ghost_w := 1
//@   loop 1 invariant ghost_w == 0
//@   loop 2 invariant ghost_w == 0
//@   loop 3 invariant ghost_w == 0
//@   loop 4 invariant ghost_w == 0
//@   assert-at return #3 : ghost_w == 0

// C15 (no request makes the server panic; the list of running models never reports a torn-down
// runner): under loadedMu every entry of the loaded map is a runner that has not been torn down
// (lock invariant above), so the dereferences of v.model in PsHandler cannot fail.
//@ func (*Server).PsHandler
//@   requires !heldany(runnerRef.refMu)     -- lock order (verif_contracts_lockorder.go): called with no runner lock held
//@   requires s != nil && s.sched != nil       -- assumption (the handler is called by gin): Serve creates the scheduler before the routes are served
//@   opt safe+ nil

