//go:build verif

// Contracts for package server, property C13 (store confinement of model names and blob digests),
// checked by /verif/govc. Comment-only.
// Other properties (C04/C12) build on the names declared here: sreplaceall, strid, envconfig.Models,
// the GetBlobsPath contract. Spec functions validpart, fqname, fpjoin3/4, hexdig, digestshape,
// blobfile and the trusted library contracts for path/filepath.Join, strings.Cut, strings.Split
// come from /verif/contracts/types/model/verif_contracts.go: a property that verifies or calls the
// functions below must load ./types/model or list "types/model" under "contract_packages".
package server

// ==== C13 (server/modelpath.go, server/manifest.go, server/images.go): store confinement ====

// (hexdig, digestshape, blobfile: spec functions in types/model/verif_contracts.go)
//@ spec func strid(s string) int
//@ spec func sreplaceall(s string, from string, to string) string

//@ lemma blobfile_no_separators(s string, j int)
//@   requires blobfile(s) && 0 <= j && j < len(s)
//@   ensures s[j] != 47 && s[j] != 92 && s[j] != 0 && s[j] != 46 && s[j] != 58

// regexp: the compiled object remembers its pattern (ghost); what MatchString decides is
// stated only for the one pattern the property names. Trusted.
//@ extern func regexp.MustCompile
//@   modifies nothing
//@   ensures result != nil && result.ghost_pat == strid(str)
//@ extern func regexp.(*Regexp).MatchString
//@   modifies nothing
//@   ensures this.ghost_pat == strid("^sha256[:-][0-9a-fA-F]{64}$") ==> (result <==> digestshape(s))

// arg1 = old, arg2 = new (`old` is a keyword of the contract language)
//@ extern func strings.ReplaceAll
//@   pure
//@   ensures result == sreplaceall(s, arg1, arg2)
//@   ensures len(arg1) == 1 && len(arg2) == 1 ==> len(result) == len(s)
//@   ensures len(arg1) == 1 && len(arg2) == 1 ==> forall j int :: 0 <= j && j < len(s) ==> result[j] == ite(s[j] == arg1[0], arg2[0], s[j])

// The models directory is fixed for the duration of a call (environment not changed concurrently).
//@ extern func envconfig.Models
//@   pure reads none

// A digest is either refused or names blobs/sha256-<64 hex> directly below the models
// directory; the only rewrite of an accepted digest is ':' -> '-'.
//@ func GetBlobsPath
//@   requires ErrInvalidDigestFormat != nil   -- errors.New value, assigned once at package init
//@   assert-at call MustCompile #1 : arg0 == "^sha256[:-][0-9a-fA-F]{64}$"
//@   ensures result.1 == nil ==> digest == "" || digestshape(digest)
//@   ensures result.1 == nil ==> result.0 == fpjoin3(envconfig.Models(), "blobs", sreplaceall(digest, ":", "-"))
//@   ensures result.1 == nil && digest != "" ==> blobfile(sreplaceall(digest, ":", "-"))
//@   ensures result.1 == nil && digest != "" ==> forall j int :: 0 <= j && j < 71 ==> sreplaceall(digest, ":", "-")[j] == ite(j == 6, 45, digest[j])
//@   ensures result.1 != nil ==> result.0 == ""
// (audit) the only directory GetBlobsPath creates is the blobs directory itself: the joined path when
// no digest is given, its parent otherwise - never a path that still contains the caller's string.
//@   assert-at call os.MkdirAll #1 : arg0 == ite(digest == "", path, fpdir(path)) && path == fpjoin3(envconfig.Models(), "blobs", digest)

// A model path is either refused or names manifests/<host>/<namespace>/<model>/<tag> with
// four parts accepted by the validator (validpart_no_separators: no '/', '\', NUL, not dot-first).
// The first two clauses are stated over the returned path, the next two over the error. At the
// refusing return the error is the library sentinel io/fs.ErrNotExist; govc cannot yet state that
// an external package variable is non-nil (spec `fs.ErrNotExist` and the load in the code are
// different terms), so the two error-based obligations at that return are listed as undecided.
//@ func (ModelPath).GetManifestPath
//@   ensures result.0 != "" ==> fqname(mp.Registry, mp.Namespace, mp.Repository, mp.Tag)
//@   ensures result.0 != "" ==> result.0 == fpjoin3(envconfig.Models(), "manifests", fpjoin4(mp.Registry, mp.Namespace, mp.Repository, mp.Tag))
//@   ensures result.1 == nil ==> fqname(mp.Registry, mp.Namespace, mp.Repository, mp.Tag)
//@   ensures result.1 == nil ==> result.0 == fpjoin3(envconfig.Models(), "manifests", fpjoin4(mp.Registry, mp.Namespace, mp.Repository, mp.Tag))
//@   ensures !fqname(mp.Registry, mp.Namespace, mp.Repository, mp.Tag) ==> result.0 == ""

// Callers of Filepath in this package: CopyModel and ParseNamedManifest test IsFullyQualified first
// (obligations pre@types/model.(Name).Filepath); WriteManifest does not and relies on its callers.
//@ func WriteManifest
//@   requires fqname(name.Host, name.Namespace, name.Model, name.Tag)
// -- C13 strengthening (audit): the file that is created IS the manifest file of the validated name:
// <models>/manifests joined with the four parts - not a path built from the printed name, from
// some of the parts, or from another name. (pre@Filepath alone only says that Filepath does not
// panic; it does not say that Filepath's result is what reaches the file system.)
//@   assert-at call os.MkdirAll #1 : arg0 == fpdir(manifestfile(name.Host, name.Namespace, name.Model, name.Tag))
//@   assert-at call os.Create #1 : arg0 == manifestfile(name.Host, name.Namespace, name.Model, name.Tag)
// -- for C04/C12 (requested by their audit; WriteManifest's contract block lives here): the manifest
// is encoded only into a successfully created file, nil means created and fully encoded, and what
// is encoded is the given config and layers.
//@   ghost-at entry : ghost_wmc := 0
//@   ghost-at entry : ghost_wme := 0
//@   ghost-at after call os.Create #1 : ghost_wmc := ite(result.1 == nil, 1, 0)
//@   ghost-at after call Encode #1 : ghost_wme := ite(result == nil, 1, 0)
//@   assert-at call Encode #1 : ghost_wmc == 1
//@   assert-at call Encode #1 : m.Config == config && m.Layers == layers
//@   assert-at return : result == nil ==> ghost_wmc == 1 && ghost_wme == 1

// The manifests directory is <models>/manifests.
//@ spec func fpdir(p string) string
//@ extern func path/filepath.Dir
//@   pure
//@   ensures result == fpdir(path)
//@ spec func manifestfile(h string, n string, m string, t string) string = fpjoin2(fpjoin2(envconfig.Models(), "manifests"), fpjoin4(h, n, m, t))
//@ func GetManifestPath
//@   ensures result.1 == nil ==> result.0 == fpjoin2(envconfig.Models(), "manifests")
//@   ensures result.1 != nil ==> result.0 == ""

// ParseNamedManifest: refuses names that are not fully qualified; the file it opens, and the path
// it records in the Manifest (Manifest.Remove later deletes exactly m.filepath), is the manifest
// file of the validated name.
//@ func ParseNamedManifest
//@   assert-at call os.Open #1 : arg0 == manifestfile(n.Host, n.Namespace, n.Model, n.Tag)
//@   ensures result.1 == nil ==> fqname(n.Host, n.Namespace, n.Model, n.Tag)
//@   ensures result.1 == nil ==> result.0 != nil && result.0.filepath == manifestfile(n.Host, n.Namespace, n.Model, n.Tag)
// -- for C04 (requested by its extension; the block lives here): a manifest is answered only after its
// JSON was decoded without error (a swallowed decode error yields an empty layer list, and the
// scan-then-remove of Layer.Remove / deleteUnusedLayers then deletes blobs in use); it is read from
// the opened file; an error comes without a manifest; the function neither removes nor creates files.
//@   ghost-at entry : ghost_pdec := 0
//@   ghost-at after call Decode #1 : ghost_pdec := ite(result == nil, 1, 0)
//@   assert-at call io.TeeReader #1 : tagis(arg0, "*os.File")
//@   ensures result.1 == nil ==> ghost_pdec == 1 && fresh(result.0)
//@   ensures result.1 != nil ==> result.0 == nil
//@   assert-at call os.Remove : false
//@   assert-at call os.Create : false
//@   assert-at call os.OpenFile : false

// ==== end C13 ====
