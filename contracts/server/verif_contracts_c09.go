//go:build verif

// Contracts for package server, property C09 (default push path: server/images.go PushModel,
// server/upload.go uploadBlob / blobUpload.Wait), checked by /verif/govc. Comment-only.
package server

// (makeRequestWithRetry: contract in verif_contracts_c03.go - success means status < 400;
//  sync.(*Map).LoadOrStore / Delete, log/slog.*, fmt.Sprintf, errors.Is: trusted frames in
//  verif_contracts_c03.go / _c04.go)

// slog.AnyValue: used in specifications only, as an uninterpreted function of a value boxed into `any`
// (see the note in server/internal/client/ollama/verif_contracts.go)
//@ extern func log/slog.AnyValue
//@   pure reads none
//@ extern func ParseModelPath
//@   modifies nothing
//@ extern func GetManifest
//@   modifies nothing
//@   ensures result.2 == nil ==> result.0 != nil
//@ extern func (ModelPath).BaseURL
//@   modifies nothing
//@   ensures result != nil && fresh(result)
//@ extern func (ModelPath).GetNamespaceRepository
//@   modifies nothing
//@ extern func net/url.(*URL).JoinPath
//@   modifies nothing
//@   ensures result != nil && fresh(result)
//@ extern func encoding/json.Marshal
//@   modifies nothing
//@ extern func bytes.NewReader
//@   modifies nothing
//@   ensures result != nil

// ---- PushModel: every layer of the manifest (and the config layer) is handed to uploadBlob,
// ---- in order; the manifest PUT is issued only after the loop completed, i.e. after every
// ---- uploadBlob call returned nil; the body of the PUT is the JSON of the manifest that was
// ---- read at the start. The progress callback fn is an unknown function (everything on the
// ---- heap is havocked at each call), so the facts are carried by ghost variables.
//@ func PushModel
//@   ghost-at entry : ghost_up := 0
//@   ghost-at entry : ghost_fail := 0
//@   ghost-at entry : ghost_nl := -1
//@   ghost-at entry : ghost_put := 0
// layers starts as a copy of manifest.Layers (append #1 = append(layers, manifest.Layers...))
// (operands of the builtin append cannot be named in assert-at; ghost_nl records the number of
// manifest layers at the copy, the loop invariant keeps len(layers) >= ghost_nl)
//@   ghost-at call append #1 : ghost_nl := len(manifest.Layers)
//@   assume-at return #1 : errInsecureProtocol != nil     -- package-level errors.New value, never reassigned
// digests in a manifest of the local store have the form sha256:<64 hex> (GetBlobsPath's
// regexp gates every blob written by PullModel / createModel); uploadBlob slices [7:19]
//@   assume-at call uploadBlob #1 : len(arg2.Digest) >= 19
//@   ghost-at after call uploadBlob #1 : ghost_up := ghost_up + ite(result == nil, 1, 0)
//@   ghost-at after call uploadBlob #1 : ghost_fail := ghost_fail + ite(result == nil, 0, 1)
//@   loop 1 invariant ghost_up == rangeindex + 1 && ghost_fail == 0 && ghost_put == 0 && len(layers) >= ghost_nl && ghost_nl >= 0
//@   assert-at call uploadBlob #1 : ghost_put == 0
//@   assert-at call uploadBlob #1 : arg2 == layers[rangeindex + 1]      -- (in the body rangeindex still is the previous index)
//@   assert-at call makeRequestWithRetry #1 : ghost_up == len(layers) && ghost_fail == 0 && len(layers) >= ghost_nl && ghost_nl >= 0
//@   assert-at call makeRequestWithRetry #1 : arg1 == "PUT" && arg2 == requestURL
//@   assert-at call bytes.NewReader #1 : arg0 == manifestJSON
//@   ghost-at call makeRequestWithRetry #1 : ghost_put := 1
// "success" is reported only after the PUT was accepted
//@   ensures result == nil ==> ghost_put == 1 && ghost_fail == 0
// the config layer belongs to the blobs that must be accepted before the manifest: when the
// manifest names one, it is appended to the list the loop walks (ghost_needcfg is recorded before
// the first progress callback can touch the manifest); the list starts with the manifest's layers
//@   ghost-at entry : ghost_needcfg := 0
//@   ghost-at call append #1 : ghost_needcfg := ite(len(manifest.Config.Digest) > 0, 1, 0)
//@   loop 1 invariant ghost_needcfg >= 0 && len(layers) >= ghost_nl + ghost_needcfg
//@   assert-at call makeRequestWithRetry #1 : ghost_up >= ghost_nl + ghost_needcfg
// (extension) the manifest that is pushed is the stored manifest of the model path parsed from the requested name
//@   assert-at call GetManifest #1 : arg0 == mp

// ---- uploadBlob: nil means the registry already has the blob (HEAD answered < 400) or the
// ---- shared blobUpload finished without error (Wait)
// Prepare: on success either the blob was mounted (201: done) or the upload session is open:
// parts are laid out and the channel that hands the next upload URL to Run exists.
//@ extern func net/url.(*URL).Query
//@   modifies nothing
//@ extern func net/url.(Values).Add
//@   modifies nothing
//@ extern func net/url.(Values).Encode
//@   modifies nothing
//@ extern func net/url.Parse
//@   modifies nothing
//@   ensures result.1 == nil ==> result.0 != nil
//@ extern func os.Stat
//@   modifies nothing
//@   ensures result.1 == nil ==> result.0 != nil
//@ extern func io/fs.(FileInfo).Size
//@   pure reads none
//@   ensures result >= 0
//@ extern func format.HumanBytes
//@   modifies nothing
//@ extern func sync/atomic.(*Int64).Store
//@   modifies nothing
//@ func (*blobUpload).Prepare
//@   requires len(b.Digest) >= 19
//@   assume-at call GetBlobsPath #1 : ErrInvalidDigestFormat != nil   -- package-level errors.New value, assigned once at package init
//@   ensures result == nil ==> b.done || b.nextURL != nil
//@   modifies b.Total, b.Parts, b.nextURL, b.done, requestURL.RawQuery, requestURL.Scheme, opts.Token
// `done` without an upload is claimed only for the registry's "mounted" answer (201 Created) to the
// POST that opened the session
//@   assert-at store done #1 : stored ==> resp.StatusCode == 201
//@   assert-at call makeRequestWithRetry #1 : arg1 == "POST" && arg2 == requestURL
//@   ensures result == nil && b.done && !old(b.done) ==> ghost_mounted == 1
//@   ghost-at entry : ghost_mounted := 0
//@   ghost-at store done #1 : ghost_mounted := ite(resp.StatusCode == 201, 1, 0)
// blobUpload.Wait: nil is returned only from the `b.done || b.err != nil` exit with b.err == nil,
// i.e. when Run (or Prepare, for a mounted blob) set done without an error
// ((*blobUpload).acquire / release: contracts with verified bodies at the end of this file)
//@ extern func time.NewTicker
//@   modifies nothing
//@   ensures result != nil
//@ extern func context.(Context).Err
//@   modifies nothing
//@ extern func context.(Context).Done
//@   modifies nothing
//@ func (*blobUpload).Wait
//@   requires len(b.Digest) >= 19
//@   assume-at call (Context).Done #1 : len(b.Digest) >= 19     -- b.Digest is set once when the blobUpload is created; the progress callback fn (unknown function: everything havocked) does not write it
// returns in block order: #1 `return b.err` (upload.go:337)   #2 `return ctx.Err()` (326)
//@   assert-at return #1 : (b.done || b.err != nil) && result == b.err
//@ func uploadBlob
//@   requires len(layer.Digest) >= 19
//@   assume-at call (*blobUpload).Wait #1 : len(upload.Digest) >= 19    -- entries of blobUploadManager are stored under their own digest (upload.Digest == layer.Digest)
//@   assume-at after call errors.Is #1 : err == nil ==> !result      -- library fact: errors.Is(nil, target) == false for a non-nil target
//@   assume-at after call LoadOrStore #1 : tagis(result.0, "*blobUpload")     -- only *blobUpload values are ever stored in blobUploadManager
//@   ghost-at entry : ghost_head := 0
//@   ghost-at after call makeRequestWithRetry #1 : ghost_head := ite(result.1 == nil, 1, 0)
//@   assert-at call makeRequestWithRetry #1 : arg1 == "HEAD"
// returns in the engine's (block) order: #1 Prepare failed (upload.go:395)  #2 Wait (402)
// #3 HEAD failed other than not-found (375)  #4 `return nil`: blob already there (385)
//@   assert-at return #4 : ghost_head == 1
//@   assert-at return #3 : err != nil
//@   ensures result == nil ==> ghost_head == 1 || ghost_waited == 1
//@   ghost-at entry : ghost_waited := 0
//@   ghost-at after call (*blobUpload).Wait #1 : ghost_waited := ite(result == nil, 1, 0)
//@   assert-at call LoadOrStore #1 : ghost_head == 0
//@   assert-at call (*blobUpload).Wait #1 : arg0 == upload
// the presence test asks for THIS layer's digest (last path element of the HEAD URL); the shared
// upload is looked up under this layer's digest, and an upload created here is one for this layer:
// it is the object that is prepared, run and waited for
//@   assert-at call JoinPath #1 : len(arg1) == 4 && arg1[2] == "blobs" && arg1[3] == layer.Digest
//@   assert-at call makeRequestWithRetry #1 : arg2 == requestURL
//@   assert-at call LoadOrStore #1 : slog.AnyValue(arg1) == slog.AnyValue(layer.Digest)
//@   assert-at call (*blobUpload).Prepare #1 : arg0 == upload && upload.Digest == layer.Digest
//@   assert-at call (*blobUpload).Wait #1 : !ok ==> upload.Digest == layer.Digest
// (C15) as in downloadBlob: Wait's deferred release() calls b.CancelFunc when the last waiter leaves,
// possibly before the goroutine started by `go upload.Run` was scheduled
//@   assert-at call (*blobUpload).Wait #1 : !ok ==> upload.CancelFunc != nil
//@   assert-at call (*blobUpload).Wait #1 : ok ==> upload.CancelFunc != nil

// ---- blobUpload.Run: b.done is set only on the path where g.Wait() returned nil (all parts
// ---- uploaded) and after the commit PUT loop; b.err then is the error of the last commit attempt
//@ extern func golang.org/x/sync/errgroup.WithContext
//@   modifies nothing
//@   ensures result.0 != nil
//@ func (*blobUpload).Run
//@   requires len(b.Digest) >= 19
// Run receives the commit URL from b.nextURL even when there are no parts: a nil channel
// blocks forever (and the deferred blobUploadManager.Delete never runs). A mounted blob
// (b.done, no session) returns at once since fix fbe3f510e.
//@   requires b.done || b.nextURL != nil
//@   assume-at call GetBlobsPath #1 : ErrInvalidDigestFormat != nil   -- package-level errors.New value, assigned once at package init
//@   ghost-at entry : ghost_waited := 0
//@   ghost-at after call errgroup.(*Group).Wait #1 : ghost_waited := ite(result == nil, 1, 0)
//@   assert-at call makeRequestWithRetry #1 : ghost_waited == 1 && arg1 == "PUT"
// What Wait reports as success is `b.done && b.err == nil` (Wait: result == b.err, reached only
// with b.done || b.err != nil). So on EVERY exit of Run that leaves this state behind, either
// the blob was already done on entry (mounted by Prepare: no session to commit) or every part
// was uploaded (g.Wait() == nil) AND the registry accepted the LAST commit PUT that was issued
// (makeRequestWithRetry returned a nil error, i.e. status < 400 by its C03 contract).
// ghost_commit is overwritten by every attempt: it always describes the most recent one, so a
// stale/shadowed/reset error value, a `done` set on a failure path, or a commit loop left after
// a rejected attempt (retries exhausted, cancellation) with b.err == nil all violate the clause.
//@   ghost-at entry : ghost_commit := 0
//@   ghost-at entry : ghost_tries := 0
//@   ghost-at after call makeRequestWithRetry #1 : ghost_commit := ite(result.1 == nil, 1, 0)
//@   ghost-at after call makeRequestWithRetry #1 : ghost_tries := ghost_tries + 1
//@   ensures b.done && b.err == nil ==> old(b.done) || (ghost_waited == 1 && ghost_commit == 1 && ghost_tries >= 1)
// an accepted commit is the last one: the loop is never continued after success (at the head of
// the commit loop no earlier attempt was accepted)
//@   loop 3 invariant ghost_commit == 0 && ghost_waited == 1 && ghost_tries >= 0
// the commit request names this blob's digest and goes to the URL that carries it
//@   assert-at call (Values).Add #1 : arg1 == "digest" && arg2 == b.Digest
//@   assert-at call makeRequestWithRetry #1 : arg2 == requestURL
// the goroutine started in iteration i uploads part i
//@   assert-at call errgroup.(*Group).Go #1 : part == &b.Parts[i]
// what the part goroutine (Run$1) requires for uploadPart's log line: proved here at the spawn point
//@   assert-at call errgroup.(*Group).Go #1 : len(b.Digest) >= 19

// ---- Run$1 (the goroutine that uploads one part): g.Wait() == nil (ghost_waited above) means
// ---- every such goroutine returned nil; it returns nil only if the LAST uploadPart attempt for
// ---- this part returned nil (same shape as the commit loop: a stale error value or a fall out
// ---- of the retry loop must not be reported as an uploaded part).
//@ func (*blobUpload).Run$1
//@   opt safe index,div,typeassert,panic,makeslice,shift,nilmap     -- (b.Digest[7:19] in the log line: the length fact is Run's precondition; uploadPart is not under contract and havocs it)
//@   ghost-at entry : ghost_part := 0
//@   ghost-at after call (*blobUpload).uploadPart #1 : ghost_part := ite(result == nil, 1, 0)
//@   assume-at after call fmt.Errorf #1 : result != nil    -- library fact
//@   ensures result == nil ==> ghost_part == 1
//@   loop 1 invariant ghost_part == 0
//@   assert-at call (*blobUpload).uploadPart #1 : arg0 == b && arg2 == "PATCH" && arg3 == requestURL && arg4 == part
// Run$1 owes uploadPart the digest length (Run's own precondition; b is captured, never reassigned)
//@   requires len(b.Digest) >= 19

// ==== coverage extension: the part upload itself and the helpers of Wait ======================
// ---- uploadPart: "every layer has been accepted by the registry" rests, for the default push path,
// ---- on what uploadPart reports as success. nil is returned only (a) after makeRequest answered
// ---- without error with a status that is none of 307 / 401 / >= 400, or (b) on the redirect path
// ---- (307) after the LAST attempt to PUT the part to the redirect URL returned nil. The request
// ---- carries the part's own byte range of the blob file (section reader offset/size) and goes to
// ---- the URL/method the caller named; the md5 of the part (used for the commit etag in Run) is
// ---- recorded on success.
//@ extern func io.NewSectionReader
//@   modifies nothing
//@   ensures result != nil
//@ extern func crypto/md5.New
//@   modifies nothing
//@   ensures result != nil
//@ extern func io.MultiWriter
//@   modifies nothing
//@ extern func strconv.FormatInt
//@   modifies nothing
//@ extern func net/http.(*Response).Location
//@   modifies nothing
//@   ensures result.1 == nil ==> result.0 != nil && fresh(result.0)
//@ extern func time.Sleep
//@   modifies nothing
//@ extern func math.Pow
//@   modifies nothing
//@ func (*blobUpload).uploadPart
//@   requires len(b.Digest) >= 19           -- the log line of the redirect retry loop slices b.Digest[7:19]
//@   modifies part.Hash, opts.Token, requestURL.Scheme
//@   ghost-at entry : ghost_sent := 0
//@   ghost-at entry : ghost_status := 0
//@   ghost-at entry : ghost_redir := -1
//@   ghost-at after call makeRequest #1 : ghost_sent := ite(result.1 == nil, 1, 0)
//@   ghost-at after call makeRequest #1 : ghost_status := ite(result.1 == nil, result.0.StatusCode, 0)
//@   ghost-at after call (*blobUpload).uploadPart #1 : ghost_redir := ite(result == nil, 1, 0)
//@   ensures result == nil ==> ghost_sent == 1
//@   ensures result == nil ==> (ghost_status == 307 && ghost_redir == 1) || (ghost_status != 307 && ghost_status != 401 && ghost_status < 400 && ghost_redir == -1)
// at the head of the redirect retry loop no earlier attempt was accepted (an accepted attempt ends the loop)
//@   loop 1 invariant ghost_redir != 1 && ghost_status == 307 && ghost_sent == 1
// the request: method and URL of the caller, body = this part's range of the blob file
//@   assert-at call makeRequest #1 : arg1 == method && arg2 == requestURL && arg5 == opts
//@   assert-at call io.NewSectionReader #1 : arg1 == part.Offset && arg2 == part.Size
//@   assert-at call io.NewSectionReader #1 : slog.AnyValue(arg0) == slog.AnyValue(b.file)
// the redirect attempt uploads the SAME part with PUT to the location the registry named
//@   assert-at call (*blobUpload).uploadPart #1 : arg0 == b && arg2 == "PUT" && arg3 == redirectURL && arg4 == part
// success records the part's md5 (Run's etag reads part.Sum for every part)
//@   ensures result == nil ==> part.Hash != nil
// the next upload URL handed to Run / the next part is the one parsed from this answer
//@   assert-at send nextURL #1 : sent == nextURL
//@   assert-at send nextURL #2 : sent == nextURL
// what the registry is told about the part: its length and (PATCH) its byte range in the blob; the request
// carries the headers built here and the tee of the part's section reader
//@   assert-at call strconv.FormatInt #1 : arg0 == part.Size && arg1 == 10
//@   assert-at call fmt.Sprintf #1 : arg0 == "%d-%d" && len(arg1) == 2 && slog.AnyValue(arg1[0]) == slog.AnyValue(part.Offset)
//@   assert-at call fmt.Sprintf #1 : 0 <= part.Offset && 0 <= part.Size && part.Offset < (1 << 61) && part.Size < (1 << 61) ==> unbox(arg1[1], "int64") == part.Offset + part.Size - 1
//@   assert-at call makeRequest #1 : arg3 == headers
//@   assert-at call io.TeeReader #1 : slog.AnyValue(arg0) == slog.AnyValue(sr)

// ---- acquire / release (reference count of Wait): bodies verified, frame as trusted before
//@ extern func sync/atomic.(*Int32).Add
//@   modifies nothing
//@ extern func (blobUpload).CancelFunc
//@   modifies nothing
//@ func (*blobUpload).acquire
//@   modifies nothing
//@   assert-at call atomic.(*Int32).Add #1 : arg1 == 1
//@ func (*blobUpload).release
//@   modifies nothing
//@   ghost-at entry : ghost_last := 0
//@   ghost-at after call atomic.(*Int32).Add #1 : ghost_last := ite(result == 0, 1, 0)
//@   assert-at call atomic.(*Int32).Add #1 : arg1 == -1
//@   assert-at call (blobUpload).CancelFunc #1 : ghost_last == 1     -- the upload is cancelled only when the last waiter leaves

// ---- progressWriter: the tee target of the part body. Write must accept everything (a short count or
// ---- an error would make io.TeeReader fail the body read and so the part upload); Rollback takes back
// ---- exactly what this writer added to the shared progress counter.
//@ extern func sync/atomic.(*Int64).Add
//@   modifies nothing
//@ func (*progressWriter).Write
//@   modifies p.written
//@   ensures n == len(b) && err == nil
//@   ensures p.written == old(p.written) + len(b) || len(b) + old(p.written) >= (1 << 63)
//@   assert-at call atomic.(*Int64).Add #1 : arg1 == len(b)
//@ func (*progressWriter).Rollback
//@   modifies p.written
//@   ensures p.written == 0
//@   assert-at call atomic.(*Int64).Add #1 : p.written > -(1 << 63) ==> arg1 == -p.written      -- (machine negation of MinInt64 wraps)
