//go:build verif

// Contracts for the scheduler, second file (coverage extension): the functions around the two loops
// that carry or can break a mechanism of C01, C02, C11, C15 and were not under contract before
// (Run and its goroutines, InitScheduler, waitForVRAMRecovery and its poller, the placement helpers
// maybeFindCPURunnerToUnload / pickBestPartialFitByLibrary, the sort adapter). The guarded /
// lockinv / lockorder declarations are in verif_contracts_sched.go and verif_contracts_lockorder.go.
package server

// C02 (every request is answered; the scheduler drains): Run starts BOTH loops, each exactly once -
// without the pending loop nothing is ever placed, without the completion loop no reference is ever
// given back and no runner is ever shut down.
//@ func (*Scheduler).Run
//@   requires !heldany(runnerRef.refMu)     -- lock order (verif_contracts_lockorder.go): called (by Serve) with no runner lock held
//@   ghost-at entry : ghost_p := 0
//@   ghost-at entry : ghost_c := 0
//@   ghost-at call Run$1 : ghost_p := ghost_p + 1
//@   ghost-at call Run$2 : ghost_c := ghost_c + 1
//@   assert-at return : ghost_p == 1 && ghost_c == 1
// ... and each goroutine runs its loop once, on THIS scheduler, with the context Run was given (the
// loops stop when it ends), entered with no runner lock held (lock order).
//@ func (*Scheduler).Run$1
//@   requires !heldany(runnerRef.refMu)     -- goroutine entry point: a new goroutine holds no lock
//@   ghost-at entry : ghost_n := 0
//@   ghost-at call processPending : ghost_n := ghost_n + 1
//@   assert-at call processPending : arg0 == s && arg1 == ctx
//@   assert-at return : ghost_n == 1
//@ func (*Scheduler).Run$2
//@   requires !heldany(runnerRef.refMu)     -- goroutine entry point: a new goroutine holds no lock
//@   ghost-at entry : ghost_n := 0
//@   ghost-at call processCompleted : ghost_n := ghost_n + 1
//@   assert-at call processCompleted : arg0 == s && arg1 == ctx
//@   assert-at return : ghost_n == 1

// C02/C15: the scheduler starts with an empty, non-nil loaded map (the lock invariant of loadedMu
// holds initially; a nil map would make load panic in the scheduler goroutine) and with load wired
// as the loader.
//@ func InitScheduler
//@   ensures result != nil && result.loaded != nil && len(result.loaded) == 0

// C01/C02 (mechanism: unload = wait for VRAM recovery, Close, delete, post unloadedCh): called by the
// expiry handler with refMu and loadedMu held, just before unload. It does not touch scheduler state
// (this was a trusted extern contract before; now proved on the body), reads the runner's GPU list
// under the lock its caller holds, and returns a channel on which the expiry handler then parks:
// on the fast path (CPU / Metal / no GPUs) the one event is already in the channel, otherwise exactly
// one poller goroutine is started to deliver it.
//@ func (*runnerRef).waitForVRAMRecovery
//@   modifies nothing
//@   requires held(runner.refMu)
//@   ghost-at entry : ghost_s := 0
//@   ghost-at entry : ghost_g := 0
//@   ghost-at send : ghost_s := ghost_s + 1
//@   ghost-at call waitForVRAMRecovery$1 : ghost_g := ghost_g + 1
//@   loop 1 invariant ghost_s == 0 && ghost_g == 0
//@   assert-at return : ghost_s + ghost_g == 1
//@   assert-at return : result == finished
// the poller: does not return without having delivered the event
//@ func (*runnerRef).waitForVRAMRecovery$1
//@   ghost-at entry : ghost_s := 0
//@   ghost-at send : ghost_s := ghost_s + 1
//@   loop 1 invariant ghost_s >= 0
//@   loop 2 invariant ghost_s >= 0
//@   assert-at return : ghost_s >= 1

// C11 (making room evicts an idle runner when one exists; a runner is started only where it is
// predicted to fit): on the CPU path with other models loaded, "no eviction needed" (nil) is reported
// only when the estimate for THIS request (its projectors, its options, the parallelism its scaled
// context stands for) is within the free system memory; otherwise the victim is whatever
// findRunnerToUnload chose (idle first).
//@ func (*Scheduler).maybeFindCPURunnerToUnload
//@   requires !heldany(runnerRef.refMu)     -- lock order (verif_contracts_lockorder.go): called with no runner lock held
//@   opt safe index,slice,typeassert,panic,makeslice,shift,nilmap      -- (the division by origNumCtx is not claimed, see props not_decided)
//@   assert-at call EstimateGPULayers : arg0 == gpus && arg1 == f && arg3.Runner.NumCtx == req.opts.Runner.NumCtx
//@   assert-at return #1 : estimate.TotalSize <= gpus[0].FreeMemory
//@   ghost-at entry : ghost_called := 0
//@   ghost-at after call findRunnerToUnload : ghost_called := 1
//@   assert-at return #2 : ghost_called == 1
//@   assert-at call findRunnerToUnload : estimate.TotalSize > gpus[0].FreeMemory && arg0 == s
// up to the choice of a victim (a call without a frame: sort.Sort has no contract) the request's contexts are only read
//@   assert-at call findRunnerToUnload : req.origNumCtx == old(req.origNumCtx) && req.opts.NumCtx == old(req.opts.NumCtx)
//@   assert-at return #1 : req.origNumCtx == old(req.origNumCtx) && req.opts.NumCtx == old(req.opts.NumCtx)

// C11 ("served by a runner started with ITS options"): the partial-fit fallback for the first model.
// With no parallelism configured it settles on 1 and restores the request's own context; with one
// configured it leaves parallelism and context alone. origNumCtx is only read. The placement it
// reports is the whole list (at most one library) or one of the per-library groups.
//@ func pickBestPartialFitByLibrary
//@   ensures req.origNumCtx == old(req.origNumCtx)
//@   ensures old(*numParallel) <= 0 ==> ((*numParallel) == 1 && req.opts.NumCtx == req.origNumCtx)
//@   ensures old(*numParallel) > 0 ==> ((*numParallel) == old(*numParallel) && req.opts.NumCtx == old(req.opts.NumCtx))
//@   loop 1 invariant req.origNumCtx == old(req.origNumCtx)
//@   loop 1 invariant old(*numParallel) <= 0 ==> ((*numParallel) == 1 && req.opts.NumCtx == req.origNumCtx)
//@   loop 1 invariant old(*numParallel) > 0 ==> ((*numParallel) == old(*numParallel) && req.opts.NumCtx == old(req.opts.NumCtx))
//@   loop 1 invariant 0 <= bestFit && bestFit < len(byLibrary)
//@   assert-at call PredictServerFit : arg1 == f && arg5 == (*numParallel) && arg4.Runner.NumCtx == req.opts.Runner.NumCtx
//@   assert-at return #1 : len(byLibrary) <= 1 && len(result) == len(gpus)
//@   assert-at return #2 : 0 <= bestFit && bestFit < len(byLibrary) && len(byLibrary) >= 2

// C11 (victims ordered by keep-alive then name): the sort adapter of findRunnerToUnload - Len is the
// length, Swap exchanges exactly the two entries. (Less reads sessionDuration of other runners without
// refMu: a recorded benign race, not put under contract here.)
//@ func (ByDurationAndName).Len
//@   pure
//@   ensures result == len(a)
//@ func (ByDurationAndName).Swap
//@   modifies a[i], a[j]
//@   requires 0 <= i && i < len(a) && 0 <= j && j < len(a)
//@   ensures a[i] == old(a[j]) && a[j] == old(a[i])
