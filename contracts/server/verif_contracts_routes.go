//go:build verif

// Contracts for the request side of the scheduler hand-off (server/routes.go): property C01.
package server

// C01 (a runner handed to a request is not shut down while that request is in progress): the
// reference that GetRunner hands out is given back when the context passed to GetRunner ends
// (useLoadedRunner$1 / load$1$1 wait on req.ctx.Done() and then post the finished event, which
// drops the reference and arms the keep-alive / posts the expiry). The request is "in progress"
// until the HANDLER is done with the runner, i.e. until the caller's context ends - so the
// context handed to the scheduler must be the caller's context itself, not one whose lifetime
// scheduleRunner (or anybody but the caller) controls.
//@ func (*Server).scheduleRunner
//@   ghost-at entry : ghost_ctx0 := ctx
//@   assert-at call GetRunner : arg1 == ghost_ctx0
// ... and what the caller goes on to use is the server of the very runner it was handed, for the
// model (and with the keep-alive) it asked the scheduler for.
//@   assert-at call GetRunner : arg2 == model && arg4 == keepAlive
//@   assert-at return #5 : result.0 == runner.llama && result.1 == model

// C01 (coverage extension, request side; was listed as not decided): the handlers that obtain a runner hand
// scheduleRunner THE REQUEST'S OWN context - the value returned by c.Request.Context() for this very
// request, evaluated for that call - not a background context (the reference would never be given
// back: C02 drain) and not a derived one that ends earlier (the runner could be unloaded under the
// handler). Every later use of the runner's server in the handler (Completion / Tokenize / Detokenize
// / Embedding) is again given a context obtained from c.Request.Context(): the work on the runner is
// bound to the lifetime that the scheduler's reference is bound to.
//@ func (*Server).GenerateHandler
//@   requires !heldany(runnerRef.refMu)     -- lock order (verif_contracts_lockorder.go): a gin handler is entered with no runner lock held (it may call expireRunner)
//@   opt safe panic
//@   assert-at call Context : arg0 == c.Request
//@   ghost-at after call Context : ghost_rctx := result
//@   assert-at call scheduleRunner : arg1 == ghost_rctx && arg0 == s
//@   assert-at call Detokenize : arg1 == ghost_rctx && recv == r
// the completion goroutines and the per-token callback of /api/generate (their blocks are merged with the C17 clauses in
// verif_contracts_c17.go; no `opt` line here)
//@ func (*Server).GenerateHandler$1
//@   assert-at call Context : arg0 == c.Request
//@   ghost-at after call Context : ghost_rctx := result
//@   assert-at call Completion : arg1 == ghost_rctx && recv == r
//@ func (*Server).GenerateHandler$1$1
//@   assert-at call Context : arg0 == c.Request
//@   ghost-at after call Context : ghost_rctx := result
//@   assert-at call Tokenize : arg1 == ghost_rctx && recv == r
//@ func (*Server).ChatHandler$1
//@   assert-at call Context : arg0 == c.Request
//@   ghost-at after call Context : ghost_rctx := result
//@   assert-at call Completion : arg1 == ghost_rctx && recv == r
//@ func (*Server).ChatHandler
//@   requires !heldany(runnerRef.refMu)     -- lock order (verif_contracts_lockorder.go): a gin handler is entered with no runner lock held (it may call expireRunner)
//@   opt safe panic
//@   assert-at call Context : arg0 == c.Request
//@   ghost-at after call Context : ghost_rctx := result
//@   assert-at call scheduleRunner : arg1 == ghost_rctx && arg0 == s
//@   assert-at call chatPrompt : arg0 == ghost_rctx
// (appended for ext-c19, property C19) chatPrompt has definitional preconditions over the uninterpreted C19 spec functions
// c19nsys / c19sidx / c19nimg (they DEFINE the counters over the message list passed; they restrict no input): assumed at the
// call; the assert-at clauses below are C19's (the conversation handed to chatPrompt).
//@   assume-at call chatPrompt #1 : c19nsys(0) == 0 && c19nimg(0) == 0
//@   assume-at call chatPrompt #1 : forall j int :: 0 <= j && j < len(arg4) ==> c19nsys(j+1) == c19nsys(j) + ite(arg4[j].Role == "system", 1, 0)
//@   assume-at call chatPrompt #1 : forall j int :: 0 <= j && j < len(arg4) && arg4[j].Role == "system" ==> c19sidx(c19nsys(j)) == j
//@   assume-at call chatPrompt #1 : forall j int :: 0 <= j && j < len(arg4) ==> c19nimg(j+1) == c19nimg(j) + len(arg4[j].Images)
//@   assume-at call chatPrompt #1 : forall j int :: 0 <= j && j <= len(arg4) ==> 0 <= c19nimg(j) && c19nimg(j) <= (1 << 40)
//@   assert-at call chatPrompt #1 : len(arg4) >= 1
//@   assert-at call chatPrompt #1 : len(arg4) == len(m.Messages) + len(req.Messages) + ite(req.Messages[0].Role != "system" && m.System != "", 1, 0)
//@   assert-at call chatPrompt #1 : forall k int :: 0 <= k && k < len(m.Messages) ==> arg4[len(arg4) - len(req.Messages) - len(m.Messages) + k].Role == m.Messages[k].Role && arg4[len(arg4) - len(req.Messages) - len(m.Messages) + k].Content == m.Messages[k].Content
//@   assert-at call chatPrompt #1 : (req.Messages[0].Role != "system" && m.System != "") ==> arg4[0].Role == "system" && arg4[0].Content == m.System
//@   assert-at call chatPrompt #1 : arg1 == m && arg3 == opts && len(arg5) == len(req.Tools) && (len(arg5) > 0 ==> &arg5[0] == &req.Tools[0])
//@   assert-at call append #2 : len(arg1) >= 1 && len(arg1) == len(req.Messages) && &arg1[0] == &req.Messages[0] && len(arg0) == len(m.Messages) && (len(arg0) > 0 ==> &arg0[0] == &m.Messages[0])
//@   assert-at call append #3 : len(arg0) == 1 && arg0[0].Role == "system" && arg0[0].Content == m.System && len(arg1) == len(m.Messages) + len(req.Messages)
//@ func (*Server).EmbedHandler
//@   requires !heldany(runnerRef.refMu)     -- lock order (verif_contracts_lockorder.go): a gin handler is entered with no runner lock held (it may call expireRunner)
//@   opt safe panic
//@   assert-at call Context : arg0 == c.Request
//@   ghost-at after call Context : ghost_rctx := result
//@   assert-at call scheduleRunner : arg1 == ghost_rctx && arg0 == s
//@   assert-at call Tokenize : arg1 == ghost_rctx && recv == r
//@   assert-at call Detokenize : arg1 == ghost_rctx && recv == r
//@ func (*Server).EmbedHandler$1
//@   opt safe panic
//@   assert-at call Context : arg0 == c.Request
//@   ghost-at after call Context : ghost_rctx := result
//@   assert-at call Embedding : arg1 == ghost_rctx && recv == r
//@ func (*Server).EmbeddingsHandler
//@   requires !heldany(runnerRef.refMu)     -- lock order (verif_contracts_lockorder.go): a gin handler is entered with no runner lock held (it may call expireRunner)
//@   opt safe panic
//@   assert-at call Context : arg0 == c.Request
//@   ghost-at after call Context : ghost_rctx := result
//@   assert-at call scheduleRunner : arg1 == ghost_rctx && arg0 == s
//@   assert-at call Embedding : arg1 == ghost_rctx && recv == r
