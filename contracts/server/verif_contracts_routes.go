//go:build verif

// Contracts for the request side of the scheduler hand-off (server/routes.go): property C01.
package server

// C01 (a runner handed to a request is not shut down while that request is in progress): the
// reference that GetRunner hands out is given back when the context passed to GetRunner ends
// (useLoadedRunner$1 / load$1$1 wait on req.ctx.Done() and then post the finished event, which
// drops the reference and arms the keep-alive / posts the expiry). The request is "in progress"
// until the HANDLER is done with the runner, i.e. until the caller's context ends - so the
// context handed to the scheduler must be the caller's context itself, not one whose lifetime
// scheduleRunner (or anybody but the caller) controls.
//@ func (*Server).scheduleRunner
//@   ghost-at entry : ghost_ctx0 := ctx
//@   assert-at call GetRunner : arg1 == ghost_ctx0
// ... and what the caller goes on to use is the server of the very runner it was handed, for the
// model (and with the keep-alive) it asked the scheduler for.
//@   assert-at call GetRunner : arg2 == model && arg4 == keepAlive
//@   assert-at return #5 : result.0 == runner.llama && result.1 == model
