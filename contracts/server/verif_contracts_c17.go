//go:build verif

// Contracts for the response side of the request handlers (server/routes.go): property C17.
package server

// The NDJSON streaming writer forwards every value it receives, as received, followed by one
// newline, and stops when the channel is closed (or the client is gone).
//@ func streamResponse$1
//@   ghost-at after call Marshal #1 : ghost_n := len(result.0)
//@   assert-at call Marshal #1 : ok && arg0 == val
//@   assert-at call Write #1 : ok && len(bts) == ghost_n + 1 && bts[len(bts)-1] == 10
//@   ghost-at entry : ghost_w := 0
//@   ghost-at after call Write #1 : ghost_w := 1
//@   assert-at return : result ==> ghost_w == 1     -- "keep streaming" only after the value was written

//@ extern func strings.(*Builder).WriteString
//@   modifies this.ghost_acc
//@   ensures result.0 == len(s) && result.1 == nil
//@   ensures bstr(this.ghost_acc) == bstr(old(this.ghost_acc)) + s
//@ extern func strings.(*Builder).String
//@   modifies nothing
//@   ensures result == bstr(this.ghost_acc)

// /api/generate, producer side (shared by the streaming and the non-streaming consumer): every
// runner chunk becomes exactly one message on the channel, carrying the chunk's text, its done
// flag and its token counts unchanged; only the last one carries a done reason. (ghost_s counts
// the sends of this invocation.)
//@ func (*Server).GenerateHandler$1$1
//@   opt strzero on
//@   ghost-at entry : ghost_s := 0
//@   ghost-at send ch : ghost_s := ghost_s + 1
//@   assert-at send ch #3 : ghost_s == 0 && tagis(sent, "api.GenerateResponse")
//@   assert-at send ch #3 : res.Response == cr.Content && res.Done == cr.Done && res.PromptEvalCount == cr.PromptEvalCount && res.EvalCount == cr.EvalCount
//@   assert-at send ch #3 : !cr.Done ==> len(res.DoneReason) == 0
//@   assert-at return : ghost_s == 1

// trusted: the tool-call parser reads the model's template and the text, and writes neither the
// request nor the response under construction (its body - text/template execution - is not verified)
//@ extern func (*Model).parseToolCalls
//@   modifies nothing

// /api/chat, producer side. Without tools, or when the client does not stream, every runner chunk
// is forwarded as exactly one message with the chunk's text; with streamed tool parsing a chunk is
// forwarded or withheld (at most one message), and the final chunk (Done) is always forwarded.
// Every message carries the chunk's done flag and token counts; only the last has a done reason.
//@ func (*Server).ChatHandler$1$1
//@   opt strzero on
//@   ghost-at entry : ghost_s := 0
//@   ghost-at send ch : ghost_s := ghost_s + 1
//@   assert-at send ch : ghost_s == 0 && tagis(sent, "api.ChatResponse")
//@   assert-at send ch : res.Done == r.Done && res.PromptEvalCount == r.PromptEvalCount && res.EvalCount == r.EvalCount && res.Message.Role == "assistant"
//@   assert-at send ch : !r.Done ==> len(res.DoneReason) == 0
//@   assert-at send ch #1 : res.Message.Content == r.Content && len(res.Message.ToolCalls) == 0
//@   assert-at return : ghost_s <= 1 && (r.Done ==> ghost_s == 1)
//@   assert-at return : len(req.Tools) == 0 ==> ghost_s == 1
//@   loop 1 invariant ghost_s == 0

// The producer goroutines: a runner failure is reported as one error message, and the channel is
// closed when the goroutine ends (that is what ends the stream / the non-stream loop).
//@ func (*Server).ChatHandler$1
//@   assert-at send ch : err != nil && tagis(sent, "gin.H")
//@ func (*Server).GenerateHandler$1
//@   assert-at send ch : err != nil && tagis(sent, "gin.H")

// Progress endpoints without streaming: exactly one JSON body on every path - the success message,
// or one error ("a stream ends with exactly one final message or one error").
//@ func waitForStream
//@   ghost-at entry : ghost_j := 0
//@   ghost-at after call JSON : ghost_j := ghost_j + 1
//@   loop 1 invariant ghost_j == 0
//@   assert-at call JSON : ghost_j == 0
//@   assert-at return : ghost_j == 1
//@   assert-at call JSON #1 : arg1 == 200 && r.Status == "success"

// Non-stream consumers (the concatenating folds inside the handlers): every message received from the
// channel is appended to the handler's own builder with exactly its text, and the text of the single
// response is what that builder holds.
//@ func (*Server).ChatHandler
//@   assert-at call strings.(*Builder).WriteString : arg0 == &sb && arg1 == t.Message.Content
//@   assert-at call strings.(*Builder).String : arg0 == &sb
//@   assert-at call strings.(*Builder).Reset : false     -- nothing received is ever taken back
// ... and what is stored as the response's text is the value read from the builder (Content #2), or the
// empty string when the whole text parsed as tool calls (Content #3)
//@   ghost-at after call strings.(*Builder).String #1 : ghost_agg := result
//@   assert-at store Content #2 : stored == ghost_agg
//@   assert-at store Content #3 : len(stored) == 0
//@ func (*Server).GenerateHandler
//@   assert-at call strings.(*Builder).WriteString : arg0 == &sb && arg1 == t.Response
//@   assert-at call strings.(*Builder).String : arg0 == &sb
//@   assert-at call strings.(*Builder).Reset : false
//@   ghost-at after call strings.(*Builder).String #1 : ghost_agg := result
//@   assert-at store Response #2 : stored == ghost_agg
