//go:build verif

// Contracts for package server/internal/registry (property C09: the retry loop around
// Registry.Pull in handlePull), checked by /verif/govc. Comment-only.
package registry

//@ extern func errors.As
//@   modifies boxed(target)
//@ extern func (*server/internal/client/ollama.Error).Temporary
//@   modifies nothing
//@ extern func (error).Error
//@   modifies nothing
//@ extern func cmp.Or
//@   modifies nothing

// canRetry: a successful Pull (nil) is never retried, so a later failing attempt cannot
// replace a success, and the retry loop ends at the first success.
//@ func canRetry
//@   ensures err == nil ==> !result

// handlePull$4$2: body of `for _, err := range backoff.Loop(ctx, 3*time.Second)` in the pull
// goroutine (go/ssa's synthetic yield function; arg1 is the loop's err; the free variable err is
// the goroutine's named result). The loop goes round again only after a Pull that failed; it
// ends with the goroutine's result set to what the last Pull returned (or to the backoff error).
//@ extern func (params).model
//@   modifies nothing
//@ func (*Local).handlePull$4$2
//@   requires jump$2 == 0          -- range-over-func protocol: yield is called only while the loop is ready
//@   ghost-at entry : ghost_pulled := 0
//@   ghost-at entry : ghost_nil := 0
//@   ghost-at after call Pull #1 : ghost_pulled := 1
//@   ghost-at after call Pull #1 : ghost_nil := ite(result == nil, 1, 0)
//@   ensures result ==> ghost_pulled == 1 && ghost_nil == 0
//@   ensures !result && ghost_pulled == 1 && ghost_nil == 1 ==> err == nil
//@   ensures !result && ghost_pulled == 0 ==> err == arg1 && arg1 != nil
//@   ensures !result && err == nil ==> ghost_pulled == 1 && ghost_nil == 1
