//go:build verif

// Contracts for package server/internal/registry (property C09: the retry loop around
// Registry.Pull in handlePull), checked by /verif/govc. Comment-only.
package registry

//@ extern func errors.As
//@   modifies boxed(target)
// ((*ollama.Error).Temporary: contract with verified body in server/internal/client/ollama/verif_contracts.go)
//@ extern func (error).Error
//@   modifies nothing
//@ extern func cmp.Or
//@   modifies nothing

// canRetry: a successful Pull (nil) is never retried, so a later failing attempt cannot
// replace a success, and the retry loop ends at the first success.
//@ func canRetry
//@   ensures err == nil ==> !result

// handlePull$4$2: body of `for _, err := range backoff.Loop(ctx, 3*time.Second)` in the pull
// goroutine (go/ssa's synthetic yield function; arg1 is the loop's err; the free variable err is
// the goroutine's named result). The loop goes round again only after a Pull that failed; it
// ends with the goroutine's result set to what the last Pull returned (or to the backoff error).
// (params).model: the name that is pulled is one of the two name fields of the request (was a trusted extern)
//@ func (params).model
//@   modifies nothing
//@   ensures result == p.Model || result == p.DeprecatedName
//@ func (*Local).handlePull$4$2
//@   requires jump$2 == 0          -- range-over-func protocol: yield is called only while the loop is ready
//@   ghost-at entry : ghost_pulled := 0
//@   ghost-at entry : ghost_nil := 0
//@   ghost-at after call Pull #1 : ghost_pulled := 1
//@   ghost-at after call Pull #1 : ghost_nil := ite(result == nil, 1, 0)
//@   ensures result ==> ghost_pulled == 1 && ghost_nil == 0
//@   ensures !result && ghost_pulled == 1 && ghost_nil == 1 ==> err == nil
//@   ensures !result && ghost_pulled == 0 ==> err == arg1 && arg1 != nil
//@   ensures !result && err == nil ==> ghost_pulled == 1 && ghost_nil == 1

// ---- handlePull: what the HTTP handler reports. "success" is written (and nil returned) only
// ---- after Registry.Pull returned nil (non-streaming path) resp. after the pull goroutine handed
// ---- a nil error over the channel `done` (streaming path; the goroutine's result is the subject
// ---- of handlePull$4$2 above). An error from Pull / from the goroutine is never turned into nil.
// Encode calls in the engine's (block) order: #1 "pulling manifest" (server.go:344)  #2 "verifying
// sha256 digest" (364)  #3 "writing manifest" (365)  #4 "success", streaming (366)  #5 "success",
// non-streaming (272); checked against the reported source lines.
//@ func (*Local).handlePull
//@   ghost-at entry : ghost_pullok := 0
//@   ghost-at entry : ghost_streamok := 0
//@   ghost-at after call Pull #1 : ghost_pullok := ite(result == nil, 1, 0)
//@   assert-at call Encode #5 : ghost_pullok == 1
//@   assert-at call Encode #2 : err == nil          -- err: the value received from `done`
//@   assert-at call Encode #4 : err == nil
//@   ghost-at call Encode #4 : ghost_streamok := 1
//@   ensures result == nil ==> ghost_pullok == 1 || ghost_streamok == 1

// handlePull$4$1: the deferred hand-over of the goroutine's result: what is sent on `done` is the
// named result err that the loop body (handlePull$4$2) assigned.
//@ func (*Local).handlePull$4$1
//@   assert-at send done #1 : sent == err
