//go:build verif

// Contracts for package server/internal/internal/names (property C13), checked by /verif/govc.
// Comment-only. This file uses spec functions and trusted library contracts declared in
// /verif/contracts/types/model/verif_contracts.go (alnumu, validpart, fqname, namestr, bstr,
// strings.Builder, strings.LastIndex, cmp.Or): a property that loads this package must list
// "types/model" under "contract_packages" unless ./types/model is one of its packages.
package names

// Same engine gap as in types/model: zero-value string id vs. the literal "".
//@ axiom "" == 0
//@ axiom forall s string :: len(s) == 0 ==> s == ""
//@ axiom bstr(0) == ""
//@ axiom forall x string :: "" + x == x
//@ axiom forall c int :: len(sbyte(c)) == 1 && sbyte(c)[0] == c     -- as in types/model (needed by the round-trip clauses of (Name).String)

// ---- character classes of the second validator ----
// Differences to types/model.isValidPart: the empty string passes (callers test != ""),
// there is no digest kind.
//@ spec func nmpartmax(kind int) int = ite(kind == 0, 350, 80)
//@ spec func nmpartchar(kind int, c int) bool = alnumu(c) || c == 45 || c == 95 || (c == 46 && kind != 1) || (c == 58 && kind == 0)
//@ spec func nmvalidpart(kind int, s string) bool = len(s) <= nmpartmax(kind) && (len(s) >= 1 ==> alnumu(s[0])) && forall j int :: 1 <= j && j < len(s) ==> nmpartchar(kind, s[j])

//@ func isAlphanumericOrUnderscore
//@   ensures result <==> alnumu(c)

//@ func isValidPart
//@   ensures result <==> nmvalidpart(kind, s)
//@   loop 1 invariant 0 <= rangeidx && rangeidx <= len(s) && len(s) <= nmpartmax(kind)
//@   loop 1 invariant rangeidx >= 1 ==> alnumu(s[0])
//@   loop 1 invariant forall j int :: 1 <= j && j < rangeidx ==> nmpartchar(kind, s[j])

// On non-empty strings and the four name kinds the two validators accept the same strings.
//@ lemma nm_validators_agree(kind int, s string)
//@   requires 0 <= kind && kind <= 3 && len(s) >= 1
//@   ensures nmvalidpart(kind, s) <==> validpart(kind, s)

//@ lemma nmvalidpart_no_separators(kind int, s string, j int)
//@   requires nmvalidpart(kind, s) && 0 <= j && j < len(s)
//@   ensures s[j] != 47 && s[j] != 92 && s[j] != 0 && s[0] != 46

//@ func (Name).IsValid
//@   pure reads none
//@   ensures result <==> ((n.h != "" ==> nmvalidpart(0, n.h)) && (n.n != "" ==> nmvalidpart(1, n.n)) && (n.t != "" ==> nmvalidpart(3, n.t)) && n.m != "" && nmvalidpart(2, n.m))

// A name is fully qualified for this package exactly when types/model accepts the same four parts.
//@ func (Name).IsFullyQualified
//@   pure reads none
//@   ensures result <==> (n.h != "" && n.n != "" && n.m != "" && n.t != "" && nmvalidpart(0, n.h) && nmvalidpart(1, n.n) && nmvalidpart(2, n.m) && nmvalidpart(3, n.t))
//@   ensures result <==> fqname(n.h, n.n, n.m, n.t)

//@ func (Name).Host
//@   pure reads none
//@   ensures result == n.h
//@ func (Name).Namespace
//@   pure reads none
//@   ensures result == n.n
//@ func (Name).Model
//@   pure reads none
//@   ensures result == n.m
//@ func (Name).Tag
//@   pure reads none
//@   ensures result == n.t

// ---- the parser ----
// (sanyof, asciistr: see types/model/verif_contracts.go)
//@ spec func slastindexany(s string, chars string) int
// Ghost variables are integers, and a string value is represented by an integer id in govc: nmid / nmstr
// are the identity on that id (they only change the static type, so that the argument of Parse can
// be remembered in a ghost variable).
//@ spec func nmid(s string) int = s
//@ spec func nmstr(i int) string = i
//@ spec func nmk(s string) int = slastindexany(s, "/:")
//@ spec func nmhd(s string) string = s[0:nmk(s)]
//@ spec func nmtl(s string) string = s[nmk(s)+1:len(s)]
//@ spec func nmsl(x string) int = slastindexany(x, "/")
//@ spec func nmhost(x string) string = ite(nmsl(x) >= 0, x[0:nmsl(x)], "")
//@ spec func nmns(x string) string = ite(nmsl(x) >= 0, x[nmsl(x)+1:len(x)], x)

// Byte-wise reading of LastIndexAny; stated only for ASCII `chars` (for other sets the
// function works on runes).
//@ extern func strings.LastIndexAny
//@   pure
//@   ensures result == slastindexany(s, chars)
//@   ensures -1 <= result && result < len(s)
//@   ensures asciistr(chars) && result >= 0 ==> sanyof(chars, s[result])
//@   ensures asciistr(chars) ==> forall j int :: result < j && j < len(s) ==> !sanyof(chars, s[j])

//@ func cutLastAny
//@   pure reads none
//@   ensures slastindexany(s, chars) < 0 ==> result.0 == "" && result.1 == s && result.2 == 0
//@   ensures slastindexany(s, chars) >= 0 ==> result.0 == s[0:slastindexany(s, chars)] && result.1 == s[slastindexany(s, chars)+1:len(s)] && result.2 == s[slastindexany(s, chars)]
//@   ensures slastindexany(s, chars) >= 0 ==> len(result.0) == slastindexany(s, chars) && len(result.0) + 1 + len(result.1) == len(s)
//@   ensures asciistr(chars) && slastindexany(s, chars) >= 0 ==> sanyof(chars, result.2)
//@   ensures asciistr(chars) ==> forall j int :: 0 <= j && j < len(result.1) ==> !sanyof(chars, result.1[j])

// The model part never contains one of the separators the parser splits at.
//@ func Parse
//@   ensures len(s) > 593 ==> result.h == "" && result.n == "" && result.m == "" && result.t == ""
//@   ensures result.m == "" || forall j int :: 0 <= j && j < len(result.m) ==> result.m[j] != 47 && result.m[j] != 58
// -- C13 strengthening (audit): Parse is the grammar  [[host "/"] namespace "/"] model [":" tag]  read
// from the right. nmk(s) is the position of the last '/' or ':'. No separator: all of s is the
// model. Last separator '/': no tag, the model follows it, namespace and host are split at the
// last '/' of the rest. Last separator ':': the tag follows it, and the rest is read the same way
// once more. (A rest that again ends in ":x" - "m:a:b" - is read further; such a string is not the
// print of any accepted name, because an accepted model or tag contains no ':'; for it only the
// separator-freeness clauses below are claimed.) Every printed fully qualified name falls under
// post.6: these clauses are what the print/parse round trip and the agreement with
// types/model.ParseNameBare rest on - a swapped pair of parts, a moved boundary or a normalised
// part changes one of them.
// (The loop overwrites the parameter s; in an invariant both `s` and `old(s)` name the loop's
// current s. The argument is therefore remembered at entry in a ghost integer through the
// injection nmid / its inverse nmstr; P0 below abbreviates nmstr(ghost_s0) = the argument.)
//@   ghost-at entry : ghost_s0 := nmid(s)
//@   loop 1 invariant n.h == "" && n.n == "" && n.m == ""
//@   loop 1 invariant (s == nmstr(ghost_s0) && n.t == "") || (nmk(nmstr(ghost_s0)) >= 0 && nmstr(ghost_s0)[nmk(nmstr(ghost_s0))] == 58 && s == nmhd(nmstr(ghost_s0)) && n.t == nmtl(nmstr(ghost_s0))) || (nmk(nmstr(ghost_s0)) >= 0 && nmstr(ghost_s0)[nmk(nmstr(ghost_s0))] == 58 && nmk(nmhd(nmstr(ghost_s0))) >= 0 && nmhd(nmstr(ghost_s0))[nmk(nmhd(nmstr(ghost_s0)))] == 58)
//@   loop 1 invariant n.t == "" || forall j int :: 0 <= j && j < len(n.t) ==> n.t[j] != 47 && n.t[j] != 58
//@   ensures len(s) <= 593 && nmk(s) < 0 ==> result.m == s && result.t == "" && result.h == "" && result.n == ""
//@   ensures len(s) <= 593 && nmk(s) >= 0 && s[nmk(s)] == 47 ==> result.m == nmtl(s) && result.t == "" && result.h == nmhost(nmhd(s)) && result.n == nmns(nmhd(s))
//@   ensures len(s) <= 593 && nmk(s) >= 0 && s[nmk(s)] == 58 && nmk(nmhd(s)) < 0 ==> result.m == nmhd(s) && result.t == nmtl(s) && result.h == "" && result.n == ""
//@   ensures len(s) <= 593 && nmk(s) >= 0 && s[nmk(s)] == 58 && nmk(nmhd(s)) >= 0 && nmhd(s)[nmk(nmhd(s))] == 47 ==> result.m == nmtl(nmhd(s)) && result.t == nmtl(s) && result.h == nmhost(nmhd(nmhd(s))) && result.n == nmns(nmhd(nmhd(s)))
//@   ensures result.t == "" || forall j int :: 0 <= j && j < len(result.t) ==> result.t[j] != 47 && result.t[j] != 58
//@   ensures forall j int :: 0 <= j && j < len(result.n) ==> result.n[j] != 47

//@ func Merge
//@   pure reads none
//@   ensures result.h == ite(a.h != "", a.h, b.h)
//@   ensures result.n == ite(a.n != "", a.n, b.n)
//@   ensures result.t == ite(a.t != "", a.t, b.t)
//@   ensures result.m == a.m

//@ func (Name).String
//@   ensures result == namestr(n.h, n.n, n.m, n.t)

// -- C13 strengthening (audit): extended-name splitting. The scheme is what precedes the FIRST "://",
// the digest what follows the LAST '@' of the remainder, the name what lies between; nothing is
// dropped, trimmed or rewritten. (The name is then handed to Parse and the validator, the digest to
// blob.ParseDigest: a split that leaks a '@' into the digest, or cuts at the wrong "://", hands them
// different strings than the caller wrote.)
//@ spec func nmrest(s string) string = ite(sindex(s, "://") >= 0, s[sindex(s, "://")+3:len(s)], s)
//@ func Split
//@   ensures result.0 == ite(sindex(s, "://") >= 0, s[0:sindex(s, "://")], "")
//@   ensures result.1 == ite(slastindex(nmrest(s), "@") >= 0, nmrest(s)[0:slastindex(nmrest(s), "@")], nmrest(s))
//@   ensures result.2 == ite(slastindex(nmrest(s), "@") >= 0, nmrest(s)[slastindex(nmrest(s), "@")+1:len(nmrest(s))], "")
//@   ensures forall j int :: 0 <= j && j < len(result.2) ==> result.2[j] != 64
