//go:build verif

// Contracts for package server/internal/cache/blob (property C08), checked by /verif/govc.
// Comment-only.
package blob

// ---- abstract content model -------------------------------------------------------------
// A byte sink (the hash, the underlying writer) carries two ghost integers:
//   ghost_len     number of bytes it has accepted so far
//   ghost_stream  abstract identity of the byte sequence it has accepted so far
// sapp(s, p, n) is the stream s extended by the first n bytes of p; shabyte(s, k) is the
// k-th byte of SHA-256(s). Both are uninterpreted.

//@ spec func sapp(s int, p []byte, n int) int
//@ spec func shabyte(s int, k int) int

// ---- trusted library contracts ----------------------------------------------------------

//@ extern func hash.(Hash).Write
//@   modifies this.ghost_len, this.ghost_stream
//@   ensures result.1 == nil ==> result.0 == len(p)
//@   ensures result.1 == nil ==> this.ghost_len == old(this.ghost_len) + len(p)
//@   ensures result.1 == nil ==> this.ghost_stream == sapp(old(this.ghost_stream), p, len(p))

// Sum appends to b: in place when b has room (h.Sum(d.sum[:0]) fills d.sum), else a fresh slice
//@ extern func hash.(Hash).Sum
//@   modifies b[all]
//@   ensures len(result) == len(b) + 32
//@   ensures cap(b) >= len(b) + 32 ==> &result[0] == &b[0]
//@   ensures forall k int :: 0 <= k && k < 32 ==> result[len(b) + k] == shabyte(this.ghost_stream, k)

//@ extern func bytes.Equal
//@   modifies nothing
//@   ensures result <==> (len(a) == len(b) && (forall k int :: 0 <= k && k < len(a) ==> a[k] == b[k]))

//@ extern func io.(Writer).Write
//@   modifies this.ghost_len, this.ghost_stream
//@   ensures 0 <= result.0 && result.0 <= len(p)
//@   ensures result.0 < len(p) ==> result.1 != nil
//@   ensures this.ghost_len == old(this.ghost_len) + result.0
//@   ensures this.ghost_stream == sapp(old(this.ghost_stream), p, result.0)

//@ extern func strings.IndexAny
//@   pure
//@   ensures -1 <= result && result < len(s)
//@ extern func fmt.Errorf
//@   modifies nothing
//@   ensures result != nil

// ---- the hash-gated writer ---------------------------------------------------------------
// Assumptions of this section (props/C08.json): the test hook is nil (it is only set by
// tests); sizes and chunk lengths are below 2^62 (no wrap-around of w.n + len(p)); the
// underlying writer obeys the io.Writer contract (0 <= n <= len(p), n < len(p) ==> err != nil).

//@ func (*checkWriter).seterr
//@   modifies w.err
//@   ensures result == err
//@   ensures old(w.err) == nil ==> w.err == err
//@   ensures old(w.err) != nil ==> w.err == old(w.err)

//@ func (*checkWriter).Write
//@   requires w.testHookBeforeFinalWrite == nil
//@   requires w.size < (1 << 62) && len(p) < (1 << 62)
// the hash and the sink are different objects (a hash.Hash is an io.Writer too; ghost fields
// are per object). ghost_ishash is a role tag: 1 on objects made by sha256.New, 0 on files.
//@   requires w.h.ghost_ishash == 1 && w.w.ghost_ishash == 0
// object invariant (I):
//@   requires w.err == nil ==> w.w.ghost_len == w.n && w.h.ghost_len == w.n && w.w.ghost_stream == w.h.ghost_stream && 0 <= w.n && w.n <= w.size
//@   ensures  w.err == nil ==> w.w.ghost_len == w.n && w.h.ghost_len == w.n && w.w.ghost_stream == w.h.ghost_stream && 0 <= w.n && w.n <= w.size
//@   modifies w.n, w.err, w.h.ghost_len, w.h.ghost_stream, w.w.ghost_len, w.w.ghost_stream
// (P) completeness marker: a sink that holds exactly w.size bytes holds bytes whose SHA-256 is w.d.
// Holds at creation whenever size > 0 (the sink is empty); preserved by every Write, also
// by failing ones.
//@   requires w.w.ghost_len == w.size ==> (forall k int :: 0 <= k && k < 32 ==> w.d.sum[k] == shabyte(w.w.ghost_stream, k))
//@   ensures  w.w.ghost_len == w.size ==> (forall k int :: 0 <= k && k < 32 ==> w.d.sum[k] == shabyte(w.w.ghost_stream, k))
// the sink never grows beyond size, never shrinks
//@   requires w.w.ghost_len <= w.size
//@   ensures  old(w.w.ghost_len) <= w.w.ghost_len && w.w.ghost_len <= w.size
// mechanism: the call of the underlying writer that would bring the sink to full size is
// issued only after the digest of everything hashed - the sink's content plus this whole
// chunk - matched; and no call can take the sink beyond size.
//@   assert-at call io.(Writer).Write #1 : w.w.ghost_len + len(p) <= w.size && w.h.ghost_stream == sapp(w.w.ghost_stream, p, len(p)) && w.h.ghost_len == w.w.ghost_len + len(p)
//@   assert-at call io.(Writer).Write #1 : w.w.ghost_len + len(p) == w.size ==> (forall k int :: 0 <= k && k < 32 ==> w.d.sum[k] == shabyte(sapp(w.w.ghost_stream, p, len(p)), k))
// (3) sticky error: after an error every later Write returns it and touches nothing
//@   ensures old(w.err) != nil ==> result.0 == 0 && result.1 == old(w.err) && w.err == old(w.err) && w.n == old(w.n)
//@   ensures old(w.err) != nil ==> w.w.ghost_len == old(w.w.ghost_len) && w.w.ghost_stream == old(w.w.ghost_stream)
//@   ensures result.1 != nil ==> w.err != nil
//@   ensures result.1 == nil ==> result.0 == len(p) && w.err == nil
// (4) over-long input is refused without touching the sink; size 0 accepts no byte
//@   ensures old(w.err) == nil && old(w.n) + len(p) > w.size ==> result.0 == 0 && result.1 != nil && w.w.ghost_len == old(w.w.ghost_len) && w.w.ghost_stream == old(w.w.ghost_stream)
//@   ensures w.size <= 0 ==> w.w.ghost_len == old(w.w.ghost_len)
// accounting
//@   ensures 0 <= result.0 && result.0 <= len(p)
//@   ensures old(w.err) == nil ==> w.n == old(w.n) + result.0 && w.w.ghost_len == old(w.w.ghost_len) + result.0
//@   ensures w.size == old(w.size) && w.d == old(w.d)

// ---- file system (trusted, only what is used) -------------------------------------------

//@ extern func io/fs.(FileInfo).Size
//@   pure reads none
//@   ensures result >= 0
//@ extern func io/fs.(FileInfo).ModTime
//@   pure reads none
//@ extern func os.Stat
//@   modifies nothing
//@   ensures result.1 == nil ==> result.0 != nil
//@ extern func os.OpenFile
//@   modifies nothing
//@   ensures result.1 == nil ==> result.0 != nil && fresh(result.0)
// a just opened file has accepted no byte through this handle
//@   ensures result.1 == nil ==> result.0.ghost_len == 0 && result.0.ghost_stream == 0 && result.0.ghost_ishash == 0
//@ extern func os.(*File).Close
//@   modifies nothing
//@ extern func os.(*File).Truncate
//@   modifies nothing
// (C08 extension) direct writes through a file handle count as bytes accepted by it, as writes through io.Writer do
//@ extern func os.(*File).Write
//@   modifies this.ghost_len, this.ghost_stream
//@   ensures 0 <= result.0 && result.0 <= len(b)
//@   ensures result.0 < len(b) ==> result.1 != nil
//@   ensures this.ghost_len == old(this.ghost_len) + result.0
//@   ensures this.ghost_stream == sapp(old(this.ghost_stream), b, result.0)
//@ extern func os.(*File).WriteString
//@   modifies this.ghost_len, this.ghost_stream
//@   ensures 0 <= result.0 && result.0 <= len(s)
//@   ensures result.0 < len(s) ==> result.1 != nil
//@   ensures this.ghost_len == old(this.ghost_len) + result.0
//@ extern func os.Remove
//@   modifies nothing
//@ extern func os.Chtimes
//@   modifies nothing
//@ extern func crypto/sha256.New
//@   modifies nothing
//@   ensures result != nil && result.ghost_len == 0 && result.ghost_stream == 0 && result.ghost_ishash == 1
//@ extern func io.Copy
//@   modifies boxed(dst)
//@   ensures result.0 >= 0

// absJoin = filepath.Abs(filepath.Join(...)): trusted, a function of its elements (and of the process's working directory)
// (C08 extension) fpabs: filepath.Abs as an uninterpreted function of its argument (the working directory
// of the process is taken as fixed, as the `pure reads none` view of absJoin always did)
//@ spec func fpabs(p string) string
//@ extern func path/filepath.Abs
//@   pure reads none
//@   ensures result.1 == nil ==> result.0 == fpabs(path)
//@ func absJoin
//@   pure reads none
// ---- added by the C08 extension: body verified (was a trusted extern). The name is Abs(Join(all the
// elements given)): nothing dropped, nothing added, and what is returned is what Abs answered. An Abs
// error (os.Getwd failed) panics: no name at all rather than a wrong one, so `panic` is not in the safe list.
//@   opt safe index,slice,div,typeassert,makeslice,shift,nilmap
//@   ghost-at entry : ghost_joined := 0
//@   ghost-at entry : ghost_abs := 0
//@   assert-at call path/filepath.Join #1 : arg0 == pp
//@   ghost-at after call path/filepath.Join #1 : ghost_joined := blid(result)
//@   assert-at call path/filepath.Abs #1 : blid(arg0) == ghost_joined
//@   ghost-at after call path/filepath.Abs #1 : ghost_abs := blid(result.0)
//@   assert-at return #1 : blid(result) == ghost_abs && err == nil
//@   ensures len(pp) == 3 ==> result == fpabs(fpjoin3(pp[0], pp[1], pp[2]))
//@ extern func (*DiskCache).GetFile
//@   pure reads none
// (added by the C08 audit; body checked although callers use the extern view above) the file name of a
// digest is made of the cache directory, "blobs" and the "sha256-%x" print of one operand: nothing
// that depends on anything but c.dir and d, so that the name tested by Get/Chunked/copyNamedFile is
// the name written by Put/Import
//@   assert-at call fmt.Sprintf #1 : arg0 == "sha256-%x" && len(arg1) == 1
//@   assert-at call absJoin #1 : len(arg0) == 3 && arg0[0] == c.dir && arg0[1] == "blobs" && arg0[2] == filename
// ---- added by the C08 extension: with absJoin's body verified, the name returned IS Abs(Join(c.dir, "blobs", filename))
// (nothing appended or replaced after the join)
//@   assert-at return #1 : result == fpabs(fpjoin3(c.dir, "blobs", filename))

// ---- copyNamedFile -------------------------------------------------------------------------
// returns in source order: 1 already there  2 open failed  3 size 0  4 copy error
// 5 short source  6 close error  7 stored
//@ func (*DiskCache).copyNamedFile
//@   requires c.testHookBeforeFinalWrite == nil
//@   requires 0 <= size && size < (1 << 62)
// the copy is skipped only for a file of exactly the expected size
//@   assert-at return #1 : err == nil && info.Size() == size
// a longer file is cut when it is opened: whatever is on disk when the first byte is written
// is shorter than size, so that only the final Write can bring the file to size bytes
//@   assert-at call os.OpenFile #1 : arg0 == name && (mode & 64) != 0 && ((err == nil && info.Size() > size) ==> (mode & 512) != 0)
// ghost_wrote: the copy was started; ghost_cleaned: Truncate(0) or Remove(name) was issued
//@   ghost-at entry : ghost_wrote := 0
//@   ghost-at entry : ghost_cleaned := 0
//@   ghost-at call io.Copy #1 : ghost_wrote := 1
//@   assert-at call Truncate #1 : arg0 == f && arg1 == 0
//@   assert-at call Truncate #2 : arg0 == f && arg1 == 0
//@   assert-at call os.Remove #1 : arg0 == name
//@   ghost-at after call Truncate #1 : ghost_cleaned := 1
//@   ghost-at after call Truncate #2 : ghost_cleaned := 1
//@   ghost-at after call os.Remove #1 : ghost_cleaned := 1
// Listed assumption: the sink cw.w is the file f opened above; through this handle it has
// accepted no byte yet, and it is not a hash object. (This is what the contract of os.OpenFile
// says about its result; it is repeated here for cw.w because the engine identifies the ghost
// fields of a pointer and of the interface value boxing it only when the pointer's element
// index is known to be 0, which it is not for a pointer returned by an extern function.)
//@   assume-at call io.Copy #1 : cw.w.ghost_len == 0 && cw.w.ghost_stream == 0 && cw.w.ghost_ishash == 0
// the writer handed to io.Copy satisfies the preconditions of (*checkWriter).Write
//@   assert-at call io.Copy #1 : cw.err == nil && cw.n == 0 && cw.size == size && size > 0 && cw.d == out && cw.testHookBeforeFinalWrite == nil && cw.h.ghost_ishash == 1 && cw.w.ghost_ishash == 0
//@   assert-at call io.Copy #1 : cw.w.ghost_len == 0 && cw.h.ghost_len == 0 && cw.w.ghost_stream == cw.h.ghost_stream
// every return once the copy was started: nil after a complete, error-free copy and close,
// or an error after Truncate(0) / Remove(name)
//@   assert-at return #1 : ghost_wrote == 0
//@   assert-at return #2 : ghost_wrote == 0
//@   assert-at return #3 : ghost_wrote == 0 && size == 0
//@   assert-at return #4 : ghost_cleaned == 1
//@   assert-at return #5 : ghost_cleaned == 1
//@   assert-at return #6 : ghost_cleaned == 1
//@   assert-at return #7 : ghost_wrote == 1 && n == size
//@   assert-at call Close! #1 : n == size && err == nil
// Glue (listed assumption): io.Copy(cw, file) only calls cw.Write, one call after the other,
// stops at the first error and returns the sum of the counts and that error. Every clause
// below is a postcondition of (*checkWriter).Write that is also one of its preconditions
// (or follows from its modifies clause), i.e. an invariant of any sequence of Write calls
// that starts in the state asserted at `call io.Copy` above.
//@   assume-at after call io.Copy #1 : cw.size == size && cw.d == out && cw.testHookBeforeFinalWrite == nil
//@   assume-at after call io.Copy #1 : cw.err == nil ==> cw.w.ghost_len == cw.n && cw.h.ghost_len == cw.n && cw.w.ghost_stream == cw.h.ghost_stream && 0 <= cw.n && cw.n <= cw.size
//@   assume-at after call io.Copy #1 : cw.w.ghost_len <= cw.size && (cw.w.ghost_len == cw.size ==> (forall k int :: 0 <= k && k < 32 ==> cw.d.sum[k] == shabyte(cw.w.ghost_stream, k)))
//@   assume-at after call io.Copy #1 : result.0 == cw.n && (result.1 == nil ==> cw.err == nil)
// ... hence: on the success path the sink holds exactly size bytes whose SHA-256 is out; on
// every path a sink of size bytes has that hash
// (cw.w is the sink, i.e. the file f: `w: f` in the literal, never reassigned)
// (stated where the success path begins, before the final Close: the call of c.now() on the way
// to `return nil` is a call through a function value, after which the engine knows nothing)
//@   assert-at call Close! #1 : cw.w.ghost_len == size && (forall k int :: 0 <= k && k < 32 ==> out.sum[k] == shabyte(cw.w.ghost_stream, k))
//@   assert-at return #4 : cw.w.ghost_len <= size && (cw.w.ghost_len == size ==> (forall k int :: 0 <= k && k < 32 ==> out.sum[k] == shabyte(cw.w.ghost_stream, k)))
//@   assert-at return #5 : cw.w.ghost_len < size
//@   assert-at return #6 : cw.w.ghost_len == size && (forall k int :: 0 <= k && k < 32 ==> out.sum[k] == shabyte(cw.w.ghost_stream, k))
// "A successful store makes the blob retrievable": Get reports a file of size 0 as absent, so
// a nil return must mean a file of at least one byte. (FAILS for size == 0, see props/C08.json.)
//@   ensures result == nil ==> size > 0
// ... and ONLY a longer file is cut: a shorter one may be the in-progress copy of a concurrent
// writer of the same blob, whose verified final write must not complete a file whose front was
// truncated under it (concurrent-writers clause of C08; added after seeded change C08-seed2)
//@   assert-at call os.OpenFile #1 : (mode & 512) != 0 ==> (err == nil && info.Size() > size)
// the file reaches its full size only through the hash-checked final write: nothing else may
// grow it (any Truncate in this function cuts to a length below size) - added after C08-seed3
//@   assert-at call Truncate : arg1 < size
// ---- added by the C08 audit (clauses appended; numbering of the earlier ones is unchanged) ----
// the size test that allows the skip is made on the file that is going to be written
//@   assert-at call os.Stat #1 : arg0 == name
// the bytes the writer verified are the bytes 0..size-1 of the file: the handle writes from offset
// 0 in place - never in append mode (O_APPEND = 1024), where a shorter leftover of a dead writer
// would stay in front of the verified bytes; and the handle is writable (O_RDWR = 2)
//@   assert-at call os.OpenFile #1 : (mode & 1024) == 0 && (mode & 3) == 2
// the hash-gated writer itself - not the bare file - receives the copy
//@   assert-at call io.Copy #1 : tagis(arg0, "*checkWriter")
// "A successful store makes the blob retrievable": after Truncate(0)/Remove(name) the store has
// failed and must say so (an error swallowed here reports a removed/emptied blob as stored) ...
//@   assert-at return #4 : result != nil
// (return #5 returns the package variable io.ErrUnexpectedEOF; the engine cannot relate its value to nil)
//@   assert-at return #6 : result != nil
// ... and nothing cuts or removes the file on the success path
//@   assert-at return #7 : ghost_cleaned == 0
// "resolving a name returns the digest of exactly the bytes linked" / "right size ==> right content":
// the shortcut 'a file of the expected size is already there' (return #1) is sound only under a
// content-addressed name, where an earlier hash-gated store is the only way the file got that size.
// (FAILS at Link's call: the manifest path is not content-addressed - relinking a name to another
// manifest of the same size is silently skipped. Genuine defect, see props/C08.json.)
//@   requires name == c.GetFile(out)
// ---- added by the C08 extension: the proved half of assumption A-open. The handle opened above has accepted
// no byte when the copy starts (nothing is written to f before the gated writer gets it: bytes put in front
// would shift the verified bytes), and the sink of the gated writer is a file handle. (What stays assumed is
// only the engine gap: that the ghost fields of the interface value cw.w are those of the pointer f.)
//@   assert-at call io.Copy #1 : f.ghost_len == 0 && f.ghost_stream == 0 && f.ghost_ishash == 0
//@   assert-at call io.Copy #1 : tagis(cw.w, "*os.File")
// (the same fact stated where the gated writer is being built, i.e. BEFORE the A-open assumption is in force: at
// `call io.Copy` the engine may derive f's ghost fields from the assumption made on cw.w at that same site)
//@   assert-at call crypto/sha256.New #1 : f.ghost_len == 0 && f.ghost_stream == 0 && f.ghost_ishash == 0

// ---- Put / Link / Get / Resolve / Import / Unlink -----------------------------------------------

// (manifestPath: the extern view `modifies nothing` used by Link/Resolve/Unlink is kept; its body is
// checked by C13 against the clauses in the block "manifestPath: case-insensitive lookup" at the end of this file)
//@ extern func os.MkdirAll
//@   modifies nothing
//@ extern func os.(*File).Stat
//@   modifies nothing
//@   ensures result.1 == nil ==> result.0 != nil
//@ extern func os.Open
//@   modifies nothing
//@   ensures result.1 == nil ==> result.0 != nil && fresh(result.0)
//@ extern func os.CreateTemp
//@   modifies nothing
//@   ensures result.1 == nil ==> result.0 != nil && fresh(result.0)
//@   ensures result.1 == nil ==> result.0.ghost_len == 0 && result.0.ghost_stream == 0 && result.0.ghost_ishash == 0     -- (C08 extension) a just created temp file has accepted no byte, as for os.OpenFile
//@ extern func os.(*File).Name
//@   pure reads none
//@ extern func os.Rename
//@   modifies nothing
//@ extern func io.ReadAll
//@   modifies nothing
//@   ensures result.0 == nil || fresh(result.0)
//@ extern func bytes.NewReader
//@   modifies nothing
//@   ensures result != nil
//@ func PutBytes
//@   requires c.testHookBeforeFinalWrite == nil
//@   modifies nothing
// ---- added by the C08 extension: body verified (was a trusted extern; only the frame stays trusted: Put ->
// copyNamedFile have no frame clause, they write files and fresh objects only). Resolve's "re-store as a
// blob" stores exactly the bytes read under exactly the digest computed: same cache, same digest, the
// size is the length of the data, the source is a reader over the data.
//@   opt frame assume
// (NOT provable, engine: `data` has the type parameter S; the conversion []byte(data) and len(data) are opaque
// fresh values for the engine, so "size == len(data)" and "the reader delivers data" cannot be stated. A wrong
// size or source fails at the hash gate of copyNamedFile rather than storing wrong bytes.)
//@   assume-at call Put #1 : 0 <= arg3 && arg3 < (1 << 62)      -- machine range (A-range): arg3 is int64(len(data)), the length of a byte slice / string in memory
//@   assert-at call Put #1 : arg0 == c && arg1 == d
//@   assert-at call Put #1 : tagis(arg2, "*bytes.Reader")
//@   ghost-at entry : ghost_putres := 0
//@   ghost-at after call Put #1 : ghost_putres := ite(result == nil, 1, 0)
//@   ensures result == nil ==> ghost_putres == 1
//@ extern func strings.LastIndexByte
//@   pure
//@   ensures -1 <= result && result < len(s)
//@   ensures result >= 0 ==> s[result] == c
//@   ensures forall k int :: result < k && k < len(s) ==> s[k] != c
//@ func splitNameDigest
//@   pure reads none
// ---- added by the C08 extension: body verified (was a trusted extern). Resolve answers "<name>@<digest>"
// with the digest given and everything else through the manifest of <name>: the split is at the LAST
// '@' (64), the name is everything before it, the digest everything after it, and without an '@' the
// whole string is the name (an off-by-one here resolves another name or parses a digest with an '@' in front).
//@   ensures (forall k int :: 0 <= k && k < len(s) ==> s[k] != 64) ==> name == s && digest == ""
//@   ensures name == s || (len(name) < len(s) && s[len(name)] == 64 && name == s[:len(name)] && digest == s[len(name)+1:])
//@   ensures name == s ==> digest == "" && (forall k int :: 0 <= k && k < len(s) ==> s[k] != 64)
//@   ensures forall k int :: 0 <= k && k < len(digest) ==> digest[k] != 64
//@   ensures len(name) + len(digest) <= len(s) && len(s) <= len(name) + len(digest) + 1
// ghost_tee == 1: reading from this reader feeds a hash (result of io.TeeReader, or a limited view of one)
//@ extern func io.TeeReader
//@   modifies nothing
//@   ensures result != nil && result.ghost_tee == 1
//@ extern func io.LimitReader
//@   modifies nothing
//@   ensures result != nil && result.ghost_tee == r.ghost_tee

// The blob is stored under the file name derived from the digest that gates the writer.
//@ func (*DiskCache).Put
//@   requires c.testHookBeforeFinalWrite == nil
//@   requires 0 <= size && size < (1 << 62)
//@   assert-at call copyNamedFile #1 : arg0 == c && arg1 == c.GetFile(d) && arg2 == r && arg3 == d && arg4 == size

// Link: the blob is opened read-only under its digest's file name (never created), the
// manifest copy is reached only after that open succeeded, and is gated by the same digest
// and the size the open blob has.
//@ func (*DiskCache).Link
//@   requires c.testHookBeforeFinalWrite == nil
//@   ghost-at entry : ghost_blobopen := 0
//@   assert-at call os.OpenFile #1 : arg0 == c.GetFile(d) && arg1 == 0
//@   ghost-at after call os.OpenFile #1 : ghost_blobopen := ite(result.1 == nil, 1, 0)
//@   assert-at call copyNamedFile #1 : ghost_blobopen == 1 && arg0 == c && arg1 == manifest && arg3 == d && arg4 == info.Size()
// "a name is linked only to a manifest blob that exists": Get treats a file of size 0 as absent
//@   assert-at call copyNamedFile #1 : info.Size() > 0
// "resolving a name returns the digest of exactly the bytes linked": Resolve reads at most 1 MiB
//@   assert-at call copyNamedFile #1 : info.Size() <= (1 << 20)
// ---- added by the C08 audit ----
// the manifest written is the one of the name given; the size that gates the copy is the size of
// the blob file that was opened (not of some other file)
//@   assert-at call manifestPath #1 : arg0 == c && arg1 == name
//@   assert-at call Stat #1 : arg0 == f
// Link reports success only if the copy into the manifest file reported success
//@   ghost-at entry : ghost_linked := 0
//@   ghost-at after call copyNamedFile #1 : ghost_linked := ite(result == nil, 1, 0)
//@   ensures result == nil ==> ghost_linked == 1

// Get: present means a file of non-zero size under the digest's name; the size reported is the file's.
//@ func (*DiskCache).Get
//@   modifies nothing
//@   assert-at call os.Stat #1 : arg0 == c.GetFile(d)
//@   assert-at return #3 : err == nil && info.Size() > 0
//@   assert-at return #1 : err != nil
//@   ensures result.0.Size >= 0 && (result.0.Size > 0 ==> result.0.Digest == d && result.1 == nil)
// ---- added by the C08 audit: the size reported is the size of the file found under GetFile(d)
//@   assert-at return #3 : result.0.Size == info.Size() && result.0.Digest == d && result.1 == nil
//@   assert-at return #2 : info.Size() == 0

// readAndSum: the digest returned is SHA-256 of the bytes returned.
// TeeReader (listed assumption): what ReadAll got out of LimitReader(TeeReader(f, h)) is what h was fed.
//@ func readAndSum
//@   assume-at after call io.ReadAll #1 : result.1 == nil ==> h.ghost_stream == sapp(0, result.0, len(result.0))
//@   assert-at call io.TeeReader #1 : arg1 == h
//@   assert-at return #3 : forall k int :: 0 <= k && k < 32 ==> d.sum[k] == shabyte(h.ghost_stream, k)
//@   ensures result.2 == nil ==> (forall k int :: 0 <= k && k < 32 ==> result.1.sum[k] == shabyte(sapp(0, result.0, len(result.0)), k))
//@   ensures result.2 != nil ==> result.0 == nil
// ---- added by the C08 audit: the file hashed is the file named; what ReadAll reads comes through
// the tee (ghost_tee marks TeeReader results and limited views of them), so the listed TeeReader
// assumption above is applied only to a reader it is true of
//@   assert-at call os.Open #1 : arg0 == filename
//@   assert-at call io.LimitReader #1 : arg0 == r && arg1 == limit
//@   assert-at call io.ReadAll #1 : arg0.ghost_tee == 1
// ---- added by the C08 extension: the A-tee assumption says "h was fed exactly the bytes returned, starting from
// the empty stream": that start is proved here - the hash teed into is brand new when reading starts (bytes hashed
// before the file's, e.g. a prefix or a second use of one hash object, would make the digest one of other bytes)
//@   assert-at call io.ReadAll #1 : h.ghost_len == 0 && h.ghost_stream == 0 && h.ghost_ishash == 1
// the error returns carry no data and the zero digest
//@   assert-at return #1 : result.0 == nil && result.2 != nil
//@   assert-at return #2 : result.0 == nil && result.2 != nil

// Resolve: the digest returned is the one readAndSum computed from the bytes it read, and
// exactly these bytes are stored under it.
//@ func (*DiskCache).Resolve
//@   requires c.testHookBeforeFinalWrite == nil
//@   assert-at call readAndSum #1 : arg0 == file
//@   assert-at call PutBytes #1 : arg0 == c && arg1 == d && arg2 == data
//@   assert-at return #5 : forall k int :: 0 <= k && k < 32 ==> d.sum[k] == shabyte(sapp(0, data, len(data)), k)
// ---- added by the C08 audit ----
// the manifest read is the one of the name asked for; Resolve reads at least as much as Link admits
// (Link#assert.4: at most 1 MiB), so that the digest returned covers all the bytes linked
//@   assert-at call manifestPath #1 : arg0 == c && arg1 == name
//@   assert-at call readAndSum #1 : arg1 >= (1 << 20)
// the digest is returned only after the re-store as a blob succeeded ("re-stores it as a blob")
//@   ghost-at entry : ghost_restored := 0
//@   ghost-at after call PutBytes #1 : ghost_restored := ite(result == nil, 1, 0)
//@   assert-at return #5 : ghost_restored == 1 && result.0 == d && result.1 == nil
// ---- added by the C08 extension (splitNameDigest's body is verified now): the string split is the name
// asked for; a digest part, if any, is what is parsed and answered; the manifest is consulted only when
// there is no digest part, and then under the whole string given (nothing cut off)
//@   assert-at call splitNameDigest #1 : arg0 == name
//@   assert-at call ParseDigest #1 : arg0 == digest && digest != ""
//@   assert-at call manifestPath #1 : digest == ""

// Import: the temp file is renamed to the name of the digest that was computed while it was
// written, only after the byte count matched and the file was closed without error.
//@ func (*DiskCache).Import
//@   ghost-at entry : ghost_closed := 0
//@   ghost-at after call Close! #1 : ghost_closed := ite(result == nil, 1, 0)
//@   assert-at call os.Rename #1 : n == size && ghost_closed == 1 && arg0 == f.Name() && arg1 == c.GetFile(d)
//@   assert-at call io.TeeReader #1 : arg1 == h
//@   assert-at call hash.(Hash).Sum #1 : recv == h
// TeeReader (listed assumption): every byte io.Copy wrote to f was first written to h.
//@   assume-at after call io.Copy #1 : result.1 == nil ==> f.ghost_stream == h.ghost_stream && f.ghost_len == result.0
// at the rename the temp file holds size bytes whose SHA-256 is the digest that names the target
//@   assert-at call os.Rename #1 : f.ghost_len == size && (forall k int :: 0 <= k && k < 32 ==> d.sum[k] == shabyte(f.ghost_stream, k))
// ---- added by the C08 audit ----
// what is copied into the temp file comes through the tee (so the TeeReader assumption above is
// applied to a reader it is true of), and it goes into the temp file that is renamed
//@   assert-at call io.Copy #1 : arg1.ghost_tee == 1
// success is reported only after the rename succeeded, with the digest the file was renamed to
//@   ghost-at entry : ghost_renamed := 0
//@   ghost-at after call os.Rename #1 : ghost_renamed := ite(result == nil, 1, 0)
//@   assert-at return #6 : ghost_renamed == 1 && result.0 == d && result.1 == nil
//@   ensures result.1 == nil ==> ghost_renamed == 1
// "A successful store makes the blob retrievable": Get reports a file of size 0 as absent.
// (FAILS for size == 0: Import(empty reader, 0) returns sha256(""), nil and Get says ErrNotExist -
// the same defect as copyNamedFile#post.1, on Import's own path. Genuine defect, see props/C08.json.)
//@   ensures result.1 == nil ==> size > 0
// ---- added by the C08 extension: the A-tee assumption ("every byte io.Copy wrote to f was first written to h,
// so f and h hold the same stream") presupposes that both start empty: proved here - the temp file is the one
// just created and the hash is brand new when the copy starts; the destination of the copy is a file
//@   assert-at call io.Copy #1 : h.ghost_len == 0 && h.ghost_stream == 0 && h.ghost_ishash == 1
//@   assert-at call io.Copy #1 : f.ghost_len == 0 && f.ghost_stream == 0 && f.ghost_ishash == 0
//@   assert-at call io.Copy #1 : tagis(arg0, "*os.File")
// every error return carries the zero digest (never a digest under which nothing was stored)
//@   assert-at return #1 : result.1 != nil
//@   assert-at return #2 : result.1 != nil
//@   assert-at return #3 : result.1 != nil && n != size
//@   assert-at return #4 : result.1 != nil
//@   assert-at return #5 : result.1 != nil

// Unlink: removes exactly the manifest path of the name.
//@ func (*DiskCache).Unlink
//@   modifies nothing
//@   assert-at call os.Remove #1 : arg0 == manifest
// ---- added by the C08 audit: ... of the name given
//@   assert-at call manifestPath #1 : arg0 == c && arg1 == name
// (removed: "result.1 != nil ==> result.0 == false" is Unlink's doc comment, which the code violates with "return true, err";
//  it is not part of property C08, so it is not an obligation of this check; noted in DESIGN.md)

// ---- digest.go / chunked.go ---------------------------------------------------------------------

//@ func (Chunk).Size
//@   pure reads none
//@   requires 0 <= c.Start && c.Start <= c.End + 1 && c.End < (1 << 62)
//@   ensures result == c.End - c.Start + 1 && result >= 0

//@ extern func encoding/hex.Decode
//@   modifies dst[all]
//@   ensures result.1 == nil ==> result.0 * 2 == len(src)

// ParseDigest: an error comes with the zero digest; success needs "sha256", ':' or '-', 64 characters.
//@ func ParseDigest
//@   assert-at return #1 : forall k int :: 0 <= k && k < 32 ==> zero.sum[k] == 0
//@   assert-at return #2 : forall k int :: 0 <= k && k < 32 ==> zero.sum[k] == 0
//@   assert-at return #3 : forall k int :: 0 <= k && k < 32 ==> zero.sum[k] == 0
//@   assert-at return #4 : len(sum) == 64 && prefix == "sha256" && 0 <= i && prefix == s[:i] && sum == s[i+1:]
// ---- added by the C08 extension: the 64 characters are decoded into the 32 bytes of the digest that is
// returned (not into another buffer), success returns that digest with a nil error
//@   assert-at call encoding/hex.Decode #1 : len(arg0) == 32 && len(arg1) == 64
//@   assert-at return #4 : err == nil && result.1 == nil && (forall k int :: 0 <= k && k < 32 ==> result.0.sum[k] == d.sum[k])

//@ extern func server/internal/internal/names.Parse
//@   pure reads none
//@ extern func server/internal/internal/names.(Name).IsFullyQualified
//@   pure reads none
//@ extern func server/internal/internal/names.(Name).Host
//@   pure reads none
//@ extern func server/internal/internal/names.(Name).Namespace
//@   pure reads none
//@ extern func server/internal/internal/names.(Name).Model
//@   pure reads none
//@ extern func server/internal/internal/names.(Name).Tag
//@   pure reads none
// nameToPath: only fully qualified names have a path.
//@ func nameToPath
//@   modifies nothing
//@   assert-at return #1 : n.IsFullyQualified()     -- (ordinal = engine traversal order: the return at line 535)
//@   assert-at return #2 : !n.IsFullyQualified() && result.0 == ""
// C13 (store confinement): the path of a name is the join of exactly its four validated parts
// (host, namespace, model, tag) - never something derived from the printed form of the name, in
// which the separators allowed INSIDE a part (':' and '.' in a host) would become path components
// (added after seeded change C13-seed3; needs the types/model contract file for fpjoin4)
//@   assert-at return #1 : result.0 == fpjoin4(n.Host(), n.Namespace(), n.Model(), n.Tag())

// Chunker.Put: the chunk is written through a checkWriter gated by the chunk's digest and
// the chunk's size, at the chunk's offset, and at most that many bytes are copied.
//@ extern func io.NewOffsetWriter
//@   modifies nothing
//@   ensures result != nil && fresh(result) && result.ghost_len == 0 && result.ghost_stream == 0 && result.ghost_ishash == 0 && result.ghost_base == off
//@ func (*Chunker).Put
//@   requires 0 <= chunk.Start && chunk.Start <= chunk.End + 1 && chunk.End < (1 << 62)
//@   assert-at call io.NewOffsetWriter #1 : arg1 == chunk.Start
//@   assume-at call io.CopyN #1 : cw.w.ghost_len == 0 && cw.w.ghost_stream == 0 && cw.w.ghost_ishash == 0      -- cw.w is the OffsetWriter just made (same engine gap as in copyNamedFile)
//@   assert-at call io.CopyN #1 : cw.err == nil && cw.n == 0
//@   assert-at call io.CopyN #1 : cw.size == chunk.End - chunk.Start + 1
//@   assert-at call io.CopyN #1 : cw.d == d && cw.testHookBeforeFinalWrite == nil
//@   assert-at call io.CopyN #1 : cw.h.ghost_ishash == 1 && cw.w.ghost_ishash == 0
//@   assert-at call io.CopyN #1 : arg2 == cw.size
//@   assert-at call io.CopyN #1 : cw.w.ghost_len == 0 && cw.h.ghost_len == 0 && cw.w.ghost_stream == cw.h.ghost_stream && cw.f == c.f
// blobs/sha256-X has no completeness marker but its length: the write that extends the file to
// the full blob size c.size must not happen while other parts are unverified. The Chunker
// keeps no record of verified ranges, so only a chunk covering the whole blob is safe.
//@   assert-at call io.CopyN #1 : chunk.End + 1 < c.size || chunk.Start == 0 || chunk.End < chunk.Start
// ---- added by the C08 audit ----
// the chunk goes through the hash-gated writer
//@   assert-at call io.CopyN #1 : tagis(arg0, "*checkWriter")
// "A successful store ...": Put reports success only when the whole chunk went through the gated
// writer without error (or the blob was already complete when the Chunker was made: c.f == nil)
//@   ghost-at entry : ghost_chunkok := 0
//@   ghost-at after call io.CopyN #1 : ghost_chunkok := ite(result.1 == nil && result.0 == chunk.End - chunk.Start + 1, 1, 0)
// (stated at the returns: return #2 returns the package variable io.ErrUnexpectedEOF, which the engine cannot relate to nil)
//@   assert-at return #1 : c.f == nil
//@   assert-at return #3 : result == nil ==> ghost_chunkok == 1
// ---- added by the C08 extension: the sink of the gated writer is the OffsetWriter made for this chunk
// (proved part of assumption A-open), positioned on the Chunker's file
//@   assert-at call io.CopyN #1 : tagis(cw.w, "*io.OffsetWriter")
//@   assert-at call io.NewOffsetWriter #1 : tagis(arg0, "*os.File")

// DiskCache.Chunked (added by the C08 audit): a Chunker that writes nothing (f == nil,
// "pre-validated") is handed out only for a file of exactly the expected size under the digest's
// name; otherwise the Chunker carries the digest, the size and an open handle of that very file
// (a nil handle would turn every Put into a silent no-op that reports success). The file is
// created if missing, opened writable, neither in append mode (WriteAt at the chunk's offset) nor
// with O_TRUNC (chunks stored through another Chunker of the same blob must not be cut away under
// it: its last chunk would bring the file to full size with a hole in front).
//@ func (*DiskCache).Chunked
//@   assert-at call os.Stat #1 : arg0 == c.GetFile(d)
//@   assert-at return #1 : err == nil && info.Size() == size
//@   assert-at call os.OpenFile #1 : arg0 == c.GetFile(d) && (arg1 & 64) != 0 && (arg1 & 3) != 0 && (arg1 & 1024) == 0 && (arg1 & 512) == 0
//@   assert-at return #3 : result.1 == nil && result.0 != nil && result.0.f != nil && result.0.f == f && result.0.digest == d && result.0.size == size
// ---- added by the C08 extension: a failed open hands out no Chunker
//@   assert-at return #2 : result.0 == nil && result.1 != nil

// manifestPath, loop body (range-over-func yield closure; added by the C08 audit): "case-insensitive
// manifest path lookup": the scan stops at the first existing link that equals the wanted path
// under case folding (strings.EqualFold <==> sfoldeq, types/model block) and answers with the path
// of THAT link below c.dir; it continues exactly when there was no error and no such match.
//@ func (*DiskCache).manifestPath$1
//@   requires jump$1 == 0   -- range-over-func protocol: the loop has not exited (compiler-generated guard)
//@   assert-at call strings.EqualFold #1 : arg0 == maybe && arg1 == l
//@   assert-at call path/filepath.Join #1 : sfoldeq(maybe, l) && err == nil
//@   assert-at call path/filepath.Join #1 : len(arg0) == 2 && arg0[0] == c.dir && arg0[1] == l
// (old(maybe): seen from inside the closure the captured result variable, also a *string, may alias maybe)
//@   ensures result <==> (arg1 == nil && !sfoldeq(old(maybe), arg0))
// ---- C13 (added after seeded change C13-seed4; lnk/lnkbad/lnkclear: see the manifestPath block below) ----
// Position protocol of the scan: c.ghost_scanpos counts the items of the listing handed to the body so
// far. Protocol preconditions (the body is only called by the iterator; listed as the glue assumption
// of C13): this call gets item number ghost_scanpos. Invariant, required and re-established by every
// call that lets the scan go on: none of the items seen so far is an error item or matches.
//@   requires 0 <= c.ghost_scanpos
//@   requires (arg1 != nil <==> lnkbad(c.dir, c.ghost_scanpos)) && (arg1 == nil ==> arg0 == lnk(c.dir, c.ghost_scanpos))
//@   requires lnkclear(c.dir, maybe, c.ghost_scanpos)
// (counted where the item is looked at - an error item ends the scan - and not with `ghost-at entry`: the engine's
// entry snapshot shares its heap with the first block, so old() would see an assignment made there)
//@   ghost-at call strings.EqualFold #1 : c.ghost_scanpos := c.ghost_scanpos + 1
//@   ensures arg1 == nil ==> c.ghost_scanpos == old(c.ghost_scanpos) + 1
//@   ensures result ==> lnkclear(c.dir, old(maybe), c.ghost_scanpos)
// the link answered with is the FIRST item of the listing that matches: no earlier item did
//@   assert-at call path/filepath.Join #1 : l == lnk(c.dir, c.ghost_scanpos - 1) && !lnkbad(c.dir, c.ghost_scanpos - 1) && lnkclear(c.dir, maybe, c.ghost_scanpos - 1)
// how the loop was left is recorded for the parent: 0 go on, 1 error item, 2 match
//@   ensures jump$1 == ite(result, 0, ite(arg1 != nil, 1, 2))

// ---- manifestPath: case-insensitive lookup (C13: "names differing only in letter case address the
// ---- same model"; added after seeded change C13-seed4) -------------------------------------------
// What the property needs of manifestPath: the path answered for a name is a function of the
// case-folded wanted path and of the links on disk, the same for every spelling: the FIRST link (in
// the order c.links() yields them) that equals Join("manifests", nameToPath(name)) under case
// folding, or - only when NO link on disk matches - the canonical Join(c.dir, that path). Any answer
// that does not come out of the scan (an exact-spelling shortcut, a remembered path, a skip of the
// scan for "already canonical" names) gives two spellings of one name different files as soon as two
// links differing only in case exist.
// Model of the directory listing (uninterpreted; file-system state, assumed fixed during one call):
// c.links() yields the items 0 .. nlnk(dir)-1; item k is the link lnk(dir, k), or an error item
// (lnkbad(dir, k): the glob failed). lnkclear(dir, m, p): none of the items 0..p-1 is an error or
// equals m under case folding. blid / blstr: identity casts string <-> ghost integer (as nmid / nmstr
// in the names contract).
//@ spec func lnk(dir string, k int) string
//@ spec func nlnk(dir string) int
//@ spec func lnkbad(dir string, k int) bool
//@ spec func lnkclear(dir string, m string, p int) bool = forall j int :: 0 <= j && j < p ==> !lnkbad(dir, j) && !sfoldeq(m, lnk(dir, j))
//@ spec func blid(s string) int = s
//@ spec func blstr(i int) string = i

//@ extern func (*DiskCache).links
//@   modifies nothing

// the listing itself (body of the iterator c.links() returns): the items are the matches of ONE glob
// over the whole manifests tree below c.dir - every host, namespace, model and tag directory, whatever
// its spelling (a pattern narrowed to the wanted spelling of a directory would be an exact-case
// lookup) -, handed to the loop body in the order Glob returned them, each exactly once, with a nil
// error, and nothing is yielded after the body returned false; a failed glob is one error item.
// (`call #3` / `call #5`: the two calls of the function parameter yield, which has no name the selector could use; before-selectors also count the builtin len(manifests) as #4, after-selectors do not: the same yield call is `call #5` / `after call #4`)
//@ func (*DiskCache).links$1
//@   assert-at call os.DirFS #1 : arg0 == c.dir
//@   assert-at call io/fs.Glob #1 : arg0 == fsys && arg1 == "manifests/*/*/*/*"
//@   ghost-at entry : ghost_stopped := 0
//@   ghost-at entry : ghost_yielded := 0
//@   loop 1 invariant ghost_stopped == 0 && ghost_yielded == rangeindex + 1 && err == nil
//@   assert-at call #3 : arg0 == "" && arg1 == err && err != nil && ghost_yielded == 0
//@   assert-at call #5 : ghost_stopped == 0 && 0 <= ghost_yielded && ghost_yielded < len(manifests) && arg0 == manifests[ghost_yielded] && arg1 == nil
//@   ghost-at after call #4 : ghost_yielded := ghost_yielded + 1
//@   ghost-at after call #4 : ghost_stopped := ite(result, 0, 1)
// the iterator returns only after the body said stop, after the single error item, or after ALL matches were yielded
//@   assert-at return : err != nil || ghost_stopped == 1 || ghost_yielded == len(manifests)

//@ extern func (*DiskCache).manifestPath
//@   modifies nothing
//@   opt frame assume      -- the frame stays trusted as before (extern view); the call of the iterator value has no contract
//@   ghost-at entry : ghost_scanned := 0
//@   ghost-at entry : ghost_exit := 0 - 1
//@   ghost-at entry : ghost_maybe := 0
//@   assert-at call nameToPath #1 : arg0 == name
//@   assert-at call path/filepath.Join #1 : len(arg0) == 2 && arg0[0] == "manifests" && arg0[1] == np
//@   ghost-at after call path/filepath.Join #1 : ghost_maybe := blid(result)
//@   assert-at call links #1 : arg0 == c
// the wanted path the loop body compares with is that join, unchanged, and the scan starts at item 0
//@   assert-at call iter.(Seq2) #1 : maybe == blstr(ghost_maybe)
//@   ghost-at call iter.(Seq2) #1 : c.ghost_scanpos := 0
//@   ghost-at after call iter.(Seq2) #1 : ghost_scanned := 1
//@   ghost-at after call iter.(Seq2) #1 : ghost_exit := jump$1
// Glue (listed assumption, props/C13.json): the value c.links() returns only calls the loop body
// manifestPath$1, one call after the other, with the items 0, 1, 2, ... of the listing, stops after the
// first call that returns false, and returns normally once the items are exhausted. Every clause below
// is then a consequence of the VERIFIED contract of manifestPath$1 (its postconditions that are also
// its preconditions): jump$1 is what the body last stored; if the loop was not left by the body
// (jump$1 == 0), every item went through the body and each call returned true.
//@   assume-at after call iter.(Seq2) #1 : jump$1 == 0 || jump$1 == 1 || jump$1 == 2
//@   assume-at after call iter.(Seq2) #1 : jump$1 == 0 ==> c.ghost_scanpos == nlnk(c.dir) && lnkclear(c.dir, maybe, c.ghost_scanpos)
// Every return (stated without ordinal: a return added anywhere is covered):
// a path (nil error) is answered only after the scan of the links - nothing decided before it, by
// whatever shortcut, can know which spelling the first matching link has ...
//@   assert-at return : result.1 == nil ==> ghost_scanned == 1
// ... before the scan there is only the refusal of nameToPath, without a path ...
//@   assert-at return : ghost_scanned == 0 ==> result.0 == ""
// ... and when the scan was not ended by the loop body (exit 1: error item, exit 2: first match - both
// answered by manifestPath$1, see its contract), no link on disk matches, and the answer is the
// canonical path: the join of c.dir and the wanted path, with a nil error
//@   assert-at return : ghost_scanned == 1 && ghost_exit == 0 ==> lnkclear(c.dir, blstr(ghost_maybe), nlnk(c.dir)) && result.0 == fpjoin2(c.dir, blstr(ghost_maybe)) && result.1 == nil

// ==== C08 extension: functions newly under contract =========================================================

// Open: the cache handed out is rooted at the directory given (c.dir is what GetFile and manifestPath
// build every name from, and nothing else in the package writes it), its test hook is nil (assumption
// A-hook holds for every cache made by Open), an empty directory name is refused, and both
// sub-directories every later store relies on - blobs and manifests - were created below that
// directory before success is reported.
//@ extern func errors.New
//@   modifies nothing
//@   ensures result != nil
//@ func Open
//@   ghost-at entry : ghost_made := 0
//@   assert-at call os.MkdirAll #1 : arg0 == dir && dir != ""
//@   loop 1 invariant len(subdirs) == 2 && subdirs[0] == "blobs" && subdirs[1] == "manifests" && ghost_made == rangeindex + 1 && 0 <= ghost_made
//@   assert-at call os.MkdirAll #2 : 0 <= ghost_made && ghost_made < 2 && arg0 == fpjoin2(dir, subdirs[ghost_made])
//@   ghost-at after call os.MkdirAll #2 : ghost_made := ite(result == nil, ghost_made + 1, ghost_made)
//@   ensures result.1 == nil ==> result.0 != nil && result.0.dir == dir && dir != "" && result.0.testHookBeforeFinalWrite == nil
//@   ensures result.1 == nil ==> ghost_made == 2
//@   ensures result.0 == nil || result.1 == nil

// Chunker.Close closes the handle the chunks were written through (no other), and reports its error.
//@ func (*Chunker).Close
//@   modifies nothing
//@   assert-at call Close #1 : arg0 == c.f
//@   ghost-at entry : ghost_cl := 0
//@   ghost-at after call Close #1 : ghost_cl := ite(result == nil, 1, 0)
//@   ensures result == nil ==> ghost_cl == 1

// Digest: the zero digest is the only invalid one; Sum is the 32 bytes; DigestFromBytes is SHA-256 of
// exactly the bytes given (same abstract model as the hash objects: shabyte of the stream 0 ++ v).
//@ extern func crypto/sha256.Sum256
//@   modifies nothing
//@   ensures forall k int :: 0 <= k && k < 32 ==> result[k] == shabyte(sapp(0, data, len(data)), k)
//@ func (Digest).IsValid
//@   pure reads none
// (engine: `d != Digest{}` is encoded as inequality of the whole abstract byte array, cells beyond 31 included, so
// "valid ==> some byte of the sum is non-zero" cannot be shown; both clauses below are the directions that can)
//@   ensures (exists k int :: 0 <= k && k < 32 && d.sum[k] != 0) ==> result
//@   ensures (forall k int :: d.sum[k] == 0) ==> !result
//@ func (Digest).Sum
//@   pure reads none
//@   ensures forall k int :: 0 <= k && k < 32 ==> result[k] == d.sum[k]
//@ func DigestFromBytes
//@   modifies nothing
// (`v` has the type parameter S: the stream hashed is named at the call that consumes the conversion)
//@   ghost-at entry : ghost_in := 0 - 1
//@   ghost-at after call crypto/sha256.Sum256 #1 : ghost_in := sapp(0, arg0, len(arg0))
//@   ensures forall k int :: 0 <= k && k < 32 ==> result.sum[k] == shabyte(ghost_in, k)
// String: the canonical print "sha256:" + hex of one operand (the sum)
//@ func (Digest).String
//@   modifies nothing
//@   assert-at call fmt.Sprintf #1 : arg0 == "sha256:%x" && len(arg1) == 1

// MarshalText prints the canonical form; UnmarshalText overwrites only the zero digest, only with a digest
// ParseDigest accepted, and leaves the receiver untouched when it reports an error (a manifest's layer
// digests are decoded through it: a half-assigned digest would name another blob).
//@ func (Digest).MarshalText
//@   modifies nothing
//@   assert-at call String #1 : arg0 == d
//@   ensures result.1 == nil
//@ func (*Digest).UnmarshalText
//@   modifies *d
//@   ghost-at entry : ghost_parsed := 0
//@   ghost-at after call ParseDigest #1 : ghost_parsed := ite(result.1 == nil, 1, 0)
//@   ensures result == nil ==> ghost_parsed == 1
//@   ensures result != nil ==> (forall k int :: 0 <= k && k < 32 ==> d.sum[k] == old(d.sum[k]))
//@   ensures (exists k int :: 0 <= k && k < 32 && old(d.sum[k]) != 0) ==> result != nil
//@   assert-at return #3 : forall k int :: 0 <= k && k < 32 ==> d.sum[k] == v.sum[k]

// Links (observation point of C08: "Links after each operation"), loop body (range-over-func yield closure):
// every link of the listing is handed on as pathToName(that link) with a nil error, an error item is handed on
// once as ("", err) and ends the listing, and the listing goes on exactly as long as the consumer says so.
//@ func (*DiskCache).Links$1$1
//@   requires jump$1 == 0   -- range-over-func protocol (compiler-generated guard)
//@   ghost-at entry : ghost_item := blid(arg0)
//@   ghost-at entry : ghost_name := 0 - 1
//@   ghost-at entry : ghost_more := 0 - 1
//@   assert-at call #1 : arg0 == "" && arg1 != nil
//@   assert-at call pathToName #1 : blid(arg0) == ghost_item
//@   ghost-at after call pathToName #1 : ghost_name := blid(result)
//@   assert-at call #3 : blid(arg0) == ghost_name && arg1 == nil
//@   ghost-at after call #3 : ghost_more := ite(result, 1, 0)
//@   ensures arg1 != nil ==> !result
//@   ensures arg1 == nil ==> (result <==> ghost_more == 1)
//@   ensures jump$1 == ite(result, 0, ite(arg1 != nil, 1, 2))

// pathToName (what Links reports for a link): the "manifests/" prefix is what is trimmed, the scan for the
// last '/' stays inside the rune slice, and a path without a separator is reported as it is.
//@ extern func strings.TrimPrefix
//@   pure
//@   ensures len(result) <= len(s)
//@ func pathToName
//@   modifies nothing
//@   assert-at call strings.TrimPrefix #1 : arg0 == s && arg1 == "manifests/"
//@   loop 1 invariant i < len(rr)

// Links, the iterator body around that loop: what is listed are the links of THIS cache (c.links()), and the
// loop body above is the only consumer the listing is handed to.
// (`panic` is left out of the safe list: the only panic is the compiler-generated range-over-func guard "iterator
// call did not preserve panic", reachable for the engine because the call through the iter.Seq2 value is opaque)
//@ func (*DiskCache).Links$1
//@   opt safe index,slice,div,typeassert,makeslice,shift,nilmap
//@   assert-at call links #1 : arg0 == c
