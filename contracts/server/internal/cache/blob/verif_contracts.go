//go:build verif

// Contracts for package server/internal/cache/blob (property C08), checked by /verif/govc.
// Comment-only.
package blob

// ---- abstract content model -------------------------------------------------------------
// A byte sink (the hash, the underlying writer) carries two ghost integers:
//   ghost_len     number of bytes it has accepted so far
//   ghost_stream  abstract identity of the byte sequence it has accepted so far
// sapp(s, p, n) is the stream s extended by the first n bytes of p; shabyte(s, k) is the
// k-th byte of SHA-256(s). Both are uninterpreted.

//@ spec func sapp(s int, p []byte, n int) int
//@ spec func shabyte(s int, k int) int

// ---- trusted library contracts ----------------------------------------------------------

//@ extern func hash.(Hash).Write
//@   modifies this.ghost_len, this.ghost_stream
//@   ensures result.1 == nil ==> result.0 == len(p)
//@   ensures result.1 == nil ==> this.ghost_len == old(this.ghost_len) + len(p)
//@   ensures result.1 == nil ==> this.ghost_stream == sapp(old(this.ghost_stream), p, len(p))

//@ extern func hash.(Hash).Sum
//@   modifies nothing
//@   ensures len(result) == len(b) + 32
//@   ensures forall k int :: 0 <= k && k < 32 ==> result[len(b) + k] == shabyte(this.ghost_stream, k)

//@ extern func bytes.Equal
//@   modifies nothing
//@   ensures result <==> (len(a) == len(b) && (forall k int :: 0 <= k && k < len(a) ==> a[k] == b[k]))

//@ extern func io.(Writer).Write
//@   modifies this.ghost_len, this.ghost_stream
//@   ensures 0 <= result.0 && result.0 <= len(p)
//@   ensures result.0 < len(p) ==> result.1 != nil
//@   ensures this.ghost_len == old(this.ghost_len) + result.0
//@   ensures this.ghost_stream == sapp(old(this.ghost_stream), p, result.0)

//@ extern func fmt.Errorf
//@   modifies nothing
//@   ensures result != nil

// ---- the hash-gated writer ---------------------------------------------------------------

//@ func (*checkWriter).seterr
//@   modifies w.err
//@   ensures result == err
//@   ensures old(w.err) == nil ==> w.err == err
//@   ensures old(w.err) != nil ==> w.err == old(w.err)

//@ func (*checkWriter).Write
//@   requires w.testHookBeforeFinalWrite == nil
//@   requires w.size < (1 << 62) && len(p) < (1 << 62)
// the hash and the sink are different objects (a hash.Hash is an io.Writer too; ghost fields
// are per object)
//@   requires w.w != w.h
// object invariant (I):
//@   requires w.err == nil ==> w.w.ghost_len == w.n && w.h.ghost_len == w.n && w.w.ghost_stream == w.h.ghost_stream && 0 <= w.n && w.n <= w.size
//@   ensures  w.err == nil ==> w.w.ghost_len == w.n && w.h.ghost_len == w.n && w.w.ghost_stream == w.h.ghost_stream && 0 <= w.n && w.n <= w.size
//@   modifies w.n, w.err, w.h.ghost_len, w.h.ghost_stream, w.w.ghost_len, w.w.ghost_stream
// (P) completeness marker: a sink that holds exactly w.size bytes holds bytes whose SHA-256 is w.d.
// Holds at creation whenever size > 0 (the sink is empty); preserved by every Write, also
// by failing ones.
//@   requires w.w.ghost_len == w.size ==> (forall k int :: 0 <= k && k < 32 ==> w.d.sum[k] == shabyte(w.w.ghost_stream, k))
//@   ensures  w.w.ghost_len == w.size ==> (forall k int :: 0 <= k && k < 32 ==> w.d.sum[k] == shabyte(w.w.ghost_stream, k))
// the sink never grows beyond size, never shrinks
//@   requires w.w.ghost_len <= w.size
//@   ensures  old(w.w.ghost_len) <= w.w.ghost_len && w.w.ghost_len <= w.size
// mechanism: the call of the underlying writer that would bring the sink to full size is
// issued only after the digest of everything hashed - the sink's content plus this whole
// chunk - matched; and no call can take the sink beyond size.
//@   assert-at call io.(Writer).Write #1 : w.w.ghost_len + len(p) <= w.size && w.h.ghost_stream == sapp(w.w.ghost_stream, p, len(p)) && w.h.ghost_len == w.w.ghost_len + len(p)
//@   assert-at call io.(Writer).Write #1 : w.w.ghost_len + len(p) == w.size ==> (forall k int :: 0 <= k && k < 32 ==> w.d.sum[k] == shabyte(sapp(w.w.ghost_stream, p, len(p)), k))
// (3) sticky error: after an error every later Write returns it and touches nothing
//@   ensures old(w.err) != nil ==> result.0 == 0 && result.1 == old(w.err) && w.err == old(w.err) && w.n == old(w.n)
//@   ensures old(w.err) != nil ==> w.w.ghost_len == old(w.w.ghost_len) && w.w.ghost_stream == old(w.w.ghost_stream)
//@   ensures result.1 != nil ==> w.err != nil
//@   ensures result.1 == nil ==> result.0 == len(p) && w.err == nil
// (4) over-long input is refused without touching the sink; size 0 accepts no byte
//@   ensures old(w.err) == nil && old(w.n) + len(p) > w.size ==> result.0 == 0 && result.1 != nil && w.w.ghost_len == old(w.w.ghost_len) && w.w.ghost_stream == old(w.w.ghost_stream)
//@   ensures w.size <= 0 ==> w.w.ghost_len == old(w.w.ghost_len)
// accounting
//@   ensures 0 <= result.0 && result.0 <= len(p)
//@   ensures old(w.err) == nil ==> w.n == old(w.n) + result.0 && w.w.ghost_len == old(w.w.ghost_len) + result.0
//@   ensures w.size == old(w.size) && w.d == old(w.d)

// ---- file system (trusted, only what is used) -------------------------------------------

//@ extern func io/fs.(FileInfo).Size
//@   pure reads none
//@   ensures result >= 0
//@ extern func io/fs.(FileInfo).ModTime
//@   pure reads none
//@ extern func os.Stat
//@   modifies nothing
//@   ensures result.1 == nil ==> result.0 != nil
//@ extern func os.OpenFile
//@   modifies nothing
//@   ensures result.1 == nil ==> result.0 != nil && fresh(result.0)
// a just opened file has accepted no byte through this handle
//@   ensures result.1 == nil ==> result.0.ghost_len == 0 && result.0.ghost_stream == 0
//@ extern func os.(*File).Close
//@   modifies nothing
//@ extern func os.(*File).Truncate
//@   modifies nothing
//@ extern func os.Remove
//@   modifies nothing
//@ extern func os.Chtimes
//@   modifies nothing
//@ extern func crypto/sha256.New
//@   modifies nothing
//@   ensures result != nil && result.ghost_len == 0 && result.ghost_stream == 0 && !tagis(result, "*os.File")
//@ extern func io.Copy
//@   modifies boxed(dst)
//@   ensures result.0 >= 0

//@ extern func (*DiskCache).GetFile
//@   pure reads none

// ---- copyNamedFile -------------------------------------------------------------------------
// returns in source order: 1 already there  2 open failed  3 size 0  4 copy error
// 5 short source  6 close error  7 stored
//@ func (*DiskCache).copyNamedFile
//@   requires c.testHookBeforeFinalWrite == nil
//@   requires 0 <= size && size < (1 << 62)
// the copy is skipped only for a file of exactly the expected size
//@   assert-at return #1 : err == nil && info.Size() == size
// a longer file is cut when it is opened: whatever is on disk when the first byte is written
// is shorter than size, so that only the final Write can bring the file to size bytes
//@   assert-at call os.OpenFile #1 : arg0 == name && (mode & 64) != 0 && ((err == nil && info.Size() > size) ==> (mode & 512) != 0)
// ghost_wrote: the copy was started; ghost_cleaned: Truncate(0) or Remove(name) was issued
//@   ghost-at entry : ghost_wrote := 0
//@   ghost-at entry : ghost_cleaned := 0
//@   ghost-at call io.Copy #1 : ghost_wrote := 1
//@   assert-at call Truncate #1 : arg0 == f && arg1 == 0
//@   assert-at call Truncate #2 : arg0 == f && arg1 == 0
//@   assert-at call os.Remove #1 : arg0 == name
//@   ghost-at after call Truncate #1 : ghost_cleaned := 1
//@   ghost-at after call Truncate #2 : ghost_cleaned := 1
//@   ghost-at after call os.Remove #1 : ghost_cleaned := 1
// Engine gap (listed assumption): cw.w was assigned f two lines above; the engine keeps the
// ghost fields of the pointer f and of the interface value that boxes it (after it went
// through the field cw.w) in different places. They are the same object.
//@   assume-at call io.Copy #1 : cw.w.ghost_len == f.ghost_len && cw.w.ghost_stream == f.ghost_stream
// the writer handed to io.Copy satisfies the preconditions of (*checkWriter).Write
//@   assert-at call io.Copy #1 : cw.err == nil && cw.n == 0 && cw.size == size && size > 0 && cw.d == out && cw.testHookBeforeFinalWrite == nil && cw.w != cw.h
//@   assert-at call io.Copy #1 : cw.w.ghost_len == 0 && cw.h.ghost_len == 0 && cw.w.ghost_stream == cw.h.ghost_stream
// every return once the copy was started: nil after a complete, error-free copy and close,
// or an error after Truncate(0) / Remove(name)
//@   assert-at return #1 : ghost_wrote == 0
//@   assert-at return #2 : ghost_wrote == 0
//@   assert-at return #3 : ghost_wrote == 0 && size == 0
//@   assert-at return #4 : ghost_cleaned == 1
//@   assert-at return #5 : ghost_cleaned == 1
//@   assert-at return #6 : ghost_cleaned == 1
//@   assert-at return #7 : ghost_wrote == 1 && n == size
//@   assert-at call Close #2 : n == size && err == nil
// Glue (listed assumption): io.Copy(cw, file) only calls cw.Write, one call after the other,
// stops at the first error and returns the sum of the counts and that error. Every clause
// below is a postcondition of (*checkWriter).Write that is also one of its preconditions
// (or follows from its modifies clause), i.e. an invariant of any sequence of Write calls
// that starts in the state asserted at `call io.Copy` above.
//@   assume-at after call io.Copy #1 : cw.size == size && cw.d == out && cw.testHookBeforeFinalWrite == nil
//@   assume-at after call io.Copy #1 : cw.err == nil ==> cw.w.ghost_len == cw.n && cw.h.ghost_len == cw.n && cw.w.ghost_stream == cw.h.ghost_stream && 0 <= cw.n && cw.n <= cw.size
//@   assume-at after call io.Copy #1 : cw.w.ghost_len <= cw.size && (cw.w.ghost_len == cw.size ==> (forall k int :: 0 <= k && k < 32 ==> cw.d.sum[k] == shabyte(cw.w.ghost_stream, k)))
//@   assume-at after call io.Copy #1 : result.0 == cw.n && (result.1 == nil ==> cw.err == nil)
// ... hence: on the success path the sink holds exactly size bytes whose SHA-256 is out; on
// every path a sink of size bytes has that hash
// (cw.w is the sink, i.e. the file f: `w: f` in the literal, never reassigned)
// (stated where the success path begins, before the final Close: the call of c.now() on the way
// to `return nil` is a call through a function value, after which the engine knows nothing)
//@   assert-at call Close #2 : cw.w.ghost_len == size && (forall k int :: 0 <= k && k < 32 ==> out.sum[k] == shabyte(cw.w.ghost_stream, k))
//@   assert-at return #4 : cw.w.ghost_len <= size && (cw.w.ghost_len == size ==> (forall k int :: 0 <= k && k < 32 ==> out.sum[k] == shabyte(cw.w.ghost_stream, k)))
//@   assert-at return #5 : cw.w.ghost_len < size
//@   assert-at return #6 : cw.w.ghost_len == size && (forall k int :: 0 <= k && k < 32 ==> out.sum[k] == shabyte(cw.w.ghost_stream, k))
