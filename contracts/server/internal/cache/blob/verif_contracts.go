//go:build verif

// Contracts for package server/internal/cache/blob (property C08), checked by /verif/govc.
// Comment-only.
package blob

// ---- abstract content model -------------------------------------------------------------
// A byte sink (the hash, the underlying writer) carries two ghost integers:
//   ghost_len     number of bytes it has accepted so far
//   ghost_stream  abstract identity of the byte sequence it has accepted so far
// sapp(s, p, n) is the stream s extended by the first n bytes of p; shabyte(s, k) is the
// k-th byte of SHA-256(s). Both are uninterpreted.

//@ spec func sapp(s int, p []byte, n int) int
//@ spec func shabyte(s int, k int) int

// ---- trusted library contracts ----------------------------------------------------------

//@ extern func hash.(Hash).Write
//@   modifies this.ghost_len, this.ghost_stream
//@   ensures result.1 == nil ==> result.0 == len(p)
//@   ensures result.1 == nil ==> this.ghost_len == old(this.ghost_len) + len(p)
//@   ensures result.1 == nil ==> this.ghost_stream == sapp(old(this.ghost_stream), p, len(p))

//@ extern func hash.(Hash).Sum
//@   modifies nothing
//@   ensures len(result) == len(b) + 32
//@   ensures forall k int :: 0 <= k && k < 32 ==> result[len(b) + k] == shabyte(this.ghost_stream, k)

//@ extern func bytes.Equal
//@   modifies nothing
//@   ensures result <==> (len(a) == len(b) && (forall k int :: 0 <= k && k < len(a) ==> a[k] == b[k]))

//@ extern func io.(Writer).Write
//@   modifies this.ghost_len, this.ghost_stream
//@   ensures 0 <= result.0 && result.0 <= len(p)
//@   ensures result.0 < len(p) ==> result.1 != nil
//@   ensures this.ghost_len == old(this.ghost_len) + result.0
//@   ensures this.ghost_stream == sapp(old(this.ghost_stream), p, result.0)

//@ extern func fmt.Errorf
//@   modifies nothing
//@   ensures result != nil

// ---- the hash-gated writer ---------------------------------------------------------------

//@ func (*checkWriter).seterr
//@   modifies w.err
//@   ensures result == err
//@   ensures old(w.err) == nil ==> w.err == err
//@   ensures old(w.err) != nil ==> w.err == old(w.err)

//@ func (*checkWriter).Write
//@   requires w.testHookBeforeFinalWrite == nil
//@   requires w.size < (1 << 62) && len(p) < (1 << 62)
// the hash and the sink are different objects (a hash.Hash is an io.Writer too; ghost fields
// are per object)
//@   requires w.w != w.h
// object invariant (I):
//@   requires w.err == nil ==> w.w.ghost_len == w.n && w.h.ghost_len == w.n && w.w.ghost_stream == w.h.ghost_stream && 0 <= w.n && w.n <= w.size
//@   ensures  w.err == nil ==> w.w.ghost_len == w.n && w.h.ghost_len == w.n && w.w.ghost_stream == w.h.ghost_stream && 0 <= w.n && w.n <= w.size
//@   modifies w.n, w.err, w.h.ghost_len, w.h.ghost_stream, w.w.ghost_len, w.w.ghost_stream
// (P) completeness marker: a sink that holds exactly w.size bytes holds bytes whose SHA-256 is w.d.
// Holds at creation whenever size > 0 (the sink is empty); preserved by every Write, also
// by failing ones.
//@   requires w.w.ghost_len == w.size ==> (forall k int :: 0 <= k && k < 32 ==> w.d.sum[k] == shabyte(w.w.ghost_stream, k))
//@   ensures  w.w.ghost_len == w.size ==> (forall k int :: 0 <= k && k < 32 ==> w.d.sum[k] == shabyte(w.w.ghost_stream, k))
// the sink never grows beyond size, never shrinks
//@   requires w.w.ghost_len <= w.size
//@   ensures  old(w.w.ghost_len) <= w.w.ghost_len && w.w.ghost_len <= w.size
// mechanism: the call of the underlying writer that would bring the sink to full size is
// issued only after the digest of everything hashed - the sink's content plus this whole
// chunk - matched; and no call can take the sink beyond size.
//@   assert-at call io.(Writer).Write #1 : w.w.ghost_len + len(p) <= w.size && w.h.ghost_stream == sapp(w.w.ghost_stream, p, len(p)) && w.h.ghost_len == w.w.ghost_len + len(p)
//@   assert-at call io.(Writer).Write #1 : w.w.ghost_len + len(p) == w.size ==> (forall k int :: 0 <= k && k < 32 ==> w.d.sum[k] == shabyte(sapp(w.w.ghost_stream, p, len(p)), k))
// (3) sticky error: after an error every later Write returns it and touches nothing
//@   ensures old(w.err) != nil ==> result.0 == 0 && result.1 == old(w.err) && w.err == old(w.err) && w.n == old(w.n)
//@   ensures old(w.err) != nil ==> w.w.ghost_len == old(w.w.ghost_len) && w.w.ghost_stream == old(w.w.ghost_stream)
//@   ensures result.1 != nil ==> w.err != nil
//@   ensures result.1 == nil ==> result.0 == len(p) && w.err == nil
// (4) over-long input is refused without touching the sink; size 0 accepts no byte
//@   ensures old(w.err) == nil && old(w.n) + len(p) > w.size ==> result.0 == 0 && result.1 != nil && w.w.ghost_len == old(w.w.ghost_len) && w.w.ghost_stream == old(w.w.ghost_stream)
//@   ensures w.size <= 0 ==> w.w.ghost_len == old(w.w.ghost_len)
// accounting
//@   ensures 0 <= result.0 && result.0 <= len(p)
//@   ensures old(w.err) == nil ==> w.n == old(w.n) + result.0 && w.w.ghost_len == old(w.w.ghost_len) + result.0
//@   ensures w.size == old(w.size) && w.d == old(w.d)
