//go:build verif

// Contracts for package server/internal/client/ollama (property C09), checked by /verif/govc.
// Comment-only.
package ollama

// ---- trusted library contracts (only what the functions below call) -----------------------
// errgroup / atomic / context / net/http objects carry no modelled heap state: what the
// goroutines started by g.Go do to shared counters is external state (see props/C09.json).

//@ extern func golang.org/x/sync/errgroup.(*Group).Wait
//@   modifies nothing
//@ extern func golang.org/x/sync/errgroup.(*Group).SetLimit
//@   modifies nothing
//@ extern func golang.org/x/sync/errgroup.(*Group).Go
//@   modifies nothing
//@ extern func sync/atomic.(*Int64).Load
//@   modifies nothing
//@ extern func sync/atomic.(*Int64).Add
//@   modifies nothing

//@ extern func server/internal/cache/blob.DigestFromBytes
//@   pure
// slog.AnyValue is used in specifications only, as an uninterpreted function of a value boxed into
// `any` (the engine boxes a concrete argument passed to an interface parameter of a pure program
// function): `slog.AnyValue(argN[i]) == slog.AnyValue(x)` holds when the variadic operand i is the
// boxed x and cannot be proved once the operand is another term.
//@ extern func server/internal/cache/blob.(Digest).IsValid
//@   pure reads none
//@ extern func log/slog.AnyValue
//@   pure reads none

// ---- helpers of this package that are not verified here (trusted frames) ------------------

// ((*Registry).Resolve: was a trusted extern; contract with verified body in the coverage extension at the end of this file)
// ((*Registry).cache: was a trusted extern; contract with verified body at the end of this file)
//@ extern func (*Registry).maxStreams
//@   pure reads none
//@ extern func traceFromContext
//@   modifies nothing
//@ extern func (*Trace).update
//@   modifies nothing

// Pull$2: the per-layer download function (a closure called synchronously by Pull; it
// starts the chunk goroutines with g.Go and returns).
// Its body is verified (frame `modifies nothing` as before, now checked): the chunked writer is
// opened for THIS layer's digest and size (a writer opened under another digest would put verified
// chunks into another blob's file while the byte count still adds up), the chunk plan is requested
// for the same layer, and the closer goroutine is registered before the first chunk is requested.
// Trusted frames: c.Chunked (creates/opens the blob file), chunksums (returns a closure), the call of
// the iterator value (runs chunksums$1, which calls the loop body Pull$2$3: both are under contract),
// the deferred error reporter Pull$2$1 (`if err != nil { update(0, err) }`: calls the unknown
// function value update).
//@ extern func server/internal/cache/blob.(*DiskCache).Chunked
//@   modifies nothing
//@   ensures result.1 == nil ==> result.0 != nil
// ((*Registry).chunksums: was a trusted extern; contract with verified body in the coverage extension at the end of this file)
//@ extern func iter.(Seq2)
//@   modifies nothing
//@ extern func (*Registry).Pull$2$1
//@   modifies nothing
//@ func (*Registry).Pull$2$2
//@   modifies nothing
//@ func (*Registry).Pull$2
//@   modifies nothing
//@   opt safe index,slice,div,typeassert,makeslice,shift,nilmap     -- (no safe.panic: the `iterator call did not preserve panic` check of go/ssa's range-over-func lowering reads jump$3 after the unknown iterator call)
//@   assert-at call Chunked #1 : arg0 == c && arg1 == l.Digest && arg2 == l.Size
//@   assert-at call chunksums #1 : arg0 == r && arg2 == name && arg3 == l
//@   ghost-at entry : ghost_opened := 0
//@   ghost-at after call Chunked #1 : ghost_opened := ite(result.1 == nil, 1, 0)
//@   assert-at call chunksums #1 : ghost_opened == 1        -- the chunk plan is requested only after the writer was opened without error

// ---- Pull ----------------------------------------------------------------------------------
// Loops: 1 announce layers / sum expected   2 per layer: cached or download
//@ func (*Registry).Pull
//@   ghost-at entry : ghost_waited := 0
//@   ghost-at entry : ghost_stored := 0
//@   ghost-at entry : ghost_exp := 0
//@   ghost-at after call errgroup.(*Group).Wait #1 : ghost_waited := ite(result == nil, 1, 0)
//@   ghost-at after call PutBytes #1 : ghost_stored := ite(result == nil, 1, 0)
//@   assert-at call PutBytes #1 : ghost_waited == 1
//@   assert-at call Link #1 : ghost_waited == 1 && ghost_stored == 1
// the byte counter is read after the wait and compared with the expected total
//@   ghost-at entry : ghost_recv := -1
//@   ghost-at after call atomic.(*Int64).Load #1 : ghost_recv := result
//@   assert-at call PutBytes #1 : ghost_recv == expected
//@   assert-at call Link #1 : ghost_recv == expected
// expected is the sum of the sizes of all layers announced (ghost mirror of loop 1)
//@   ghost-at after call update #1 : ghost_exp := ghost_exp + l.Size
//@   loop 1 invariant expected == ghost_exp
// range assumption (sizes come from the registry's manifest and are NOT validated by Pull):
// with |Size| < 2^40 and at most 2^20 layers the int64 sum does not wrap
//@   assume-at after call update #1 : -(1 << 40) < l.Size && l.Size < (1 << 40)
//@   assume-at call traceFromContext #1 : len(layers) <= (1 << 20)
//@   loop 1 invariant -(rangeindex + 1) * (1 << 40) <= expected && expected <= (rangeindex + 1) * (1 << 40)
// what is stored is the manifest data under its own digest; what is linked is that digest
// (md is the result of DigestFromBytes(m.Data): asserted at that call; then md goes to both)
//@   assert-at call DigestFromBytes #1 : arg0 == m.Data
// (`arg0 == c` is not stated: the engine forwards the SSA load of the captured local c but reads
// the spec-level c through the heap that loop 2 havocs - the two disagree)
//@   assert-at call PutBytes #1 : arg1 == md && arg2 == m.Data
//@   assert-at call Link #1 : arg1 == m.Name && arg2 == md
//@   assume-at call PutBytes #1 : arg0.testHookBeforeFinalWrite == nil     -- production caches have no test hook
//@   assume-at call Link #1 : arg0.testHookBeforeFinalWrite == nil         -- production caches have no test hook
//@   opt safe+ nil
// nil layers: loop 1 dereferences every element (obligation safe.nil at registry.go:495 -
// a manifest {"layers":[null]} from the registry panics there: genuine defect); loop 2 relies on it
//@   loop 1 invariant forall k int :: 0 <= k && k <= rangeindex ==> layers[k] != nil
//@   loop 2 invariant forall k int :: 0 <= k && k < len(layers) ==> layers[k] != nil
// the only shortcut: a layer is reported as complete without a download when the cache has a
// file of exactly the manifest's size under the layer's digest (SIZE ONLY - see not_decided)
//@   assert-at call Get #1 : arg1 == l.Digest
//@   assert-at call Pull$1 #1 : err == nil && info.Size == l.Size && arg0 == l.Size && arg1 == ErrCached
// "every layer of the manifest": the slice both loops walk starts with all of m.Layers, in order,
// followed by the config layer when the manifest names one (a sliced/filtered copy, or a dropped
// config append, would let Pull succeed without ever looking at the left-out layer)
//@   assert-at call traceFromContext #1 : len(layers) >= len(m.Layers) && (forall k int :: 0 <= k && k < len(m.Layers) ==> layers[k] == m.Layers[k])
//@   assert-at call traceFromContext #1 : m.Config != nil && m.Config.Digest.IsValid() ==> len(layers) == len(m.Layers) + 1 && layers[len(m.Layers)] == m.Config
// loop 2 deals with EVERY element of layers before the wait: each iteration either takes the
// size-match shortcut (Pull$1) or runs the per-layer download function (Pull$2), for layers[i]
//@   ghost-at entry : ghost_handled := 0
//@   ghost-at after call Pull$1 #1 : ghost_handled := ghost_handled + 1
//@   ghost-at after call Pull$2 #1 : ghost_handled := ghost_handled + 1
//@   loop 2 invariant ghost_handled == rangeindex + 1
//@   assert-at call errgroup.(*Group).Wait #1 : ghost_handled == len(layers)
//@   assert-at call Get #1 : l == layers[rangeindex + 1]      -- (in the body rangeindex still is the previous index)
// loop 1 sums over the same slice, completely
//@   assert-at call errgroup.(*Group).SetLimit #1 : rangeindex + 1 == len(layers)
// "success" (nil) is returned ONLY from the path that passed all of the above: no early `return nil`
// before the wait / the byte-count comparison / the manifest store / the link
//@   ghost-at entry : ghost_complete := 0
//@   ghost-at entry : ghost_linked := 0
//@   ghost-at call DigestFromBytes #1 : ghost_complete := ite(ghost_waited == 1 && ghost_recv == expected && ghost_handled == len(layers), 1, 0)
//@   ghost-at after call Link #1 : ghost_linked := ite(result == nil, 1, 0)
//@   ensures result == nil ==> ghost_complete == 1 && ghost_stored == 1 && ghost_linked == 1

// Pull$1: the `update` closure of a layer. Every report except the "nothing happened"
// one (n == 0 && err == nil) adds exactly n to the shared byte counter `completed`.
//@ func (*Registry).Pull$1
//@   modifies nothing
//@   ghost-at entry : ghost_added := 0
//@   ghost-at after call atomic.(*Int64).Add #1 : ghost_added := 1
//@   assert-at call atomic.(*Int64).Add #1 : arg1 == n      -- (#1 is completed.Add, #2 is received.Add; `arg0 == &completed` is not expressible: engine cannot take the address of a captured variable in a spec)
//@   assert-at return #1 : n == 0 && err == nil
//@   assert-at return #2 : ghost_added == 1

// ---- chunk download goroutine (Pull$2$3$1), started by g.Go for every chunk that has no
// ---- marker blob. It returns nil only after chunked.Put accepted the chunk (Put's writer
// ---- is gated by the CHUNK digest cs.Digest and the chunk's size) and the marker blob
// ---- "v1 pull chunksum <layer> <chunk digest> <start>-<end>" was stored; the marker is
// ---- written only after Put returned nil.
// (sendRequest: was a trusted extern; contract with verified body in the coverage extension at the end of this file)
// ((*Registry).client: was a trusted extern; contract with verified body in the coverage extension at the end of this file)
// ((*Registry).readTimeout: was a trusted extern; contract with verified body in the coverage extension at the end of this file)
//@ extern func context.WithCancelCause
//@   modifies nothing
//@ extern func time.AfterFunc
//@   modifies nothing
//@   ensures result != nil
//@ extern func (*time.Timer).Stop
//@   modifies nothing
//@ extern func net/http.NewRequestWithContext
//@   modifies nothing
//@   ensures result.1 == nil ==> result.0 != nil && fresh(result.0)
//@ extern func net/http.(Header).Set
//@   modifies nothing
// (blob.(*Chunker).Put, (Chunk).Size, (*DiskCache).Get/Link, PutBytes: contracts in the blob package, C08)

//@ extern func context.(CancelCauseFunc)
//@   modifies nothing
//@ extern func io.(ReadCloser).Close
//@   modifies nothing
//@ extern func sync.(*WaitGroup).Done
//@   modifies nothing
//@ extern func sync.(*WaitGroup).Add
//@   modifies nothing
//@ extern func sync.(*WaitGroup).Wait
//@   modifies nothing

// deferred epilogue of the chunk goroutine: `defer wg.Done(); if err != nil { update(0, err) }`
// reads err, never assigns it. Trusted frame (not verified): inside a nested closure the
// captured `update` is a cell holding an unknown function value, so the call `update(0, err)`
// is an unknown callee for the engine (frame obligation cannot be discharged).
//@ extern func (*Registry).Pull$2$3$1$1
//@   modifies nothing

//@ func (*Registry).Pull$2$3$1
// what the goroutine owes blob.(*Chunker).Put; established by the code that yields cs
// (asserted at the g.Go call in Pull$2$3)
//@   requires 0 <= cs.Chunk.Start && cs.Chunk.Start <= cs.Chunk.End + 1 && cs.Chunk.End < (1 << 62)
//@   ghost-at entry : ghost_put := 0
//@   ghost-at entry : ghost_marked := 0
//@   assert-at call Put #1 : arg0 == chunked && arg1 == cs.Chunk && arg2 == cs.Digest
//@   ghost-at after call Put #1 : ghost_put := ite(result == nil, 1, 0)
//@   assert-at call PutBytes #1 : ghost_put == 1 && arg0 == c && arg1 == cacheKeyDigest && arg2 == cacheKey
//@   assume-at call PutBytes #1 : c.testHookBeforeFinalWrite == nil     -- production caches have no test hook
//@   ghost-at after call PutBytes #1 : ghost_marked := ite(result == nil, 1, 0)
//@   ensures result == nil ==> ghost_put == 1 && ghost_marked == 1

// Pull$2$3$1$3: the progress callback of the chunk's trackingReader. It forwards the byte count of
// every Read unchanged to the layer's update closure (Pull$1), so the shared counter that Pull
// compares with `expected` grows by exactly the bytes read - the count is Pull's only protection
// against a chunk list that ends early without an error.
// (`call #3` = update(n, err) at registry.go:615; #1 readTimeout, #2 timer.Reset)
//@ func (*Registry).Pull$2$3$1$3
//@   assert-at call #3 : arg0 == n && arg1 == err

// ---- chunk list parsing (input from the registry: arbitrary bytes) --------------------------
//@ func parseChunk
//@   modifies nothing
//@   ensures result.1 == nil ==> result.0.Start <= result.0.End
//@   ensures result.1 != nil ==> result.0.Start == 0 && result.0.End == 0
// a chunk never starts before the beginning of the layer: the start text is what precedes the first '-',
// so it carries no minus sign (library facts about strings.Cut / strconv.ParseInt, stated below)
//@   ensures result.1 == nil ==> 0 <= result.0.Start

// ---- chunksums$1: the iterator body behind `for cs, err := range r.chunksums(...)` -----------
// ((*Registry).parseNameExtended: was a trusted extern; contract with verified body at the end of this file)
// ((*Registry).maxChunkingThreshold: was a trusted extern; contract with verified body in the coverage extension at the end of this file)
// ((*Registry).newRequest: was a trusted extern; contract with verified body in the coverage extension at the end of this file)
//@ func (*Registry).chunksums$1
// a layer below the chunking threshold is fetched as ONE chunk that spans the whole layer and
// carries the LAYER digest, so blob.(*Chunker).Put verifies the complete content.
// (the yield call itself cannot be selected - function-typed parameter - so this is stated at
// the return that follows it; cs is the local that was yielded)
// `call #8` = the 8th call site in execution order = yield(cs, nil) at registry.go:839
//@   assert-at call #8 : arg1 == nil && arg0.Chunk.Start == 0
//@   assert-at call #8 : l.Size > -(1 << 63) ==> arg0.Chunk.End == l.Size - 1
//@   assert-at call #8 : arg0.Digest == l.Digest
// `call #30` = yield(cs, nil) at registry.go:930 (chunk list case): the chunk and digest are
// the ones just parsed from the same line pair; parseChunk's postcondition gives Start <= End
//@   assert-at call #30 : arg1 == nil && arg0.Chunk.Start == chunk.Start && arg0.Chunk.End == chunk.End && arg0.Chunk.Start <= arg0.Chunk.End
//@   assert-at call #30 : arg0.Digest == d && arg0.URL == blobURL
// (extension) the yielded chunk does not start before the layer (parseChunk's new postcondition)
//@   assert-at call #30 : 0 <= arg0.Chunk.Start

// ---- Pull$2$3: body of `for cs, err := range r.chunksums(ctx, name, l)` (go/ssa compiles the
// ---- range-over-func body into this synthetic yield function; arg0 = cs, arg1 = err) ----------
// Assumed about the yielded pair (see chunksums$1: the two yield sites with a nil error):
//@ func (*Registry).Pull$2$3
//@   requires arg1 == nil ==> 0 <= arg0.Chunk.Start && arg0.Chunk.Start <= arg0.Chunk.End + 1 && arg0.Chunk.End < (1 << 62)
// range-over-func protocol (go/ssa's synthetic state variable): the iterator calls yield only
// while the loop is ready, i.e. not after yield returned false and not re-entrantly
//@   requires jump$3 == 0
// a chunk goroutine is started only after wg.Add(1) (the deferred closer waits for wg), only
// for a chunk without error, and it gets what (*Chunker).Put requires
//@   ghost-at entry : ghost_added := 0
//@   ghost-at after call sync.(*WaitGroup).Add #1 : ghost_added := 1
//@   assert-at call errgroup.(*Group).Go #1 : ghost_added == 1
//@   assert-at call errgroup.(*Group).Go #1 : 0 <= cs.Chunk.Start && cs.Chunk.Start <= cs.Chunk.End + 1 && cs.Chunk.End < (1 << 62)
// the marker blob that lets a chunk be skipped is looked up under the digest of the key text
//@   assert-at call DigestFromBytes #1 : arg0 == cacheKey
//@   assert-at call Get #1 : arg0 == c && arg1 == cacheKeyDigest
// NOT VALIDATED BY THE CODE (fails, genuine): the chunk lies inside the layer
//@   assert-at call errgroup.(*Group).Go #1 : cs.Chunk.End < l.Size
// a chunk whose marker blob exists is reported as received with exactly its size
// (`call #6` = update(cs.Chunk.Size(), ErrCached) at registry.go:571; `call #1` = update(0, err))
//@   assert-at call #6 : arg0 == cs.Chunk.End - cs.Chunk.Start + 1 && arg1 == ErrCached
//@   assert-at call #1 : arg0 == 0 && arg1 != nil
// the marker key names the layer, the chunk digest and the chunk range: a marker written for
// another layer, another digest or another range (e.g. an identical chunk at a different
// offset) must not let this chunk be skipped
//@   ghost-at entry : ghost_marker := 0
//@   ghost-at after call Get #1 : ghost_marker := ite(result.1 == nil, 1, 0)
//@   assert-at call #6 : ghost_marker == 1        -- a chunk is counted without a download only if its marker blob was found
//@   assert-at call fmt.Sprintf #1 : arg0 == "v1 pull chunksum %s %s %d-%d" && len(arg1) == 4
// (the operands are boxed into `any`; slog.AnyValue stands for an uninterpreted function of the boxed value: equal
// on the unchanged code because both sides box the same term, not provable once an operand changes)
//@   assert-at call fmt.Sprintf #1 : slog.AnyValue(arg1[0]) == slog.AnyValue(l.Digest) && slog.AnyValue(arg1[1]) == slog.AnyValue(cs.Digest)
//@   assert-at call fmt.Sprintf #1 : slog.AnyValue(arg1[2]) == slog.AnyValue(cs.Chunk.Start) && slog.AnyValue(arg1[3]) == slog.AnyValue(cs.Chunk.End)

// ---- Pull$2$2$1: the closer goroutine of a layer: the file is closed only after every chunk
// ---- goroutine of the layer called wg.Done
//@ extern func server/internal/cache/blob.(*Chunker).Close
//@   modifies nothing
//@ func (*Registry).Pull$2$2$1
//@   ghost-at entry : ghost_waited := 0
//@   ghost-at after call sync.(*WaitGroup).Wait #1 : ghost_waited := 1
//@   assert-at call Close #1 : ghost_waited == 1 && arg0 == chunked

// ---- Push ------------------------------------------------------------------------------------
// Loops: 1 pre-flight (every layer non-nil, blob present, size matches)   2 start uploads
// ((*Registry).ResolveLocal: was a trusted extern; contract with verified body in the coverage extension at the end of this file)
// ((*Registry).send: was a trusted extern; contract with verified body in the coverage extension at the end of this file)
//@ extern func context.WithCancel
//@   modifies nothing
//@ extern func context.(CancelFunc)
//@   modifies nothing
//@ extern func (server/internal/cache/blob.Digest).Short
//@   pure reads none
//@ func (*Registry).Push
//@   opt safe+ nil
//@   ghost-at entry : ghost_checked := 0
//@   ghost-at entry : ghost_started := 0
//@   ghost-at entry : ghost_waited := 0
// pre-flight: every layer passed the check before the first upload goroutine is started
//@   loop 1 invariant forall k int :: 0 <= k && k <= rangeindex ==> m.Layers[k] != nil
//@   ghost-at call errgroup.(*Group).SetLimit #1 : ghost_checked := 1
//@   assert-at call errgroup.(*Group).SetLimit #1 : forall k int :: 0 <= k && k < len(m.Layers) ==> m.Layers[k] != nil
//@   assert-at call errgroup.(*Group).Go #1 : ghost_checked == 1
//@   ghost-at after call errgroup.(*Group).Go #1 : ghost_started := 1
//@   assert-at call Get #1 : ghost_started == 0 && arg0 == c && arg1 == l.Digest
// commit: the manifest PUT is sent only after g.Wait() returned nil, and it carries m.Data
//@   ghost-at after call errgroup.(*Group).Wait #1 : ghost_waited := ite(result == nil, 1, 0)
//@   assert-at call (*Registry).send #1 : ghost_waited == 1 && arg2 == "PUT" && arg3 == path
//@   assert-at call bytes.NewReader #1 : arg0 == m.Data && ghost_waited == 1
// every layer of the manifest gets an upload goroutine before the wait (loop 2 walks all of
// m.Layers; the goroutine started in iteration i uploads m.Layers[i]); the pre-flight loop saw the
// cache file of every layer with the manifest's size
//@   ghost-at entry : ghost_go := 0
//@   ghost-at after call errgroup.(*Group).Go #1 : ghost_go := ghost_go + 1
//@   loop 2 invariant ghost_go == rangeindex + 1
//@   assert-at call errgroup.(*Group).Wait #1 : ghost_go == len(m.Layers)
//@   assert-at call errgroup.(*Group).Go #1 : l == m.Layers[rangeindex + 1]      -- (in the body rangeindex still is the previous index)
//@   assert-at call Get #1 : l == m.Layers[rangeindex + 1]
//@   assert-at call errgroup.(*Group).SetLimit #1 : rangeindex + 1 == len(m.Layers)
//@   ghost-at entry : ghost_sized := 0
//@   ghost-at after call Get #1 : ghost_sized := ite(result.1 == nil && result.0.Size == l.Size, 1, 0)
//@   loop 1 invariant rangeindex >= 0 ==> ghost_sized == 1
// Push reports success only after the wait returned nil and the manifest PUT was accepted
//@   ghost-at entry : ghost_sent := 0
//@   ghost-at after call (*Registry).send #1 : ghost_sent := ite(result.1 == nil, 1, 0)
//@   ensures result == nil ==> ghost_waited == 1 && ghost_sent == 1

// ---- Push$1: upload goroutine of one layer. It returns nil only if the registry answered
// ---- the POST without an upload location (blob already there) or the PUT of the blob file
// ---- succeeded; the file opened is the cache file of the layer's digest; the PUT goes to the
// ---- location the registry named and announces the layer's size.
//@ extern func (net/http.Header).Get
//@   modifies nothing
// deferred epilogue: reports progress, reads err, assigns nothing
//@ func (*Registry).Push$1$1
//@   modifies nothing
//@ func (*Registry).Push$1
//@   ghost-at entry : ghost_ok := 0
//@   assert-at call (*Registry).send #1 : arg2 == "POST" && arg3 == startURL
//@   assert-at call GetFile #1 : arg0 == c && arg1 == l.Digest
//@   assert-at call os.Open #1 : arg0 == c.GetFile(l.Digest)
//@   assert-at call newRequest #1 : arg2 == "PUT" && arg3 == uploadURL && uploadURL != ""
//@   assert-at call sendRequest #1 : arg1 == req && req.ContentLength == l.Size
//@   ghost-at after call sendRequest #1 : ghost_ok := ite(result.1 == nil, 1, 0)
//@   ghost-at after call update #2 : ghost_ok := 2
//@   assert-at call update #2 : uploadURL == "" && arg2 == l.Size && arg3 == ErrCached
//@   ensures result == nil ==> ghost_ok == 1 || ghost_ok == 2
// the upload session is opened for THIS layer's digest (last operand of the start URL), the PUT
// body is the file that was opened under that digest, and the location is read from the answer
// to the POST
//@   assert-at call fmt.Sprintf #1 : len(arg1) == 5 && slog.AnyValue(arg1[4]) == slog.AnyValue(l.Digest)
//@   assert-at call newRequest #1 : f != nil ==> slog.AnyValue(arg4) == slog.AnyValue(f)
//@   assert-at call (Header).Get #1 : arg0 == res.Header && arg1 == "Location"

// ---- trackingReader.Read: every Read reports exactly the number of bytes it returned
//@ func (*trackingReader).Read
//@   assert-at call (trackingReader).update #1 : arg0 == n && arg1 == nil

// ==== coverage extension: the request helpers and manifest resolution (bodies verified) ==========
// ---- sendRequest: the error mapping every "accepted by the registry" / "chunk fetched" fact rests on:
// ---- a response is returned with a nil error only if its status is 2xx; everything else is an error.
//@ extern func net/http.(*Client).Do
//@   modifies nothing
//@   ensures result.1 == nil ==> result.0 != nil
//@ extern func net/http.(*Request).Clone
//@   modifies nothing
//@   ensures result != nil && fresh(result) && result.URL != nil && fresh(result.URL)
//@ extern func net/http.(*Request).Context
//@   modifies nothing
//@ extern func strings.EqualFold
//@   modifies nothing
// (cloner).Clone is http.(*Transport).Clone behind a local interface: returns a new transport
// (net/http.(*Transport).Clone clones the TLS configuration as well)
//@ extern func (cloner).Clone
//@   modifies nothing
//@   ensures result != nil && fresh(result) && (result.TLSClientConfig == nil || fresh(result.TLSClientConfig))
// cmp.Or returns one of its operands (the first non-zero one, or the zero value = the last operand)
//@ extern func cmp.Or
//@   modifies nothing
//@   ensures len(vals) == 2 ==> result == vals[0] || result == vals[1]
//@   ensures len(vals) == 2 && vals[1] != nil ==> result != nil      -- (meaningful for pointer/interface instantiations only)
//@ func sendRequest
//@   ensures result.1 == nil ==> result.0 != nil && 200 <= result.0.StatusCode && result.0.StatusCode < 300
//@   assume-at return #3 : ErrModelNotFound != nil      -- package-level errors.New value, never reassigned
//@   ghost-at entry : ghost_did := 0
//@   ghost-at after call (*Client).Do #1 : ghost_did := ite(result.1 == nil, 1, 0)
//@   ensures result.1 == nil ==> ghost_did == 1
//@   modifies nothing

// ---- newRequest / send: the request that is sent is the one the caller described (method, URL, body),
// ---- and send's success is sendRequest's success (2xx)
//@ extern func makeAuthToken
//@   modifies nothing
//@ func (*Registry).newRequest
//@   modifies nothing
//@   ensures result.1 == nil ==> result.0 != nil
//@   assert-at call NewRequestWithContext #1 : arg0 == ctx && arg1 == method && arg2 == url && arg3 == body
//@   ghost-at entry : ghost_made := 0
//@   ghost-at after call NewRequestWithContext #1 : ghost_made := ite(result.1 == nil, 1, 0)
//@   ensures result.1 == nil ==> ghost_made == 1
//@ func (*Registry).send
//@   modifies nothing
//@   ensures result.1 == nil ==> result.0 != nil && 200 <= result.0.StatusCode && result.0.StatusCode < 300
//@   assert-at call newRequest #1 : arg0 == r && arg1 == ctx && arg2 == method && arg3 == path && arg4 == body
//@   assert-at call sendRequest #1 : arg1 == req
//@   ghost-at entry : ghost_sent := 0
//@   ghost-at after call sendRequest #1 : ghost_sent := ite(result.1 == nil, 1, 0)
//@   ensures result.1 == nil ==> ghost_sent == 1

// ---- small accessors (were trusted externs)
//@ func (*Registry).client
//@   modifies nothing
//@   ensures r.HTTPClient != nil ==> result == r.HTTPClient
//@ func (*Registry).readTimeout
//@   modifies nothing
//@   ensures result > 0
//@ func (*Registry).maxChunkingThreshold
//@   modifies nothing
//@   ensures result == r.ChunkingThreshold || result == 67108864
//@   ensures result != 0
//@ func (*Error).Temporary
//@   modifies nothing
//@   ensures result <==> e.status >= 500
//@ func (*Registry).chunksums
//@   modifies nothing

// ---- unmarshalManifest: the manifest object carries exactly the bytes it was parsed from (Pull stores
// ---- and links m.Data under its own digest; Push sends m.Data) and its layers are decoded from them
// (no safe.panic: the function panics by design on a name that is not fully qualified - see the report)
//@ extern func encoding/json.Unmarshal
//@   modifies boxed(v)
//@ func unmarshalManifest
//@   opt safe index,slice,div,typeassert,makeslice,shift,nilmap
//@   modifies nothing
//@   ensures result.1 == nil ==> result.0 != nil && fresh(result.0) && result.0.Data == data
//@   assert-at call json.Unmarshal #1 : arg0 == data
//@   ghost-at entry : ghost_dec := 0
//@   ghost-at after call json.Unmarshal #1 : ghost_dec := ite(result == nil, 1, 0)
//@   ensures result.1 == nil ==> ghost_dec == 1

// ---- Resolve: the manifest Pull works on is the one decoded from the body of a successful GET of the
// ---- manifest URL of the requested name
//@ extern func io.ReadAll
//@   modifies nothing
//@ func (*Registry).Resolve
//@   modifies nothing
//@   ensures result.1 == nil ==> result.0 != nil
//@   assert-at call parseNameExtended #1 : arg0 == r && arg1 == name
//@   assert-at call (*Registry).send #1 : arg0 == r && arg1 == ctx && arg2 == "GET" && arg3 == manifestURL && arg4 == nil
//@   assert-at call io.ReadAll #1 : slog.AnyValue(arg0) == slog.AnyValue(res.Body)
//@   assert-at call unmarshalManifest #1 : arg0 == n && arg1 == data
//@   ghost-at entry : ghost_got := 0
//@   ghost-at entry : ghost_parsed := 0
//@   ghost-at after call (*Registry).send #1 : ghost_got := ite(result.1 == nil, 1, 0)
//@   ghost-at after call unmarshalManifest #1 : ghost_parsed := ite(result.1 == nil, 1, 0)
//@   ensures result.1 == nil ==> ghost_got == 1 && ghost_parsed == 1
//@   assert-at call fmt.Sprintf #1 : arg0 == "%s://%s/v2/%s/%s/manifests/%s" && len(arg1) == 5 && slog.AnyValue(arg1[0]) == slog.AnyValue(scheme)
//@   assert-at call fmt.Sprintf #2 : arg0 == "%s://%s/v2/%s/%s/blobs/%s" && len(arg1) == 5 && slog.AnyValue(arg1[0]) == slog.AnyValue(scheme) && slog.AnyValue(arg1[4]) == slog.AnyValue(d)
// a body that could not be read completely is an error, not a (shorter) manifest
//@   ghost-at entry : ghost_read := 0
//@   ghost-at after call io.ReadAll #1 : ghost_read := ite(result.1 == nil, 1, 0)
//@   ensures result.1 == nil ==> ghost_read == 1

// ---- ResolveLocal (Push's source manifest): decoded from the cache file of the digest the name
// ---- resolves to (or of the digest given in the name)
// (blob.(*DiskCache).Resolve: contract in the blob package, C08)
//@ extern func os.ReadFile
//@   modifies nothing
//@ extern func errors.Join
//@   modifies nothing
//@ func (*Registry).ResolveLocal
//@   modifies nothing
//@   ensures result.1 == nil ==> result.0 != nil
//@   assert-at call parseNameExtended #1 : arg0 == r && arg1 == name
//@   assert-at call GetFile #1 : arg0 == c && arg1 == d
//@   assert-at call os.ReadFile #1 : arg0 == c.GetFile(d)
//@   assert-at call unmarshalManifest #1 : arg0 == n && arg1 == data
//@   ghost-at entry : ghost_read := 0
//@   ghost-at entry : ghost_parsed := 0
//@   ghost-at after call os.ReadFile #1 : ghost_read := ite(result.1 == nil, 1, 0)
//@   ghost-at after call unmarshalManifest #1 : ghost_parsed := ite(result.1 == nil, 1, 0)
//@   ensures result.1 == nil ==> ghost_read == 1 && ghost_parsed == 1
//@   assert-at call (*DiskCache).Resolve #1 : arg0 == c
//@   assume-at call (*DiskCache).Resolve #1 : arg0.testHookBeforeFinalWrite == nil     -- production caches have no test hook (same assumption as in Pull)

// ---- Unlink: removes the link of the fully qualified name in this registry's cache
//@ func (*Registry).Unlink
//@   assert-at call (*DiskCache).Unlink #1 : arg0 == c
//@   ghost-at entry : ghost_named := 0
//@   ghost-at after call parseName #1 : ghost_named := ite(result.1 == nil, 1, 0)
//@   assert-at call (*DiskCache).Unlink #1 : ghost_named == 1

// ---- cache(): the configured cache when there is one (the default cache is a sync.OnceValues closure)
//@ func (*Registry).cache
//@   ensures old(r.Cache) != nil ==> result.0 == old(r.Cache) && result.1 == nil

// ---- library facts used by parseChunk's `0 <= Start`
// strings.Cut: `before` is the text in front of the FIRST occurrence of sep
//@ extern func strings.Cut
//@   pure
//@   ensures result.2 <==> scontains(s, sep)
//@   ensures !result.2 ==> result.0 == s && result.1 == ""
//@   ensures result.2 ==> 0 <= sindex(s, sep) && sindex(s, sep) + len(sep) <= len(s)
//@   ensures result.2 ==> result.0 == s[0:sindex(s, sep)] && result.1 == s[sindex(s, sep)+len(sep):len(s)]
//@   ensures result.2 ==> len(result.0) == sindex(s, sep) && len(result.1) == len(s) - sindex(s, sep) - len(sep)
//@   ensures result.2 && len(sep) == 1 ==> forall j int :: 0 <= j && j < len(result.0) ==> result.0[j] != sep[0]
// strconv.ParseInt: the empty string is an error; a text without a leading '-' is not negative
//@ extern func strconv.ParseInt
//@   modifies nothing
//@   ensures result.1 == nil ==> len(s) > 0
//@   ensures result.1 == nil && s[0] != 45 ==> result.0 >= 0

// ---- name parsing (was a trusted frame): an extended name is accepted only with a fully qualified name
// ---- (after merging with the mask) or as a bare valid digest
//@ extern func slices.Contains
//@   modifies nothing
//@ func withPublicMessagef
//@   modifies nothing
//@   ensures result != nil
//@ func splitExtended
//@   modifies nothing
// parseName: a name is accepted only if it is fully qualified after merging with the mask
//@ func (*Registry).parseName
//@   modifies nothing
//@   ensures result.1 == nil ==> result.0.IsFullyQualified()
//@ func (*Registry).parseNameExtended
//@   modifies nothing
//@   ghost-at entry : ghost_named := 0
//@   ghost-at entry : ghost_digest := 0
//@   ghost-at after call parseName #1 : ghost_named := ite(result.1 == nil, 1, 0)
//@   ghost-at after call ParseDigest #1 : ghost_digest := ite(result.1 == nil, 1, 0)
//@   ensures result.3 == nil ==> ghost_named == 1 || ghost_digest == 1
//@   ensures result.3 == nil && ghost_named == 1 ==> result.1.IsFullyQualified()
//@   assert-at call parseName #1 : arg0 == r && arg1 == name
//@   assert-at call ParseDigest #1 : arg0 == digest
