//go:build verif

// Lock order of the scheduler (C02 "never none ... for every interleaving of the scheduler's two
// loops", C15): s.loadedMu is taken BEFORE any runner.refMu (expireRunner, updateFreeSpace,
// findRunnerToUnload, unloadAllRunners, filterGPUsWithoutLoadingModels all do so). A goroutine that
// takes loadedMu while holding a refMu can deadlock with one of them. Obligation lockorder.N at every
// acquisition of loadedMu; functions that acquire it require that their caller holds no refMu
// (goroutine entry points start with no lock held). A runner that is still private to the call
// (allocated there, not yet stored in s.loaded) is exempt: nobody else can wait for its mutex.
package server

//@ lockorder (Scheduler).loadedMu < (runnerRef).refMu
