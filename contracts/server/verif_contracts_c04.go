//go:build verif

// Contracts for package server, properties C04 / C12 (model store: scan-then-remove, order of
// file-system effects, case-insensitive canonicalisation). Checked by /verif/govc.
// Needs the trusted library block of /verif/contracts/types/model/verif_contracts.go
// (props "contract_packages": ["types/model"]) for sfoldeq, fpjoin3 and strings.EqualFold.
package server

// ---- (1) SCAN-THEN-REMOVE --------------------------------------------------------------------
// bname(d): the blob FILE NAME a digest refers to; blobpath(d): the file (what GetBlobsPath computes
// for an accepted digest). Both spellings "sha256:<hex>" and "sha256-<hex>" are accepted and name
// one file, so "data still referenced by another model" is stated over blob names, not over
// digest strings.
//@ spec func bname(d string) string = sreplaceall(d, ":", "-")
//@ spec func blobpath(d string) string = fpjoin3(envconfig.Models(), "blobs", bname(d))

// blobName is the code's bname.
//@ func blobName
//@   pure reads none
//@   ensures result == bname(digest)

// Ghost code of Layer.Remove: ghost_hit == 1 iff a manifest yielded so far by the range over the
// scan result (including the one of the current iteration: the assignment sits at the top of the
// loop body, before the inner loop) has a layer or config whose digest names the same blob file
// as l.Digest (equal blob names).
//@ func (*Layer).Remove
//@   ghost-at after call Manifests #1 : ghost_hit := 0
//@   assume-at call append #1 : fresh(m) && (cap(m.Layers) == 0 || fresh(m.Layers))   -- the scan result is parsed from disk into new objects by Manifests -> ParseNamedManifest (json.Decode into a new Manifest): it shares no memory with *l
//@   ghost-at call append #1 : ghost_hit := ite(ghost_hit == 1 || bname(m.Config.Digest) == bname(l.Digest) || (exists j int :: 0 <= j && j < len(m.Layers) && bname(m.Layers[j].Digest) == bname(l.Digest)), 1, 0)
//@   assume-at call GetBlobsPath : ErrInvalidDigestFormat != nil   -- package-level errors.New value, assigned once at package init, never reassigned
//@   loop 1 invariant ghost_hit == 0 && name == bname(l.Digest)
//@   loop 2 invariant name == bname(l.Digest)
//@   loop 2 invariant ghost_hit == 1 ==> bname(m.Config.Digest) == bname(l.Digest) || (exists j int :: 0 <= j && j < len(m.Layers) && bname(m.Layers[j].Digest) == bname(l.Digest))
//@   loop 2 invariant bname(m.Config.Digest) == bname(l.Digest) || (exists j int :: 0 <= j && j < len(m.Layers) && bname(m.Layers[j].Digest) == bname(l.Digest)) ==> ghost_hit == 1
//@   loop 2 invariant forall j int :: 0 <= j && j <= rangeindex && j < len(m.Layers) ==> bname(m.Layers[j].Digest) != bname(l.Digest)
//@   loop 2 invariant rangeindex >= len(m.Layers) ==> bname(m.Config.Digest) != bname(l.Digest)
//@   assert-at call os.Remove #1 : ghost_hit == 0
//@   assert-at call os.Remove #1 : arg0 == blobpath(l.Digest)
// (round 4) The removal is licensed by a scan that SUCCEEDED (a swallowed scan error leaves an empty
// scan result: "no user found"), and the clauses hold at EVERY os.Remove site of the function, not
// only the first; no other removal primitive is used.
//@   ghost-at entry : ghost_scanok := 0
//@   ghost-at after call Manifests #1 : ghost_scanok := ite(result.1 == nil, 1, 0)
//@   assert-at call os.Remove : ghost_scanok == 1 && ghost_hit == 0 && arg0 == blobpath(l.Digest)
//@   assert-at call os.RemoveAll : false
//@   assert-at call os.Rename : false
//@   assert-at call os.Truncate : false

// deleteUnusedLayers: witd() is an arbitrary fixed digest string (uninterpreted constant: what is
// proved about it holds for every digest). ghost_ref == 1 iff a manifest of the scan whose loop
// iteration has reached its last statement has a layer or config whose digest names the same blob
// file as witd(). Loops: 1 manifests of the scan  2 its layers  3 keys of deleteMap.
//@ spec func witd() string
//@ func deleteUnusedLayers
//@   assume-at call GetBlobsPath : ErrInvalidDigestFormat != nil   -- package-level errors.New value, assigned once at package init, never reassigned
//@   ghost-at after call Manifests #1 : ghost_ref := 0
//@   ghost-at call blobName #2 : ghost_ref := ite(ghost_ref == 1 || bname(manifest.Config.Digest) == bname(witd()) || (exists j int :: 0 <= j && j < len(manifest.Layers) && bname(manifest.Layers[j].Digest) == bname(witd())), 1, 0)
//@   loop 1 invariant fresh(used) && used != nil
//@   loop 1 invariant ghost_ref == 1 ==> has(used, bname(witd()))
//@   loop 1 invariant forall s string :: has(deleteMap, s) <==> old(has(deleteMap, s))
//@   loop 2 invariant fresh(used) && used != nil
//@   loop 2 invariant ghost_ref == 1 ==> has(used, bname(witd()))
//@   loop 2 invariant forall s string :: has(deleteMap, s) <==> old(has(deleteMap, s))
//@   loop 2 invariant forall j int :: 0 <= j && j <= rangeindex ==> has(used, bname(manifest.Layers[j].Digest))
//@   loop 3 invariant ghost_ref == 1 ==> has(used, bname(witd()))
//@   loop 3 invariant forall s string :: has(deleteMap, s) ==> old(has(deleteMap, s))
//@   assert-at call os.Remove #1 : old(has(deleteMap, k))
//@   assert-at call os.Remove #1 : arg0 == blobpath(k)
//@   assert-at call os.Remove #1 : ghost_ref == 1 ==> bname(k) != bname(witd())
// (round 4) as for Layer.Remove: only after a scan that succeeded; at every os.Remove site; no other
// removal primitive.
//@   ghost-at entry : ghost_scanok := 0
//@   ghost-at after call Manifests #1 : ghost_scanok := ite(result.1 == nil, 1, 0)
//@   loop 1 invariant ghost_scanok == 1
//@   loop 2 invariant ghost_scanok == 1
//@   loop 3 invariant ghost_scanok == 1
//@   assert-at call os.Remove : ghost_scanok == 1 && old(has(deleteMap, k)) && arg0 == blobpath(k) && (ghost_ref == 1 ==> bname(k) != bname(witd()))
//@   assert-at call os.RemoveAll : false
//@   assert-at call os.Rename : false
//@   assert-at call os.Truncate : false

// ---- (3) CASE-INSENSITIVE CANONICALISATION ---------------------------------------------------
// strings.EqualFold(s, t) <==> sfoldeq(s, t) (trusted, types/model block); simple case folding
// is an equivalence relation.
// (stated as assumptions at the entry of getExistingName, not as global axioms: sfoldeq is declared
// in the types/model block, which properties that do not touch names do not load)

// rq*(): the requested name (names the argument: the parameter n is an address-taken local that
// the loop overwrites, and old(n.f) does not reach the parameter's value in a loop invariant).
// wx*(): an arbitrary fixed name (uninterpreted constants: what is proved holds for every name);
// ghost_wseen == 1 iff the range over the scan result has yielded exactly that name.
//@ spec func rqh() string
//@ spec func rqn() string
//@ spec func rqm() string
//@ spec func rqt() string
//@ spec func wxh() string
//@ spec func wxn() string
//@ spec func wxm() string
//@ spec func wxt() string
// (a) the result differs from the request at most by letter case;
// (b) "no two listed models differ only by letter case": no name the scan yielded is a case
//     variant of the result without being the result itself. With (a) and transitivity: if some
//     scanned name EqualFolds the request, the result IS that scanned name.
//@ func getExistingName
//@   assume-at entry : n.Host == rqh() && n.Namespace == rqn() && n.Model == rqm() && n.Tag == rqt()   -- naming only: rq* occur nowhere else
//@   assume-at entry : forall s string :: sfoldeq(s, s)    -- case folding is an equivalence relation: reflexive
//@   assume-at entry : forall s string, t string :: sfoldeq(s, t) ==> sfoldeq(t, s)    -- symmetric
//@   assume-at entry : forall s string, t string, u string :: sfoldeq(s, t) && sfoldeq(t, u) ==> sfoldeq(s, u)    -- transitive
//@   ghost-at entry : ghost_wseen := 0
//@   ghost-at call EqualFold #1 : ghost_wseen := ite(ghost_wseen == 1 || (e.Host == wxh() && e.Namespace == wxn() && e.Model == wxm() && e.Tag == wxt()), 1, 0)
//@   loop 1 invariant n.Host == rqh() && n.Namespace == rqn() && n.Model == rqm() && n.Tag == rqt()
//@   loop 1 invariant ghost_wseen == 1 ==> !(sfoldeq(wxh(), rqh()) && sfoldeq(wxn(), rqn()) && sfoldeq(wxm(), rqm()) && sfoldeq(wxt(), rqt()))
//@   loop 2 invariant sfoldeq(n.Host, rqh()) && sfoldeq(n.Namespace, rqn()) && sfoldeq(n.Model, rqm()) && sfoldeq(n.Tag, rqt())
//@   loop 2 invariant ghost_wseen == 1 ==> !(sfoldeq(wxh(), rqh()) && sfoldeq(wxn(), rqn()) && sfoldeq(wxm(), rqm()) && sfoldeq(wxt(), rqt()))
//@   ensures result.1 == nil ==> sfoldeq(result.0.Host, n.Host) && sfoldeq(result.0.Namespace, n.Namespace) && sfoldeq(result.0.Model, n.Model) && sfoldeq(result.0.Tag, n.Tag)
//@   ensures result.1 == nil && ghost_wseen == 1 && sfoldeq(wxh(), result.0.Host) && sfoldeq(wxn(), result.0.Namespace) && sfoldeq(wxm(), result.0.Model) && sfoldeq(wxt(), result.0.Tag) ==> wxh() == result.0.Host && wxn() == result.0.Namespace && wxm() == result.0.Model && wxt() == result.0.Tag
// (round 4) a name is returned only after the store was listed successfully (a swallowed scan error
// would hand back the request unchanged: a case variant of an existing model gets created).
//@   ghost-at entry : ghost_scanok := 0
//@   ghost-at after call Manifests #1 : ghost_scanok := ite(result.1 == nil, 1, 0)
//@   ensures result.1 == nil ==> ghost_scanok == 1
// (coverage extension) canonicalisation only reads the store
//@   assert-at call os.Remove : false
//@   assert-at call os.RemoveAll : false
//@   assert-at call os.Rename : false
//@   assert-at call (*Manifest).Remove : false
//@   assert-at call RemoveLayers : false
//@   assert-at call (*Layer).Remove : false
//@   assert-at call deleteUnusedLayers : false
//@   assert-at call PruneLayers : false
//@   assert-at call PruneDirectory : false
//@   assert-at call WriteManifest : false

// ---- (2) ORDER OF EFFECTS (C04 + C12) --------------------------------------------------------
// The file-system library functions (os.Remove, os.Rename, os.Stat, os.CreateTemp, ...) get no
// contract here: the disk is not modelled, their arguments are strings, so the default
// over-approximation (a callee writes what is type-reachable from its arguments) leaves ghost
// flags and locals alone. The one exception: a file's name is fixed (same clause as in the
// contract file of server/internal/cache/blob; of two declarations the first loaded is in force).
//@ extern func os.(*File).Name
//@   pure reads none

// Logging, formatting and error inspection change nothing in the caller's memory (without a
// frame, a callee with interface-typed arguments is assumed to write every heap cell, including
// maps this function allocated itself).
//@ extern func log/slog.Debug
//@   modifies nothing
//@ extern func log/slog.Info
//@   modifies nothing
//@ extern func log/slog.Warn
//@   modifies nothing
//@ extern func log/slog.Error
//@   modifies nothing
//@ extern func fmt.Sprintf
//@   modifies nothing
//@ extern func errors.Is
//@   pure
//@ extern func io/fs.(DirEntry).Name
//@   pure reads none

// Manifest.Remove: the first effect is os.Remove(m.filepath); directories are pruned, and nil is
// returned, only after that removal returned nil.
//@ func (*Manifest).Remove
//@   ghost-at entry : ghost_unlinked := 0
//@   assert-at call os.Remove #1 : arg0 == m.filepath
//@   ghost-at after call os.Remove #1 : ghost_unlinked := ite(result == nil, 1, 0)
//@   assert-at call PruneDirectory #1 : ghost_unlinked == 1
//@   assert-at return : result == nil ==> ghost_unlinked == 1
// (round 4) the ONLY thing Manifest.Remove unlinks is this manifest's own file (every os.Remove site,
// no os.RemoveAll: removing the model directory would take the other tags - other models - with
// it); the directory prune starts at the manifests root.
//@   assert-at call os.Remove : arg0 == m.filepath
//@   assert-at call os.RemoveAll : false
//@   assert-at call os.Rename : false
//@   assert-at call PruneDirectory #1 : arg0 == manifests

// RemoveLayers removes blobs only through Layer.Remove (scan first).
//@ func (*Manifest).RemoveLayers
// (round 4) ... and through nothing else: no direct removal primitive in this function.
//@   assert-at call os.Remove : false
//@   assert-at call os.RemoveAll : false
//@   assert-at call os.Rename : false
//@   assert-at call os.Truncate : false
// (coverage extension) it touches layers only, one scan each: no manifest is unlinked, no prune is
// started, and an empty digest (a manifest without config) is never handed on.
//@   assert-at call (*Layer).Remove : arg0.Digest != ""
//@   assert-at call (*Manifest).Remove : false
//@   assert-at call deleteUnusedLayers : false
//@   assert-at call PruneLayers : false
//@   assert-at call PruneDirectory : false
//@   assert-at call WriteManifest : false

// DeleteHandler: layers are touched only after Manifest.Remove returned nil for the same manifest
// (so the manifest being deleted no longer protects - and no longer needs - its layers, and a
// crash between the two steps leaves only unreferenced blobs).
//@ func (*Server).DeleteHandler
//@   ghost-at entry : ghost_mgone := 0
//@   ghost-at after call (*Manifest).Remove #1 : ghost_mgone := ite(result == nil, 1, 0)
//@   assert-at call RemoveLayers #1 : ghost_mgone == 1
//@   assert-at call RemoveLayers #1 : arg0 == m
// (round 4) every RemoveLayers / Manifest.Remove site; the manifest removed is the one parsed for the
// requested name; the handler removes nothing directly.
//@   assert-at call RemoveLayers : ghost_mgone == 1 && arg0 == m
//@   assert-at call (*Manifest).Remove : arg0 == m
//@   assert-at call ParseNamedManifest #1 : arg0 == n
//@   assert-at call os.Remove : false
//@   assert-at call os.RemoveAll : false
//@   assert-at call (*Layer).Remove : false
//@   assert-at call deleteUnusedLayers : false
//@   assert-at call PruneLayers : false

// NewLayer: the temp file lives in the blobs directory (same directory as the final name, so the
// rename is a rename within one directory); the rename to the digest name happens only after the
// copy returned without error and the explicit Close returned nil; the destination is
// blobpath(digest); once the temp file exists every return runs the deferred os.Remove(temp.Name()).
//@ func NewLayer
//@   assume-at call GetBlobsPath : ErrInvalidDigestFormat != nil   -- package-level errors.New value, assigned once at package init, never reassigned
//@   ghost-at entry : ghost_tmp := 0
//@   ghost-at entry : ghost_copied := 0
//@   ghost-at entry : ghost_closed := 0
//@   ghost-at entry : ghost_cleaned := 0
//@   assert-at call os.CreateTemp #1 : arg0 == blobs && blobs == blobpath("")
//@   ghost-at after call os.CreateTemp #1 : ghost_tmp := ite(result.1 == nil, 1, 0)
//@   ghost-at after call io.Copy #1 : ghost_copied := ite(result.1 == nil, 1, 0)
//@   ghost-at after call Close : ghost_closed := ite(ghost_copied == 1 && result == nil, 1, 0)
//@   assert-at call os.Rename #1 : ghost_tmp == 1 && ghost_copied == 1 && ghost_closed == 1
//@   assert-at call os.Rename #1 : arg0 == temp.Name() && arg1 == blobpath(digest)
//@   assert-at call os.Chmod #1 : arg0 == blobpath(digest)
//@   assert-at call os.Remove : arg0 == temp.Name()
//@   ghost-at after call os.Remove : ghost_cleaned := 1
//@   assert-at return : ghost_tmp == 1 ==> ghost_cleaned == 1
// (round 4) A layer is returned only for a blob that is in the store under the returned digest:
// the existence test is made on blobpath(digest) itself, and success means that test succeeded or the
// rename succeeded (a swallowed rename error, or a test on another path, returns a layer whose
// blob is missing - the manifest written next would list it). The bytes hashed are the bytes
// written: one io.Copy from r into MultiWriter(temp, hash). The returned record carries that
// digest, the number of bytes copied and the requested media type ("matching digests and sizes").
// Every os.Rename / os.Remove site obeys the clauses above; no other removal primitive.
//@   ghost-at entry : ghost_present := 0
//@   assert-at call os.Stat #1 : arg0 == blobpath(digest) && ghost_copied == 1 && ghost_closed == 1
//@   ghost-at after call os.Stat #1 : ghost_present := ite(result.1 == nil, 1, 0)
//@   ghost-at after call os.Rename #1 : ghost_present := ite(result == nil, 1, ghost_present)
//@   ghost-at entry : ghost_xclosed := 0
//@   ghost-at entry : ghost_indefer := 0
//@   ghost-at call Close~ : ghost_indefer := 1     -- the deferred Close is about to run (the `!`/`~` call filters only work at before-call sites, hence the marker)
//@   ghost-at after call Close : ghost_xclosed := ite(ghost_indefer == 1, ghost_xclosed, ite(ghost_copied == 1 && result == nil, 1, 0))    -- result of the EXPLICIT Close (ghost_closed above is overwritten by the deferred one when the function returns)
//@   assert-at return : result.1 == nil ==> ghost_present == 1 && ghost_copied == 1 && ghost_xclosed == 1
//@   assert-at return #8 : result.1 == nil && result.0.Digest == digest && result.0.Size == n && result.0.MediaType == mediatype
//@   assert-at call io.MultiWriter #1 : len(arg0) == 2 && arg0[1] == sha256sum
//@   assert-at call io.Copy #1 : arg1 == r
//@   ghost-at entry : ghost_mwv := 0
//@   ghost-at entry : ghost_mw := 0
//@   ghost-at after call io.MultiWriter #1 : ghost_mw := 1
//@   ghost-at after call io.MultiWriter #1 : ghost_mwv := result
//@   assert-at call io.Copy #1 : ghost_mw == 1 && arg0 == ghost_mwv      -- the copy goes through the writer that feeds both the temp file and the hash
//@   assert-at call Sum #1 : arg0 == sha256sum
//@   assert-at call os.Rename : ghost_tmp == 1 && ghost_copied == 1 && ghost_closed == 1 && arg0 == temp.Name() && arg1 == blobpath(digest)
//@   assert-at call os.RemoveAll : false
//@   assert-at call os.Truncate : false

// NewLayerFromLayer creates nothing: it returns a layer only for a blob file that exists.
//@ func NewLayerFromLayer
//@   assume-at call GetBlobsPath : ErrInvalidDigestFormat != nil   -- package-level errors.New value, assigned once at package init, never reassigned
//@   ghost-at entry : ghost_stat := 0
//@   assert-at call os.Stat #1 : arg0 == blobpath(digest)
//@   ghost-at after call os.Stat #1 : ghost_stat := ite(result.1 == nil, 1, 0)
//@   assert-at return #4 : ghost_stat == 1 && result.0.Digest == digest && result.1 == nil
// (round 4) every successful return, not only the one at today's position; the size recorded is the
// size of that blob file.
//@   assert-at return : result.1 == nil && digest != "" ==> ghost_stat == 1 && result.0.Digest == digest     -- (guard digest != "": the first return, for an empty digest, hands back errors.New's result, which govc does not know to be non-nil)
//@   assert-at return #4 : result.0.Size == fi.Size() && result.0.MediaType == mediatype
//@   assert-at call os.Remove : false
//@   assert-at call os.Rename : false

// PruneLayers: a directory entry is removed directly only if GetBlobsPath refused its name and
// errors.Is(err, ErrInvalidDigestFormat) held (the digest pattern failed: temp files, -partial
// debris); every other entry goes to deleteUnusedLayers under a name of digest shape. Loop 1:
// directory entries.
//@ func PruneLayers
//@   assume-at call GetBlobsPath : ErrInvalidDigestFormat != nil   -- package-level errors.New value, assigned once at package init, never reassigned
//@   ghost-at entry : ghost_refused := 0
//@   ghost-at entry : ghost_badformat := 0
//@   ghost-at after call GetBlobsPath #2 : ghost_refused := ite(result.1 != nil, 1, 0)
//@   ghost-at after call errors.Is #1 : ghost_badformat := ite(result, 1, 0)
//@   assert-at call errors.Is #1 : arg1 == ErrInvalidDigestFormat
//@   assert-at call os.Remove #1 : ghost_refused == 1 && ghost_badformat == 1
//@   assert-at call os.Remove #1 : arg0 == fpjoin2(p, blob.Name())
//@   loop 1 invariant forall s string :: has(deleteMap, s) ==> s == "" || digestshape(s)
//@   assert-at call deleteUnusedLayers #1 : forall s string :: has(deleteMap, s) ==> s == "" || digestshape(s)
// (round 4) the directory listed is the blobs directory; the direct-removal clause holds at every
// os.Remove site; no other removal primitive.
//@   assert-at call os.ReadDir #1 : arg0 == p && p == blobpath("")
//@   assert-at call os.Remove : ghost_refused == 1 && ghost_badformat == 1 && arg0 == fpjoin2(p, blob.Name())
//@   assert-at call os.RemoveAll : false
//@   assert-at call os.Rename : false
// (coverage extension) the name GetBlobsPath judges is the entry's own name ('-' -> ':'), so the
// direct removal of an entry follows the refusal of THAT entry's name; and the error whose kind is
// tested is the one GetBlobsPath returned.
//@   assert-at call GetBlobsPath #2 : arg0 == sreplaceall(blob.Name(), "-", ":")
//@   assert-at call PruneLayers : false
//@   assert-at call PruneDirectory : false
//@   assert-at call (*Manifest).Remove : false

// PruneDirectory removes a path only if Lstat says it is a directory and not a symlink, all
// entries were visited without error, and a listing read AFTER that is empty.
//@ func PruneDirectory
//@   ghost-at entry : ghost_empty := 0
//@   ghost-at after call os.ReadDir #2 : ghost_empty := ite(result.1 == nil && len(result.0) == 0, 1, 0)
//@   assert-at call os.Remove #1 : ghost_empty == 1 && arg0 == path
// (round 4) every os.Remove site; only what Lstat called a directory; never a whole tree
// (os.RemoveAll would take the manifests below it); the listing that is checked for emptiness and
// the recursion are about `path` itself.
//@   ghost-at entry : ghost_isdir := 0
//@   ghost-at after call IsDir #1 : ghost_isdir := ite(result, 1, 0)
//@   assert-at call os.Remove : ghost_empty == 1 && ghost_isdir == 1 && arg0 == path
//@   assert-at call os.RemoveAll : false
//@   assert-at call os.Lstat #1 : arg0 == path
//@   assert-at call os.ReadDir : arg0 == path
//@   assert-at call PruneDirectory #1 : arg0 == fpjoin2(path, entry.Name())

// fixBlobs: a file is renamed only if its base name is "sha256:<rest>", to "sha256-<rest>" in
// the same directory.
//@ func fixBlobs$1
//@   assert-at call os.Rename #1 : arg0 == path && ok && typ == "sha256"
// (round 4) the new name is in the same directory and is "sha256-<rest>": a blob keeps its digest.
//@   assert-at call Dir #1 : arg0 == path
//@   assert-at call Join #1 : len(arg0) == 2 && arg0[1] == typ + "-" + sha
//@   assert-at call os.Rename : arg1 == newPath
//@   assert-at call os.Remove : false
//@   assert-at call os.RemoveAll : false

// Serve, startup sequence: fixBlobs first; the prune runs only if Manifests(false) - which fails
// on ANY unreadable manifest - returned no error; PruneDirectory only after PruneLayers returned nil.
//@ func Serve
//@   assume-at call GetBlobsPath : ErrInvalidDigestFormat != nil   -- package-level errors.New value, assigned once at package init, never reassigned
//@   ghost-at entry : ghost_fixed := 0
//@   ghost-at entry : ghost_allreadable := 0
//@   ghost-at entry : ghost_pruned := 0
//@   ghost-at after call fixBlobs #1 : ghost_fixed := ite(result == nil, 1, 0)
//@   assert-at call Manifests #1 : ghost_fixed == 1 && arg0 == false
//@   ghost-at after call Manifests #1 : ghost_allreadable := ite(result.1 == nil, 1, 0)
//@   assert-at call PruneLayers #1 : ghost_fixed == 1 && ghost_allreadable == 1
//@   ghost-at after call PruneLayers #1 : ghost_pruned := ite(result == nil, 1, 0)
//@   assert-at call PruneDirectory #1 : ghost_allreadable == 1 && ghost_pruned == 1
// (round 4) fixBlobs walks the blobs directory, the directory prune starts at the manifests root;
// every PruneLayers / PruneDirectory site obeys the order; Serve removes nothing itself.
//@   assert-at call fixBlobs #1 : arg0 == blobpath("")
//@   assert-at call PruneDirectory #1 : arg0 == manifestsPath
//@   assert-at call PruneLayers : ghost_fixed == 1 && ghost_allreadable == 1
//@   assert-at call PruneDirectory : ghost_allreadable == 1 && ghost_pruned == 1
//@   assert-at call deleteUnusedLayers : false
//@   assert-at call os.Remove : false
//@   assert-at call os.RemoveAll : false
// (coverage extension) lock order (verif_contracts_lockorder.go): Serve is the process's entry into the
// server - it is entered with no runner lock held, which is what Scheduler.Run (contract in
// verif_contracts_sched2.go) requires of its caller.
//@   requires !heldany(runnerRef.refMu)

// createModel: every layer is in the blob store before the manifest is written (all calls that
// create or drop layers come before WriteManifest; none after), nil is returned only after
// WriteManifest returned nil.
//@ func createModel
//@   requires fqname(name.Host, name.Namespace, name.Model, name.Tag)
//@   ghost-at entry : ghost_written := 0
//@   assume-at after call errors.New : result != nil    -- library fact (no shared extern contract for errors.New in this package)
//@   assume-at after call fmt.Errorf : result != nil    -- library fact
//@   assert-at call quantizeLayer : ghost_written == 0
//@   assert-at call setTemplate : ghost_written == 0
//@   assert-at call setSystem : ghost_written == 0
//@   assert-at call setLicense : ghost_written == 0
//@   assert-at call setParameters : ghost_written == 0
//@   assert-at call setMessages : ghost_written == 0
//@   assert-at call createConfigLayer : ghost_written == 0
//@   assert-at call WriteManifest #1 : arg1 == *configLayer && arg2 == layers
//@   ghost-at after call WriteManifest : ghost_written := ite(result == nil, 1, 2)
//@   assert-at return : result == nil ==> ghost_written == 1
// (round 4) the manifest is written once, under the name the caller asked for; createModel itself
// removes nothing (the prune of the replaced manifest is the caller's, after success; a clean-up of
// "its" new layers on failure would delete blobs that NewLayer found already in the store).
//@   assert-at call WriteManifest : arg0 == name && ghost_written == 0
//@   assert-at call os.Remove : false
//@   assert-at call os.RemoveAll : false
//@   assert-at call RemoveLayers : false
//@   assert-at call (*Layer).Remove : false
//@   assert-at call deleteUnusedLayers : false

// The create goroutine: the replaced manifest is read before anything is written; its layers are
// pruned only after createModel returned nil (new manifest on disk), through RemoveLayers (scan).
//@ func (*Server).CreateHandler$1
//@   ghost-at entry : ghost_created := 0
//@   ghost-at entry : ghost_oldread := 0
//@   ghost-at after call ParseNamedManifest #1 : ghost_oldread := 1
//@   assert-at call parseFromModel : ghost_oldread == 1
//@   assert-at call convertModelFromFiles : ghost_oldread == 1
//@   assert-at call createModel #1 : ghost_oldread == 1
//@   assume-at call createModel #1 : fqname(name.Host, name.Namespace, name.Model, name.Tag)   -- C13's concern (store confinement), not decided here: name passed IsValid in CreateHandler and getExistingName only substitutes parts of names that Manifests accepted (n.IsValid()); "every key of the scan result is valid" cannot be stated for a map with a struct key
//@   ghost-at after call createModel #1 : ghost_created := ite(result == nil, 1, 0)
//@   assert-at call RemoveLayers #1 : ghost_created == 1 && arg0 == oldManifest
// (round 4) the manifest read as "replaced" is the one of the name being created, createModel gets
// that name; every RemoveLayers site obeys the clause above; nothing else is removed here.
//@   assert-at call ParseNamedManifest #1 : arg0 == name
//@   assert-at call createModel #1 : arg1 == name
//@   assert-at call RemoveLayers : ghost_created == 1 && arg0 == oldManifest
//@   assert-at call os.Remove : false
//@   assert-at call os.RemoveAll : false
//@   assert-at call (*Manifest).Remove : false
//@   assert-at call (*Layer).Remove : false
//@   assert-at call deleteUnusedLayers : false
// (coverage extension) no removal / prune entry point is reachable from here (the sanctioned ones are listed at GetModel below)
//@   assert-at call PruneLayers : false
//@   assert-at call PruneDirectory : false
//@   assert-at call fixBlobs : false
//@   assert-at call os.Rename : false
//@   assert-at call os.WriteFile : false

// removeLayer (create with an overriding template/system/...): blobs are dropped only through
// Layer.Remove (scan first).
//@ func removeLayer$1
// (round 4) ... and through nothing else: no direct removal primitive in the closure.
//@   assert-at call os.Remove : false
//@   assert-at call os.RemoveAll : false
//@   assert-at call os.Rename : false
//@   assert-at call os.Truncate : false
// (coverage extension) only layers of the overridden media type are handed to Layer.Remove and dropped
// from the list: a flipped or dropped media-type test would remove (scan permitting) and unlist the
// model's other layers - the weights of the model being created.
//@   assert-at call (*Layer).Remove : layer.MediaType == mediatype && arg0.Digest == layer.Digest
//@   ensures result ==> layer.MediaType == mediatype

// The scan in Layer.Remove only sees manifests on disk, not the layer list of the model being
// created. So inside one setter the overridden layers are dropped BEFORE the replacement is
// stored: a removal after NewLayer could delete the very blob the new layer points to (same
// content = same digest, NewLayer then reports "using existing layer"), and the manifest
// written afterwards would reference a missing blob (added after seeded change C04-seed1).
//@ extern func removeLayer
//@ func setTemplate
//@   ghost-at entry : ghost_made := 0
//@   ghost-at after call NewLayer #1 : ghost_made := 1
//@   assert-at call removeLayer : ghost_made == 0
//@   assert-at call os.Remove : false      -- (round 4) a setter drops blobs only through removeLayer -> Layer.Remove (scan)
//@   assert-at call os.RemoveAll : false
//@   assert-at call (*Layer).Remove : false
//@ func setSystem
//@   ghost-at entry : ghost_made := 0
//@   ghost-at after call NewLayer #1 : ghost_made := 1
//@   assert-at call removeLayer : ghost_made == 0
//@   assert-at call os.Remove : false      -- (round 4) a setter drops blobs only through removeLayer -> Layer.Remove (scan)
//@   assert-at call os.RemoveAll : false
//@   assert-at call (*Layer).Remove : false
//@ func setParameters
//@   assume-at call GetBlobsPath : ErrInvalidDigestFormat != nil   -- package-level errors.New value, assigned once at package init
//@   ghost-at entry : ghost_made := 0
//@   ghost-at after call NewLayer #1 : ghost_made := 1
//@   assert-at call removeLayer : ghost_made == 0
//@   assert-at call os.Remove : false      -- (round 4) a setter drops blobs only through removeLayer -> Layer.Remove (scan)
//@   assert-at call os.RemoveAll : false
//@   assert-at call (*Layer).Remove : false
//@ func setMessages
//@   ghost-at entry : ghost_made := 0
//@   ghost-at after call NewLayer #1 : ghost_made := 1
//@   assert-at call removeLayer : ghost_made == 0
//@   assert-at call os.Remove : false      -- (round 4) a setter drops blobs only through removeLayer -> Layer.Remove (scan)
//@   assert-at call os.RemoveAll : false
//@   assert-at call (*Layer).Remove : false

// CopyModel touches no blob and writes one manifest: the source is opened before the destination
// is created (truncated), and a copy onto itself (same manifest path) returns before any effect,
// so it never truncates its own source.
//@ extern func types/model.Unqualified
//@   modifies nothing
//@   ensures result != nil
//@ func CopyModel
//@   ghost-at entry : ghost_srcopen := 0
//@   ghost-at after call os.Open #1 : ghost_srcopen := ite(result.1 == nil, 1, 0)
//@   assert-at call os.MkdirAll #1 : fpjoin4(src.Host, src.Namespace, src.Model, src.Tag) != fpjoin4(dst.Host, dst.Namespace, dst.Model, dst.Tag)
//@   assert-at call os.Create #1 : ghost_srcopen == 1 && arg0 == dstpath
//@   assert-at call os.Create #1 : fpjoin4(src.Host, src.Namespace, src.Model, src.Tag) != fpjoin4(dst.Host, dst.Namespace, dst.Model, dst.Tag)
// The copy is a file of its own: success means the source's bytes were copied into the file
// created for the destination (or source and destination are the same path). Manifests are
// rewritten in place by pull and create, so two names must never share one file (a link): a later
// operation on one name would change the other, uninvolved model (added after C12-seed3).
//@   ghost-at entry : ghost_created := 0
//@   ghost-at entry : ghost_copied := 0
//@   ghost-at after call os.Create #1 : ghost_created := ite(result.1 == nil, 1, 0)
//@   ghost-at after call io.Copy #1 : ghost_copied := ite(result.1 == nil, 1, 0)
//@   assert-at call io.Copy #1 : ghost_created == 1 && ghost_srcopen == 1
//@   assert-at return : result == nil ==> (ghost_copied == 1 || fpjoin4(src.Host, src.Namespace, src.Model, src.Tag) == fpjoin4(dst.Host, dst.Namespace, dst.Model, dst.Tag))
// (round 4) which files: the source opened is the manifest of src, the file created is the manifest
// of dst (both below the manifests root), the copy runs from the one into the other; CopyModel
// removes, renames and links nothing.
//@   assert-at call os.Open #1 : arg0 == srcpath && srcpath == fpjoin2(manifests, fpjoin4(src.Host, src.Namespace, src.Model, src.Tag))
//@   assert-at call os.Create #1 : dstpath == fpjoin2(manifests, fpjoin4(dst.Host, dst.Namespace, dst.Model, dst.Tag))
//@   assert-at call os.Create : ghost_srcopen == 1 && arg0 == dstpath
//@   assert-at call os.Remove : false
//@   assert-at call os.RemoveAll : false
//@   assert-at call os.Rename : false
//@   assert-at call os.Link : false
//@   assert-at call os.Symlink : false
//@   assert-at call os.WriteFile : false
// (requested by C13, whose block gives GetManifestPath / manifestfile / fpdir) the three paths in terms
// of the four validated name parts, not of a local: a path built from dst.String() or
// DisplayShortest() (':' in a host, other separators) does not verify.
//@   assert-at call os.Create #1 : arg0 == manifestfile(dst.Host, dst.Namespace, dst.Model, dst.Tag)
//@   assert-at call os.Open #1 : arg0 == manifestfile(src.Host, src.Namespace, src.Model, src.Tag)
//@   assert-at call os.MkdirAll #1 : arg0 == fpdir(manifestfile(dst.Host, dst.Namespace, dst.Model, dst.Tag))

// Manifests(false) - the corrupt-manifest check of the startup sequence - skips nothing silently:
// the three places that skip a directory entry (bad path, invalid name, unreadable manifest) are
// reached only with continueOnError == true; with false each of them returns an error instead.
//@ func Manifests
//@   assert-at call log/slog.Warn : continueOnError
// (round 4) COMPLETENESS OF THE SCAN, as far as a per-function contract reaches: the scan-then-remove
// argument is only as good as the list of manifests. An entry of the glob result is passed over
// without a trace only if os.Stat called it a directory; every other entry either ended in one of the
// three logged skips or had its manifest parsed successfully (what follows is ms[n] = m). A new
// silent `continue` (a filter on names, hosts, file modes, ...) breaks the invariant at its back edge.
// The ghosts hold the index (rangeindex + 1 inside the body) of the entry for which the step was
// last taken. Loop 1: entries of the glob result.
//@   ghost-at entry : ghost_isdir := 0
//@   ghost-at entry : ghost_warned := 0 - 2
//@   ghost-at entry : ghost_parsed := 0 - 2
//@   ghost-at after call IsDir #1 : ghost_isdir := ite(result, 1, 0)
//@   ghost-at call log/slog.Warn : ghost_warned := rangeindex + 1
//@   ghost-at after call ParseNamedManifest #1 : ghost_parsed := ite(result.1 == nil, rangeindex + 1, 0 - 2)
//@   loop 1 invariant rangeindex >= 0 ==> ghost_isdir == 1 || ghost_warned == rangeindex || ghost_parsed == rangeindex
//@   assert-at call ParseNamedManifest #1 : arg0 == n
//@   assert-at call os.Stat #1 : arg0 == match
//@   assert-at call os.Remove : false
//@   assert-at call os.RemoveAll : false

// ---- (3b) THE CALLERS THAT CREATE NAMES (round 4) ---------------------------------------------
// "No two listed models differ only by letter case" needs more than getExistingName's contract:
// every operation that can put a NEW manifest name on disk (create, pull, copy destination) must
// use the name getExistingName returned, and only after it returned without error. ghost_canon is
// set from the recorded result of the call; strid() (uninterpreted, C13 block) names the four
// parts of the returned name so that "the name used is the name returned" can be stated with
// integer ghosts (a request name passed on unchanged, or re-parsed, has unknown ids).
//@ func (*Server).CopyHandler
//@   ghost-at entry : ghost_canon := 0
//@   ghost-at entry : ghost_ch := 0
//@   ghost-at entry : ghost_cn := 0
//@   ghost-at entry : ghost_cm := 0
//@   ghost-at entry : ghost_ct := 0
//@   ghost-at after call getExistingName #2 : ghost_canon := ite(result.1 == nil, 1, 0)
//@   ghost-at after call getExistingName #2 : ghost_ch := strid(result.0.Host)
//@   ghost-at after call getExistingName #2 : ghost_cn := strid(result.0.Namespace)
//@   ghost-at after call getExistingName #2 : ghost_cm := strid(result.0.Model)
//@   ghost-at after call getExistingName #2 : ghost_ct := strid(result.0.Tag)
//@   assert-at call CopyModel : ghost_canon == 1 && strid(arg1.Host) == ghost_ch && strid(arg1.Namespace) == ghost_cn && strid(arg1.Model) == ghost_cm && strid(arg1.Tag) == ghost_ct
//@   assert-at call WriteManifest : false
//@   assert-at call os.Create : false
//@   assert-at call os.WriteFile : false
//@   assert-at call os.Rename : false
// (coverage extension) no removal / prune entry point is reachable from here (the sanctioned ones are listed at GetModel below)
//@   assert-at call os.Remove : false
//@   assert-at call os.RemoveAll : false
//@   assert-at call (*Manifest).Remove : false
//@   assert-at call RemoveLayers : false
//@   assert-at call (*Layer).Remove : false
//@   assert-at call deleteUnusedLayers : false
//@   assert-at call PruneLayers : false
//@   assert-at call PruneDirectory : false

//@ func (*Server).CreateHandler
//@   ghost-at entry : ghost_canon := 0
//@   ghost-at entry : ghost_ch := 0
//@   ghost-at entry : ghost_cn := 0
//@   ghost-at entry : ghost_cm := 0
//@   ghost-at entry : ghost_ct := 0
//@   ghost-at after call getExistingName #1 : ghost_canon := ite(result.1 == nil, 1, 0)
//@   ghost-at after call getExistingName #1 : ghost_ch := strid(result.0.Host)
//@   ghost-at after call getExistingName #1 : ghost_cn := strid(result.0.Namespace)
//@   ghost-at after call getExistingName #1 : ghost_cm := strid(result.0.Model)
//@   ghost-at after call getExistingName #1 : ghost_ct := strid(result.0.Tag)
//@   assert-at call CreateHandler$1 : ghost_canon == 1 && strid(name.Host) == ghost_ch && strid(name.Namespace) == ghost_cn && strid(name.Model) == ghost_cm && strid(name.Tag) == ghost_ct
// (coverage extension) no removal / prune entry point is reachable from here (the sanctioned ones are listed at GetModel below)
//@   assert-at call os.Remove : false
//@   assert-at call os.RemoveAll : false
//@   assert-at call os.Rename : false
//@   assert-at call os.WriteFile : false
//@   assert-at call WriteManifest : false
//@   assert-at call (*Manifest).Remove : false
//@   assert-at call RemoveLayers : false
//@   assert-at call (*Layer).Remove : false
//@   assert-at call deleteUnusedLayers : false
//@   assert-at call PruneLayers : false
//@   assert-at call PruneDirectory : false

//@ func (*Server).PullHandler
//@   ghost-at entry : ghost_canon := 0
//@   ghost-at entry : ghost_ch := 0
//@   ghost-at entry : ghost_cn := 0
//@   ghost-at entry : ghost_cm := 0
//@   ghost-at entry : ghost_ct := 0
//@   ghost-at after call getExistingName #1 : ghost_canon := ite(result.1 == nil, 1, 0)
//@   ghost-at after call getExistingName #1 : ghost_ch := strid(result.0.Host)
//@   ghost-at after call getExistingName #1 : ghost_cn := strid(result.0.Namespace)
//@   ghost-at after call getExistingName #1 : ghost_cm := strid(result.0.Model)
//@   ghost-at after call getExistingName #1 : ghost_ct := strid(result.0.Tag)
//@   assert-at call PullHandler$1 : ghost_canon == 1 && strid(name.Host) == ghost_ch && strid(name.Namespace) == ghost_cn && strid(name.Model) == ghost_cm && strid(name.Tag) == ghost_ct
// (coverage extension) no removal / prune entry point is reachable from here (the sanctioned ones are listed at GetModel below)
//@   assert-at call os.Remove : false
//@   assert-at call os.RemoveAll : false
//@   assert-at call os.Rename : false
//@   assert-at call os.WriteFile : false
//@   assert-at call WriteManifest : false
//@   assert-at call (*Manifest).Remove : false
//@   assert-at call RemoveLayers : false
//@   assert-at call (*Layer).Remove : false
//@   assert-at call deleteUnusedLayers : false
//@   assert-at call PruneLayers : false
//@   assert-at call PruneDirectory : false

// The pull goroutine hands PullModel the display form of exactly that captured name.
//@ func (*Server).PullHandler$1
//@   ghost-at entry : ghost_shown := 0
//@   ghost-at entry : ghost_sid := 0
//@   assert-at call DisplayShortest #1 : arg0 == name
//@   ghost-at after call DisplayShortest #1 : ghost_shown := 1
//@   ghost-at after call DisplayShortest #1 : ghost_sid := strid(result)
//@   assert-at call PullModel : ghost_shown == 1 && strid(arg1) == ghost_sid
// (coverage extension) no removal / prune entry point is reachable from here (the sanctioned ones are listed at GetModel below)
//@   assert-at call os.Remove : false
//@   assert-at call os.RemoveAll : false
//@   assert-at call os.Rename : false
//@   assert-at call os.WriteFile : false
//@   assert-at call WriteManifest : false
//@   assert-at call (*Manifest).Remove : false
//@   assert-at call RemoveLayers : false
//@   assert-at call (*Layer).Remove : false
//@   assert-at call deleteUnusedLayers : false
//@   assert-at call PruneLayers : false
//@   assert-at call PruneDirectory : false

// quantizeLayer (create with a quantization request) works on a temp file next to the source blob;
// the source blob itself - the base model's layer when creating FROM a model - is only read: the one
// thing removed is the temp file, the new layer goes through NewLayer (round 4).
//@ func quantizeLayer
//@   assume-at call GetBlobsPath : ErrInvalidDigestFormat != nil   -- package-level errors.New value, assigned once at package init, never reassigned
//@   assert-at call os.Remove : arg0 == temp.Name()
//@   assert-at call os.RemoveAll : false
//@   assert-at call os.Rename : false
//@   assert-at call os.Truncate : false
//@   assert-at call os.Create : false
//@   assert-at call os.WriteFile : false
//@   assert-at call llama.Quantize #1 : arg0 == blob && arg1 == temp.Name() && blob == blobpath(layer.Digest)

// ==== COVERAGE EXTENSION (C04 / C12): functions the store operations call that were trusted (extern)  ====
// ==== or not under contract at all; their bodies are verified (props/C04.json, C12.json `functions`) ====

// removeLayer (was: `extern func removeLayer` above, now replaced by this verified contract): the
// filtering is slices.DeleteFunc over the caller's list with the closure below; the function itself
// touches no file.
//@ func removeLayer
//@   assert-at call DeleteFunc #1 : arg0 == layers
//@   assert-at call os.Remove : false
//@   assert-at call os.RemoveAll : false
//@   assert-at call os.Rename : false
//@   assert-at call (*Layer).Remove : false
//@   assert-at call deleteUnusedLayers : false

// createLink / copyFile (create from safetensors files: the uploaded blobs are linked - or, where
// symlinks are refused, copied - into a scratch directory for the converter). src is a BLOB of the
// store, dst a path in the scratch directory: everything destructive (the os.Remove that clears the
// way, the truncating os.Create of the copy fallback) happens to dst, never to src; swapping the two
// arguments anywhere deletes or truncates a blob that manifests reference.
//@ func createLink
//@   assert-at call os.MkdirAll #1 : arg0 == fpdir(dst)
//@   assert-at call os.Remove : arg0 == dst
//@   assert-at call os.Symlink : arg0 == src && arg1 == dst
//@   assert-at call copyFile : arg0 == src && arg1 == dst
//@   assert-at call os.RemoveAll : false
//@   assert-at call os.Rename : false
//@   assert-at call os.Create : false
//@   assert-at call os.WriteFile : false
//@   assert-at call os.Truncate : false
//@ func copyFile
//@   ghost-at entry : ghost_srcopen := 0
//@   assert-at call os.Open #1 : arg0 == src
//@   ghost-at after call os.Open #1 : ghost_srcopen := ite(result.1 == nil, 1, 0)
//@   assert-at call os.Create : arg0 == dst && ghost_srcopen == 1
//@   ghost-at entry : ghost_dstmade := 0
//@   ghost-at after call os.Create #1 : ghost_dstmade := ite(result.1 == nil, 1, 0)
//@   assert-at call io.Copy #1 : ghost_srcopen == 1 && ghost_dstmade == 1
//@   assert-at call io.Copy #1 : tagis(arg0, "*os.File") && tagis(arg1, "*os.File")
//@   assert-at call os.Remove : false
//@   assert-at call os.RemoveAll : false
//@   assert-at call os.Rename : false
//@   assert-at call os.OpenFile : false
//@   assert-at call os.WriteFile : false
//@   assert-at call os.Truncate : false

// convertFromSafetensors: the scratch directory is a fresh MkdirTemp directory below the models
// directory and the only tree ever removed is that directory; each link is made from the blob of the
// digest the request names to a path BELOW the scratch directory, and only for a relative path that
// fs.ValidPath accepted (no "..", not rooted: createLink removes whatever is at dst, so
// "../blobs/sha256-..." would delete a blob) and that the os.Root of the scratch directory did not
// refuse; the converter's output goes to a temp file in the scratch directory and enters the store
// only through NewLayer. Loop 1: range over the request's files (map).
//@ func convertFromSafetensors
//@   assume-at call GetBlobsPath : ErrInvalidDigestFormat != nil   -- package-level errors.New value, assigned once at package init, never reassigned
//@   ghost-at entry : ghost_tmpmade := 0
//@   ghost-at entry : ghost_valid := 0
//@   ghost-at entry : ghost_rootok := 0
//@   assert-at call os.MkdirTemp #1 : arg0 == envconfig.Models()
//@   ghost-at after call os.MkdirTemp #1 : ghost_tmpmade := ite(result.1 == nil, 1, 0)
//@   assert-at call os.RemoveAll : ghost_tmpmade == 1 && arg0 == tmpDir
//@   assert-at call os.OpenRoot #1 : arg0 == tmpDir
//@   ghost-at after call os.OpenRoot #1 : ghost_rootok := ite(result.1 == nil, 1, 0)
//@   ghost-at after call ValidPath #1 : ghost_valid := ite(result, 1, 0)
//@   assert-at call ValidPath #1 : arg0 == fp
//@   assert-at call createLink : ghost_tmpmade == 1 && ghost_rootok == 1 && ghost_valid == 1
//@   assert-at call createLink : arg0 == blobPath && blobPath == blobpath(digest) && arg1 == fpjoin2(tmpDir, fp)
//@   assert-at call os.CreateTemp #1 : arg0 == tmpDir
//@   assert-at call NewLayer #1 : tagis(arg0, "*os.File")
//@   assert-at call os.Remove : false
//@   assert-at call os.Rename : false
//@   assert-at call os.Create : false
//@   assert-at call os.WriteFile : false
//@   assert-at call (*Layer).Remove : false
//@   assert-at call deleteUnusedLayers : false

// Layer.Open only reads: the file opened is the blob the layer's digest names.
//@ func (*Layer).Open
//@   assume-at call GetBlobsPath : ErrInvalidDigestFormat != nil   -- package-level errors.New value, assigned once at package init, never reassigned
//@   assert-at call os.Open #1 : arg0 == blobpath(l.Digest)
//@   assert-at call os.Create : false
//@   assert-at call os.OpenFile : false
//@   assert-at call os.Remove : false

// createConfigLayer / setLicense: new layers enter the store only through NewLayer; nothing is
// removed; the config lists the digest of every layer, in order (RootFS.DiffIDs).
//@ func createConfigLayer
//@   loop 1 invariant len(digests) == len(layers) && forall j int :: 0 <= j && j <= rangeindex ==> digests[j] == layers[j].Digest
//@   assert-at call Encode #1 : len(config.RootFS.DiffIDs) == len(layers) && forall j int :: 0 <= j && j < len(layers) ==> config.RootFS.DiffIDs[j] == layers[j].Digest
//@   ensures result.1 == nil ==> result.0 != nil
//@   assert-at call os.Remove : false
//@   assert-at call os.RemoveAll : false
//@   assert-at call (*Layer).Remove : false
//@   assert-at call removeLayer : false
//@ func setLicense
//@   assert-at call os.Remove : false
//@   assert-at call os.RemoveAll : false
//@   assert-at call (*Layer).Remove : false
//@   assert-at call removeLayer : false

// ggufLayers (create from uploaded GGUF blobs): the file parsed is the blob of the digest; a layer is
// recorded for the uploaded blob itself only under that digest (NewLayerFromLayer: exists), every
// other layer goes through NewLayer; nothing is removed or rewritten.
//@ func ggufLayers
//@   assume-at call GetBlobsPath : ErrInvalidDigestFormat != nil   -- package-level errors.New value, assigned once at package init, never reassigned
//@   assert-at call os.Open #1 : arg0 == blobPath && blobPath == blobpath(digest)
//@   assert-at call NewLayerFromLayer : arg0 == digest
//@   assert-at call os.Remove : false
//@   assert-at call os.RemoveAll : false
//@   assert-at call os.Rename : false
//@   assert-at call os.Create : false
//@   assert-at call os.OpenFile : false
//@   assert-at call (*Layer).Remove : false

// ParseModelPath (was: trusted `extern func ParseModelPath` in verif_contracts_c09.go; this verified
// contract replaces the stub): writes nothing the caller can see; indexing of the split parts is safe.
//@ spec func pmprest(name string) string = sreplaceall(ite(scontains(name, "://"), name[sindex(name, "://")+3:len(name)], name), "/", "/")
//@ spec func pmprepo(name string) string = ite(ssplitn(pmprest(name), "/") == 3, ssplitpart(pmprest(name), "/", 2), ite(ssplitn(pmprest(name), "/") == 2, ssplitpart(pmprest(name), "/", 1), ite(ssplitn(pmprest(name), "/") == 1, ssplitpart(pmprest(name), "/", 0), "")))
//@ func ParseModelPath
//@   modifies nothing
// which text ends up in which part (the manifest path of a pull/push is built from these four parts:
// swapped or shifted parts would write - and later prune against - another model's manifest):
// scheme = text before "://" (default https); host/namespace/repository from the 3-, 2- or 1-part
// split at "/" (defaults registry.ollama.ai / library); tag = text after the first ":" of the last part
// (default latest).
//@   ensures result.ProtocolScheme == ite(scontains(name, "://"), name[0:sindex(name, "://")], "https")
//@   ensures result.Registry == ite(ssplitn(pmprest(name), "/") == 3, ssplitpart(pmprest(name), "/", 0), "registry.ollama.ai")
//@   ensures result.Namespace == ite(ssplitn(pmprest(name), "/") == 3, ssplitpart(pmprest(name), "/", 1), ite(ssplitn(pmprest(name), "/") == 2, ssplitpart(pmprest(name), "/", 0), "library"))
//@   ensures result.Repository == ite(scontains(pmprepo(name), ":"), pmprepo(name)[0:sindex(pmprepo(name), ":")], pmprepo(name))
//@   ensures result.Tag == ite(scontains(pmprepo(name), ":"), pmprepo(name)[sindex(pmprepo(name), ":")+1:len(pmprepo(name))], "latest")

// The blob endpoints. HEAD /api/blobs/:digest only looks; POST /api/blobs/:digest stores the request
// body through NewLayer (temp file, rename to the digest of the bytes actually received) and removes
// or overwrites nothing - a body that does not match the announced digest ends up under its own
// digest, never under the announced one.
//@ func (*Server).HeadBlobHandler
//@   assume-at call GetBlobsPath : ErrInvalidDigestFormat != nil   -- package-level errors.New value, assigned once at package init, never reassigned
//@   assert-at call os.Remove : false
//@   assert-at call os.Create : false
//@   assert-at call NewLayer : false
//@ func (*Server).CreateBlobHandler
//@   assume-at call GetBlobsPath : ErrInvalidDigestFormat != nil   -- package-level errors.New value, assigned once at package init, never reassigned
//@   assert-at call NewLayer #1 : arg0 == c.Request.Body
//@   assert-at call os.Remove : false
//@   assert-at call os.RemoveAll : false
//@   assert-at call os.Rename : false
//@   assert-at call os.Create : false
//@   assert-at call os.OpenFile : false
//@   assert-at call os.WriteFile : false
//@   assert-at call (*Layer).Remove : false

// ---- the READ side ("every model that is listed can be shown") and the remaining handlers ----
// list / show / push / create-from read the store; none of them may remove, rename, truncate or
// write anything in it, and none may start a prune (the only sanctioned entries to removal are
// DeleteHandler -> Manifest.Remove / RemoveLayers, the create goroutine -> RemoveLayers, the setters
// -> removeLayer, PullModel -> deleteUnusedLayers, Serve -> PruneLayers / PruneDirectory). Show opens,
// for every layer of the manifest, the blob file that GetBlobsPath names for its digest - the same
// blob name bname(digest) the scans in Layer.Remove / deleteUnusedLayers protect.
//@ func GetModel
//@   assume-at call GetBlobsPath : ErrInvalidDigestFormat != nil   -- package-level errors.New value, assigned once at package init, never reassigned
//@   assert-at call ParseModelPath #1 : arg0 == name
//@   assert-at call GetManifest #1 : arg0 == mp
//@   assert-at call os.Open #1 : arg0 == blobpath(manifest.Config.Digest)
//@   assert-at call os.Remove : false
//@   assert-at call os.RemoveAll : false
//@   assert-at call os.Rename : false
//@   assert-at call os.Create : false
//@   assert-at call os.OpenFile : false
//@   assert-at call os.WriteFile : false
//@   assert-at call os.Truncate : false
//@   assert-at call (*Layer).Remove : false
//@   assert-at call RemoveLayers : false
//@   assert-at call deleteUnusedLayers : false
//@   assert-at call PruneLayers : false
//@   assert-at call PruneDirectory : false
// (safe.nilmap `m.Options[k] = v` failed on the pinned tree: show with request options on a model without a
// params layer panicked - genuine defect, fixed; the obligation is claimed since. safe.index at the
// tensors.Items() loop needs Items() to be a pure accessor, which belongs to fs/ggml: not claimed)
//@ func GetModelInfo
//@   opt safe slice,div,typeassert,makeslice,shift,nilmap
//@   ghost-at entry : ghost_canon := 0
//@   ghost-at after call getExistingName #1 : ghost_canon := ite(result.1 == nil, 1, 0)
//@   assert-at call GetModel : ghost_canon == 1
//@   assert-at call ParseNamedManifest : ghost_canon == 1 && arg0 == name
//@   assert-at call os.Remove : false
//@   assert-at call os.RemoveAll : false
//@   assert-at call os.Rename : false
//@   assert-at call os.Create : false
//@   assert-at call os.WriteFile : false
//@   assert-at call (*Manifest).Remove : false
//@   assert-at call (*Layer).Remove : false
//@   assert-at call RemoveLayers : false
//@   assert-at call deleteUnusedLayers : false
//@   assert-at call PruneLayers : false
//@   assert-at call PruneDirectory : false
//@   assert-at call WriteManifest : false
//@ func (*Server).ShowHandler
//@   assert-at call os.Remove : false
//@   assert-at call os.RemoveAll : false
//@   assert-at call (*Manifest).Remove : false
//@   assert-at call (*Layer).Remove : false
//@   assert-at call RemoveLayers : false
//@   assert-at call deleteUnusedLayers : false
//@   assert-at call PruneLayers : false
//@   assert-at call PruneDirectory : false
//@   assert-at call WriteManifest : false
// ListHandler lists what the tolerant scan yields (the same scan the removals use: a model that is
// listed is a model whose layers the scans protect).
//@ func (*Server).ListHandler
//@   assert-at call Manifests #1 : arg0 == true
//@   assert-at call os.Remove : false
//@   assert-at call os.RemoveAll : false
//@   assert-at call os.Rename : false
//@   assert-at call (*Manifest).Remove : false
//@   assert-at call (*Layer).Remove : false
//@   assert-at call RemoveLayers : false
//@   assert-at call deleteUnusedLayers : false
//@   assert-at call PruneLayers : false
//@   assert-at call PruneDirectory : false
//@   assert-at call WriteManifest : false
//@ func (*Server).PushHandler$1
//@   ghost-at entry : ghost_canon := 0
//@   ghost-at after call getExistingName #1 : ghost_canon := ite(result.1 == nil, 1, 0)
//@   assert-at call PushModel : ghost_canon == 1
//@   assert-at call os.Remove : false
//@   assert-at call os.RemoveAll : false
//@   assert-at call (*Manifest).Remove : false
//@   assert-at call (*Layer).Remove : false
//@   assert-at call RemoveLayers : false
//@   assert-at call deleteUnusedLayers : false
//@   assert-at call PruneLayers : false
//@   assert-at call PruneDirectory : false
//@   assert-at call WriteManifest : false
// parseFromModel (create FROM an existing model; server/model.go): the base model's layers are taken
// over by reference - NewLayerFromLayer under the base manifest's own digests (exists-check, no copy,
// no removal); the base model is pulled only when its manifest does not exist.
//@ func parseFromModel
//@   assume-at call GetBlobsPath : ErrInvalidDigestFormat != nil   -- package-level errors.New value, assigned once at package init, never reassigned
//@   assert-at call ParseNamedManifest : arg0 == name
//@   assert-at call os.Remove : false
//@   assert-at call os.RemoveAll : false
//@   assert-at call os.Rename : false
//@   assert-at call os.Create : false
//@   assert-at call os.WriteFile : false
//@   assert-at call (*Manifest).Remove : false
//@   assert-at call (*Layer).Remove : false
//@   assert-at call RemoveLayers : false
//@   assert-at call deleteUnusedLayers : false
//@   assert-at call PruneLayers : false
//@   assert-at call WriteManifest : false

// fixBlobs (outer function; the walk callback fixBlobs$1 is contracted above): it walks exactly the
// directory it was given (Serve: the blobs directory) and does nothing else to the file system itself.
//@ func fixBlobs
//@   assert-at call Walk #1 : arg0 == dir
//@   assert-at call os.Remove : false
//@   assert-at call os.RemoveAll : false
//@   assert-at call os.Rename : false
//@   assert-at call PruneLayers : false
//@   assert-at call PruneDirectory : false

// Package initialisation: the sentinel errors the store functions compare against are assigned once,
// from errors.New (library fact: non-nil), when the package is initialised. This backs the assume-at
// `ErrInvalidDigestFormat != nil` at the GetBlobsPath call sites (what stays unproved there: that no
// code reassigns the variable afterwards - grep: the only assignment is the declaration).
// (the synthetic initialiser returns at once when the package is already initialised - go/ssa's
// init$guard - so the fact is stated for the one execution in which the initialiser body ran)
//@ func init
//@   ghost-at entry : ghost_ran := 0
//@   ghost-at after call errors.New : ghost_ran := 1
//@   assume-at after call errors.New : result != nil    -- library fact
//@   ensures ghost_ran == 1 ==> ErrInvalidDigestFormat != nil && ErrInvalidImageFormat != nil && errDigestMismatch != nil && errInsecureProtocol != nil
