//go:build verif

// Contracts for package server, properties C04 / C12 (model store: scan-then-remove, order of
// file-system effects, case-insensitive canonicalisation). Checked by /verif/govc.
// Needs the trusted library block of /verif/contracts/types/model/verif_contracts.go
// (props "contract_packages": ["types/model"]) for sfoldeq, fpjoin3 and strings.EqualFold.
package server

// ---- (1) SCAN-THEN-REMOVE --------------------------------------------------------------------
// bname(d): the blob FILE NAME a digest refers to; blobpath(d): the file (what GetBlobsPath computes
// for an accepted digest). Both spellings "sha256:<hex>" and "sha256-<hex>" are accepted and name
// one file, so "data still referenced by another model" is stated over blob names, not over
// digest strings.
//@ spec func bname(d string) string = sreplaceall(d, ":", "-")
//@ spec func blobpath(d string) string = fpjoin3(envconfig.Models(), "blobs", bname(d))

// blobName is the code's bname.
//@ func blobName
//@   pure reads none
//@   ensures result == bname(digest)

// Ghost code of Layer.Remove: ghost_hit == 1 iff a manifest yielded so far by the range over the
// scan result (including the one of the current iteration: the assignment sits at the top of the
// loop body, before the inner loop) has a layer or config whose digest names the same blob file
// as l.Digest (equal blob names).
//@ func (*Layer).Remove
//@   ghost-at after call Manifests #1 : ghost_hit := 0
//@   assume-at call append #1 : fresh(m) && (cap(m.Layers) == 0 || fresh(m.Layers))   -- the scan result is parsed from disk into new objects by Manifests -> ParseNamedManifest (json.Decode into a new Manifest): it shares no memory with *l
//@   ghost-at call append #1 : ghost_hit := ite(ghost_hit == 1 || bname(m.Config.Digest) == bname(l.Digest) || (exists j int :: 0 <= j && j < len(m.Layers) && bname(m.Layers[j].Digest) == bname(l.Digest)), 1, 0)
//@   assume-at call GetBlobsPath : ErrInvalidDigestFormat != nil   -- package-level errors.New value, assigned once at package init, never reassigned
//@   loop 1 invariant ghost_hit == 0 && name == bname(l.Digest)
//@   loop 2 invariant name == bname(l.Digest)
//@   loop 2 invariant ghost_hit == 1 ==> bname(m.Config.Digest) == bname(l.Digest) || (exists j int :: 0 <= j && j < len(m.Layers) && bname(m.Layers[j].Digest) == bname(l.Digest))
//@   loop 2 invariant bname(m.Config.Digest) == bname(l.Digest) || (exists j int :: 0 <= j && j < len(m.Layers) && bname(m.Layers[j].Digest) == bname(l.Digest)) ==> ghost_hit == 1
//@   loop 2 invariant forall j int :: 0 <= j && j <= rangeindex && j < len(m.Layers) ==> bname(m.Layers[j].Digest) != bname(l.Digest)
//@   loop 2 invariant rangeindex >= len(m.Layers) ==> bname(m.Config.Digest) != bname(l.Digest)
//@   assert-at call os.Remove #1 : ghost_hit == 0
//@   assert-at call os.Remove #1 : arg0 == blobpath(l.Digest)

// deleteUnusedLayers: witd() is an arbitrary fixed digest string (uninterpreted constant: what is
// proved about it holds for every digest). ghost_ref == 1 iff a manifest of the scan whose loop
// iteration has reached its last statement has a layer or config whose digest names the same blob
// file as witd(). Loops: 1 manifests of the scan  2 its layers  3 keys of deleteMap.
//@ spec func witd() string
//@ func deleteUnusedLayers
//@   assume-at call GetBlobsPath : ErrInvalidDigestFormat != nil   -- package-level errors.New value, assigned once at package init, never reassigned
//@   ghost-at after call Manifests #1 : ghost_ref := 0
//@   ghost-at call blobName #2 : ghost_ref := ite(ghost_ref == 1 || bname(manifest.Config.Digest) == bname(witd()) || (exists j int :: 0 <= j && j < len(manifest.Layers) && bname(manifest.Layers[j].Digest) == bname(witd())), 1, 0)
//@   loop 1 invariant fresh(used) && used != nil
//@   loop 1 invariant ghost_ref == 1 ==> has(used, bname(witd()))
//@   loop 1 invariant forall s string :: has(deleteMap, s) <==> old(has(deleteMap, s))
//@   loop 2 invariant fresh(used) && used != nil
//@   loop 2 invariant ghost_ref == 1 ==> has(used, bname(witd()))
//@   loop 2 invariant forall s string :: has(deleteMap, s) <==> old(has(deleteMap, s))
//@   loop 2 invariant forall j int :: 0 <= j && j <= rangeindex ==> has(used, bname(manifest.Layers[j].Digest))
//@   loop 3 invariant ghost_ref == 1 ==> has(used, bname(witd()))
//@   loop 3 invariant forall s string :: has(deleteMap, s) ==> old(has(deleteMap, s))
//@   assert-at call os.Remove #1 : old(has(deleteMap, k))
//@   assert-at call os.Remove #1 : arg0 == blobpath(k)
//@   assert-at call os.Remove #1 : ghost_ref == 1 ==> bname(k) != bname(witd())

// ---- (3) CASE-INSENSITIVE CANONICALISATION ---------------------------------------------------
// strings.EqualFold(s, t) <==> sfoldeq(s, t) (trusted, types/model block); simple case folding
// is an equivalence relation.
// (stated as assumptions at the entry of getExistingName, not as global axioms: sfoldeq is declared
// in the types/model block, which properties that do not touch names do not load)

// rq*(): the requested name (names the argument: the parameter n is an address-taken local that
// the loop overwrites, and old(n.f) does not reach the parameter's value in a loop invariant).
// wx*(): an arbitrary fixed name (uninterpreted constants: what is proved holds for every name);
// ghost_wseen == 1 iff the range over the scan result has yielded exactly that name.
//@ spec func rqh() string
//@ spec func rqn() string
//@ spec func rqm() string
//@ spec func rqt() string
//@ spec func wxh() string
//@ spec func wxn() string
//@ spec func wxm() string
//@ spec func wxt() string
// (a) the result differs from the request at most by letter case;
// (b) "no two listed models differ only by letter case": no name the scan yielded is a case
//     variant of the result without being the result itself. With (a) and transitivity: if some
//     scanned name EqualFolds the request, the result IS that scanned name.
//@ func getExistingName
//@   assume-at entry : n.Host == rqh() && n.Namespace == rqn() && n.Model == rqm() && n.Tag == rqt()   -- naming only: rq* occur nowhere else
//@   assume-at entry : forall s string :: sfoldeq(s, s)    -- case folding is an equivalence relation: reflexive
//@   assume-at entry : forall s string, t string :: sfoldeq(s, t) ==> sfoldeq(t, s)    -- symmetric
//@   assume-at entry : forall s string, t string, u string :: sfoldeq(s, t) && sfoldeq(t, u) ==> sfoldeq(s, u)    -- transitive
//@   ghost-at entry : ghost_wseen := 0
//@   ghost-at call EqualFold #1 : ghost_wseen := ite(ghost_wseen == 1 || (e.Host == wxh() && e.Namespace == wxn() && e.Model == wxm() && e.Tag == wxt()), 1, 0)
//@   loop 1 invariant n.Host == rqh() && n.Namespace == rqn() && n.Model == rqm() && n.Tag == rqt()
//@   loop 1 invariant ghost_wseen == 1 ==> !(sfoldeq(wxh(), rqh()) && sfoldeq(wxn(), rqn()) && sfoldeq(wxm(), rqm()) && sfoldeq(wxt(), rqt()))
//@   loop 2 invariant sfoldeq(n.Host, rqh()) && sfoldeq(n.Namespace, rqn()) && sfoldeq(n.Model, rqm()) && sfoldeq(n.Tag, rqt())
//@   loop 2 invariant ghost_wseen == 1 ==> !(sfoldeq(wxh(), rqh()) && sfoldeq(wxn(), rqn()) && sfoldeq(wxm(), rqm()) && sfoldeq(wxt(), rqt()))
//@   ensures result.1 == nil ==> sfoldeq(result.0.Host, n.Host) && sfoldeq(result.0.Namespace, n.Namespace) && sfoldeq(result.0.Model, n.Model) && sfoldeq(result.0.Tag, n.Tag)
//@   ensures result.1 == nil && ghost_wseen == 1 && sfoldeq(wxh(), result.0.Host) && sfoldeq(wxn(), result.0.Namespace) && sfoldeq(wxm(), result.0.Model) && sfoldeq(wxt(), result.0.Tag) ==> wxh() == result.0.Host && wxn() == result.0.Namespace && wxm() == result.0.Model && wxt() == result.0.Tag

// ---- (2) ORDER OF EFFECTS (C04 + C12) --------------------------------------------------------
// The file-system library functions (os.Remove, os.Rename, os.Stat, os.CreateTemp, ...) get no
// contract here: the disk is not modelled, their arguments are strings, so the default
// over-approximation (a callee writes what is type-reachable from its arguments) leaves ghost
// flags and locals alone. The one exception: a file's name is fixed (same clause as in the
// contract file of server/internal/cache/blob; of two declarations the first loaded is in force).
//@ extern func os.(*File).Name
//@   pure reads none

// Logging, formatting and error inspection change nothing in the caller's memory (without a
// frame, a callee with interface-typed arguments is assumed to write every heap cell, including
// maps this function allocated itself).
//@ extern func log/slog.Debug
//@   modifies nothing
//@ extern func log/slog.Info
//@   modifies nothing
//@ extern func log/slog.Warn
//@   modifies nothing
//@ extern func log/slog.Error
//@   modifies nothing
//@ extern func fmt.Sprintf
//@   modifies nothing
//@ extern func errors.Is
//@   pure
//@ extern func io/fs.(DirEntry).Name
//@   pure reads none

// Manifest.Remove: the first effect is os.Remove(m.filepath); directories are pruned, and nil is
// returned, only after that removal returned nil.
//@ func (*Manifest).Remove
//@   ghost-at entry : ghost_unlinked := 0
//@   assert-at call os.Remove #1 : arg0 == m.filepath
//@   ghost-at after call os.Remove #1 : ghost_unlinked := ite(result == nil, 1, 0)
//@   assert-at call PruneDirectory #1 : ghost_unlinked == 1
//@   assert-at return : result == nil ==> ghost_unlinked == 1

// RemoveLayers removes blobs only through Layer.Remove (scan first).
//@ func (*Manifest).RemoveLayers

// DeleteHandler: layers are touched only after Manifest.Remove returned nil for the same manifest
// (so the manifest being deleted no longer protects - and no longer needs - its layers, and a
// crash between the two steps leaves only unreferenced blobs).
//@ func (*Server).DeleteHandler
//@   ghost-at entry : ghost_mgone := 0
//@   ghost-at after call (*Manifest).Remove #1 : ghost_mgone := ite(result == nil, 1, 0)
//@   assert-at call RemoveLayers #1 : ghost_mgone == 1
//@   assert-at call RemoveLayers #1 : arg0 == m

// NewLayer: the temp file lives in the blobs directory (same directory as the final name, so the
// rename is a rename within one directory); the rename to the digest name happens only after the
// copy returned without error and the explicit Close returned nil; the destination is
// blobpath(digest); once the temp file exists every return runs the deferred os.Remove(temp.Name()).
//@ func NewLayer
//@   assume-at call GetBlobsPath : ErrInvalidDigestFormat != nil   -- package-level errors.New value, assigned once at package init, never reassigned
//@   ghost-at entry : ghost_tmp := 0
//@   ghost-at entry : ghost_copied := 0
//@   ghost-at entry : ghost_closed := 0
//@   ghost-at entry : ghost_cleaned := 0
//@   assert-at call os.CreateTemp #1 : arg0 == blobs && blobs == blobpath("")
//@   ghost-at after call os.CreateTemp #1 : ghost_tmp := ite(result.1 == nil, 1, 0)
//@   ghost-at after call io.Copy #1 : ghost_copied := ite(result.1 == nil, 1, 0)
//@   ghost-at after call Close : ghost_closed := ite(ghost_copied == 1 && result == nil, 1, 0)
//@   assert-at call os.Rename #1 : ghost_tmp == 1 && ghost_copied == 1 && ghost_closed == 1
//@   assert-at call os.Rename #1 : arg0 == temp.Name() && arg1 == blobpath(digest)
//@   assert-at call os.Chmod #1 : arg0 == blobpath(digest)
//@   assert-at call os.Remove : arg0 == temp.Name()
//@   ghost-at after call os.Remove : ghost_cleaned := 1
//@   assert-at return : ghost_tmp == 1 ==> ghost_cleaned == 1

// NewLayerFromLayer creates nothing: it returns a layer only for a blob file that exists.
//@ func NewLayerFromLayer
//@   assume-at call GetBlobsPath : ErrInvalidDigestFormat != nil   -- package-level errors.New value, assigned once at package init, never reassigned
//@   ghost-at entry : ghost_stat := 0
//@   assert-at call os.Stat #1 : arg0 == blobpath(digest)
//@   ghost-at after call os.Stat #1 : ghost_stat := ite(result.1 == nil, 1, 0)
//@   assert-at return #4 : ghost_stat == 1 && result.0.Digest == digest && result.1 == nil

// PruneLayers: a directory entry is removed directly only if GetBlobsPath refused its name and
// errors.Is(err, ErrInvalidDigestFormat) held (the digest pattern failed: temp files, -partial
// debris); every other entry goes to deleteUnusedLayers under a name of digest shape. Loop 1:
// directory entries.
//@ func PruneLayers
//@   assume-at call GetBlobsPath : ErrInvalidDigestFormat != nil   -- package-level errors.New value, assigned once at package init, never reassigned
//@   ghost-at entry : ghost_refused := 0
//@   ghost-at entry : ghost_badformat := 0
//@   ghost-at after call GetBlobsPath #2 : ghost_refused := ite(result.1 != nil, 1, 0)
//@   ghost-at after call errors.Is #1 : ghost_badformat := ite(result, 1, 0)
//@   assert-at call errors.Is #1 : arg1 == ErrInvalidDigestFormat
//@   assert-at call os.Remove #1 : ghost_refused == 1 && ghost_badformat == 1
//@   assert-at call os.Remove #1 : arg0 == fpjoin2(p, blob.Name())
//@   loop 1 invariant forall s string :: has(deleteMap, s) ==> s == "" || digestshape(s)
//@   assert-at call deleteUnusedLayers #1 : forall s string :: has(deleteMap, s) ==> s == "" || digestshape(s)

// PruneDirectory removes a path only if Lstat says it is a directory and not a symlink, all
// entries were visited without error, and a listing read AFTER that is empty.
//@ func PruneDirectory
//@   ghost-at entry : ghost_empty := 0
//@   ghost-at after call os.ReadDir #2 : ghost_empty := ite(result.1 == nil && len(result.0) == 0, 1, 0)
//@   assert-at call os.Remove #1 : ghost_empty == 1 && arg0 == path

// fixBlobs: a file is renamed only if its base name is "sha256:<rest>", to "sha256-<rest>" in
// the same directory.
//@ func fixBlobs$1
//@   assert-at call os.Rename #1 : arg0 == path && ok && typ == "sha256"

// Serve, startup sequence: fixBlobs first; the prune runs only if Manifests(false) - which fails
// on ANY unreadable manifest - returned no error; PruneDirectory only after PruneLayers returned nil.
//@ func Serve
//@   assume-at call GetBlobsPath : ErrInvalidDigestFormat != nil   -- package-level errors.New value, assigned once at package init, never reassigned
//@   ghost-at entry : ghost_fixed := 0
//@   ghost-at entry : ghost_allreadable := 0
//@   ghost-at entry : ghost_pruned := 0
//@   ghost-at after call fixBlobs #1 : ghost_fixed := ite(result == nil, 1, 0)
//@   assert-at call Manifests #1 : ghost_fixed == 1 && arg0 == false
//@   ghost-at after call Manifests #1 : ghost_allreadable := ite(result.1 == nil, 1, 0)
//@   assert-at call PruneLayers #1 : ghost_fixed == 1 && ghost_allreadable == 1
//@   ghost-at after call PruneLayers #1 : ghost_pruned := ite(result == nil, 1, 0)
//@   assert-at call PruneDirectory #1 : ghost_allreadable == 1 && ghost_pruned == 1

// createModel: every layer is in the blob store before the manifest is written (all calls that
// create or drop layers come before WriteManifest; none after), nil is returned only after
// WriteManifest returned nil.
//@ func createModel
//@   requires fqname(name.Host, name.Namespace, name.Model, name.Tag)
//@   ghost-at entry : ghost_written := 0
//@   assume-at after call errors.New : result != nil    -- library fact (no shared extern contract for errors.New in this package)
//@   assume-at after call fmt.Errorf : result != nil    -- library fact
//@   assert-at call quantizeLayer : ghost_written == 0
//@   assert-at call setTemplate : ghost_written == 0
//@   assert-at call setSystem : ghost_written == 0
//@   assert-at call setLicense : ghost_written == 0
//@   assert-at call setParameters : ghost_written == 0
//@   assert-at call setMessages : ghost_written == 0
//@   assert-at call createConfigLayer : ghost_written == 0
//@   assert-at call WriteManifest #1 : arg1 == *configLayer && arg2 == layers
//@   ghost-at after call WriteManifest : ghost_written := ite(result == nil, 1, 2)
//@   assert-at return : result == nil ==> ghost_written == 1

// The create goroutine: the replaced manifest is read before anything is written; its layers are
// pruned only after createModel returned nil (new manifest on disk), through RemoveLayers (scan).
//@ func (*Server).CreateHandler$1
//@   ghost-at entry : ghost_created := 0
//@   ghost-at entry : ghost_oldread := 0
//@   ghost-at after call ParseNamedManifest #1 : ghost_oldread := 1
//@   assert-at call parseFromModel : ghost_oldread == 1
//@   assert-at call convertModelFromFiles : ghost_oldread == 1
//@   assert-at call createModel #1 : ghost_oldread == 1
//@   assume-at call createModel #1 : fqname(name.Host, name.Namespace, name.Model, name.Tag)   -- C13's concern (store confinement), not decided here: name passed IsValid in CreateHandler and getExistingName only substitutes parts of names that Manifests accepted (n.IsValid()); "every key of the scan result is valid" cannot be stated for a map with a struct key
//@   ghost-at after call createModel #1 : ghost_created := ite(result == nil, 1, 0)
//@   assert-at call RemoveLayers #1 : ghost_created == 1 && arg0 == oldManifest

// removeLayer (create with an overriding template/system/...): blobs are dropped only through
// Layer.Remove (scan first).
//@ func removeLayer$1

// The scan in Layer.Remove only sees manifests on disk, not the layer list of the model being
// created. So inside one setter the overridden layers are dropped BEFORE the replacement is
// stored: a removal after NewLayer could delete the very blob the new layer points to (same
// content = same digest, NewLayer then reports "using existing layer"), and the manifest
// written afterwards would reference a missing blob (added after seeded change C04-seed1).
//@ extern func removeLayer
//@ func setTemplate
//@   ghost-at entry : ghost_made := 0
//@   ghost-at after call NewLayer #1 : ghost_made := 1
//@   assert-at call removeLayer : ghost_made == 0
//@ func setSystem
//@   ghost-at entry : ghost_made := 0
//@   ghost-at after call NewLayer #1 : ghost_made := 1
//@   assert-at call removeLayer : ghost_made == 0
//@ func setParameters
//@   assume-at call GetBlobsPath : ErrInvalidDigestFormat != nil   -- package-level errors.New value, assigned once at package init
//@   ghost-at entry : ghost_made := 0
//@   ghost-at after call NewLayer #1 : ghost_made := 1
//@   assert-at call removeLayer : ghost_made == 0
//@ func setMessages
//@   ghost-at entry : ghost_made := 0
//@   ghost-at after call NewLayer #1 : ghost_made := 1
//@   assert-at call removeLayer : ghost_made == 0

// CopyModel touches no blob and writes one manifest: the source is opened before the destination
// is created (truncated), and a copy onto itself (same manifest path) returns before any effect,
// so it never truncates its own source.
//@ extern func types/model.Unqualified
//@   modifies nothing
//@   ensures result != nil
//@ func CopyModel
//@   ghost-at entry : ghost_srcopen := 0
//@   ghost-at after call os.Open #1 : ghost_srcopen := ite(result.1 == nil, 1, 0)
//@   assert-at call os.MkdirAll #1 : fpjoin4(src.Host, src.Namespace, src.Model, src.Tag) != fpjoin4(dst.Host, dst.Namespace, dst.Model, dst.Tag)
//@   assert-at call os.Create #1 : ghost_srcopen == 1 && arg0 == dstpath
//@   assert-at call os.Create #1 : fpjoin4(src.Host, src.Namespace, src.Model, src.Tag) != fpjoin4(dst.Host, dst.Namespace, dst.Model, dst.Tag)
// The copy is a file of its own: success means the source's bytes were copied into the file
// created for the destination (or source and destination are the same path). Manifests are
// rewritten in place by pull and create, so two names must never share one file (a link): a later
// operation on one name would change the other, uninvolved model (added after C12-seed3).
//@   ghost-at entry : ghost_created := 0
//@   ghost-at entry : ghost_copied := 0
//@   ghost-at after call os.Create #1 : ghost_created := ite(result.1 == nil, 1, 0)
//@   ghost-at after call io.Copy #1 : ghost_copied := ite(result.1 == nil, 1, 0)
//@   assert-at call io.Copy #1 : ghost_created == 1 && ghost_srcopen == 1
//@   assert-at return : result == nil ==> (ghost_copied == 1 || fpjoin4(src.Host, src.Namespace, src.Model, src.Tag) == fpjoin4(dst.Host, dst.Namespace, dst.Model, dst.Tag))

// Manifests(false) - the corrupt-manifest check of the startup sequence - skips nothing silently:
// the three places that skip a directory entry (bad path, invalid name, unreadable manifest) are
// reached only with continueOnError == true; with false each of them returns an error instead.
//@ func Manifests
//@   assert-at call log/slog.Warn : continueOnError
