//go:build verif

// Contracts for package server, checked by /verif/govc.
package server

// ---- C19 (server/prompt.go) ----

// External callees of chatPrompt (trusted, listed in the evidence):
// template.(*Template).Execute renders into w and reads v (collate copies every message
// before merging), so the only caller-visible memory it writes is the buffer behind w.
//@ extern func template.(*Template).Execute
//@   modifies boxed(w)
// tokenize is the runner's Tokenize method value (an HTTP round trip to the runner): it reads
// the string and writes nothing in the caller's memory.
//@ extern func (tokenizeFunc)
//@   modifies nothing
//@ extern func model/models/mllama.Preprocess
//@   modifies boxed(imageData)

//@ func checkMllamaModelFamily
//@   modifies nothing

// Loop ordinals of chatPrompt: 1 outer reverse loop (i)  2 for j := range i  3 image tokens over msgs[i:]
// 4 for cnt, msg := range msgs[currMsgIdx:]  5 for _, i := range msg.Images
//@ func chatPrompt
//@   loop 1 invariant -1 <= i && i <= n && n - 1 <= i && n <= len(msgs) - 1
//@   loop 1 invariant len(msgs) >= 1 ==> n >= 0
//@   assert-at call Execute #2 : 0 <= currMsgIdx && currMsgIdx <= len(msgs) - 1
//@   loop 4 invariant forall k int :: 0 <= k && k < len(images) ==> images[k].ID == k
//@   loop 5 invariant forall k int :: 0 <= k && k < len(images) ==> images[k].ID == k
//@   assert-at call append #3 : imgData.ID == len(images)
// ---- end C19 ----
