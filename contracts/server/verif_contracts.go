//go:build verif

// Contracts for package server, checked by /verif/govc.
package server

// ---- C19 (server/prompt.go) ----

// Property C19: "Chat prompt keeps newest messages that fit, system messages, each image once".
//
// External callees of chatPrompt (trusted, listed in the evidence):
// template.(*Template).Execute renders into w and only reads v (collate copies every message
// before merging contents), so the only caller-visible memory it writes is the buffer behind w.
//@ extern func template.(*Template).Execute
//@   modifies boxed(w)
// tokenize is the runner's Tokenize method value (an HTTP round trip to the runner process): it
// reads the string and writes nothing in the caller's memory. Operands: arg0 ctx, arg1 the text.
//@ extern func (tokenizeFunc)
//@   modifies nothing
// mllama.Preprocess decodes the image from the reader (advances it) and returns fresh data.
//@ extern func model/models/mllama.Preprocess
//@   modifies imageData.ghost_pos

//@ func checkMllamaModelFamily
//@   modifies nothing
//   the image token weight (1 per image for mllama, 768 otherwise) and the image preprocessing hang on
//   this test: it is true exactly when "mllama" is one of the model's families
//@   ensures result ==> exists k int :: 0 <= k && k < len(m.Config.ModelFamilies) && m.Config.ModelFamilies[k] == "mllama"
//@   ensures !result ==> forall k int :: 0 <= k && k < len(m.Config.ModelFamilies) ==> m.Config.ModelFamilies[k] != "mllama"
//@   loop 1 invariant forall k int :: 0 <= k && k <= rangeindex ==> m.Config.ModelFamilies[k] != "mllama"

// Ghost names used by the chatPrompt contract. The first three are introduced by definitional
// preconditions: for every conversation there is an interpretation that satisfies them, so they do
// not restrict the inputs (this engine has no recursive spec functions over slices of structs).
//   c19nsys(j) = number of system messages among msgs[0:j]
//   c19sidx(p) = index in msgs of the p-th system message (inverse of c19nsys on system messages)
//   c19nimg(j) = number of images attached to msgs[0:j]
//   c19tok(k)  = the token count the tokenizer reported for the candidate prompt that starts at
//                message k (system messages among msgs[0:k] followed by msgs[k:]); the walk renders
//                every k at most once, so naming the observed value is not a restriction either.
//@ spec func c19nsys(j int) int
//@ spec func c19sidx(p int) int
//@ spec func c19nimg(j int) int
//@ spec func c19tok(k int) int

// Loop ordinals: 1 outer reverse walk (i)   2 for j := range i   3 image tokens over msgs[i:]
//                4 for cnt, msg := range msgs[currMsgIdx:]   5 for _, i := range msg.Images
// Calls: Execute #1 / (tokenizeFunc) #1 / Debug #1 inside loop 1; append #1 (system), #2 (candidate),
//        #3 (images), #4 (final message list); Execute #2 the final rendering.
//@ func chatPrompt
//   the only caller (ChatHandler) returns before the call when the request has no messages;
//   without this precondition safe.slice (msgs[currMsgIdx:] with currMsgIdx == -1) fails
//@   requires len(msgs) >= 1
//@   requires c19nsys(0) == 0
//@   requires forall j int :: 0 <= j && j < len(msgs) ==> c19nsys(j+1) == c19nsys(j) + ite(msgs[j].Role == "system", 1, 0)
//@   requires forall j int :: 0 <= j && j < len(msgs) && msgs[j].Role == "system" ==> c19sidx(c19nsys(j)) == j
//@   requires c19nimg(0) == 0
//@   requires forall j int :: 0 <= j && j < len(msgs) ==> c19nimg(j+1) == c19nimg(j) + len(msgs[j].Images)
//   range precondition: at most 2^40 images in a conversation (no overflow in the image token count)
//@   requires forall j int :: 0 <= j && j <= len(msgs) ==> 0 <= c19nimg(j) && c19nimg(j) <= (1 << 40)
//
//   images are numbered by their position in the returned list
//@   ensures forall k int :: 0 <= k && k < len(images) ==> images[k].ID == k
//
//   (1) SYSTEM MESSAGES. On the break path the retained suffix starts at i+1, so `system` must hold
//   the system messages among msgs[0:i+1]; it holds those among msgs[0:i] (loop 2). This is the
//   assertion that FAILS on the pinned tree (a system message at index i is dropped).
//@   assert-at call Debug #1 : forall q int :: 0 <= q && q < i + 1 && msgs[q].Role == "system" ==> 0 <= c19nsys(q) && c19nsys(q) < len(system) && system[c19nsys(q)].Role == msgs[q].Role && system[c19nsys(q)].Content == msgs[q].Content
//   (2) MAXIMALITY. The walk stops only at a candidate that does not fit.
//@   assert-at call Debug #1 : c19tok(i) + ite(m.ProjectorPaths != nil, imageNumTokens * (c19nimg(len(msgs)) - c19nimg(i)), 0) > opts.NumCtx
//
//   loop 1: n is the start of the retained suffix; system is empty while only the latest message is
//   retained, afterwards exactly the system messages among msgs[0:n], in order
//@   loop 1 invariant -1 <= i && i <= n && n - 1 <= i && n <= len(msgs) - 1 && 0 <= n
//@   loop 1 invariant n == len(msgs) - 1 ==> len(system) == 0
//@   loop 1 invariant cap(system) == 0 || fresh(system)
//@   loop 1 invariant forall q int :: 0 <= q && q < len(msgs) ==> msgs[q].Role == old(msgs[q].Role)
//@   loop 1 invariant forall q int :: 0 <= q && q < len(msgs) ==> len(msgs[q].Images) == old(len(msgs[q].Images))
//@   loop 1 invariant forall p int :: 0 <= p && p < len(system) ==> 0 <= c19sidx(p) && c19sidx(p) < n && msgs[c19sidx(p)].Role == "system" && system[p].Role == msgs[c19sidx(p)].Role && system[p].Content == msgs[c19sidx(p)].Content
//@   loop 1 invariant n < len(msgs) - 1 ==> i == n - 1 && len(system) == c19nsys(n)
//@   loop 1 invariant n < len(msgs) - 1 ==> forall q int :: 0 <= q && q < n && msgs[q].Role == "system" ==> 0 <= c19nsys(q) && c19nsys(q) < len(system) && system[c19nsys(q)].Role == msgs[q].Role && system[c19nsys(q)].Content == msgs[q].Content
//   every accepted candidate start fits the context
//@   loop 1 invariant imageNumTokens == 1 || imageNumTokens == 768
//@   loop 1 invariant forall k int :: n <= k && k < len(msgs) - 1 ==> c19tok(k) + ite(m.ProjectorPaths != nil, imageNumTokens * (c19nimg(len(msgs)) - c19nimg(k)), 0) <= opts.NumCtx
//   explicit assumption (definition of c19tok, see above)
//@   assume-at after call (tokenizeFunc) #1 : len(result.0) == c19tok(i)
//
//   loop 2: system holds exactly the system messages among msgs[0:j]
//@   loop 2 invariant fresh(system) && len(system) == c19nsys(j)
//@   loop 2 invariant forall q int :: 0 <= q && q < len(msgs) ==> msgs[q].Role == old(msgs[q].Role)
//@   loop 2 invariant forall q int :: 0 <= q && q < len(msgs) ==> len(msgs[q].Images) == old(len(msgs[q].Images))
//@   loop 2 invariant forall p int :: 0 <= p && p < len(system) ==> 0 <= c19sidx(p) && c19sidx(p) < j && msgs[c19sidx(p)].Role == "system" && system[p].Role == msgs[c19sidx(p)].Role && system[p].Content == msgs[c19sidx(p)].Content
//@   loop 2 invariant forall q int :: 0 <= q && q < j && msgs[q].Role == "system" ==> 0 <= c19nsys(q) && c19nsys(q) < len(system) && system[c19nsys(q)].Role == msgs[q].Role && system[c19nsys(q)].Content == msgs[q].Content
//
//@   loop 3 invariant ctxLen == len(s) + imageNumTokens * (c19nimg(i + rangeindex + 1) - c19nimg(i))
//
//   loop 4 rewrites msgs[currMsgIdx+cnt].Content only; loops 4/5 append exactly the images of msgs[currMsgIdx:]
//@   loop 4 invariant forall q int :: 0 <= q && q < len(msgs) ==> msgs[q].Role == old(msgs[q].Role)
//@   loop 4 invariant forall q int :: 0 <= q && q < len(msgs) ==> len(msgs[q].Images) == old(len(msgs[q].Images))
//@   loop 4 invariant forall p int :: 0 <= p && p < len(system) ==> 0 <= c19sidx(p) && c19sidx(p) < currMsgIdx && msgs[c19sidx(p)].Role == "system" && system[p].Role == msgs[c19sidx(p)].Role && system[p].Content == msgs[c19sidx(p)].Content
//@   loop 4 invariant forall q int :: 0 <= q && q < currMsgIdx && msgs[q].Role == "system" ==> 0 <= c19nsys(q) && c19nsys(q) < len(system) && system[c19nsys(q)].Role == msgs[q].Role && system[c19nsys(q)].Content == msgs[q].Content
//@   loop 4 invariant forall k int :: 0 <= k && k < len(images) ==> images[k].ID == k
//@   loop 4 invariant len(images) == c19nimg(currMsgIdx + rangeindex + 1) - c19nimg(currMsgIdx)
//@   loop 5 invariant forall k int :: 0 <= k && k < len(images) ==> images[k].ID == k
//@   loop 5 invariant len(images) == c19nimg(currMsgIdx + cnt) - c19nimg(currMsgIdx) + rangeindex + 1
// every image gets its tag into the message text: it is appended to the prefix, or it replaces a
// placeholder that IS in the text at that moment (Replace(.., 1) on a text without "[img]" inserts
// nothing, and the image would be sent without a tag) - added after seeded change C19-seed1
//@   assert-at call strings.Replace #1 : scontains(arg0, "[img]") && arg1 == "[img]" && arg2 == imgTag && arg3 == 1
//@   assert-at call append #4 : imgData.ID == len(images) && 0 <= cnt && currMsgIdx + cnt <= len(msgs) - 1
//
//   THE FINAL RENDERING (append #5 builds the message list that is passed to Execute #2):
//   the latest message is retained;
//@   assert-at call Execute #2 : 0 <= currMsgIdx && currMsgIdx <= len(msgs) - 1
//   every element of system is a system message that precedes the retained messages, and every
//   system message that precedes the retained messages occurs in system (the property's own words);
//@   assert-at call append #5 : forall p int :: 0 <= p && p < len(system) ==> exists q int :: 0 <= q && q < currMsgIdx && msgs[q].Role == "system" && system[p].Role == msgs[q].Role && system[p].Content == msgs[q].Content
//@   assert-at call append #5 : forall q int :: 0 <= q && q < currMsgIdx && msgs[q].Role == "system" ==> exists p int :: 0 <= p && p < len(system) && system[p].Role == msgs[q].Role && system[p].Content == msgs[q].Content
//   the retained suffix is the longest that fits: the next older candidate does not fit (or there is
//   none) and every candidate from currMsgIdx on fits (the latest message alone is always kept);
//@   assert-at call append #5 : currMsgIdx == 0 || c19tok(currMsgIdx - 1) + ite(m.ProjectorPaths != nil, imageNumTokens * (c19nimg(len(msgs)) - c19nimg(currMsgIdx - 1)), 0) > opts.NumCtx
//@   assert-at call append #5 : forall k int :: currMsgIdx <= k && k < len(msgs) - 1 ==> c19tok(k) + ite(m.ProjectorPaths != nil, imageNumTokens * (c19nimg(len(msgs)) - c19nimg(k)), 0) <= opts.NumCtx
//   the returned images are exactly those of the retained messages (none of a dropped message).
//@   assert-at call append #5 : len(images) == c19nimg(len(msgs)) - c19nimg(currMsgIdx)
//
//   ---- added by the contract audit (clauses appended; numbering of the clauses above unchanged) ----
//   THE MESSAGE LIST HANDED TO THE TEMPLATE (final rendering): it is exactly the kept system messages
//   followed by the retained messages msgs[currMsgIdx:], one entry each, in their original order
//   (so the latest message is its last entry), and the tools of the request are passed along.
//@   assert-at call Execute #2 : len(arg2.Messages) == len(system) + len(msgs) - currMsgIdx
//@   assert-at call Execute #2 : forall p int :: 0 <= p && p < len(system) ==> arg2.Messages[p].Role == system[p].Role && arg2.Messages[p].Content == system[p].Content
//@   assert-at call Execute #2 : forall k int :: currMsgIdx <= k && k < len(msgs) ==> arg2.Messages[len(system) + k - currMsgIdx].Role == msgs[k].Role && arg2.Messages[len(system) + k - currMsgIdx].Content == msgs[k].Content
//@   assert-at call Execute #2 : len(arg2.Tools) == len(tools) && (len(tools) > 0 ==> &arg2.Tools[0] == &tools[0])
//   THE CANDIDATE whose token count decides whether msgs[i] is retained is the same composition
//   for start i: the system messages among msgs[0:i], then msgs[i:], with the same tools.
//@   assert-at call Execute #1 : len(arg2.Messages) == len(system) + len(msgs) - i
//@   assert-at call Execute #1 : forall p int :: 0 <= p && p < len(system) ==> arg2.Messages[p].Role == system[p].Role && arg2.Messages[p].Content == system[p].Content
//@   assert-at call Execute #1 : forall k int :: i <= k && k < len(msgs) ==> arg2.Messages[len(system) + k - i].Role == msgs[k].Role && arg2.Messages[len(system) + k - i].Content == msgs[k].Content
//@   assert-at call Execute #1 : len(arg2.Tools) == len(tools) && (len(tools) > 0 ==> &arg2.Tools[0] == &tools[0])
//   THE REWRITTEN TEXT of a retained message is tag prefix + image prompt + (substituted) text, it is
//   written to the message it was computed from, and messages that are not retained - in particular the
//   kept system messages - and retained messages not yet visited keep their text.
//@   ghost-at entry : ghost_c19acc := 0
//@   ghost-at entry : ghost_c19base := 0
//@   ghost-at entry : ghost_c19w := 0
//@   assert-at store Content #1 : stored == prefix + imgPrompt + prompt
//@   ghost-at store Content #1 : ghost_c19w := len(stored)
//@   ghost-at store Content #1 : ghost_c19base := ghost_c19acc
//@   loop 4 invariant forall q int :: 0 <= q && q < len(msgs) && (q < currMsgIdx || q > currMsgIdx + rangeindex) ==> msgs[q].Content == old(msgs[q].Content)
//@   loop 4 invariant rangeindex >= 0 ==> len(msgs[currMsgIdx + rangeindex].Content) == ghost_c19w
//@   loop 5 invariant forall q int :: 0 <= q && q < len(msgs) && (q < currMsgIdx || q >= currMsgIdx + cnt) ==> msgs[q].Content == old(msgs[q].Content)
//@   loop 5 invariant cnt >= 1 ==> len(msgs[currMsgIdx + cnt - 1].Content) == ghost_c19w
//   NO TAG IS LOST: every character of every tag produced for the message is in prefix or in the text
//   (ghost_c19acc adds the length of each tag and the length change of each placeholder substitution;
//   ghost_c19base is its value when the previous message was written back).
//@   ghost-at after call Sprintf #1 : ghost_c19acc := ghost_c19acc + len(result)
//@   ghost-at after call strings.Replace #1 : ghost_c19acc := ghost_c19acc + len(result) - len(arg0) - len(arg2)
//@   loop 4 invariant ghost_c19base == ghost_c19acc
//@   loop 5 invariant len(prefix) + len(prompt) == len(msg.Content) + ghost_c19acc - ghost_c19base
//@   assert-at call Sprintf #1 : arg0 == "[img-%d]" && len(arg1) == 1
//   the image data sent is the image of the message (no preprocessing outside the mllama projector path)
//@   assert-at call append #4 : !(isMllama && len(m.ProjectorPaths) != 0) ==> len(imgData.Data) == len(i) && (len(i) > 0 ==> &imgData.Data[0] == &i[0])
//   the walk itself does not touch any message text
//@   loop 1 invariant forall q int :: 0 <= q && q < len(msgs) ==> msgs[q].Content == old(msgs[q].Content)
//@   loop 2 invariant forall q int :: 0 <= q && q < len(msgs) ==> msgs[q].Content == old(msgs[q].Content)
//@   loop 1 invariant ghost_c19base == 0 && ghost_c19acc == 0
//@   loop 2 invariant ghost_c19base == 0 && ghost_c19acc == 0
//@   loop 3 invariant ghost_c19base == 0 && ghost_c19acc == 0

// ---- C19: the caller of chatPrompt (server/routes.go ChatHandler) ----
// (*http.Request).Context returns the request's context: a non-writing library function (trusted).
//@ extern func net/http.(*Request).Context
//@   modifies nothing

// THE PROMPT AND IMAGE LIST SENT TO THE RUNNER (goroutine started by ChatHandler) are the ones chatPrompt
// returned (the captured variables prompt / images, written only by the assignment from chatPrompt's
// results) - not a re-rendered prompt, not a different image list - with the options of the scheduled runner.
// (merged by the engine with the C17 block for the same closure in verif_contracts_c17.go; no opt line here)
//@ func (*Server).ChatHandler$1
//@   assert-at call Completion #1 : arg2.Prompt == prompt && len(arg2.Images) == len(images) && (len(images) > 0 ==> &arg2.Images[0] == &images[0]) && arg2.Options == opts

// THE CONVERSATION HANDED TO chatPrompt: non-empty (chatPrompt's precondition len(msgs) >= 1 is now PROVED
// at its only call site: pre@server.chatPrompt.1#1), laid out as [model system message, if the request does
// not start with one and the model has one] + the model's messages + the request's messages (length
// account, the prefix entry by entry, and the operands of the two appends), for the scheduled model, its
// options and the request's tools. The five assume-at clauses are the definitional preconditions of
// chatPrompt (names for counts over THIS message list, see above), moved to the call site; they restrict
// nothing. The clauses are the last 12 lines of the `//@ func (*Server).ChatHandler` block in
// verif_contracts_routes.go (one block per function; that file states the C01 clauses of the handler first).
// ---- end C19 ----
