//go:build verif

// Contracts for package server, checked by /verif/govc.
package server

// ---- C19 (server/prompt.go) ----

// External callees of chatPrompt (trusted, listed in the evidence):
// template.(*Template).Execute renders into w and reads v (collate copies every message
// before merging), so the only caller-visible memory it writes is the buffer behind w.
//@ extern func template.(*Template).Execute
//@   modifies boxed(w)
// tokenize is the runner's Tokenize method value (an HTTP round trip to the runner): it reads
// the string and writes nothing in the caller's memory.
//@ extern func (tokenizeFunc)
//@   modifies nothing
//@ extern func model/models/mllama.Preprocess
//@   modifies imageData.ghost_pos

//@ func checkMllamaModelFamily
//@   modifies nothing

// Loop ordinals of chatPrompt: 1 outer reverse loop (i)  2 for j := range i  3 image tokens over msgs[i:]
// 4 for cnt, msg := range msgs[currMsgIdx:]  5 for _, i := range msg.Images
//
// Ghost enumeration of the system messages (definitional preconditions: for every msgs there is
// exactly one such pair of functions on the relevant arguments, so they do not restrict the inputs):
// c19nsys(j) = number of system messages among msgs[0:j], c19sidx(p) = index of the p-th system message.
//@ spec func c19nsys(j int) int
//@ spec func c19sidx(p int) int
// c19nimg(j) = number of images attached to msgs[0:j]
//@ spec func c19nimg(j int) int
// c19tok(k) names the token count the tokenizer reported for the candidate prompt that starts at
// message k (system messages among msgs[0:k] + msgs[k:]); every k is rendered at most once.
//@ spec func c19tok(k int) int

//@ func chatPrompt
//@   requires len(msgs) >= 1
//@   requires c19nsys(0) == 0
//@   requires forall j int :: 0 <= j && j < len(msgs) ==> c19nsys(j+1) == c19nsys(j) + ite(msgs[j].Role == "system", 1, 0)
//@   requires forall j int :: 0 <= j && j < len(msgs) && msgs[j].Role == "system" ==> c19sidx(c19nsys(j)) == j
//@   requires c19nimg(0) == 0
//@   requires forall j int :: 0 <= j && j < len(msgs) ==> c19nimg(j+1) == c19nimg(j) + len(msgs[j].Images)
//@   requires forall j int :: 0 <= j && j <= len(msgs) ==> 0 <= c19nimg(j) && c19nimg(j) <= (1 << 40)
//@   ensures forall k int :: 0 <= k && k < len(images) ==> images[k].ID == k
//
//@   loop 1 invariant -1 <= i && i <= n && n - 1 <= i && n <= len(msgs) - 1 && 0 <= n
//@   loop 1 invariant n == len(msgs) - 1 ==> len(system) == 0
//@   loop 1 invariant cap(system) == 0 || fresh(system)
//@   loop 1 invariant forall q int :: 0 <= q && q < len(msgs) ==> msgs[q].Role == old(msgs[q].Role)
//@   loop 1 invariant forall q int :: 0 <= q && q < len(msgs) ==> len(msgs[q].Images) == old(len(msgs[q].Images))
//@   loop 1 invariant forall p int :: 0 <= p && p < len(system) ==> 0 <= c19sidx(p) && c19sidx(p) < n && msgs[c19sidx(p)].Role == "system" && system[p].Role == msgs[c19sidx(p)].Role && system[p].Content == msgs[c19sidx(p)].Content
//@   loop 1 invariant n < len(msgs) - 1 ==> i == n - 1 && len(system) == c19nsys(n)
//@   loop 1 invariant n < len(msgs) - 1 ==> forall q int :: 0 <= q && q < n && msgs[q].Role == "system" ==> 0 <= c19nsys(q) && c19nsys(q) < len(system) && system[c19nsys(q)].Role == msgs[q].Role && system[c19nsys(q)].Content == msgs[q].Content
//
//   maximality: every candidate start k that was accepted fits the context ...
//@   loop 1 invariant imageNumTokens == 1 || imageNumTokens == 768
//@   loop 1 invariant forall k int :: n <= k && k < len(msgs) - 1 ==> c19tok(k) + ite(m.ProjectorPaths != nil, imageNumTokens * (c19nimg(len(msgs)) - c19nimg(k)), 0) <= opts.NumCtx
//@   assume-at after call (tokenizeFunc) #1 : len(result.0) == c19tok(i)
//@   loop 3 invariant ctxLen == len(s) + imageNumTokens * (c19nimg(i + rangeindex + 1) - c19nimg(i))
//   ... and the walk stops only at a candidate that does not fit
//@   assert-at call Debug #1 : c19tok(i) + ite(m.ProjectorPaths != nil, imageNumTokens * (c19nimg(len(msgs)) - c19nimg(i)), 0) > opts.NumCtx
//@   assert-at call append #4 : currMsgIdx == 0 || c19tok(currMsgIdx - 1) + ite(m.ProjectorPaths != nil, imageNumTokens * (c19nimg(len(msgs)) - c19nimg(currMsgIdx - 1)), 0) > opts.NumCtx
//@   assert-at call append #4 : forall k int :: currMsgIdx <= k && k < len(msgs) - 1 ==> c19tok(k) + ite(m.ProjectorPaths != nil, imageNumTokens * (c19nimg(len(msgs)) - c19nimg(k)), 0) <= opts.NumCtx
//
//@   loop 2 invariant fresh(system) && len(system) == c19nsys(j)
//@   loop 2 invariant forall q int :: 0 <= q && q < len(msgs) ==> msgs[q].Role == old(msgs[q].Role)
//@   loop 2 invariant forall q int :: 0 <= q && q < len(msgs) ==> len(msgs[q].Images) == old(len(msgs[q].Images))
//@   loop 2 invariant forall p int :: 0 <= p && p < len(system) ==> 0 <= c19sidx(p) && c19sidx(p) < j && msgs[c19sidx(p)].Role == "system" && system[p].Role == msgs[c19sidx(p)].Role && system[p].Content == msgs[c19sidx(p)].Content
//@   loop 2 invariant forall q int :: 0 <= q && q < j && msgs[q].Role == "system" ==> 0 <= c19nsys(q) && c19nsys(q) < len(system) && system[c19nsys(q)].Role == msgs[q].Role && system[c19nsys(q)].Content == msgs[q].Content
//
//   the break path: the retained suffix starts at i+1, so system must cover msgs[0:i+1]
//@   assert-at call Debug #1 : forall q int :: 0 <= q && q < i + 1 && msgs[q].Role == "system" ==> 0 <= c19nsys(q) && c19nsys(q) < len(system) && system[c19nsys(q)].Role == msgs[q].Role && system[c19nsys(q)].Content == msgs[q].Content
//
//@   loop 4 invariant forall q int :: 0 <= q && q < len(msgs) ==> msgs[q].Role == old(msgs[q].Role)
//@   loop 4 invariant forall p int :: 0 <= p && p < len(system) ==> 0 <= c19sidx(p) && c19sidx(p) < currMsgIdx && msgs[c19sidx(p)].Role == "system" && system[p].Role == msgs[c19sidx(p)].Role && system[p].Content == msgs[c19sidx(p)].Content
//@   loop 4 invariant forall q int :: 0 <= q && q < currMsgIdx && msgs[q].Role == "system" ==> 0 <= c19nsys(q) && c19nsys(q) < len(system) && system[c19nsys(q)].Role == msgs[q].Role && system[c19nsys(q)].Content == msgs[q].Content
//   images: numbered by their position in the returned list; exactly the images of msgs[currMsgIdx:]
//@   loop 4 invariant forall q int :: 0 <= q && q < len(msgs) ==> len(msgs[q].Images) == old(len(msgs[q].Images))
//@   loop 4 invariant forall k int :: 0 <= k && k < len(images) ==> images[k].ID == k
//@   loop 4 invariant len(images) == c19nimg(currMsgIdx + rangeindex + 1) - c19nimg(currMsgIdx)
//@   loop 5 invariant forall k int :: 0 <= k && k < len(images) ==> images[k].ID == k
//@   loop 5 invariant len(images) == c19nimg(currMsgIdx + cnt) - c19nimg(currMsgIdx) + rangeindex + 1
//@   assert-at call append #3 : imgData.ID == len(images) && 0 <= cnt && currMsgIdx + cnt <= len(msgs) - 1
//@   assert-at call append #4 : len(images) == c19nimg(len(msgs)) - c19nimg(currMsgIdx)
//
//   the final rendering (append #4 builds the message list passed to Execute #2): latest message
//   retained, system messages in the property's own words
//@   assert-at call Execute #2 : 0 <= currMsgIdx && currMsgIdx <= len(msgs) - 1
//@   assert-at call append #4 : forall p int :: 0 <= p && p < len(system) ==> exists q int :: 0 <= q && q < currMsgIdx && msgs[q].Role == "system" && system[p].Role == msgs[q].Role && system[p].Content == msgs[q].Content
//@   assert-at call append #4 : forall q int :: 0 <= q && q < currMsgIdx && msgs[q].Role == "system" ==> exists p int :: 0 <= p && p < len(system) && system[p].Role == msgs[q].Role && system[p].Content == msgs[q].Content
// ---- end C19 ----
