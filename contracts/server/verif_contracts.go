//go:build verif

// Contracts for package server, checked by /verif/govc.
package server

// ---- C19 (server/prompt.go) ----

// External callees of chatPrompt (trusted, listed in the evidence):
// template.(*Template).Execute renders into w and reads v (collate copies every message
// before merging), so the only caller-visible memory it writes is the buffer behind w.
//@ extern func template.(*Template).Execute
//@   modifies boxed(w)
// tokenize is the runner's Tokenize method value (an HTTP round trip to the runner): it reads
// the string and writes nothing in the caller's memory.
//@ extern func (tokenizeFunc)
//@   modifies nothing
//@ extern func model/models/mllama.Preprocess
//@   modifies boxed(imageData)

//@ func checkMllamaModelFamily
//@   modifies nothing

// Loop ordinals of chatPrompt: 1 outer reverse loop (i)  2 for j := range i  3 image tokens over msgs[i:]
// 4 for cnt, msg := range msgs[currMsgIdx:]  5 for _, i := range msg.Images
//@ func chatPrompt
//@   requires len(msgs) >= 1
//@   loop 1 invariant -1 <= i && i <= n && n - 1 <= i && n <= len(msgs) - 1 && 0 <= n
//@   loop 1 invariant n == len(msgs) - 1 ==> len(system) == 0
//@   loop 1 invariant forall p int :: 0 <= p && p < len(system) ==> exists q int :: 0 <= q && q < n && msgs[q].Role == "system" && system[p].Role == msgs[q].Role && system[p].Content == msgs[q].Content
//@   loop 1 invariant n < len(msgs) - 1 ==> i == n - 1
//@   loop 1 invariant n < len(msgs) - 1 ==> forall q int :: 0 <= q && q < n && msgs[q].Role == "system" ==> exists p int :: 0 <= p && p < len(system) && system[p].Role == msgs[q].Role && system[p].Content == msgs[q].Content
//@   loop 1 invariant cap(system) == 0 || fresh(system)
//@   loop 2 invariant fresh(system)
//@   loop 2 invariant forall p int :: 0 <= p && p < len(system) ==> exists q int :: 0 <= q && q < j && msgs[q].Role == "system" && system[p].Role == msgs[q].Role && system[p].Content == msgs[q].Content
//@   loop 2 invariant forall q int :: 0 <= q && q < j && msgs[q].Role == "system" ==> exists p int :: 0 <= p && p < len(system) && system[p].Role == msgs[q].Role && system[p].Content == msgs[q].Content
//@   loop 4 invariant forall p int :: 0 <= p && p < len(system) ==> exists q int :: 0 <= q && q < currMsgIdx && msgs[q].Role == "system" && system[p].Role == msgs[q].Role && system[p].Content == msgs[q].Content
//@   loop 4 invariant forall q int :: 0 <= q && q < currMsgIdx && msgs[q].Role == "system" ==> exists p int :: 0 <= p && p < len(system) && system[p].Role == msgs[q].Role && system[p].Content == msgs[q].Content
//@   assert-at call Execute #1 : forall q int :: 0 <= q && q < i && msgs[q].Role == "system" ==> exists p int :: 0 <= p && p < len(system) && system[p].Role == msgs[q].Role && system[p].Content == msgs[q].Content
//@   assert-at after call (tokenizeFunc) #1 : forall q int :: 0 <= q && q < i && msgs[q].Role == "system" ==> exists p int :: 0 <= p && p < len(system) && system[p].Role == msgs[q].Role && system[p].Content == msgs[q].Content
//@   assert-at call Execute #2 : 0 <= currMsgIdx && currMsgIdx <= len(msgs) - 1
//@   loop 4 invariant forall k int :: 0 <= k && k < len(images) ==> images[k].ID == k
//@   loop 5 invariant forall k int :: 0 <= k && k < len(images) ==> images[k].ID == k
//@   assert-at call append #3 : imgData.ID == len(images)
// ---- end C19 ----

// ==== C13 (server/modelpath.go, server/manifest.go, server/images.go): store confinement ====
// Uses spec functions and trusted library contracts of /verif/contracts/types/model/verif_contracts.go
// (validpart, fqname, fpjoin3, fpjoin4, path/filepath.Join, strings.Cut, strings.Split): C13 loads
// ./types/model together with ./server. Nothing in this block is evaluated for other properties
// unless they verify or call the functions named here.

//@ spec func hexdig(c int) bool = (48 <= c && c <= 57) || (97 <= c && c <= 102) || (65 <= c && c <= 70)
// "sha256" + (':' | '-') + 64 hex digits, nothing else: what ^sha256[:-][0-9a-fA-F]{64}$ accepts
//@ spec func digestshape(s string) bool = len(s) == 71 && s[0] == 115 && s[1] == 104 && s[2] == 97 && s[3] == 50 && s[4] == 53 && s[5] == 54 && (s[6] == 58 || s[6] == 45) && forall j int :: 7 <= j && j < 71 ==> hexdig(s[j])
// the file name below blobs/: "sha256-" + 64 hex digits (no separator byte, not dot-first)
//@ spec func blobfile(s string) bool = len(s) == 71 && s[0] == 115 && s[1] == 104 && s[2] == 97 && s[3] == 50 && s[4] == 53 && s[5] == 54 && s[6] == 45 && forall j int :: 7 <= j && j < 71 ==> hexdig(s[j])
//@ spec func strid(s string) int
//@ spec func sreplaceall(s string, from string, to string) string

//@ lemma blobfile_no_separators(s string, j int)
//@   requires blobfile(s) && 0 <= j && j < len(s)
//@   ensures s[j] != 47 && s[j] != 92 && s[j] != 0 && s[j] != 46 && s[j] != 58

// regexp: the compiled object remembers its pattern (ghost); what MatchString decides is
// stated only for the one pattern the property names. Trusted.
//@ extern func regexp.MustCompile
//@   modifies nothing
//@   ensures result != nil && result.ghost_pat == strid(str)
//@ extern func regexp.(*Regexp).MatchString
//@   modifies nothing
//@   ensures this.ghost_pat == strid("^sha256[:-][0-9a-fA-F]{64}$") ==> (result <==> digestshape(s))

// arg1 = old, arg2 = new (`old` is a keyword of the contract language)
//@ extern func strings.ReplaceAll
//@   pure
//@   ensures result == sreplaceall(s, arg1, arg2)
//@   ensures len(arg1) == 1 && len(arg2) == 1 ==> len(result) == len(s)
//@   ensures len(arg1) == 1 && len(arg2) == 1 ==> forall j int :: 0 <= j && j < len(s) ==> result[j] == ite(s[j] == arg1[0], arg2[0], s[j])

// The models directory is fixed for the duration of a call (environment not changed concurrently).
//@ extern func envconfig.Models
//@   pure reads none

// A digest is either refused or names blobs/sha256-<64 hex> directly below the models
// directory; the only rewrite of an accepted digest is ':' -> '-'.
//@ func GetBlobsPath
//@   requires ErrInvalidDigestFormat != nil   -- errors.New value, assigned once at package init
//@   assert-at call MustCompile #1 : arg0 == "^sha256[:-][0-9a-fA-F]{64}$"
//@   ensures result.1 == nil ==> digest == "" || digestshape(digest)
//@   ensures result.1 == nil ==> result.0 == fpjoin3(envconfig.Models(), "blobs", sreplaceall(digest, ":", "-"))
//@   ensures result.1 == nil && digest != "" ==> blobfile(sreplaceall(digest, ":", "-"))
//@   ensures result.1 == nil && digest != "" ==> forall j int :: 0 <= j && j < 71 ==> sreplaceall(digest, ":", "-")[j] == ite(j == 6, 45, digest[j])
//@   ensures result.1 != nil ==> result.0 == ""

// A model path is either refused or names manifests/<host>/<namespace>/<model>/<tag> with
// four parts accepted by the validator (validpart_no_separators: no '/', '\', NUL, not dot-first).
// The first two clauses are stated over the returned path, the next two over the error. At the
// refusing return the error is the library sentinel io/fs.ErrNotExist; govc cannot yet state that
// an external package variable is non-nil (spec `fs.ErrNotExist` and the load in the code are
// different terms), so the two error-based obligations at that return are listed as undecided.
//@ func (ModelPath).GetManifestPath
//@   ensures result.0 != "" ==> fqname(mp.Registry, mp.Namespace, mp.Repository, mp.Tag)
//@   ensures result.0 != "" ==> result.0 == fpjoin3(envconfig.Models(), "manifests", fpjoin4(mp.Registry, mp.Namespace, mp.Repository, mp.Tag))
//@   ensures result.1 == nil ==> fqname(mp.Registry, mp.Namespace, mp.Repository, mp.Tag)
//@   ensures result.1 == nil ==> result.0 == fpjoin3(envconfig.Models(), "manifests", fpjoin4(mp.Registry, mp.Namespace, mp.Repository, mp.Tag))
//@   ensures !fqname(mp.Registry, mp.Namespace, mp.Repository, mp.Tag) ==> result.0 == ""

// ==== end C13 ====
