//go:build verif

// Contracts for package server, checked by /verif/govc.
package server

// ---- C19 (server/prompt.go) ----

// Property C19: "Chat prompt keeps newest messages that fit, system messages, each image once".
//
// External callees of chatPrompt (trusted, listed in the evidence):
// template.(*Template).Execute renders into w and only reads v (collate copies every message
// before merging contents), so the only caller-visible memory it writes is the buffer behind w.
//@ extern func template.(*Template).Execute
//@   modifies boxed(w)
// tokenize is the runner's Tokenize method value (an HTTP round trip to the runner process): it
// reads the string and writes nothing in the caller's memory. Operands: arg0 ctx, arg1 the text.
//@ extern func (tokenizeFunc)
//@   modifies nothing
// mllama.Preprocess decodes the image from the reader (advances it) and returns fresh data.
//@ extern func model/models/mllama.Preprocess
//@   modifies imageData.ghost_pos

//@ func checkMllamaModelFamily
//@   modifies nothing

// Ghost names used by the chatPrompt contract. The first three are introduced by definitional
// preconditions: for every conversation there is an interpretation that satisfies them, so they do
// not restrict the inputs (this engine has no recursive spec functions over slices of structs).
//   c19nsys(j) = number of system messages among msgs[0:j]
//   c19sidx(p) = index in msgs of the p-th system message (inverse of c19nsys on system messages)
//   c19nimg(j) = number of images attached to msgs[0:j]
//   c19tok(k)  = the token count the tokenizer reported for the candidate prompt that starts at
//                message k (system messages among msgs[0:k] followed by msgs[k:]); the walk renders
//                every k at most once, so naming the observed value is not a restriction either.
//@ spec func c19nsys(j int) int
//@ spec func c19sidx(p int) int
//@ spec func c19nimg(j int) int
//@ spec func c19tok(k int) int

// Loop ordinals: 1 outer reverse walk (i)   2 for j := range i   3 image tokens over msgs[i:]
//                4 for cnt, msg := range msgs[currMsgIdx:]   5 for _, i := range msg.Images
// Calls: Execute #1 / (tokenizeFunc) #1 / Debug #1 inside loop 1; append #1 (system), #2 (candidate),
//        #3 (images), #4 (final message list); Execute #2 the final rendering.
//@ func chatPrompt
//   the only caller (ChatHandler) returns before the call when the request has no messages;
//   without this precondition safe.slice (msgs[currMsgIdx:] with currMsgIdx == -1) fails
//@   requires len(msgs) >= 1
//@   requires c19nsys(0) == 0
//@   requires forall j int :: 0 <= j && j < len(msgs) ==> c19nsys(j+1) == c19nsys(j) + ite(msgs[j].Role == "system", 1, 0)
//@   requires forall j int :: 0 <= j && j < len(msgs) && msgs[j].Role == "system" ==> c19sidx(c19nsys(j)) == j
//@   requires c19nimg(0) == 0
//@   requires forall j int :: 0 <= j && j < len(msgs) ==> c19nimg(j+1) == c19nimg(j) + len(msgs[j].Images)
//   range precondition: at most 2^40 images in a conversation (no overflow in the image token count)
//@   requires forall j int :: 0 <= j && j <= len(msgs) ==> 0 <= c19nimg(j) && c19nimg(j) <= (1 << 40)
//
//   images are numbered by their position in the returned list
//@   ensures forall k int :: 0 <= k && k < len(images) ==> images[k].ID == k
//
//   (1) SYSTEM MESSAGES. On the break path the retained suffix starts at i+1, so `system` must hold
//   the system messages among msgs[0:i+1]; it holds those among msgs[0:i] (loop 2). This is the
//   assertion that FAILS on the pinned tree (a system message at index i is dropped).
//@   assert-at call Debug #1 : forall q int :: 0 <= q && q < i + 1 && msgs[q].Role == "system" ==> 0 <= c19nsys(q) && c19nsys(q) < len(system) && system[c19nsys(q)].Role == msgs[q].Role && system[c19nsys(q)].Content == msgs[q].Content
//   (2) MAXIMALITY. The walk stops only at a candidate that does not fit.
//@   assert-at call Debug #1 : c19tok(i) + ite(m.ProjectorPaths != nil, imageNumTokens * (c19nimg(len(msgs)) - c19nimg(i)), 0) > opts.NumCtx
//
//   loop 1: n is the start of the retained suffix; system is empty while only the latest message is
//   retained, afterwards exactly the system messages among msgs[0:n], in order
//@   loop 1 invariant -1 <= i && i <= n && n - 1 <= i && n <= len(msgs) - 1 && 0 <= n
//@   loop 1 invariant n == len(msgs) - 1 ==> len(system) == 0
//@   loop 1 invariant cap(system) == 0 || fresh(system)
//@   loop 1 invariant forall q int :: 0 <= q && q < len(msgs) ==> msgs[q].Role == old(msgs[q].Role)
//@   loop 1 invariant forall q int :: 0 <= q && q < len(msgs) ==> len(msgs[q].Images) == old(len(msgs[q].Images))
//@   loop 1 invariant forall p int :: 0 <= p && p < len(system) ==> 0 <= c19sidx(p) && c19sidx(p) < n && msgs[c19sidx(p)].Role == "system" && system[p].Role == msgs[c19sidx(p)].Role && system[p].Content == msgs[c19sidx(p)].Content
//@   loop 1 invariant n < len(msgs) - 1 ==> i == n - 1 && len(system) == c19nsys(n)
//@   loop 1 invariant n < len(msgs) - 1 ==> forall q int :: 0 <= q && q < n && msgs[q].Role == "system" ==> 0 <= c19nsys(q) && c19nsys(q) < len(system) && system[c19nsys(q)].Role == msgs[q].Role && system[c19nsys(q)].Content == msgs[q].Content
//   every accepted candidate start fits the context
//@   loop 1 invariant imageNumTokens == 1 || imageNumTokens == 768
//@   loop 1 invariant forall k int :: n <= k && k < len(msgs) - 1 ==> c19tok(k) + ite(m.ProjectorPaths != nil, imageNumTokens * (c19nimg(len(msgs)) - c19nimg(k)), 0) <= opts.NumCtx
//   explicit assumption (definition of c19tok, see above)
//@   assume-at after call (tokenizeFunc) #1 : len(result.0) == c19tok(i)
//
//   loop 2: system holds exactly the system messages among msgs[0:j]
//@   loop 2 invariant fresh(system) && len(system) == c19nsys(j)
//@   loop 2 invariant forall q int :: 0 <= q && q < len(msgs) ==> msgs[q].Role == old(msgs[q].Role)
//@   loop 2 invariant forall q int :: 0 <= q && q < len(msgs) ==> len(msgs[q].Images) == old(len(msgs[q].Images))
//@   loop 2 invariant forall p int :: 0 <= p && p < len(system) ==> 0 <= c19sidx(p) && c19sidx(p) < j && msgs[c19sidx(p)].Role == "system" && system[p].Role == msgs[c19sidx(p)].Role && system[p].Content == msgs[c19sidx(p)].Content
//@   loop 2 invariant forall q int :: 0 <= q && q < j && msgs[q].Role == "system" ==> 0 <= c19nsys(q) && c19nsys(q) < len(system) && system[c19nsys(q)].Role == msgs[q].Role && system[c19nsys(q)].Content == msgs[q].Content
//
//@   loop 3 invariant ctxLen == len(s) + imageNumTokens * (c19nimg(i + rangeindex + 1) - c19nimg(i))
//
//   loop 4 rewrites msgs[currMsgIdx+cnt].Content only; loops 4/5 append exactly the images of msgs[currMsgIdx:]
//@   loop 4 invariant forall q int :: 0 <= q && q < len(msgs) ==> msgs[q].Role == old(msgs[q].Role)
//@   loop 4 invariant forall q int :: 0 <= q && q < len(msgs) ==> len(msgs[q].Images) == old(len(msgs[q].Images))
//@   loop 4 invariant forall p int :: 0 <= p && p < len(system) ==> 0 <= c19sidx(p) && c19sidx(p) < currMsgIdx && msgs[c19sidx(p)].Role == "system" && system[p].Role == msgs[c19sidx(p)].Role && system[p].Content == msgs[c19sidx(p)].Content
//@   loop 4 invariant forall q int :: 0 <= q && q < currMsgIdx && msgs[q].Role == "system" ==> 0 <= c19nsys(q) && c19nsys(q) < len(system) && system[c19nsys(q)].Role == msgs[q].Role && system[c19nsys(q)].Content == msgs[q].Content
//@   loop 4 invariant forall k int :: 0 <= k && k < len(images) ==> images[k].ID == k
//@   loop 4 invariant len(images) == c19nimg(currMsgIdx + rangeindex + 1) - c19nimg(currMsgIdx)
//@   loop 5 invariant forall k int :: 0 <= k && k < len(images) ==> images[k].ID == k
//@   loop 5 invariant len(images) == c19nimg(currMsgIdx + cnt) - c19nimg(currMsgIdx) + rangeindex + 1
// every image gets its tag into the message text: it is appended to the prefix, or it replaces a
// placeholder that IS in the text at that moment (Replace(.., 1) on a text without "[img]" inserts
// nothing, and the image would be sent without a tag) - added after seeded change C19-seed1
//@   assert-at call strings.Replace #1 : scontains(arg0, "[img]") && arg1 == "[img]" && arg2 == imgTag && arg3 == 1
//@   assert-at call append #4 : imgData.ID == len(images) && 0 <= cnt && currMsgIdx + cnt <= len(msgs) - 1
//
//   THE FINAL RENDERING (append #5 builds the message list that is passed to Execute #2):
//   the latest message is retained;
//@   assert-at call Execute #2 : 0 <= currMsgIdx && currMsgIdx <= len(msgs) - 1
//   every element of system is a system message that precedes the retained messages, and every
//   system message that precedes the retained messages occurs in system (the property's own words);
//@   assert-at call append #5 : forall p int :: 0 <= p && p < len(system) ==> exists q int :: 0 <= q && q < currMsgIdx && msgs[q].Role == "system" && system[p].Role == msgs[q].Role && system[p].Content == msgs[q].Content
//@   assert-at call append #5 : forall q int :: 0 <= q && q < currMsgIdx && msgs[q].Role == "system" ==> exists p int :: 0 <= p && p < len(system) && system[p].Role == msgs[q].Role && system[p].Content == msgs[q].Content
//   the retained suffix is the longest that fits: the next older candidate does not fit (or there is
//   none) and every candidate from currMsgIdx on fits (the latest message alone is always kept);
//@   assert-at call append #5 : currMsgIdx == 0 || c19tok(currMsgIdx - 1) + ite(m.ProjectorPaths != nil, imageNumTokens * (c19nimg(len(msgs)) - c19nimg(currMsgIdx - 1)), 0) > opts.NumCtx
//@   assert-at call append #5 : forall k int :: currMsgIdx <= k && k < len(msgs) - 1 ==> c19tok(k) + ite(m.ProjectorPaths != nil, imageNumTokens * (c19nimg(len(msgs)) - c19nimg(k)), 0) <= opts.NumCtx
//   the returned images are exactly those of the retained messages (none of a dropped message).
//@   assert-at call append #5 : len(images) == c19nimg(len(msgs)) - c19nimg(currMsgIdx)
// ---- end C19 ----
