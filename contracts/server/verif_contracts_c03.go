//go:build verif

// Contracts for package server, property C03 (pull path: server/images.go, server/download.go),
// checked by /verif/govc. Comment-only.
package server

// ==== C03 (A): safety sweep over everything that parses registry responses ====
// Header strings, Content-Length values and manifest digests are arbitrary (no requires on them).

// getValue: endIdx never moves left of startIdx and stays within the header once the loop
// has been entered; the slice at the end is in range only if startIdx <= len(header).
//@ func getValue
//@   modifies nothing
//@   loop 1 invariant startIdx <= endIdx && endIdx <= max(len(header), startIdx)
//@   loop 1 decreases len(header) - endIdx
//@   ensures len(result) <= len(header)
// (coverage extension) functional contract of the challenge-field scanner: no "key=" -> ""; otherwise the
// value starts right after `key="` (2 bytes past the key: '=' and the opening quote), is a substring of the
// header, ends at the FIRST quote that is followed by a comma or by the end of the header (or at the end of
// the header when there is no such quote), and contains no earlier such quote.
//@   loop 1 invariant forall j int :: startIdx <= j && j < endIdx ==> !(header[j] == 34 && (j + 1 >= len(header) || header[j + 1] == 44))
//@   ensures sindex(header, key + "=") == -1 ==> result == ""
//@   ensures sindex(header, key + "=") >= 0 && sindex(header, key + "=") + len(key) + 2 > len(header) ==> result == ""
//@   ensures sindex(header, key + "=") >= 0 && sindex(header, key + "=") + len(key) + 2 <= len(header) ==> sindex(header, key + "=") + len(key) + 2 + len(result) <= len(header) && result == header[sindex(header, key + "=") + len(key) + 2 : sindex(header, key + "=") + len(key) + 2 + len(result)]
//@   ensures sindex(header, key + "=") >= 0 && sindex(header, key + "=") + len(key) + 2 + len(result) < len(header) ==> header[sindex(header, key + "=") + len(key) + 2 + len(result)] == 34 && (sindex(header, key + "=") + len(key) + 2 + len(result) + 1 >= len(header) || header[sindex(header, key + "=") + len(key) + 2 + len(result) + 1] == 44)
//@   ensures sindex(header, key + "=") >= 0 ==> forall j int :: sindex(header, key + "=") + len(key) + 2 <= j && j < sindex(header, key + "=") + len(key) + 2 + len(result) ==> !(header[j] == 34 && (j + 1 >= len(header) || header[j + 1] == 44))

//@ extern func strings.TrimPrefix
//@   pure
//@   ensures len(result) <= len(s)

//@ func parseRegistryChallenge
//@   modifies nothing
// (coverage extension) the three fields of the challenge are the values of realm / service / scope of the
// header after the "Bearer " prefix was dropped - each taken with its own key, none swapped.
//@   ghost-at after call TrimPrefix #1 : ghost_tp := result
//@   ghost-at after call getValue #1 : ghost_v1 := result
//@   ghost-at after call getValue #2 : ghost_v2 := result
//@   ghost-at after call getValue #3 : ghost_v3 := result
//@   assert-at call TrimPrefix #1 : arg0 == authStr && arg1 == "Bearer "
//@   assert-at call getValue #1 : arg0 == ghost_tp && arg1 == "realm"
//@   assert-at call getValue #2 : arg0 == ghost_tp && arg1 == "service"
//@   assert-at call getValue #3 : arg0 == ghost_tp && arg1 == "scope"
//@   ensures result.Realm == ghost_v1 && result.Service == ghost_v2 && result.Scope == ghost_v3

// makeRequest: testMakeRequestDialContext is a test-only hook (assigned only in routes_test.go);
// the unchecked http.DefaultTransport.(*http.Transport) sits behind it.
//@ func makeRequest
//@   assume-at after call Get #1 : testMakeRequestDialContext == nil     -- test hook, nil outside _test.go
//@   modifies requestURL.Scheme, headers[all]
//@   ensures result.1 == nil ==> result.0 != nil
// (coverage extension) the request that is sent is built from the caller's method, URL text
// (requestURL.String() after the optional scheme downgrade) and body; a token in the registry options is
// sent as "Authorization: Bearer <token>" (the retry after a 401 depends on it); the scheme is rewritten
// only to "http" and only for Insecure options; the request handed to Do is the one built here.
//@   ghost-at after call String #1 : ghost_us := result
//@   assert-at call String #1 : arg0 == requestURL
//@   assert-at call NewRequestWithContext #1 : arg0 == ctx && arg1 == method && arg2 == ghost_us && arg3 == body
//@   assert-at call Set #1 : regOpts.Token != "" && arg0 == req.Header && arg1 == "Authorization" && arg2 == "Bearer " + regOpts.Token
//@   assert-at call Set #2 : arg0 == req.Header && arg1 == "User-Agent"
//@   ghost-at entry : ghost_auth := 0
//@   ghost-at after call Set #1 : ghost_auth := 1
//@   assert-at call Do #1 : arg1 == req
//@   assert-at call Do #1 : regOpts != nil && regOpts.Token != "" ==> ghost_auth == 1
//@   assert-at call Do #1 : headers != nil ==> req.Header == headers
// the client that sends it carries the caller's redirect policy (run$1 installs the CDN policy run$1$1 there)
//@   assert-at call Do #1 : arg0.CheckRedirect == regOpts.CheckRedirect
//@   ensures requestURL.Scheme != old(requestURL.Scheme) ==> regOpts != nil && regOpts.Insecure && requestURL.Scheme == "http"

//@ func makeRequestWithRetry
//@   modifies requestURL.Scheme, headers[all], regOpts.Token
//@   ensures result.1 == nil ==> result.0 != nil && result.0.StatusCode < 400 && result.0.StatusCode != 401
// the two sentinel returns: os.ErrNotExist (library) and errUnauthorized (package-level errors.New value) are non-nil
// (return ordinals of this function follow govc's visiting order, see `./check C03 --list`)
//@   assume-at return #3 : result.1 != nil      -- `return nil, os.ErrNotExist`: the library sentinel is non-nil
//@   assume-at return #8 : errUnauthorized != nil      -- `return nil, errUnauthorized`: assigned once at package init, never reassigned
// (coverage extension) "auth challenge parsing and token retry": every attempt is the caller's request
// (same context, method, URL, headers, options); after a 401 the challenge parsed is THAT response's
// www-authenticate header, the token obtained for it is stored in regOpts.Token before the next attempt
// (makeRequest then sends it, see above); an error of the token endpoint ends the request (no retry without
// token); the response returned on success is the last attempt's.
// ghost_retry  0 no token fetched yet / 1 token fetched without error / 2 token fetch failed
//@   ghost-at entry : ghost_retry := 0
//@   ghost-at after call Get #1 : ghost_wa := result
//@   ghost-at after call getAuthorizationToken #1 : ghost_tok := result.0
//@   ghost-at after call getAuthorizationToken #1 : ghost_retry := ite(result.1 == nil, 1, 2)
//@   loop 1 invariant ghost_retry == 0 || ghost_retry == 1
//@   loop 1 invariant ghost_retry == 1 ==> regOpts.Token == ghost_tok
//@   assert-at call makeRequest #1 : arg0 == ctx && arg1 == method && arg2 == requestURL && arg3 == headers && arg5 == regOpts
//@   assert-at call makeRequest #1 : ghost_retry == 1 ==> regOpts.Token == ghost_tok
//@   assert-at call Get #1 : arg0 == resp.Header && arg1 == "www-authenticate" && resp.StatusCode == 401
//@   assert-at call parseRegistryChallenge #1 : arg0 == ghost_wa
//@   assert-at call getAuthorizationToken #1 : arg0 == ctx && arg1 == challenge
//@   assert-at return #6 : result.0 == resp && result.1 == nil

// ---- trusted library contracts used by the pull path (only frames: what a call may change in
// ---- memory the verified functions can see; network/file-system effects are not modelled).
// Response bodies, requests, clients are opaque library objects.
//@ extern func io.(ReadCloser).Close
//@   modifies nothing
// (io.ReadAll, fmt.Errorf, os.Stat/Open/OpenFile/Remove/Rename/MkdirAll, os.(*File).Close/Name/Truncate:
//  trusted frames in contracts/server/internal/cache/blob/verif_contracts.go, loaded through
//  "contract_packages" of props/C03.json)
//@ extern func net/http.(Header).Get
//@   modifies nothing
//@ extern func net/http.(Header).Set
//@   modifies this[all]
//@ extern func net/http.NewRequestWithContext
//@   modifies nothing
//@   ensures result.1 == nil ==> result.0 != nil && fresh(result.0) && fresh(result.0.Header)
//@ extern func net/http.(*Request).SetBasicAuth
//@   modifies r.Header[all]
//@ extern func net/http.(*Transport).Clone
//@   modifies nothing
//@ extern func net/http.(*Client).Do
//@   modifies nothing
//@   ensures result.1 == nil ==> result.0 != nil
//@ extern func net/http.(Header).Add
//@   modifies this[all]
//@ extern func auth.Sign
//@   modifies nothing
//@ extern func encoding/json.Unmarshal
//@   modifies boxed(v)
//@ extern func encoding/json.NewDecoder
//@   modifies nothing
//@ extern func encoding/json.(*Decoder).Decode
//@   modifies boxed(v)
//@ extern func encoding/json.NewEncoder
//@   modifies nothing
//@ extern func encoding/json.(*Encoder).Encode
//@   modifies nothing
// getAuthorizationToken (server/auth.go) signs a fresh request with the local key and calls
// makeRequest with fresh headers and fresh registryOptions: nothing of the caller is written.
//@ func getAuthorizationToken
//@   modifies nothing
// (coverage extension) the token returned is the one decoded from the body of the signed GET to the
// challenge's URL: the request goes to redirectURL with the signature in the Authorization header, the body
// read is that response's, a status >= 400 or a body that is not JSON is an error - never an empty token
// reported as success.
//@   ghost-at entry : ghost_um := 0
//@   ghost-at after call Unmarshal #1 : ghost_um := ite(result == nil, 1, 0)
//@   assert-at call URL #1 : arg0 == challenge
//@   assert-at call Add #1 : arg0 == headers && arg1 == "Authorization" && arg2 == signature
//@   assert-at call makeRequest #1 : arg0 == ctx && arg1 == "GET" && arg2 == redirectURL && arg3 == headers
//@   assert-at call ReadAll #1 : arg0 == response.Body
//@   assert-at call Unmarshal #1 : response.StatusCode < 400 && len(arg0) == len(body)
//@   ensures result.1 == nil ==> ghost_um == 1
//@ extern func auth.NewNonce
//@   modifies nothing
//@ func (registryChallenge).URL
//@   assume-at after call Parse #1 : result.1 == nil ==> result.0 != nil && fresh(result.0)     -- net/url.Parse returns a new URL
//@   modifies nothing
//@   ensures result.1 == nil ==> result.0 != nil && fresh(result.0)
// (coverage extension) the token URL is the challenge's realm with service and every scope word added
//@   assert-at call Parse #1 : arg0 == r.Realm
//@   assert-at call Split #1 : arg0 == r.Scope && arg1 == " "
//@   assert-at call Add #1 : arg1 == "service" && arg2 == r.Service
//@   assert-at call Add #2 : arg1 == "scope" && arg2 == s
//@   assert-at call Add #4 : arg1 == "nonce" && arg2 == nonce

// ---- blobDownload.Prepare: part layout computed from an arbitrary Content-Length ----
// writePart only writes the part's JSON record to disk.
//@ func (*blobDownload).writePart
//@   modifies nothing
//@ func (*blobDownloadPart).Name
//@   modifies nothing
//@ func (*blobDownload).readPart
//@   modifies nothing
//@   ensures result.1 == nil ==> result.0 != nil && fresh(result.0)
// (round 4) a part read back from disk belongs to this download (Name() of the part derives the record's
// file name from it; a nil back pointer is a nil dereference in downloadChunk)
//@   ensures result.1 == nil ==> result.0.blobDownload == b
//@ extern func path/filepath.Glob
//@   modifies nothing

//@ func (*blobDownload).newPart
//@   modifies b.Parts
//@   ensures result == nil ==> len(b.Parts) == old(len(b.Parts)) + 1
//@   ensures result == nil ==> forall k int :: 0 <= k && k < old(len(b.Parts)) ==> b.Parts[k] == old(b.Parts[k])
//@   ensures result == nil ==> fresh(b.Parts[old(len(b.Parts))])
//@   ensures result == nil ==> b.Parts[old(len(b.Parts))].Offset == offset && b.Parts[old(len(b.Parts))].Size == size && b.Parts[old(len(b.Parts))].N == old(len(b.Parts))
//@   ensures result != nil ==> len(b.Parts) == old(len(b.Parts))
//@   ensures result == nil ==> b.Parts[old(len(b.Parts))].blobDownload == b

// Loops: 1 existing part files (resume)   2 fresh layout `for offset < b.Total`.
// Fresh layout (ghost_head == 1: the HEAD request was made, i.e. no part file existed). All parts
// but the last have the same size S = clamp(Total/16, 100 MB, 1000 MB) (ghost_S), part k starts at
// k*S, the last one ends at offset; hence the parts tile [0, offset) without gap or overlap, every
// part is non-empty and numbered by its index; at the end offset == b.Total. The loop terminates
// (variant b.Total - offset). The adjacency form (part k ends where part k+1 starts) is asserted at
// the final return and follows from the closed form.
// Frame: Prepare#frame.* for the call makeRequestWithRetry(..., nil /* headers */, ...) cannot be
// discharged by govc-stable (the callee's `modifies headers[all]` is checked against a nil map that
// is neither fresh nor listed) - listed as undecided in props/C03.json.
//@ func (*blobDownload).Prepare
//@   requires len(b.Digest) >= 19
//@   modifies b.done, b.Total, b.Parts, requestURL.Scheme, opts.Token
//@   ensures b.Digest == old(b.Digest) && b.Name == old(b.Name)
//@   loop 1 invariant b.Digest == old(b.Digest) && b.Name == old(b.Name)
//@   assume-at after call ParseInt #1 : result.0 <= (1 << 62)      -- range assumption: a blob is smaller than 4 EiB (otherwise offset+size wraps)
//@   ghost-at entry : ghost_head := 0
//@   ghost-at entry : ghost_total := 0
//@   ghost-at entry : ghost_S := 0
//@   ghost-at after call makeRequestWithRetry #1 : ghost_head := 1
//@   ghost-at after call ParseInt #1 : ghost_total := result.0
//@   ghost-at after call ParseInt #1 : ghost_S := min(max(result.0 / 16, minDownloadPartSize), maxDownloadPartSize)
//@   loop 2 invariant b.Total == ghost_total && ghost_total <= (1 << 62) && b.Digest == old(b.Digest) && b.Name == old(b.Name) && ghost_head == 1
//@   loop 2 invariant minDownloadPartSize <= ghost_S && ghost_S <= maxDownloadPartSize
//@   loop 2 invariant 0 <= offset && 0 < size && size <= ghost_S && (offset <= b.Total || offset == 0)
//@   loop 2 invariant 0 <= len(b.Parts) && (len(b.Parts) == 0 ==> offset == 0)
//@   loop 2 invariant offset < b.Total ==> size == ghost_S && offset == len(b.Parts) * ghost_S
//@   loop 2 invariant forall k int :: 0 <= k && k < len(b.Parts) ==> b.Parts[k] != nil && b.Parts[k].Size > 0 && b.Parts[k].N == k
//@   loop 2 invariant forall k int :: 0 <= k && k < len(b.Parts) ==> b.Parts[k].Offset == k * ghost_S
//@   loop 2 invariant forall k int :: 0 <= k && k < len(b.Parts) - 1 ==> b.Parts[k].Size == ghost_S
//@   loop 2 invariant len(b.Parts) > 0 ==> b.Parts[len(b.Parts) - 1].Offset + b.Parts[len(b.Parts) - 1].Size == offset
//@   loop 2 decreases b.Total - offset
//@   assert-at return #5 : ghost_head == 1 && len(b.Parts) > 0 ==> b.Parts[0].Offset == 0 && b.Parts[len(b.Parts) - 1].Offset + b.Parts[len(b.Parts) - 1].Size == b.Total
//@   assert-at return #5 : ghost_head == 1 ==> forall k int :: 0 <= k && k < len(b.Parts) ==> b.Parts[k].Offset == k * ghost_S && (k < len(b.Parts) - 1 ==> b.Parts[k].Size == ghost_S)
//@   assert-at return #5 : ghost_head == 1 ==> forall k int, j int :: 0 <= k && j == k + 1 && j < len(b.Parts) ==> b.Parts[k].Offset + b.Parts[k].Size == b.Parts[j].Offset
//@   assert-at return #5 : ghost_head == 1 ==> forall k int :: 0 <= k && k < len(b.Parts) ==> b.Parts[k].Size > 0 && b.Parts[k].N == k
//@   assert-at return #5 : ghost_head == 1 && b.Total > 0 ==> len(b.Parts) > 0
// (coverage extension) both layouts - resumed from part records (loop 1) or fresh (loop 2): every part of a
// prepared download exists and points back to this download (blobDownloadPart.Name, the progress counter of
// Write and the record file name all go through that pointer; run / run$2 / downloadChunk dereference it).
// The download handed to Prepare has no parts yet (proved at the call in downloadBlob).
//@   requires len(b.Parts) == 0
//@   loop 1 invariant forall k int :: 0 <= k && k < len(b.Parts) ==> b.Parts[k] != nil && b.Parts[k].blobDownload == b
//@   loop 2 invariant forall k int :: 0 <= k && k < len(b.Parts) ==> b.Parts[k].blobDownload == b
//@   ensures result == nil ==> forall k int :: 0 <= k && k < len(b.Parts) ==> b.Parts[k] != nil && b.Parts[k].blobDownload == b

// ---- downloadBlob ----
//@ extern func sync.(*Map).Delete
//@   modifies nothing
// LoadOrStore returns the given value when it stored it (loaded == false).
//@ extern func sync.(*Map).LoadOrStore
//@   modifies nothing
//@   ensures !result.1 ==> result.0 == value

// blobDownloadManager is written only here (LoadOrStore with a *blobDownload whose Digest is the
// key); an entry found there was stored by another downloadBlob call with the same digest.
// A-fn: the progress callback only forwards its argument (routes.go: `fn := func(r api.ProgressResponse) { ch <- r }`);
// it writes nothing that the pull path can observe.
//@ extern func (downloadOpts).fn
//@   modifies nothing
//@ func downloadBlob
//@   modifies opts.regOpts.Token
//@   assume-at call GetBlobsPath #1 : ErrInvalidDigestFormat != nil   -- package-level errors.New value, assigned once at package init, never reassigned
//@   assume-at after call LoadOrStore #1 : result.1 ==> tagis(result.0, "*blobDownload")     -- only *blobDownload values are ever stored in blobDownloadManager
//@   assume-at call Wait #1 : ok ==> download.Digest == opts.digest       -- entries are stored under their own digest
// (strengthening round 4) cacheHit tells PullModel "skip the SHA-256 check": it may be true only when
// os.Stat found the blob file blobpath(digest) BEFORE this call started or joined any download - never
// after LoadOrStore/Prepare/Run/Wait. A nil error without cache hit means the download was waited for
// and Wait returned nil (the error of blobDownload.run reaches PullModel, nothing is swallowed).
// A new entry in blobDownloadManager is either waited for (after `go download.Run`; govc has no site
// selector for go statements, so the spawn itself is not pinned) or deleted again before the error is
// returned (otherwise every later pull of this digest waits on a `done` channel nobody closes).
// ghost_st    1 iff os.Stat returned a nil error        ghost_los  1 after LoadOrStore was called
// ghost_new   1 iff LoadOrStore stored the new entry    ghost_wtc  1 after Wait was called
// ghost_del   1 after blobDownloadManager.Delete        ghost_wt   1 iff Wait returned nil
// ghost_prep  1 iff Prepare returned nil
//@   ghost-at entry : ghost_st := 0
//@   ghost-at entry : ghost_los := 0
//@   ghost-at entry : ghost_new := 0
//@   ghost-at entry : ghost_wtc := 0
//@   ghost-at entry : ghost_del := 0
//@   ghost-at entry : ghost_wt := 0
//@   ghost-at entry : ghost_prep := 0
//@   ghost-at after call os.Stat #1 : ghost_st := ite(result.1 == nil, 1, 0)
//@   ghost-at after call LoadOrStore #1 : ghost_los := 1
//@   ghost-at after call LoadOrStore #1 : ghost_new := ite(result.1, 0, 1)
//@   ghost-at after call Prepare #1 : ghost_prep := ite(result == nil, 1, 0)
//@   ghost-at after call Delete #1 : ghost_del := 1
//@   ghost-at after call Wait #1 : ghost_wtc := 1
//@   ghost-at after call Wait #1 : ghost_wt := ite(result == nil, 1, 0)
//@   assume-at return #1 : ErrInvalidDigestFormat != nil   -- same fact as above (package-level errors.New value, never reassigned), at `return false, ErrInvalidDigestFormat`
//@   assert-at call os.Stat #1 : arg0 == blobpath(opts.digest)
//@   ensures result.0 ==> ghost_st == 1 && ghost_los == 0 && result.1 == nil
//@   ensures result.1 == nil && !result.0 ==> ghost_wt == 1
//@   ensures ghost_new == 1 ==> ghost_wtc == 1 || ghost_del == 1
//@   assert-at call Prepare #1 : ghost_new == 1 && download.Name == blobpath(opts.digest) && download.Digest == opts.digest && download.Total == 0 && len(download.Parts) == 0
//@   assert-at call Wait #1 : ghost_new == 1 ==> ghost_prep == 1
//@   assert-at call Delete #1 : ghost_new == 1 && ghost_prep == 0
// (C15) Wait's deferred release() calls b.CancelFunc when the last waiter leaves - possibly at once
// (ctx already cancelled) and before the goroutine started by `go download.Run` was ever scheduled:
// the cancel func has to be in place when Wait is called. For a download created here that is this
// function's own doing; for one found in blobDownloadManager (ok: another pull stored it and may
// still be inside Prepare) nothing establishes it - recorded in known_findings.json.
//@   assert-at call Wait #1 : !ok ==> download.CancelFunc != nil
//@   assert-at call Wait #1 : ok ==> download.CancelFunc != nil
// (coverage extension) the blob is requested from <scheme>://<registry>/v2/<namespace>/<repository>/blobs/<digest>
// of the caller's ModelPath (BaseURL / GetNamespaceRepository of opts.mp, joined with exactly these four
// elements); Prepare gets that URL and the caller's registry options; the store path is asked for the digest.
//@   ghost-at after call GetNamespaceRepository #1 : ghost_nr := result
//@   assert-at call GetBlobsPath #1 : arg0 == opts.digest
//@   assert-at call BaseURL #1 : arg0 == opts.mp
//@   assert-at call GetNamespaceRepository #1 : arg0 == opts.mp
//@   assert-at call JoinPath #1 : arg0.Scheme == opts.mp.ProtocolScheme && arg0.Host == opts.mp.Registry && len(arg1) == 4 && arg1[0] == "v2" && arg1[1] == ghost_nr && arg1[2] == "blobs" && arg1[3] == opts.digest
//@   assert-at call Prepare #1 : arg1 == ctx && arg2 == requestURL && arg3 == opts.regOpts
//@   assert-at call Wait #1 : arg1 == ctx
// (round 5, C03-seed4) registered and unregistered under the digest as spelled in the manifest - the key
// blobDownload.run deletes when it ends (b.Digest): see the clause on run.
//@   assert-at call LoadOrStore #1 : tagis(arg1, "string") && unbox(arg1, "string") == opts.digest && tagis(arg2, "*blobDownload") && unbox(arg2, "*blobDownload").Digest == opts.digest
//@   assert-at call Delete #1 : tagis(arg1, "string") && unbox(arg1, "string") == opts.digest

//@ extern func context.WithCancel
//@   modifies nothing
//@   ensures result.0 != nil && result.1 != nil

//@ func (*blobDownload).acquire
//@   modifies nothing
// b.CancelFunc is the cancel function of the download's own context (set in run)
//@ extern func (blobDownload).CancelFunc
//@   modifies nothing
//@ func (*blobDownload).release
//@   modifies nothing
// Wait: b.Digest is written only by the composite literal in downloadBlob. The loop invariant cannot
// be kept by govc and the call fn(...) cannot be framed: a call through the func-typed parameter fn
// has no contract key and forgets the whole heap - Wait#frame.6 and Wait#loop1.inv1.keep@b5 are listed
// as undecided; the slice b.Digest[7:19] itself is discharged from the invariant.
//@ func (*blobDownload).Wait
//@   requires len(b.Digest) >= 19
//@   modifies nothing
//@   loop 1 invariant b.Digest == old(b.Digest)
// (round 4) when the download is done, Wait reports the error blobDownload.run left in b.err
// (`case <-b.done: return b.err`): a failed download is never reported as nil to downloadBlob/PullModel.
//@   assert-at return #2 : result == b.err

//@ func (*blobDownload).Run
//@   requires len(b.Digest) >= 19
// (round 4) the result of run - nil only after the rename - is what waiters see in b.err
//@   ghost-at after call run #1 : ghost_rr := ite(result == nil, 1, 0)
//@   ensures b.err == nil ==> ghost_rr == 1

// ==== C03 (B): order of effects in PullModel ====
// wk() is an arbitrary fixed layer index (uninterpreted constant): what is proved about it holds
// for every index. The ghost flags record what happened to layer wk() in this call.
//@ spec func wk() int
// wm(): an arbitrary fixed index into the pulled manifest's Layers (round 4, used at the end of PullModel's contract)
//@ spec func wm() int

//@ extern func os.WriteFile
//@   modifies nothing
//@ extern func encoding/json.Marshal
//@   modifies nothing
//@ extern func GetSHA256Digest
//@   modifies nothing

// ---- error identity between verifyBlob and PullModel ----
// errwraps(e, t): errors.Is(e, t) - t is e itself or is reached from e by Unwrap. (Interface values
// are single integer terms in govc; the parameters are declared int because the universe type
// `error` cannot be named in a spec func signature.)
//@ spec func errwraps(e int, t int) bool
// fmtverb(f, p, n, inverb): the verb character that consumes operand n (0-based) of the format f when
// the scan is at byte p; inverb = the scan is between a '%' and its verb character. 0 = f has no verb
// for operand n. This is fmt's scan (doPrintf) for the plain grammar %[flags][width][.prec]verb and
// "%%"; for '*' (width taken from an operand) and '[' (explicit operand index) nothing is claimed
// (uninterpreted fmtverbx).
//   37 '%'   32 ' '  35 '#'  43 '+'  45 '-'  46 '.'  48..57 digits   42 '*'  91 '['
//@ spec func fmtverbx(f string, p int, n int) int
//@ spec func fmtverb(f string, p int, n int, inverb bool) int = ite(p < 0 || p >= len(f) || n < 0, 0, ite(!inverb, fmtverb(f, p + 1, n, f[p] == 37), ite(f[p] == 37, fmtverb(f, p + 1, n, false), ite(f[p] == 32 || f[p] == 35 || f[p] == 43 || f[p] == 45 || f[p] == 46 || (48 <= f[p] && f[p] <= 57), fmtverb(f, p + 1, n, true), ite(f[p] == 42 || f[p] == 91, fmtverbx(f, p, n), ite(n == 0, f[p], fmtverb(f, p + 1, n - 1, false)))))))
//@   decreases len(f) - p

// verifyBlob(digest) == nil means: the file that GetBlobsPath(digest) names was opened and hashed and
// its SHA-256 equals digest. Once the file was hashed, every error returned is recognised by
// errors.Is(err, errDigestMismatch): that test is what makes PullModel remove the corrupt blob; a
// mismatch reported as any other error leaves the blob under its final name, and the next pull takes
// it for a cache hit and never hashes it.
// ghost_hashed  1 after GetSHA256Digest returned (the file content was read and hashed)
// Library fact used (assume-at, props/C03.json assumptions): fmt.Errorf wraps the operand of a %w verb
// (119 'w'): errors.Is(result, operand) holds. Stated for the first three operands.
//@ func verifyBlob
//@   assume-at call GetBlobsPath #1 : ErrInvalidDigestFormat != nil   -- package-level errors.New value, assigned once at package init, never reassigned
//@   modifies nothing
//@   ghost-at entry : ghost_hashed := 0
//@   ghost-at after call GetSHA256Digest : ghost_hashed := 1
//@   assume-at after call Errorf : (len(arg1) > 0 && fmtverb(arg0, 0, 0, false) == 119 ==> errwraps(result, arg1[0])) && (len(arg1) > 1 && fmtverb(arg0, 0, 1, false) == 119 ==> errwraps(result, arg1[1])) && (len(arg1) > 2 && fmtverb(arg0, 0, 2, false) == 119 ==> errwraps(result, arg1[2]))     -- library fact: fmt.Errorf("...%w...", e) wraps e
//@   ensures result == nil ==> ghost_hashed == 1
//@   ensures ghost_hashed == 1 && result != nil ==> errwraps(result, errDigestMismatch)
// the file hashed is the blob the digest names, and nil is returned only for equal digests
//@   assert-at call os.Open #1 : arg0 == blobpath(digest)
//@   assert-at return #4 : result == nil && digest == fileDigest
// (round 4) the reader that is hashed is the opened blob file itself (dynamic type *os.File): not a
// length-limited or otherwise wrapped view of it
//@   assert-at call GetSHA256Digest #1 : tagis(arg0, "*os.File")

// Loops: 1 old manifest's layers (deleteMap)   2 download   3 verify.
// (inside a range loop body the index of the current element is rangeindex + 1)
// ghost_wdl    1 iff downloadBlob(layers[wk()]) returned a nil error
// ghost_wfresh 1 iff it returned cacheHit == false: the blob was put under its final name by this
//              call (blobDownload.run renames before any verification)
// ghost_wver   1 iff verifyBlob(layers[wk()].Digest) returned nil
// ghost_wrm    1 iff os.Remove(blob of layers[wk()]) was called (after a digest mismatch)
// ghost_mm     1 after errors.Is(err, errDigestMismatch) was true for the layer being verified
// ghost_rm     1 after os.Remove was called for the layer being verified
//@ func PullModel
//@   assume-at call GetBlobsPath #1 : ErrInvalidDigestFormat != nil   -- package-level errors.New value, assigned once at package init, never reassigned
//@   ghost-at entry : ghost_wdl := 0
//@   ghost-at entry : ghost_wfresh := 0
//@   ghost-at entry : ghost_wver := 0
//@   ghost-at entry : ghost_wrm := 0
//@   ghost-at entry : ghost_mm := 0
//@   ghost-at entry : ghost_rm := 0
//@   ghost-at after call downloadBlob #1 : ghost_wdl := ite(rangeindex + 1 == wk() && result.1 == nil, 1, ghost_wdl)
//@   ghost-at after call downloadBlob #1 : ghost_wfresh := ite(rangeindex + 1 == wk() && result.1 == nil && !result.0, 1, ghost_wfresh)
//@   ghost-at after call verifyBlob #1 : ghost_wver := ite(rangeindex + 1 == wk() && result == nil, 1, ghost_wver)
//@   ghost-at after call Is #2 : ghost_mm := ite(result, 1, 0)
//@   ghost-at after call os.Remove #1 : ghost_rm := 1
//@   ghost-at after call os.Remove #1 : ghost_wrm := ite(rangeindex + 1 == wk(), 1, ghost_wrm)
//@   loop 2 invariant ghost_wver == 0 && ghost_wrm == 0 && ghost_rm == 0 && ghost_mm == 0
//@   loop 2 invariant 0 <= wk() && wk() <= rangeindex ==> ghost_wdl == 1
//@   loop 2 invariant ghost_wfresh == 1 ==> 0 <= wk() && wk() <= rangeindex
// a layer that this call downloaded is not marked "skip verification"
//@   loop 2 invariant ghost_wfresh == 1 ==> has(skipVerify, layers[wk()].Digest) && !skipVerify[layers[wk()].Digest]
// Frame of the call fn("verifying sha256 digest") between the two loops: the fact is proved just
// before it (at the delete builtin that follows loop 2) and assumed again just after it (at the len
// builtin that starts loop 3). fn is PullModel's func-typed parameter; govc has no contract key for a
// call through it and forgets the whole heap there, although skipVerify and layers are fresh locals
// that are never passed out of PullModel (explicit assumption A-fn in props/C03.json).
//@   assert-at call delete #2 : ghost_wfresh == 1 ==> has(skipVerify, layers[wk()].Digest) && !skipVerify[layers[wk()].Digest]
//@   assume-at call len #3 : ghost_wfresh == 1 ==> has(skipVerify, layers[wk()].Digest) && !skipVerify[layers[wk()].Digest]     -- A-fn: the progress callback does not write PullModel's locals
//@   loop 3 invariant ghost_wrm == 0 && ghost_rm == 0 && ghost_mm == 0
//@   loop 3 invariant 0 <= wk() && wk() < len(layers) ==> ghost_wdl == 1
//@   loop 3 invariant ghost_wfresh == 1 ==> 0 <= wk() && wk() < len(layers)
//@   loop 3 invariant ghost_wfresh == 1 ==> has(skipVerify, layers[wk()].Digest) && !skipVerify[layers[wk()].Digest]
//@   loop 3 invariant ghost_wfresh == 1 && wk() <= rangeindex ==> ghost_wver == 1
// a digest mismatch removes the blob before the error is returned (return after the verify failure)
// (selftest/C03/mismatch_keeps_blob.diff expects this clause under the name PullModel#assert.4@return.5:
//  it is the 4th assert-at/assume-at clause of this contract - keep the order)
//@   assert-at return #5 : ghost_mm == 1 ==> ghost_rm == 1
// STORE INVARIANT "a blob under its final name is verified": when PullModel returns - with or without
// error - a layer that this call put under its final name has been verified or removed again.
// (A later pull treats every existing blob file as a cache hit and never verifies it.)
//@   assert-at return #3 : ghost_wfresh == 1 ==> ghost_wver == 1 || ghost_wrm == 1
//@   assert-at return #4 : ghost_wfresh == 1 ==> ghost_wver == 1 || ghost_wrm == 1
//@   assert-at return #5 : ghost_wfresh == 1 ==> ghost_wver == 1 || ghost_wrm == 1
//@   assert-at return #6 : ghost_wfresh == 1 ==> ghost_wver == 1 || ghost_wrm == 1
//@   assert-at return #7 : ghost_wfresh == 1 ==> ghost_wver == 1 || ghost_wrm == 1
//@   assert-at return #8 : ghost_wfresh == 1 ==> ghost_wver == 1 || ghost_wrm == 1
//@   assert-at return #9 : ghost_wfresh == 1 ==> ghost_wver == 1 || ghost_wrm == 1
//@   assert-at return #10 : ghost_wfresh == 1 ==> ghost_wver == 1 || ghost_wrm == 1
// the manifest is written only when every layer was obtained and every freshly downloaded one verified
//@   assert-at call WriteFile #1 : 0 <= wk() && wk() < len(layers) ==> ghost_wdl == 1
//@   assert-at call WriteFile #1 : ghost_wfresh == 1 ==> ghost_wver == 1
// REMOVAL ON MISMATCH, tied to verifyBlob's own result (clauses appended here: the obligation names
// assert.<n> above are referred to by known_findings.json and selftest/C03): when verifyBlob reported
// a mismatch in the way its contract promises - an error e with errors.Is(e, errDigestMismatch) -
// the blob of that layer is removed before PullModel returns the error. ghost_mm above only follows
// whatever test PullModel makes; ghost_vmm follows what verifyBlob returned, so a test against another
// sentinel, a comparison with == (false for a wrapped error), or an error that does not wrap the
// sentinel all fail here or at verifyBlob#post. The file removed is the blob of the layer being verified.
// ghost_vmm    1 iff the last verifyBlob call returned an error e with errors.Is(e, errDigestMismatch)
// Library fact used (assume-at): errors.Is(err, target) == errwraps(err, target) - the definition of errwraps.
//@   ghost-at entry : ghost_vmm := 0
//@   ghost-at after call verifyBlob : ghost_vmm := ite(result != nil && errwraps(result, errDigestMismatch), 1, 0)
//@   assume-at after call errors.Is : result <==> errwraps(arg0, arg1)     -- library fact: errwraps is errors.Is
//@   assert-at return #5 : ghost_vmm == 1 ==> ghost_rm == 1
//@   assert-at call os.Remove #1 : ghost_vmm == 1 && arg0 == blobpath(layer.Digest)
// (round 4) "EVERY layer named by the pulled manifest": the list that is downloaded and verified is
// exactly the pulled manifest's layers followed by its config (when it has one) - no layer of the
// manifest that gets stored is left out of the two loops; each downloadBlob / verifyBlob call concerns
// the digest of the layer the loop is at (the ghost flags above are indexed by the loop position).
// (stated at the len builtin that starts loop 2, i.e. right after the list was built, for an arbitrary
// fixed index wm() of the manifest's layer list - quantifier-free, a forall here makes every later
// satisfiability query of PullModel time out)
//@   assert-at call len #2 : len(layers) == len(manifest.Layers) + ite(manifest.Config.Digest != "", 1, 0)
//@   assert-at call len #2 : 0 <= wm() && wm() < len(manifest.Layers) ==> layers[wm()].Digest == manifest.Layers[wm()].Digest
//@   assert-at call len #2 : manifest.Config.Digest != "" ==> layers[len(manifest.Layers)].Digest == manifest.Config.Digest
//@   assert-at call downloadBlob #1 : arg1.digest == layers[rangeindex + 1].Digest
//@   assert-at call verifyBlob #1 : arg0 == layers[rangeindex + 1].Digest
// success is reported only after os.WriteFile of the manifest returned nil; a failed or interrupted pull
// leaves the model's previous manifest and everything it names alone: the only blob a pull removes
// directly is one it did NOT take as a cache hit (after a recognised mismatch), there is no other
// os.Remove / os.RemoveAll site, and layers of the replaced manifest are dropped only through
// deleteUnusedLayers (which re-scans all manifests) after the new manifest is on disk (clauses
// requested by the C04 audit: PullModel's contract is shared with C04/C12).
// ghost_mw  1 iff os.WriteFile(manifest) returned nil
//@   ghost-at entry : ghost_mw := 0
//@   ghost-at after call WriteFile #1 : ghost_mw := ite(result == nil, 1, 0)
//@   assert-at return #10 : ghost_mw == 1
//@   assert-at call os.Remove : ghost_vmm == 1
//@   assert-at call verifyBlob #1 : !(has(skipVerify, layer.Digest) && skipVerify[layer.Digest])
//@   assert-at call os.Remove : !(has(skipVerify, layer.Digest) && skipVerify[layer.Digest])
//@   assert-at call os.RemoveAll : false
//@   assert-at call deleteUnusedLayers #1 : ghost_mw == 1 && arg0 == deleteMap
// the same for EVERY return (numbered return sites silently stop matching when a return is removed)
//@   assume-at return #1 : errInsecureProtocol != nil     -- package-level errors.New value, assigned once at package init, never reassigned
//@   ensures result == nil ==> ghost_mw == 1
// (C12, "repeating the interrupted operation then succeeds") the state of the LOCAL manifest of the name -
// missing, truncated by a crash inside the final write, garbage - never ends the pull: every path that
// read it goes on to ask the registry (the only earlier exit is the insecure-protocol refusal).
//@   ghost-at entry : ghost_gm := 0
//@   ghost-at entry : ghost_pm := 0
//@   ghost-at after call GetManifest #1 : ghost_gm := 1
//@   ghost-at call pullModelManifest #1 : ghost_pm := 1
//@   ensures ghost_gm == 1 ==> ghost_pm == 1 || result == errInsecureProtocol
// (coverage extension) one name, one ModelPath, one registry: the local manifest read, the manifest pulled,
// every blob download and the manifest path written all concern mp = ParseModelPath(name) (contract in
// verif_contracts_c04.go) and the caller's context / registry options; what is marshalled is a *Manifest and
// the bytes written are the bytes json.Marshal returned, to the path mp.GetManifestPath() returned.
//@   ghost-at after call GetManifestPath #1 : ghost_mfp := result.0
//@   ghost-at after call Marshal #1 : ghost_mjl := len(result.0)
//@   assert-at call ParseModelPath #1 : arg0 == name
//@   assert-at call GetManifest #1 : arg0 == mp
//@   assert-at call pullModelManifest #1 : arg0 == ctx && arg1 == mp && arg2 == regOpts
//@   assert-at call downloadBlob #1 : arg0 == ctx && arg1.mp == mp && arg1.regOpts == regOpts
//@   assert-at call Marshal #1 : tagis(arg0, "*Manifest")
//@   assert-at call GetManifestPath #1 : arg0 == mp
//@   assert-at call WriteFile #1 : arg0 == ghost_mfp && len(arg1) == ghost_mjl && len(manifestJSON) == ghost_mjl && (len(arg1) > 0 ==> &arg1[0] == &manifestJSON[0])

// ==== C03 (B): blobDownload.run - the -partial file gets its final name only after every part
// ==== goroutine returned nil and the file was closed ====
// errgroup: the part goroutines run concurrently and are verified separately (closure run$2); what they
// write (atomic counters, the part records, the data file) is not part of the ordering argument.
//@ extern func golang.org/x/sync/errgroup.WithContext
//@   modifies nothing
//@ extern func golang.org/x/sync/errgroup.(*Group).SetLimit
//@   modifies nothing
//@ extern func golang.org/x/sync/errgroup.(*Group).Go
//@   modifies nothing
//@ extern func golang.org/x/sync/errgroup.(*Group).Wait
//@   modifies nothing
//@ extern func setSparse
//@   modifies nothing

// run$1 (direct-URL lookup, called in place): works on a fresh copy of opts; the only caller-visible
// write is the scheme downgrade of requestURL in makeRequest. Trusted frame (extern): without a
// contract govc-stable crashes while scanning this closure's body (nil map in funcBodyWrites), and
// its frame cannot be checked: it calls the closure returned by newBackoff (no contract key) and
// passes a nil header map to makeRequestWithRetry (frame check of `headers[all]` fails for nil).
//@ extern func (*blobDownload).run$1
//@   modifies requestURL.Scheme

// downloadChunk runs the transfer in two goroutines; besides atomic counters, the data file and the
// part record on disk it touches part.lastUpdated (under its mutex).
//@ func (*blobDownload).downloadChunk
//@   modifies part.lastUpdated
// (round 4; was `extern`: the body is now verified against the same frame) the attempt's result is the
// result of g.Wait() on the group that runs the transfer goroutine ($1) and the stall watchdog ($2):
// nil only if Wait returned nil, i.e. (errgroup) both returned nil.
//@   ghost-at entry : ghost_gw := 0
//@   ghost-at entry : ghost_ngo := 0
//@   ghost-at after call Go : ghost_ngo := ghost_ngo + 1
//@   ghost-at after call Wait #1 : ghost_gw := ite(result == nil, 1, 0)
//@   assert-at call Wait #1 : ghost_ngo == 2
//@   ensures result == nil ==> ghost_gw == 1
// (round 4) downloadChunk$1 is the transfer goroutine of one attempt: "per-part progress persisted only
// after the bytes were written". io.CopyN(w, ..., n) is asked for exactly the missing bytes of THIS part
// (n = Size - persisted progress) and writes them through the attempt's writer w; the part's own counter
// is advanced only after CopyN returned and by exactly the byte count CopyN reports as written; the part
// record is written to disk only after that; and nil is returned only when CopyN returned a nil error
// (by io.CopyN's contract: all n bytes were written) and the record was stored. Truncated bodies
// (io.ErrUnexpectedEOF) and cancellation keep the bytes written so far but are returned as errors.
// ghost_ld   result of part.Completed.Load()             ghost_cpc  1 after io.CopyN returned
// ghost_cp   1 iff io.CopyN returned a nil error        ghost_n    bytes io.CopyN reports written
// ghost_add  1 after part.Completed.Add(n)              ghost_wp   1 iff writePart returned nil
//@ func (*blobDownload).downloadChunk$1
//@   ghost-at entry : ghost_ld := 0
//@   ghost-at entry : ghost_cpc := 0
//@   ghost-at entry : ghost_cp := 0
//@   ghost-at entry : ghost_n := 0
//@   ghost-at entry : ghost_add := 0
//@   ghost-at entry : ghost_wp := 0
//@   ghost-at after call Load #1 : ghost_ld := result
//@   ghost-at after call io.CopyN #1 : ghost_cpc := 1
//@   ghost-at after call io.CopyN #1 : ghost_cp := ite(result.1 == nil, 1, 0)
//@   ghost-at after call io.CopyN #1 : ghost_n := result.0
//@   ghost-at after call Add #2 : ghost_add := 1
//@   ghost-at after call writePart #1 : ghost_wp := ite(result == nil, 1, 0)
//@   assert-at call Load #1 : arg0 == &part.Completed
//@   assert-at call io.CopyN #1 : arg0 == w
//@   assert-at call io.CopyN #1 : 0 <= ghost_ld && ghost_ld <= (1 << 61) && 0 <= part.Size && part.Size <= (1 << 61) ==> arg2 == part.Size - ghost_ld
//@   assert-at call Add #2 : ghost_cpc == 1 && arg0 == &part.Completed && arg1 == ghost_n
//@   assert-at call writePart #1 : ghost_add == 1 && arg2 == part
//@   ensures result == nil ==> ghost_cp == 1 && ghost_add == 1 && ghost_wp == 1
// the request carries a Range header built from the part's current start/stop (a request without it makes
// the CDN send the blob from byte 0 into every part)
//@   ghost-at entry : ghost_rng := 0
//@   ghost-at after call Set #1 : ghost_rng := 1
//@   assert-at call Set #1 : arg1 == "Range"
//@   assert-at call fmt.Sprintf #1 : arg0 == "bytes=%d-%d" && len(arg1) == 2
//@   assert-at call Do #1 : ghost_rng == 1
// the byte count handed to io.CopyN was computed from a Load of the part's progress in this attempt
// (without this flag a CopyN of the whole part.Size passes the clause above with ghost_ld still 0)
//@   ghost-at entry : ghost_ldc := 0
//@   ghost-at after call Load #1 : ghost_ldc := 1
//@   assert-at call io.CopyN #1 : ghost_ldc == 1
// downloadChunk$2 (stall watchdog): same requirement on the immutable digest.
//@ func (*blobDownload).downloadChunk$2
//@   requires len(b.Digest) >= 19
//@   loop 1 invariant b == old(b) && b.Digest == old(b.Digest)
//@ func (*blobDownloadPart).StartsAt
//@   modifies nothing
// (round 4) start of the missing range = Offset + persisted progress (mathematical sum whenever it does not wrap)
//@   ghost-at after call Load #1 : ghost_pl := result
//@   assert-at call Load #1 : arg0 == &p.Completed
//@   ensures 0 <= p.Offset && p.Offset <= (1 << 61) && 0 <= ghost_pl && ghost_pl <= (1 << 61) ==> result == p.Offset + ghost_pl
//@ func (*blobDownloadPart).StopsAt
//@   modifies nothing
//@   ensures 0 <= p.Offset && p.Offset <= (1 << 61) && 0 <= p.Size && p.Size <= (1 << 61) ==> result == p.Offset + p.Size
// run$2 is the body of one part goroutine. b.Digest is written only by the composite literal in
// downloadBlob (before the download is shared), so the requirement is what run() itself requires.
//@ func (*blobDownload).run$2
//@   requires len(b.Digest) >= 19
//@   loop 1 invariant b == old(b) && b.Digest == old(b.Digest)
// "rename to the digest name only when every part is complete": run renames after g.Wait() == nil,
// i.e. after every part goroutine returned nil - and a part goroutine returns nil only when its
// LAST downloadChunk attempt returned nil (never because the group is shutting down, retries ran
// out, or the context ended) - added after seeded change C03-seed2
//@   ghost-at entry : ghost_dl := 0
//@   ghost-at after call downloadChunk : ghost_dl := ite(result == nil, 1, 0)
//@   ensures result == nil ==> ghost_dl == 1
// (round 4) every attempt writes through an OffsetWriter on the -partial file positioned at the
// part's CURRENT start (Offset + persisted progress, as StartsAt returned it for this attempt), and
// hands exactly that writer and that part to downloadChunk.
//@   ghost-at entry : ghost_sa := 0
//@   ghost-at after call StartsAt #1 : ghost_sa := result
//@   assert-at call StartsAt #1 : arg0 == part
//@   assert-at call io.NewOffsetWriter #1 : tagis(arg0, "*os.File") && arg1 == ghost_sa
//@   assert-at call downloadChunk #1 : arg0 == b && tagis(arg3, "*io.OffsetWriter") && arg4 == part && w.ghost_base == ghost_sa

// Loops: 1 start part goroutines   2 remove part records.
//@ func (*blobDownload).run
//@   requires len(b.Digest) >= 19
//@   ghost-at entry : ghost_waited := 0
//@   ghost-at entry : ghost_closed := 0
//@   ghost-at after call Wait #1 : ghost_waited := ite(result == nil, 1, 0)
//@   ghost-at after call Close : ghost_closed := ite(result == nil, 1, 0)
//@   assert-at call os.Rename #1 : ghost_waited == 1 && ghost_closed == 1
// (round 4) "every part is complete": loop 1 starts a goroutine for EVERY part whose persisted progress
// differs from its size - a part is skipped only when Completed.Load() == Size for that very part.
// ghost_peq  1 iff the Load of the part visited last returned exactly that part's Size
// ghost_pgo  1 iff g.Go was called for the part visited last
// The file renamed is the -partial file that was opened and written, the target is the blob's final
// name, and run's entry in blobDownloadManager is deleted on every return (a stuck entry would make
// every later pull of the digest return this attempt's result for ever).
//@   ghost-at entry : ghost_peq := 0
//@   ghost-at entry : ghost_pgo := 0
//@   ghost-at entry : ghost_bdel := 0
//@   ghost-at after call Load #1 : ghost_peq := ite(result == b.Parts[rangeindex + 1].Size, 1, 0)
//@   ghost-at after call Load #1 : ghost_pgo := 0
//@   ghost-at after call Go #1 : ghost_pgo := 1
//@   ghost-at after call Delete : ghost_bdel := 1
//@   assert-at call Load #1 : arg0 == &b.Parts[rangeindex + 1].Completed && part == b.Parts[rangeindex + 1]
//@   loop 1 invariant rangeindex >= 0 ==> ghost_peq == 1 || ghost_pgo == 1
//@   loop 1 invariant b == old(b)
//@   assert-at call os.OpenFile #1 : arg0 == b.Name + "-partial"
//@   assert-at call os.Rename #1 : arg0 == file.Name() && arg1 == b.Name
//@   ensures ghost_bdel == 1
// nil only after the rename itself succeeded
//@   ghost-at entry : ghost_ren := 0
//@   ghost-at after call os.Rename #1 : ghost_ren := ite(result == nil, 1, 0)
//@   ensures result == nil ==> ghost_ren == 1
// (round 5, C03-seed4) the entry run removes is the one downloadBlob registered: both use the digest as
// spelled in the manifest (b.Digest == opts.digest) as the key - a different key on either side leaves a
// finished download in the manager for ever and every retry joins the dead attempt.
//@   assert-at call Delete : tagis(arg1, "string") && unbox(arg1, "string") == b.Digest

// (round 4) "the stored manifest is the one the registry served": pullModelManifest returns a manifest
// only after makeRequestWithRetry returned a response without error (status < 400 by its contract) and
// json Decode of that response's body returned nil - a body that is truncated or not JSON is an error,
// never a partly filled or empty manifest.
// ghost_rq  1 iff makeRequestWithRetry returned a nil error     ghost_dec  1 iff Decode returned nil
//@ func pullModelManifest
//@   ghost-at entry : ghost_rq := 0
//@   ghost-at entry : ghost_dec := 0
//@   ghost-at after call makeRequestWithRetry #1 : ghost_rq := ite(result.1 == nil, 1, 0)
//@   ghost-at after call Decode #1 : ghost_dec := ite(result == nil, 1, 0)
//@   assert-at call Decode #1 : ghost_rq == 1
//@   ensures result.1 == nil ==> result.0 != nil && ghost_rq == 1 && ghost_dec == 1
// (coverage extension) the request is GET <scheme>://<registry>/v2/<namespace>/<repository>/manifests/<tag> of
// the ModelPath given (BaseURL / GetNamespaceRepository of mp - both now proved - joined with exactly these four
// elements), made with the caller's registry options; the body decoded is the body of THAT response, the
// decode target is the manifest returned.
//@   ghost-at after call GetNamespaceRepository #1 : ghost_nr := result
//@   assert-at call BaseURL #1 : arg0 == mp
//@   assert-at call GetNamespaceRepository #1 : arg0 == mp
//@   assert-at call JoinPath #1 : arg0.Scheme == mp.ProtocolScheme && arg0.Host == mp.Registry && len(arg1) == 4 && arg1[0] == "v2" && arg1[1] == ghost_nr && arg1[2] == "manifests" && arg1[3] == mp.Tag
//@   assert-at call makeRequestWithRetry #1 : arg1 == "GET" && arg2 == requestURL && arg5 == regOpts
//@   assert-at call NewDecoder #1 : arg0 == resp.Body
//@   assert-at call Decode #1 : tagis(arg1, "*Manifest")
//@   ensures result.1 == nil ==> fresh(result.0)

// (round 4) redirect policy of the direct-URL lookup: a redirect is followed (nil) only while at most 10
// requests were made and only to the host of the registry request; everything else stops the client.
//@ func (*blobDownload).run$1$1
//@   modifies nothing
//@   ghost-at entry : ghost_hn := 0
//@   ghost-at after call Hostname #1 : ghost_h1 := result
//@   ghost-at after call Hostname #2 : ghost_h2 := result
//@   ghost-at after call Hostname #2 : ghost_hn := 1
//@   assert-at call Hostname #1 : arg0 == req.URL
//@   assert-at call Hostname #2 : arg0 == requestURL
//@   assume-at return #1 : errMaxRedirectsExceeded != nil     -- package-level errors.New value, assigned once at package init, never reassigned
//@   assume-at return #3 : result != nil     -- `return http.ErrUseLastResponse`: the library sentinel is non-nil
//@   ensures result == nil ==> len(via) <= 10 && ghost_hn == 1 && ghost_h1 == ghost_h2

// (round 4) resume: the progress a part record read from disk claims is exactly the record's Completed
// field (UnmarshalJSON is what json Decode in readPart calls).
//@ func (*blobDownloadPart).UnmarshalJSON
//@   ghost-at entry : ghost_st := 0
//@   ghost-at after call Store #1 : ghost_st := 1
//@   assert-at call Store #1 : arg0 == &p.Completed && arg1 == j.Completed && p.N == j.N && p.Offset == j.Offset && p.Size == j.Size
//@   ensures result == nil ==> ghost_st == 1

// ==== C03 coverage extension: functions the pull path was only trusting (extern) or calling without ====
// ==== contract are put under contract and their bodies verified (props/C03.json `functions`)       ====
// A `func` contract here replaces the `extern func` stub of the same name in verif_contracts_c09.go
// (contract files load in sorted order; the first non-extern declaration is the one in force).

// setSparse (non-windows build): empty body - the trusted frame above is now proved.
//@ func setSparse
//@   modifies nothing

// GetSHA256Digest: what verifyBlob calls "the file's digest". The hash is fed by ONE io.Copy of the
// WHOLE reader r itself (not a limited / wrapped view, not a second reader) into the sha256 state that
// is later summed; a read error never yields a digest (log.Fatal exits: `ensures false`, trusted); the
// text is "sha256:" + lower-case hex of that state's Sum (format "sha256:%x", one operand) and the
// byte count is the one io.Copy reported.
//@ extern func log.Fatal
//@   modifies nothing
//@   ensures false
//@ func GetSHA256Digest
//@   modifies nothing
//@   ghost-at entry : ghost_cpn := 0
//@   ghost-at entry : ghost_cpok := 0
//@   ghost-at entry : ghost_sum := 0
//@   ghost-at after call New #1 : ghost_hh := result
//@   ghost-at after call io.Copy #1 : ghost_cpn := result.0
//@   ghost-at after call io.Copy #1 : ghost_cpok := ite(result.1 == nil, 1, 0)
//@   ghost-at after call Sum #1 : ghost_sum := 1
//@   assert-at call io.Copy #1 : arg0 == ghost_hh && arg1 == r
//@   assert-at call Sum #1 : ghost_cpok == 1 && arg0 == ghost_hh && len(arg1) == 0
//@   assert-at call fmt.Sprintf #1 : ghost_sum == 1 && arg0 == "sha256:%x" && len(arg1) == 1
//@   ensures ghost_cpok == 1 && ghost_sum == 1 && result.1 == ghost_cpn

// GetManifest (local manifest of a name; PullModel reads it to learn which layers the pull replaces):
// the file opened is the one (ModelPath).GetManifestPath names; a manifest is returned only when json
// Decode of THAT file returned nil - a truncated / garbage manifest file is an error, never a partly
// filled manifest whose layers would be taken for the model's.
//@ func GetManifest
//@   modifies nothing
//@   ensures result.2 == nil ==> result.0 != nil
//@   ghost-at entry : ghost_mdec := 0
//@   ghost-at after call GetManifestPath #1 : ghost_mfp := result.0
//@   ghost-at after call os.Open #1 : ghost_mf := result.0
//@   ghost-at after call Decode #1 : ghost_mdec := ite(result == nil, 1, 0)
//@   assert-at call os.Open #1 : arg0 == ghost_mfp
//@   assert-at call GetManifestPath #1 : arg0 == mp
//@   assert-at call io.TeeReader #1 : tagis(arg0, "*os.File")
//@   ensures result.2 == nil ==> ghost_mdec == 1 && fresh(result.0)
//@   ensures result.2 != nil ==> result.0 == nil

// (ModelPath).BaseURL / GetNamespaceRepository: the registry URL of a name is scheme://registry, the
// repository path is "<namespace>/<repository>".
//@ func (ModelPath).BaseURL
//@   modifies nothing
//@   ensures result != nil && fresh(result)
//@   ensures result.Scheme == mp.ProtocolScheme && result.Host == mp.Registry
//@ func (ModelPath).GetNamespaceRepository
//@   modifies nothing
//@   assert-at call fmt.Sprintf #1 : arg0 == "%s/%s" && len(arg1) == 2
//@   assert-at call fmt.Sprintf #1 : tagis(arg1[0], "string") && tagis(arg1[1], "string")
