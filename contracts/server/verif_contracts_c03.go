//go:build verif

// Contracts for package server, property C03 (pull path: server/images.go, server/download.go),
// checked by /verif/govc. Comment-only.
package server

// ==== C03 (A): safety sweep over everything that parses registry responses ====
// Header strings, Content-Length values and manifest digests are arbitrary (no requires on them).

// getValue: endIdx never moves left of startIdx and stays within the header once the loop
// has been entered; the slice at the end is in range only if startIdx <= len(header).
//@ func getValue
//@   modifies nothing
//@   loop 1 invariant startIdx <= endIdx && endIdx <= max(len(header), startIdx)
//@   loop 1 decreases len(header) - endIdx
//@   ensures len(result) <= len(header)

//@ extern func strings.TrimPrefix
//@   pure
//@   ensures len(result) <= len(s)

//@ func parseRegistryChallenge
//@   modifies nothing

// makeRequest: testMakeRequestDialContext is a test-only hook (assigned only in routes_test.go);
// the unchecked http.DefaultTransport.(*http.Transport) sits behind it.
//@ func makeRequest
//@   assume-at after call Get #1 : testMakeRequestDialContext == nil     -- test hook, nil outside _test.go
//@   modifies requestURL.Scheme, headers[all]
//@   ensures result.1 == nil ==> result.0 != nil

//@ func makeRequestWithRetry
//@   modifies requestURL.Scheme, headers[all], regOpts.Token
//@   ensures result.1 == nil ==> result.0 != nil && result.0.StatusCode < 400 && result.0.StatusCode != 401
// the two sentinel returns: os.ErrNotExist (library) and errUnauthorized (package-level errors.New value) are non-nil
// (return ordinals of this function follow govc's visiting order, see `./check C03 --list`)
//@   assume-at return #3 : result.1 != nil      -- `return nil, os.ErrNotExist`: the library sentinel is non-nil
//@   assume-at return #8 : errUnauthorized != nil      -- `return nil, errUnauthorized`: assigned once at package init, never reassigned

// ---- trusted library contracts used by the pull path (only frames: what a call may change in
// ---- memory the verified functions can see; network/file-system effects are not modelled).
// Response bodies, requests, clients are opaque library objects.
//@ extern func io.(ReadCloser).Close
//@   modifies nothing
// (io.ReadAll, fmt.Errorf, os.Stat/Open/OpenFile/Remove/Rename/MkdirAll, os.(*File).Close/Name/Truncate:
//  trusted frames in contracts/server/internal/cache/blob/verif_contracts.go, loaded through
//  "contract_packages" of props/C03.json)
//@ extern func net/http.(Header).Get
//@   modifies nothing
//@ extern func net/http.(Header).Set
//@   modifies this[all]
//@ extern func net/http.NewRequestWithContext
//@   modifies nothing
//@   ensures result.1 == nil ==> result.0 != nil && fresh(result.0) && fresh(result.0.Header)
//@ extern func net/http.(*Request).SetBasicAuth
//@   modifies r.Header[all]
//@ extern func net/http.(*Transport).Clone
//@   modifies nothing
//@ extern func net/http.(*Client).Do
//@   modifies nothing
//@   ensures result.1 == nil ==> result.0 != nil
//@ extern func net/http.(Header).Add
//@   modifies this[all]
//@ extern func auth.Sign
//@   modifies nothing
//@ extern func encoding/json.Unmarshal
//@   modifies boxed(v)
//@ extern func encoding/json.NewDecoder
//@   modifies nothing
//@ extern func encoding/json.(*Decoder).Decode
//@   modifies boxed(v)
//@ extern func encoding/json.NewEncoder
//@   modifies nothing
//@ extern func encoding/json.(*Encoder).Encode
//@   modifies nothing
// getAuthorizationToken (server/auth.go) signs a fresh request with the local key and calls
// makeRequest with fresh headers and fresh registryOptions: nothing of the caller is written.
//@ func getAuthorizationToken
//@   modifies nothing
//@ extern func auth.NewNonce
//@   modifies nothing
//@ func (registryChallenge).URL
//@   assume-at after call Parse #1 : result.1 == nil ==> result.0 != nil && fresh(result.0)     -- net/url.Parse returns a new URL
//@   modifies nothing
//@   ensures result.1 == nil ==> result.0 != nil && fresh(result.0)

// ---- blobDownload.Prepare: part layout computed from an arbitrary Content-Length ----
// writePart only writes the part's JSON record to disk.
//@ func (*blobDownload).writePart
//@   modifies nothing
//@ func (*blobDownloadPart).Name
//@   modifies nothing
//@ func (*blobDownload).readPart
//@   modifies nothing
//@   ensures result.1 == nil ==> result.0 != nil && fresh(result.0)
//@ extern func path/filepath.Glob
//@   modifies nothing

//@ func (*blobDownload).newPart
//@   modifies b.Parts
//@   ensures result == nil ==> len(b.Parts) == old(len(b.Parts)) + 1
//@   ensures result == nil ==> forall k int :: 0 <= k && k < old(len(b.Parts)) ==> b.Parts[k] == old(b.Parts[k])
//@   ensures result == nil ==> fresh(b.Parts[old(len(b.Parts))])
//@   ensures result == nil ==> b.Parts[old(len(b.Parts))].Offset == offset && b.Parts[old(len(b.Parts))].Size == size && b.Parts[old(len(b.Parts))].N == old(len(b.Parts))
//@   ensures result != nil ==> len(b.Parts) == old(len(b.Parts))

// Loops: 1 existing part files (resume)   2 fresh layout `for offset < b.Total`.
// Fresh layout (ghost_head == 1: the HEAD request was made, i.e. no part file existed). All parts
// but the last have the same size S = clamp(Total/16, 100 MB, 1000 MB) (ghost_S), part k starts at
// k*S, the last one ends at offset; hence the parts tile [0, offset) without gap or overlap, every
// part is non-empty and numbered by its index; at the end offset == b.Total. The loop terminates
// (variant b.Total - offset). The adjacency form (part k ends where part k+1 starts) is asserted at
// the final return and follows from the closed form.
// Frame: Prepare#frame.* for the call makeRequestWithRetry(..., nil /* headers */, ...) cannot be
// discharged by govc-stable (the callee's `modifies headers[all]` is checked against a nil map that
// is neither fresh nor listed) - listed as undecided in props/C03.json.
//@ func (*blobDownload).Prepare
//@   requires len(b.Digest) >= 19
//@   modifies b.done, b.Total, b.Parts, requestURL.Scheme, opts.Token
//@   ensures b.Digest == old(b.Digest) && b.Name == old(b.Name)
//@   loop 1 invariant b.Digest == old(b.Digest) && b.Name == old(b.Name)
//@   assume-at after call ParseInt #1 : result.0 <= (1 << 62)      -- range assumption: a blob is smaller than 4 EiB (otherwise offset+size wraps)
//@   ghost-at entry : ghost_head := 0
//@   ghost-at entry : ghost_total := 0
//@   ghost-at entry : ghost_S := 0
//@   ghost-at after call makeRequestWithRetry #1 : ghost_head := 1
//@   ghost-at after call ParseInt #1 : ghost_total := result.0
//@   ghost-at after call ParseInt #1 : ghost_S := min(max(result.0 / 16, minDownloadPartSize), maxDownloadPartSize)
//@   loop 2 invariant b.Total == ghost_total && ghost_total <= (1 << 62) && b.Digest == old(b.Digest) && b.Name == old(b.Name) && ghost_head == 1
//@   loop 2 invariant minDownloadPartSize <= ghost_S && ghost_S <= maxDownloadPartSize
//@   loop 2 invariant 0 <= offset && 0 < size && size <= ghost_S && (offset <= b.Total || offset == 0)
//@   loop 2 invariant 0 <= len(b.Parts) && (len(b.Parts) == 0 ==> offset == 0)
//@   loop 2 invariant offset < b.Total ==> size == ghost_S && offset == len(b.Parts) * ghost_S
//@   loop 2 invariant forall k int :: 0 <= k && k < len(b.Parts) ==> b.Parts[k] != nil && b.Parts[k].Size > 0 && b.Parts[k].N == k
//@   loop 2 invariant forall k int :: 0 <= k && k < len(b.Parts) ==> b.Parts[k].Offset == k * ghost_S
//@   loop 2 invariant forall k int :: 0 <= k && k < len(b.Parts) - 1 ==> b.Parts[k].Size == ghost_S
//@   loop 2 invariant len(b.Parts) > 0 ==> b.Parts[len(b.Parts) - 1].Offset + b.Parts[len(b.Parts) - 1].Size == offset
//@   loop 2 decreases b.Total - offset
//@   assert-at return #5 : ghost_head == 1 && len(b.Parts) > 0 ==> b.Parts[0].Offset == 0 && b.Parts[len(b.Parts) - 1].Offset + b.Parts[len(b.Parts) - 1].Size == b.Total
//@   assert-at return #5 : ghost_head == 1 ==> forall k int :: 0 <= k && k < len(b.Parts) ==> b.Parts[k].Offset == k * ghost_S && (k < len(b.Parts) - 1 ==> b.Parts[k].Size == ghost_S)
//@   assert-at return #5 : ghost_head == 1 ==> forall k int, j int :: 0 <= k && j == k + 1 && j < len(b.Parts) ==> b.Parts[k].Offset + b.Parts[k].Size == b.Parts[j].Offset
//@   assert-at return #5 : ghost_head == 1 ==> forall k int :: 0 <= k && k < len(b.Parts) ==> b.Parts[k].Size > 0 && b.Parts[k].N == k
//@   assert-at return #5 : ghost_head == 1 && b.Total > 0 ==> len(b.Parts) > 0

// ---- downloadBlob ----
//@ extern func sync.(*Map).Delete
//@   modifies nothing
// LoadOrStore returns the given value when it stored it (loaded == false).
//@ extern func sync.(*Map).LoadOrStore
//@   modifies nothing
//@   ensures !result.1 ==> result.0 == value

// blobDownloadManager is written only here (LoadOrStore with a *blobDownload whose Digest is the
// key); an entry found there was stored by another downloadBlob call with the same digest.
// A-fn: the progress callback only forwards its argument (routes.go: `fn := func(r api.ProgressResponse) { ch <- r }`);
// it writes nothing that the pull path can observe.
//@ extern func (downloadOpts).fn
//@   modifies nothing
//@ func downloadBlob
//@   modifies opts.regOpts.Token
//@   assume-at call GetBlobsPath #1 : ErrInvalidDigestFormat != nil   -- package-level errors.New value, assigned once at package init, never reassigned
//@   assume-at after call LoadOrStore #1 : result.1 ==> tagis(result.0, "*blobDownload")     -- only *blobDownload values are ever stored in blobDownloadManager
//@   assume-at call Wait #1 : ok ==> download.Digest == opts.digest       -- entries are stored under their own digest

//@ func (*blobDownload).acquire
//@   modifies nothing
// b.CancelFunc is the cancel function of the download's own context (set in run)
//@ extern func (blobDownload).CancelFunc
//@   modifies nothing
//@ func (*blobDownload).release
//@   modifies nothing
// Wait: b.Digest is written only by the composite literal in downloadBlob. The loop invariant cannot
// be kept by govc and the call fn(...) cannot be framed: a call through the func-typed parameter fn
// has no contract key and forgets the whole heap - Wait#frame.6 and Wait#loop1.inv1.keep@b5 are listed
// as undecided; the slice b.Digest[7:19] itself is discharged from the invariant.
//@ func (*blobDownload).Wait
//@   requires len(b.Digest) >= 19
//@   modifies nothing
//@   loop 1 invariant b.Digest == old(b.Digest)

//@ func (*blobDownload).Run
//@   requires len(b.Digest) >= 19

// ==== C03 (B): order of effects in PullModel ====
// wk() is an arbitrary fixed layer index (uninterpreted constant): what is proved about it holds
// for every index. The ghost flags record what happened to layer wk() in this call.
//@ spec func wk() int

//@ extern func os.WriteFile
//@   modifies nothing
//@ extern func encoding/json.Marshal
//@   modifies nothing
//@ extern func GetSHA256Digest
//@   modifies nothing

// ---- error identity between verifyBlob and PullModel ----
// errwraps(e, t): errors.Is(e, t) - t is e itself or is reached from e by Unwrap. (Interface values
// are single integer terms in govc; the parameters are declared int because the universe type
// `error` cannot be named in a spec func signature.)
//@ spec func errwraps(e int, t int) bool
// fmtverb(f, p, n, inverb): the verb character that consumes operand n (0-based) of the format f when
// the scan is at byte p; inverb = the scan is between a '%' and its verb character. 0 = f has no verb
// for operand n. This is fmt's scan (doPrintf) for the plain grammar %[flags][width][.prec]verb and
// "%%"; for '*' (width taken from an operand) and '[' (explicit operand index) nothing is claimed
// (uninterpreted fmtverbx).
//   37 '%'   32 ' '  35 '#'  43 '+'  45 '-'  46 '.'  48..57 digits   42 '*'  91 '['
//@ spec func fmtverbx(f string, p int, n int) int
//@ spec func fmtverb(f string, p int, n int, inverb bool) int = ite(p < 0 || p >= len(f) || n < 0, 0, ite(!inverb, fmtverb(f, p + 1, n, f[p] == 37), ite(f[p] == 37, fmtverb(f, p + 1, n, false), ite(f[p] == 32 || f[p] == 35 || f[p] == 43 || f[p] == 45 || f[p] == 46 || (48 <= f[p] && f[p] <= 57), fmtverb(f, p + 1, n, true), ite(f[p] == 42 || f[p] == 91, fmtverbx(f, p, n), ite(n == 0, f[p], fmtverb(f, p + 1, n - 1, false)))))))
//@   decreases len(f) - p

// verifyBlob(digest) == nil means: the file that GetBlobsPath(digest) names was opened and hashed and
// its SHA-256 equals digest. Once the file was hashed, every error returned is recognised by
// errors.Is(err, errDigestMismatch): that test is what makes PullModel remove the corrupt blob; a
// mismatch reported as any other error leaves the blob under its final name, and the next pull takes
// it for a cache hit and never hashes it.
// ghost_hashed  1 after GetSHA256Digest returned (the file content was read and hashed)
// Library fact used (assume-at, props/C03.json assumptions): fmt.Errorf wraps the operand of a %w verb
// (119 'w'): errors.Is(result, operand) holds. Stated for the first three operands.
//@ func verifyBlob
//@   assume-at call GetBlobsPath #1 : ErrInvalidDigestFormat != nil   -- package-level errors.New value, assigned once at package init, never reassigned
//@   modifies nothing
//@   ghost-at entry : ghost_hashed := 0
//@   ghost-at after call GetSHA256Digest : ghost_hashed := 1
//@   assume-at after call Errorf : (len(arg1) > 0 && fmtverb(arg0, 0, 0, false) == 119 ==> errwraps(result, arg1[0])) && (len(arg1) > 1 && fmtverb(arg0, 0, 1, false) == 119 ==> errwraps(result, arg1[1])) && (len(arg1) > 2 && fmtverb(arg0, 0, 2, false) == 119 ==> errwraps(result, arg1[2]))     -- library fact: fmt.Errorf("...%w...", e) wraps e
//@   ensures result == nil ==> ghost_hashed == 1
//@   ensures ghost_hashed == 1 && result != nil ==> errwraps(result, errDigestMismatch)
// the file hashed is the blob the digest names, and nil is returned only for equal digests
//@   assert-at call os.Open #1 : arg0 == blobpath(digest)
//@   assert-at return #4 : result == nil && digest == fileDigest

// Loops: 1 old manifest's layers (deleteMap)   2 download   3 verify.
// (inside a range loop body the index of the current element is rangeindex + 1)
// ghost_wdl    1 iff downloadBlob(layers[wk()]) returned a nil error
// ghost_wfresh 1 iff it returned cacheHit == false: the blob was put under its final name by this
//              call (blobDownload.run renames before any verification)
// ghost_wver   1 iff verifyBlob(layers[wk()].Digest) returned nil
// ghost_wrm    1 iff os.Remove(blob of layers[wk()]) was called (after a digest mismatch)
// ghost_mm     1 after errors.Is(err, errDigestMismatch) was true for the layer being verified
// ghost_rm     1 after os.Remove was called for the layer being verified
//@ func PullModel
//@   assume-at call GetBlobsPath #1 : ErrInvalidDigestFormat != nil   -- package-level errors.New value, assigned once at package init, never reassigned
//@   ghost-at entry : ghost_wdl := 0
//@   ghost-at entry : ghost_wfresh := 0
//@   ghost-at entry : ghost_wver := 0
//@   ghost-at entry : ghost_wrm := 0
//@   ghost-at entry : ghost_mm := 0
//@   ghost-at entry : ghost_rm := 0
//@   ghost-at after call downloadBlob #1 : ghost_wdl := ite(rangeindex + 1 == wk() && result.1 == nil, 1, ghost_wdl)
//@   ghost-at after call downloadBlob #1 : ghost_wfresh := ite(rangeindex + 1 == wk() && result.1 == nil && !result.0, 1, ghost_wfresh)
//@   ghost-at after call verifyBlob #1 : ghost_wver := ite(rangeindex + 1 == wk() && result == nil, 1, ghost_wver)
//@   ghost-at after call Is #2 : ghost_mm := ite(result, 1, 0)
//@   ghost-at after call os.Remove #1 : ghost_rm := 1
//@   ghost-at after call os.Remove #1 : ghost_wrm := ite(rangeindex + 1 == wk(), 1, ghost_wrm)
//@   loop 2 invariant ghost_wver == 0 && ghost_wrm == 0 && ghost_rm == 0 && ghost_mm == 0
//@   loop 2 invariant 0 <= wk() && wk() <= rangeindex ==> ghost_wdl == 1
//@   loop 2 invariant ghost_wfresh == 1 ==> 0 <= wk() && wk() <= rangeindex
// a layer that this call downloaded is not marked "skip verification"
//@   loop 2 invariant ghost_wfresh == 1 ==> has(skipVerify, layers[wk()].Digest) && !skipVerify[layers[wk()].Digest]
// Frame of the call fn("verifying sha256 digest") between the two loops: the fact is proved just
// before it (at the delete builtin that follows loop 2) and assumed again just after it (at the len
// builtin that starts loop 3). fn is PullModel's func-typed parameter; govc has no contract key for a
// call through it and forgets the whole heap there, although skipVerify and layers are fresh locals
// that are never passed out of PullModel (explicit assumption A-fn in props/C03.json).
//@   assert-at call delete #2 : ghost_wfresh == 1 ==> has(skipVerify, layers[wk()].Digest) && !skipVerify[layers[wk()].Digest]
//@   assume-at call len #3 : ghost_wfresh == 1 ==> has(skipVerify, layers[wk()].Digest) && !skipVerify[layers[wk()].Digest]     -- A-fn: the progress callback does not write PullModel's locals
//@   loop 3 invariant ghost_wrm == 0 && ghost_rm == 0 && ghost_mm == 0
//@   loop 3 invariant 0 <= wk() && wk() < len(layers) ==> ghost_wdl == 1
//@   loop 3 invariant ghost_wfresh == 1 ==> 0 <= wk() && wk() < len(layers)
//@   loop 3 invariant ghost_wfresh == 1 ==> has(skipVerify, layers[wk()].Digest) && !skipVerify[layers[wk()].Digest]
//@   loop 3 invariant ghost_wfresh == 1 && wk() <= rangeindex ==> ghost_wver == 1
// a digest mismatch removes the blob before the error is returned (return after the verify failure)
// (selftest/C03/mismatch_keeps_blob.diff expects this clause under the name PullModel#assert.4@return.5:
//  it is the 4th assert-at/assume-at clause of this contract - keep the order)
//@   assert-at return #5 : ghost_mm == 1 ==> ghost_rm == 1
// STORE INVARIANT "a blob under its final name is verified": when PullModel returns - with or without
// error - a layer that this call put under its final name has been verified or removed again.
// (A later pull treats every existing blob file as a cache hit and never verifies it.)
//@   assert-at return #3 : ghost_wfresh == 1 ==> ghost_wver == 1 || ghost_wrm == 1
//@   assert-at return #4 : ghost_wfresh == 1 ==> ghost_wver == 1 || ghost_wrm == 1
//@   assert-at return #5 : ghost_wfresh == 1 ==> ghost_wver == 1 || ghost_wrm == 1
//@   assert-at return #6 : ghost_wfresh == 1 ==> ghost_wver == 1 || ghost_wrm == 1
//@   assert-at return #7 : ghost_wfresh == 1 ==> ghost_wver == 1 || ghost_wrm == 1
//@   assert-at return #8 : ghost_wfresh == 1 ==> ghost_wver == 1 || ghost_wrm == 1
//@   assert-at return #9 : ghost_wfresh == 1 ==> ghost_wver == 1 || ghost_wrm == 1
//@   assert-at return #10 : ghost_wfresh == 1 ==> ghost_wver == 1 || ghost_wrm == 1
// the manifest is written only when every layer was obtained and every freshly downloaded one verified
//@   assert-at call WriteFile #1 : 0 <= wk() && wk() < len(layers) ==> ghost_wdl == 1
//@   assert-at call WriteFile #1 : ghost_wfresh == 1 ==> ghost_wver == 1
// REMOVAL ON MISMATCH, tied to verifyBlob's own result (clauses appended here: the obligation names
// assert.<n> above are referred to by known_findings.json and selftest/C03): when verifyBlob reported
// a mismatch in the way its contract promises - an error e with errors.Is(e, errDigestMismatch) -
// the blob of that layer is removed before PullModel returns the error. ghost_mm above only follows
// whatever test PullModel makes; ghost_vmm follows what verifyBlob returned, so a test against another
// sentinel, a comparison with == (false for a wrapped error), or an error that does not wrap the
// sentinel all fail here or at verifyBlob#post. The file removed is the blob of the layer being verified.
// ghost_vmm    1 iff the last verifyBlob call returned an error e with errors.Is(e, errDigestMismatch)
// Library fact used (assume-at): errors.Is(err, target) == errwraps(err, target) - the definition of errwraps.
//@   ghost-at entry : ghost_vmm := 0
//@   ghost-at after call verifyBlob : ghost_vmm := ite(result != nil && errwraps(result, errDigestMismatch), 1, 0)
//@   assume-at after call errors.Is : result <==> errwraps(arg0, arg1)     -- library fact: errwraps is errors.Is
//@   assert-at return #5 : ghost_vmm == 1 ==> ghost_rm == 1
//@   assert-at call os.Remove #1 : ghost_vmm == 1 && arg0 == blobpath(layer.Digest)

// ==== C03 (B): blobDownload.run - the -partial file gets its final name only after every part
// ==== goroutine returned nil and the file was closed ====
// errgroup: the part goroutines run concurrently and are verified separately (closure run$2); what they
// write (atomic counters, the part records, the data file) is not part of the ordering argument.
//@ extern func golang.org/x/sync/errgroup.WithContext
//@   modifies nothing
//@ extern func golang.org/x/sync/errgroup.(*Group).SetLimit
//@   modifies nothing
//@ extern func golang.org/x/sync/errgroup.(*Group).Go
//@   modifies nothing
//@ extern func golang.org/x/sync/errgroup.(*Group).Wait
//@   modifies nothing
//@ extern func setSparse
//@   modifies nothing

// run$1 (direct-URL lookup, called in place): works on a fresh copy of opts; the only caller-visible
// write is the scheme downgrade of requestURL in makeRequest. Trusted frame (extern): without a
// contract govc-stable crashes while scanning this closure's body (nil map in funcBodyWrites), and
// its frame cannot be checked: it calls the closure returned by newBackoff (no contract key) and
// passes a nil header map to makeRequestWithRetry (frame check of `headers[all]` fails for nil).
//@ extern func (*blobDownload).run$1
//@   modifies requestURL.Scheme

// downloadChunk runs the transfer in two goroutines; besides atomic counters, the data file and the
// part record on disk it touches part.lastUpdated (under its mutex).
//@ extern func (*blobDownload).downloadChunk
//@   modifies part.lastUpdated
// downloadChunk$2 (stall watchdog): same requirement on the immutable digest.
//@ func (*blobDownload).downloadChunk$2
//@   requires len(b.Digest) >= 19
//@   loop 1 invariant b == old(b) && b.Digest == old(b.Digest)
//@ func (*blobDownloadPart).StartsAt
//@   modifies nothing
//@ func (*blobDownloadPart).StopsAt
//@   modifies nothing
// run$2 is the body of one part goroutine. b.Digest is written only by the composite literal in
// downloadBlob (before the download is shared), so the requirement is what run() itself requires.
//@ func (*blobDownload).run$2
//@   requires len(b.Digest) >= 19
//@   loop 1 invariant b == old(b) && b.Digest == old(b.Digest)
// "rename to the digest name only when every part is complete": run renames after g.Wait() == nil,
// i.e. after every part goroutine returned nil - and a part goroutine returns nil only when its
// LAST downloadChunk attempt returned nil (never because the group is shutting down, retries ran
// out, or the context ended) - added after seeded change C03-seed2
//@   ghost-at entry : ghost_dl := 0
//@   ghost-at after call downloadChunk : ghost_dl := ite(result == nil, 1, 0)
//@   ensures result == nil ==> ghost_dl == 1

// Loops: 1 start part goroutines   2 remove part records.
//@ func (*blobDownload).run
//@   requires len(b.Digest) >= 19
//@   ghost-at entry : ghost_waited := 0
//@   ghost-at entry : ghost_closed := 0
//@   ghost-at after call Wait #1 : ghost_waited := ite(result == nil, 1, 0)
//@   ghost-at after call Close : ghost_closed := ite(result == nil, 1, 0)
//@   assert-at call os.Rename #1 : ghost_waited == 1 && ghost_closed == 1
