//go:build verif

// Contracts for package model (C20: tokenizer round trip), checked by /verif/govc.
package model

// ---- GPT-2 byte <-> unicode table (openai/gpt-2 encoder.py bytes_to_unicode) ----
// The printable bytes 0x21..0x7e, 0xa1..0xac, 0xae..0xff stand for themselves; the
// remaining 68 bytes are numbered n = 0, 1, 2, ... in increasing byte order and
// byte number n is written as the rune 0x100 + n.
//@ spec func gpt2keep(b int) bool = (33 <= b && b <= 126) || (161 <= b && b <= 172) || (174 <= b && b <= 255)
// number of remapped bytes below b (closed form; tied to the table definition by lemma gpt2rank_def)
//@ spec func gpt2rank(b int) int = ite(b <= 33, b, ite(b <= 127, 33, ite(b <= 161, 33 + (b - 127), ite(b <= 173, 67, 68))))
//@ spec func gpt2enc(b int) int = ite(gpt2keep(b), b, 256 + gpt2rank(b))
// inverse table, written independently: runes 0x100+n go back to the n-th remapped byte
//@ spec func gpt2dec(r int) int = ite(256 <= r && r <= 288, r - 256, ite(289 <= r && r <= 322, r - 289 + 127, ite(r == 323, 173, r)))

//@ lemma gpt2rank_def(b int)
//@   requires 0 <= b && b <= 255
//@   ensures gpt2rank(0) == 0
//@   ensures gpt2rank(b + 1) == gpt2rank(b) + ite(gpt2keep(b), 0, 1)
//@ lemma gpt2_roundtrip(b int)
//@   requires 0 <= b && b <= 255
//@   ensures gpt2dec(gpt2enc(b)) == b
//@ lemma gpt2_injective(a int, b int)
//@   requires 0 <= a && a <= 255 && 0 <= b && b <= 255 && gpt2enc(a) == gpt2enc(b)
//@   ensures a == b
//@ lemma gpt2_image(b int)
//@   requires 0 <= b && b <= 255
//@   ensures gpt2enc(b) >= 33 && gpt2enc(b) <= 323 && gpt2enc(b) != 127 && gpt2enc(b) != 173

// Encode$1 is the body of `for split := range bpe.split(frag.value)`.
//@ func (BytePairEncoding).Encode$1
//@   requires jump$1 == 0   -- range-over-func protocol: the loop has not exited (compiler-generated guard)
//@   assert-at call WriteRune #1 : 0 <= b && b <= 255 && r == gpt2enc(b)
// every id appended to the output is a non-negative result of vocab.Encode, hence an index into Values
//@   assert-at call append #1 : 0 <= id && id < len(bpe.vocab.Values)
//@   assert-at call append #3 : 0 <= id && id < len(bpe.vocab.Values)

// Decode: a rune that is the table image of byte b makes exactly b the written byte
// (b == 0 never reaches WriteByte: rune 0x100 is skipped, the property excludes NUL).
//@ func (BytePairEncoding).Decode
//@   requires forall k int :: 0 <= k && k < len(ids) ==> 0 <= ids[k] && ids[k] < len(bpe.vocab.Values)
//@   assert-at call WriteByte #1 : forall b int :: 0 <= b && b <= 255 && rangeval == gpt2enc(b) ==> arg1 == b && b != 0
//@   assert-at call WriteByte #1 : (256 <= rangeval && rangeval <= 323) || (33 <= rangeval && rangeval <= 255) ==> arg1 == gpt2dec(rangeval)

// ---- token ids ----
// The lazily built index maps a token text to its position in Values.
//@ func (*Vocabulary).Encode$1
//@   requires len(v.Values) <= 2147483647
//@   ensures forall s string :: has(v.values, s) ==> 0 <= v.values[s] && v.values[s] < len(v.Values)
//@   ensures forall i int :: 0 <= i && i < len(v.Values) ==> has(v.values, v.Values[i])
//@   loop 1 invariant forall s string :: has(v.values, s) ==> 0 <= v.values[s] && v.values[s] <= rangeindex
//@   loop 1 invariant forall i int :: 0 <= i && i <= rangeindex ==> has(v.values, v.Values[i])

// sync.Once glue (explicit assumption, listed in the evidence): after valuesOnce.Do(f)
// the postcondition of f holds - f = (*Vocabulary).Encode$1 ran now or earlier and is
// the only code that writes v.values; Values is not changed after construction.
//@ func (*Vocabulary).Encode
//@   assume-at after call Do #1 : forall s string :: has(v.values, s) ==> 0 <= v.values[s] && v.values[s] < len(v.Values)
//@   assume-at after call Do #1 : forall i int :: 0 <= i && i < len(v.Values) ==> has(v.values, v.Values[i])
//@   ensures (exists i int :: 0 <= i && i < len(v.Values) && s == v.Values[i]) ==> result >= 0   -- every token text is found (so special tokens get real ids)
//@   ensures result == -1 || (0 <= result && result < len(v.Values))

//@ func (*Vocabulary).Decode
//@   modifies nothing
//@   requires 0 <= id && id < len(v.Values)
//@   ensures result == v.Values[id]

// ---- special tokens ----
// "text containing the literal form of a special token encodes that occurrence to the special
// token's id": the special tokens of a vocabulary are its entries of type CONTROL. Any other
// entry registered as special is cut out of ordinary text and decoded as its raw bytes.
//@ extern func slices.Contains
//@   pure
//@   ensures result <==> exists j int :: 0 <= j && j < len(s) && s[j] == v
//@ func (*Vocabulary).SpecialVocabulary$1
//@   requires len(v.Types) == len(v.Values)
//@   assert-at call append : v.Types[i] == TOKEN_TYPE_CONTROL

// The merge loops (BPE: Encode$1 after the byte loop and its closure pairwise = Encode$1$1;
// SentencePiece: Encode and its closure Encode$1) are swept for panics without functional
// contracts; the index obligations that depend on what the library priority queue
// returns are listed as undecided in props/C20.json.
//@ func (BytePairEncoding).Encode$1$1

// Encode: special-token split, then the pre-tokenizer loop (body = Encode$1).
//@ func (BytePairEncoding).Encode

// ---- SentencePiece ----
//@ func (SentencePieceModel).Encode$1

// every id appended after a vocabulary lookup is guarded by id >= 0, hence an index into Values
//@ func (SentencePieceModel).Encode
//@   assert-at call append #8 : 0 <= id && id < len(spm.vocab.Values)
//@   assert-at call append #10 : 0 <= id && id < len(spm.vocab.Values)
//@   assert-at call append #11 : 0 <= unknownID && unknownID < len(spm.vocab.Values)
// Decode turns every token spelled <0xNN> (6 bytes, prefix "<0x", suffix ">") into the byte NN, so
// Encode must not emit such a token for a piece of text that merely reads "<0xNN>"
//@   assert-at call append #8 : !(len(text) == 6 && shasprefix(text, "<0x") && shassuffix(text, ">"))
//@   assert-at call append #10 : !(len(token) == 6 && shasprefix(token, "<0x") && shassuffix(token, ">"))
// Decode turns every U+2581 into a space, so text must not contain U+2581 itself
//@   assert-at call ReplaceAll #1 : !scontains(frag.value, spmWhitespaceSep)
// byte fallback of ONE piece: it contributes at most one id per byte of that piece (the buffer
// starts empty for every piece) - otherwise ids of earlier pieces are emitted again and the text
// does not round-trip (added after seeded change C20-seed2)
//@   loop 8 invariant len(result) <= rangeindex + 1
//@   assert-at call append #12 : len(result) <= len(token)

//@ func (SentencePieceModel).Decode
//@   requires forall k int :: 0 <= k && k < len(ids) ==> 0 <= ids[k] && ids[k] < len(spm.vocab.Values)
