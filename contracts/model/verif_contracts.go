//go:build verif

// Contracts for package model (C20: tokenizer round trip), checked by /verif/govc.
package model

// ---- GPT-2 byte <-> unicode table (openai/gpt-2 encoder.py bytes_to_unicode) ----
// The printable bytes 0x21..0x7e, 0xa1..0xac, 0xae..0xff stand for themselves; the
// remaining 68 bytes are numbered n = 0, 1, 2, ... in increasing byte order and
// byte number n is written as the rune 0x100 + n.
//@ spec func gpt2keep(b int) bool = (33 <= b && b <= 126) || (161 <= b && b <= 172) || (174 <= b && b <= 255)
// number of remapped bytes below b (closed form; tied to the table definition by lemma gpt2rank_def)
//@ spec func gpt2rank(b int) int = ite(b <= 33, b, ite(b <= 127, 33, ite(b <= 161, 33 + (b - 127), ite(b <= 173, 67, 68))))
//@ spec func gpt2enc(b int) int = ite(gpt2keep(b), b, 256 + gpt2rank(b))
// inverse table, written independently: runes 0x100+n go back to the n-th remapped byte
//@ spec func gpt2dec(r int) int = ite(256 <= r && r <= 288, r - 256, ite(289 <= r && r <= 322, r - 289 + 127, ite(r == 323, 173, r)))

//@ lemma gpt2rank_def(b int)
//@   requires 0 <= b && b <= 255
//@   ensures gpt2rank(0) == 0
//@   ensures gpt2rank(b + 1) == gpt2rank(b) + ite(gpt2keep(b), 0, 1)
//@ lemma gpt2_roundtrip(b int)
//@   requires 0 <= b && b <= 255
//@   ensures gpt2dec(gpt2enc(b)) == b
//@ lemma gpt2_injective(a int, b int)
//@   requires 0 <= a && a <= 255 && 0 <= b && b <= 255 && gpt2enc(a) == gpt2enc(b)
//@   ensures a == b
//@ lemma gpt2_image(b int)
//@   requires 0 <= b && b <= 255
//@   ensures gpt2enc(b) >= 33 && gpt2enc(b) <= 323 && gpt2enc(b) != 127 && gpt2enc(b) != 173

// Encode$1 is the body of `for split := range bpe.split(frag.value)`.
//@ func (BytePairEncoding).Encode$1
//@   requires jump$1 == 0   -- range-over-func protocol: the loop has not exited (compiler-generated guard)
//@   assert-at call WriteRune #1 : 0 <= b && b <= 255 && r == gpt2enc(b)
// every id appended to the output is a non-negative result of vocab.Encode, hence an index into Values
//@   assert-at call append #1 : 0 <= id && id < len(bpe.vocab.Values)
//@   assert-at call append #3 : 0 <= id && id < len(bpe.vocab.Values)
// -- round 4 (audit) --
// (loop invariants cannot be attached inside this synthetic range-over-func body: the engine
// finds no loop statements for it; only per-site clauses below)
// the byte loop visits exactly the bytes of the pre-tokenizer piece, in order: the k-th rune
// written is the image of byte k of split, and the loop has run len(split) times when the
// remapped text is looked up
//@   assert-at call WriteRune #1 : b == split[rangeindex + 1]
//@   assert-at call String #1 : rangeindex + 1 == len(split)
// the merge path is entered only when the whole piece is not a vocabulary entry (otherwise the
// piece would be emitted twice)
//@   ghost-at after call Encode #1 : ghost_sc := result
//@   assert-at call String #2 : ghost_sc < 0
// what is appended is the id just looked up, at the end of the ids produced so far
//@   assert-at call append #1 : len(arg1) == 1 && arg1[0] == id && len(arg0) == len(ids)
//@   assert-at call append #3 : len(arg1) == 1 && arg1[0] == id && len(arg0) == len(ids)
// initial linked list: piece r is the single rune r, its neighbours are r-1 and r+1
//@   assert-at store p #1 : stored == rangeindex
//@   assert-at store n #1 : stored == rangeindex + 2
//@   assert-at store runes #2 : len(stored) == 1 && stored[0] == runes[rangeindex + 1]
// merge step: two live pieces are joined only when the joined text is a vocabulary entry (a piece
// that is not in the vocabulary is dropped from the output, process_text.go:289), the joined
// piece is left followed by right, and the right piece dies
//@   ghost-at after call Encode #2 : ghost_mid := result
//@   assert-at call Encode #2 : arg1 == pair.value
//@   assert-at call append #2 : ghost_mid >= 0 && len(left.runes) > 0 && len(right.runes) > 0 && len(arg0) == len(left.runes) && len(arg1) == len(right.runes) && (forall j int :: 0 <= j && j < len(arg1) ==> arg1[j] == right.runes[j])
//@   assert-at store runes #3 : len(stored) == len(left.runes) + len(right.runes) && (forall j int :: 0 <= j && j < len(left.runes) ==> stored[j] == left.runes[j])
//@   assert-at store runes #4 : len(stored) == 0
// linked-list bookkeeping after a merge (checked just before the neighbours are re-paired): the
// joined piece sits in slot pair.a, slot pair.b is dead, a's successor is right's old successor and
// that successor points back to a; the two new candidate pairs are (a.p, a) and (a, a.n)
//@   assert-at call Encode$1$1 #2 : (pair.a != pair.b ==> len(merges[pair.a].runes) == len(left.runes) + len(right.runes) && len(merges[pair.b].runes) == 0) && merges[pair.a].n == right.n && (0 <= right.n && right.n < len(merges) ==> merges[right.n].p == pair.a) && arg0 == merges[pair.a].p && arg1 == pair.a
//@   assert-at call Encode$1$1 #3 : arg0 == pair.a && arg1 == merges[pair.a].n
// final pieces: the loop visits every slot of merges in order and looks up the text of that slot
//@   assert-at call Encode #3 : merge.p == merges[rangeindex + 1].p && merge.n == merges[rangeindex + 1].n && len(merge.runes) == len(merges[rangeindex + 1].runes) && len(merge.runes) > 0

// Decode: a rune that is the table image of byte b makes exactly b the written byte
// (b == 0 never reaches WriteByte: rune 0x100 is skipped, the property excludes NUL).
//@ func (BytePairEncoding).Decode
//@   requires forall k int :: 0 <= k && k < len(ids) ==> 0 <= ids[k] && ids[k] < len(bpe.vocab.Values)
//@   assert-at call WriteByte #1 : forall b int :: 0 <= b && b <= 255 && rangeval == gpt2enc(b) ==> arg1 == b && b != 0
//@   assert-at call WriteByte #1 : (256 <= rangeval && rangeval <= 323) || (33 <= rangeval && rangeval <= 255) ==> arg1 == gpt2dec(rangeval)
// -- round 4 (audit) -- every id is decoded, in order
//@   assert-at call Decode #1 : arg1 == ids[rangeindex + 1]

// ---- token ids ----
// The lazily built index maps a token text to its position in Values.
//@ func (*Vocabulary).Encode$1
//@   requires len(v.Values) <= 2147483647
//@   ensures forall s string :: has(v.values, s) ==> 0 <= v.values[s] && v.values[s] < len(v.Values)
//@   ensures forall i int :: 0 <= i && i < len(v.Values) ==> has(v.values, v.Values[i])
//@   loop 1 invariant forall s string :: has(v.values, s) ==> 0 <= v.values[s] && v.values[s] <= rangeindex
//@   loop 1 invariant forall i int :: 0 <= i && i <= rangeindex ==> has(v.values, v.Values[i])
// -- extension -- the index is an INVERSE of Values: the entry stored under a text is a position that holds
// exactly that text (token-level round trip: Values[Encode(s)] == s); with duplicates the last one wins
//@   ensures forall s string :: has(v.values, s) ==> v.Values[v.values[s]] == s
//@   loop 1 invariant forall s string :: has(v.values, s) ==> v.Values[v.values[s]] == s

// sync.Once glue (explicit assumption, listed in the evidence): after valuesOnce.Do(f)
// the postcondition of f holds - f = (*Vocabulary).Encode$1 ran now or earlier and is
// the only code that writes v.values; Values is not changed after construction.
//@ func (*Vocabulary).Encode
//@   assume-at after call Do #1 : forall s string :: has(v.values, s) ==> 0 <= v.values[s] && v.values[s] < len(v.Values)
//@   assume-at after call Do #1 : forall i int :: 0 <= i && i < len(v.Values) ==> has(v.values, v.Values[i])
//@   ensures (exists i int :: 0 <= i && i < len(v.Values) && s == v.Values[i]) ==> result >= 0   -- every token text is found (so special tokens get real ids)
//@   ensures result == -1 || (0 <= result && result < len(v.Values))
// -- extension -- token-level round trip: what Encode returns for s decodes (Vocabulary.Decode = Values[id]) to s
// (same sync.Once glue as above for the third proved postcondition of the closure)
//@   assume-at after call Do #1 : forall s string :: has(v.values, s) ==> v.Values[v.values[s]] == s
//@   ensures result >= 0 ==> v.Values[result] == s

//@ func (*Vocabulary).Decode
//@   modifies nothing
//@   requires 0 <= id && id < len(v.Values)
//@   ensures result == v.Values[id]

// ---- special tokens ----
// "text containing the literal form of a special token encodes that occurrence to the special
// token's id": the special tokens of a vocabulary are its entries of type CONTROL. Any other
// entry registered as special is cut out of ordinary text and decoded as its raw bytes.
//@ extern func slices.Contains
//@   pure
//@   ensures result <==> exists j int :: 0 <= j && j < len(s) && s[j] == v
//@ func (*Vocabulary).SpecialVocabulary$1
//@   requires len(v.Types) == len(v.Values)
//@   assert-at call append : v.Types[i] == TOKEN_TYPE_CONTROL

// The merge loops (BPE: Encode$1 after the byte loop and its closure pairwise = Encode$1$1;
// SentencePiece: Encode and its closure Encode$1) are swept for panics without functional
// contracts; the index obligations that depend on what the library priority queue
// returns are listed as undecided in props/C20.json.
//@ func (BytePairEncoding).Encode$1$1
// -- round 4 (audit) -- pairwise(a, b): a candidate names exactly the two slots it was asked about,
// carries the rank the merge table gives for (left, right) in this order and the text left+right
// (the merge loop compares that text with the live pieces to recognise stale candidates)
//@   ghost-at entry : ghost_rank := -1
//@   ghost-at after call Merge #1 : ghost_rank := result
//@   assert-at call Merge #1 : arg1 == left && arg2 == right
//@   ensures result != nil ==> result.a == a && result.b == b && 0 <= a && b < len(runes)
//@   ensures result != nil ==> result.rank >= 0
//@   assert-at return #3 : result != nil && result.value == left + right && result.rank == ghost_rank

// Encode: special-token split, then the pre-tokenizer loop (body = Encode$1).
//@ func (BytePairEncoding).Encode
// -- round 4 (audit) -- split on special tokens. For the special literal at hand the fragment text
// is searched for it; a fragment without it is kept as it is, otherwise it is replaced by
// [text before the occurrence (if any)] [the literal with ids = {id of the literal}] [text after it
// (if any)] - three pieces that concatenate to the fragment. Fragments that already carry an id are
// not searched again. The splice keeps every other fragment in place.
//@   ghost-at after call Encode #1 : ghost_sid := result
//@   ghost-at call append #5 : ghost_tail := len(arg1)
//@   ghost-at after call Index #1 : ghost_ix := result
//@   assert-at call Encode #1 : arg1 == special
//@   assert-at call Index #1 : arg0 == frag.value && arg1 == special && len(frag.ids) == 0 && frag.value == fragments[i].value
//@   assert-at call append #1 : ghost_ix < 0 && len(arg1) == 1 && arg1[0].value == frag.value && len(arg1[0].ids) == 0
//@   assert-at call append #2 : ghost_ix > 0 && len(arg1) == 1 && arg1[0].value == frag.value[:ghost_ix] && len(arg1[0].ids) == 0
//@   assert-at call append #3 : ghost_ix >= 0 && len(arg0) == ite(ghost_ix > 0, 1, 0) && len(arg1) == 1 && arg1[0].value == special && len(arg1[0].ids) == 1 && arg1[0].ids[0] == ghost_sid
//@   assert-at call append #4 : len(arg1) == 1 && arg1[0].value == frag.value[ghost_ix + len(special):] && len(arg1[0].ids) == 0
//@   assert-at call append #5 : len(arg0) == len(middle) && len(arg1) < len(fragments) && (len(arg1) > 0 ==> arg1[0].value == fragments[len(fragments) - len(arg1)].value)
//@   assert-at call append #6 : len(arg0) + 1 + ghost_tail == len(fragments) && len(arg1) == len(middle) + ghost_tail && frag.value == fragments[len(arg0)].value && (len(arg0) > 0 ==> arg0[0].value == fragments[0].value)
// assembling the result: every fragment is visited in order; a special fragment contributes exactly
// its ids and is not tokenized as text, every other fragment goes to the pre-tokenizer whole
//@   assert-at call append #7 : len(frag.ids) > 0 && frag.value == fragments[rangeindex + 1].value && len(arg0) == len(ids) && len(arg1) == len(frag.ids) && arg1[0] == frag.ids[0]
//@   assert-at call split #1 : len(frag.ids) == 0 && arg1 == frag.value && frag.value == fragments[rangeindex + 1].value
// BOS / EOS are added only on request, around (not instead of) the ids of the text
//@   assert-at call append #8 : addSpecial && len(arg0) == 1 && arg0[0] == bpe.vocab.BOS && len(arg1) == len(ids)
//@   assert-at call append #9 : addSpecial && len(arg1) == 1 && arg1[0] == bpe.vocab.EOS && len(arg0) == len(ids)
// -- extension (after seeded change C20-seed4) -- the only reason to skip a fragment in the special-token split is
// that it already carries ids. A skipped iteration has no site of its own and loop invariants are refused in this
// function (it contains a range-over-func statement), so the skip test is pinned through the order of the len()
// sites: the first length taken after `len(frag.ids)` is len(special) in `frag.value[i+len(special):]`, on the path
// where the literal was found in THIS fragment - any further length test in the skip condition moves that site
// (len sites in source order: #1 range over the special vocabulary, #2 loop condition, #3 len(frag.ids), #4 len(special))
//@   assert-at call len #3 : arg0 == frag.ids && frag.value == fragments[i].value
//@   assert-at call len #4 : arg0 == special && ghost_ix >= 0

// ---- SentencePiece ----
//@ func (SentencePieceModel).Encode$1
// -- round 4 (audit) -- pairwise(a, b): a candidate exists only for a joined text that is a
// vocabulary entry, names exactly the two slots it was asked about and records the byte size of
// left+right (the merge loop uses that size to recognise stale candidates)
//@   ghost-at entry : ghost_pid := -1
//@   ghost-at after call Encode #1 : ghost_pid := result
//@   assert-at call Encode #1 : arg1 == left + right
//@   ensures result != nil ==> result.a == a && result.b == b && 0 <= a && b < len(runes)
//@   assert-at return #2 : result != nil && ghost_pid >= 0 && result.size == len(left) + len(right)

// every id appended after a vocabulary lookup is guarded by id >= 0, hence an index into Values
//@ func (SentencePieceModel).Encode
//@   assert-at call append #8 : 0 <= id && id < len(spm.vocab.Values)
//@   assert-at call append #10 : 0 <= id && id < len(spm.vocab.Values)
//@   assert-at call append #11 : 0 <= unknownID && unknownID < len(spm.vocab.Values)
// Decode turns every token spelled <0xNN> (6 bytes, prefix "<0x", suffix ">") into the byte NN, so
// Encode must not emit such a token for a piece of text that merely reads "<0xNN>"
//@   assert-at call append #8 : !(len(text) == 6 && shasprefix(text, "<0x") && shassuffix(text, ">"))
//@   assert-at call append #10 : !(len(token) == 6 && shasprefix(token, "<0x") && shassuffix(token, ">"))
// Decode turns every U+2581 into a space, so text must not contain U+2581 itself
//@   assert-at call ReplaceAll #1 : !scontains(frag.value, spmWhitespaceSep)
// byte fallback of ONE piece: it contributes at most one id per byte of that piece (the buffer
// starts empty for every piece) - otherwise ids of earlier pieces are emitted again and the text
// does not round-trip (added after seeded change C20-seed2)
//@   loop 8 invariant len(result) <= rangeindex + 1
//@   assert-at call append #12 : len(result) <= len(token)
// -- round 4 (audit) -- split on special tokens (same code as BytePairEncoding.Encode, same clauses)
//@   ghost-at after call Encode #1 : ghost_sid := result
//@   ghost-at call append #5 : ghost_tail := len(arg1)
//@   ghost-at after call Index #1 : ghost_ix := result
//@   assert-at call Encode #1 : arg1 == special
//@   assert-at call Index #1 : arg0 == frag.value && arg1 == special && len(frag.ids) == 0 && frag.value == fragments[i].value
//@   assert-at call append #1 : ghost_ix < 0 && len(arg1) == 1 && arg1[0].value == frag.value && len(arg1[0].ids) == 0
//@   assert-at call append #2 : ghost_ix > 0 && len(arg1) == 1 && arg1[0].value == frag.value[:ghost_ix] && len(arg1[0].ids) == 0
//@   assert-at call append #3 : ghost_ix >= 0 && len(arg0) == ite(ghost_ix > 0, 1, 0) && len(arg1) == 1 && arg1[0].value == special && len(arg1[0].ids) == 1 && arg1[0].ids[0] == ghost_sid
//@   assert-at call append #4 : len(arg1) == 1 && arg1[0].value == frag.value[ghost_ix + len(special):] && len(arg1[0].ids) == 0
//@   assert-at call append #5 : len(arg0) == len(middle) && len(arg1) < len(fragments) && (len(arg1) > 0 ==> arg1[0].value == fragments[len(fragments) - len(arg1)].value)
//@   assert-at call append #6 : len(arg0) + 1 + ghost_tail == len(fragments) && len(arg1) == len(middle) + ghost_tail && frag.value == fragments[len(arg0)].value && (len(arg0) > 0 ==> arg0[0].value == fragments[0].value)
// assembling the result: every fragment is visited in order; a special fragment contributes exactly
// its ids and is not tokenized as text; every other fragment is tokenized whole, with ' ' -> U+2581
//@   assert-at call append #7 : len(frag.ids) > 0 && frag.value == fragments[rangeindex + 1].value && len(arg0) == len(ids) && len(arg1) == len(frag.ids) && arg1[0] == frag.ids[0]
//@   assert-at call ReplaceAll #1 : len(frag.ids) == 0 && arg0 == frag.value && arg1 == " " && arg2 == spmWhitespaceSep && frag.value == fragments[rangeindex + 1].value
// whole-fragment shortcut: the id appended is the one looked up for the converted text; the merge
// path is entered only when that lookup failed (otherwise the fragment would be emitted twice)
//@   ghost-at after call Encode #2 : ghost_sc := result
//@   assert-at call Encode #2 : arg1 == text
//@   assert-at call append #8 : len(arg1) == 1 && arg1[0] == id && len(arg0) == len(ids)
//@   assert-at call Init #1 : ghost_sc < 0
// initial linked list: piece r is the single rune r, its neighbours are r-1 and r+1
//@   assert-at store p #1 : stored == rangeindex
//@   assert-at store n #1 : stored == rangeindex + 2
//@   assert-at store runes #2 : len(stored) == 1 && stored[0] == runes[rangeindex + 1]
// merge step: the joined piece is left followed by right and the right piece dies; bookkeeping as in BPE
//@   assert-at call append #9 : len(arg0) == len(left.runes) && len(arg1) == len(right.runes)
//@   assert-at store runes #3 : len(stored) == len(left.runes) + len(right.runes) && (forall j int :: 0 <= j && j < len(left.runes) ==> stored[j] == left.runes[j])
//@   assert-at store runes #4 : len(stored) == 0
//@   assert-at call Encode$1 #2 : (pair.a != pair.b ==> len(merges[pair.a].runes) == len(left.runes) + len(right.runes) && len(merges[pair.b].runes) == 0) && merges[pair.a].n == right.n && (0 <= right.n && right.n < len(merges) ==> merges[right.n].p == pair.a) && arg0 == merges[pair.a].p && arg1 == pair.a
//@   assert-at call Encode$1 #3 : arg0 == pair.a && arg1 == merges[pair.a].n
// final pieces: every slot of merges is visited in order; a piece found in the vocabulary
// contributes that id; the byte fallback runs only for a piece that was not found, visits every
// byte of the piece in order, and its ids are appended after the ids produced so far
//@   ghost-at after call Encode #3 : ghost_tid := result
//@   assert-at call Encode #3 : arg1 == token && merge.p == merges[rangeindex + 1].p && merge.n == merges[rangeindex + 1].n && len(merge.runes) == len(merges[rangeindex + 1].runes)
//@   assert-at call append #10 : len(arg1) == 1 && arg1[0] == id && len(arg0) == len(ids)
//@   loop 8 invariant ghost_tid < 0
//@   assert-at call Sprintf #1 : ghost_tid < 0 && arg0 == "<0x%02X>" && b == token[rangeindex + 1]
//@   assert-at call append #11 : len(arg1) == 1 && arg1[0] == unknownID && len(arg0) == len(result)
//@   assert-at call append #12 : len(arg0) == len(ids) && len(arg1) == len(result) && rangeindex + 1 == len(token)
// BOS / EOS are added only on request, around (not instead of) the ids of the text
//@   assert-at call append #13 : addSpecial && len(arg0) == 1 && arg0[0] == spm.vocab.BOS && len(arg1) == len(ids)
//@   assert-at call append #14 : addSpecial && len(arg1) == 1 && arg1[0] == spm.vocab.EOS && len(arg0) == len(ids)
// -- extension -- container/heap works on the *queue only (frames of the queue methods are proved, see
// (queue).Swap etc.); what heap.Pop returns is what (*queue).Pop returned: a *candidate; only *candidate values
// are pushed
//@   assert-at call heap.Push #1 : tagis(arg1, "*candidate")
//@   assert-at call heap.Push #2 : tagis(arg1, "*candidate")
//@   assert-at call heap.Push #3 : tagis(arg1, "*candidate")
// -- extension (after seeded change C20-seed4, same code as BytePairEncoding.Encode) -- the skip test of the
// special-token split takes no other length than len(frag.ids): the next len() site is len(special) on the path
// where the literal was found in this fragment
//@   assert-at call len #3 : arg0 == frag.ids && frag.value == fragments[i].value
//@   assert-at call len #4 : arg0 == special && ghost_ix >= 0

//@ func (SentencePieceModel).Decode
//@   requires forall k int :: 0 <= k && k < len(ids) ==> 0 <= ids[k] && ids[k] < len(spm.vocab.Values)
// -- round 4 (audit) -- every id is decoded in order; U+2581 goes back to ' ' (the inverse of
// Encode's replacement); exactly the entries spelled <0xNN> become the byte NN (parsed from the
// four characters 0xNN), every other entry is written as it is
//@   assert-at call Decode #1 : arg1 == ids[rangeindex + 1]
//@   assert-at call ReplaceAll #1 : arg0 == data && arg1 == spmWhitespaceSep && arg2 == " "
//@   assert-at call ParseUint #1 : len(data) == 6 && shasprefix(data, "<0x") && shassuffix(data, ">") && arg0 == data[1:5] && arg1 == 0 && arg2 == 8
//@   assert-at call WriteByte #1 : arg1 == byteVal % 256
//@   assert-at call WriteString #1 : arg1 == data && !(len(data) == 6 && shasprefix(data, "<0x") && shassuffix(data, ">"))

// ---- extension: merge-rank table (Vocabulary.Merge), built once like the value index ----
// rank of a pair = its position in Merges (the text "left right"), -1 when the pair is not a merge
//@ func (*Vocabulary).Merge$1
//@   requires len(v.Merges) <= 2147483647
//@   ensures forall s string :: has(v.merge, s) ==> 0 <= v.merge[s] && v.merge[s] < len(v.Merges) && v.Merges[v.merge[s]] == s
//@   ensures forall i int :: 0 <= i && i < len(v.Merges) ==> has(v.merge, v.Merges[i])
//@   loop 1 invariant forall s string :: has(v.merge, s) ==> 0 <= v.merge[s] && v.merge[s] <= rangeindex && v.Merges[v.merge[s]] == s
//@   loop 1 invariant forall i int :: 0 <= i && i <= rangeindex ==> has(v.merge, v.Merges[i])
//@ func (*Vocabulary).Merge
//@   assume-at after call Do #1 : forall s string :: has(v.merge, s) ==> 0 <= v.merge[s] && v.merge[s] < len(v.Merges) && v.Merges[v.merge[s]] == s
//@   assume-at after call Do #1 : forall i int :: 0 <= i && i < len(v.Merges) ==> has(v.merge, v.Merges[i])
//@   ensures result == -1 || (0 <= result && result < len(v.Merges) && v.Merges[result] == left + " " + right)
//@   ensures (exists i int :: 0 <= i && i < len(v.Merges) && v.Merges[i] == left + " " + right) ==> result >= 0

// ---- extension: the SentencePiece priority queue (heap.Interface on []*candidate) ----
// container/heap calls these with indices inside the queue
//@ func (queue).Len
//@   modifies nothing
//@   ensures result == len(q)
// order: higher score first, ties broken by the smaller left position (a MIN-heap under Less keeps the best
// candidate at index 0)
//@ func (queue).Less
//@   requires 0 <= i && i < len(q) && 0 <= j && j < len(q)
//@   modifies nothing
//@   ensures result <==> (q[i].score > q[j].score) || (q[i].score == q[j].score && q[i].a < q[j].a)
//@ func (queue).Swap
//@   requires 0 <= i && i < len(q) && 0 <= j && j < len(q)
//@   modifies q[i], q[j]
//@   ensures q[i] == old(q[j]) && q[j] == old(q[i])
//@   ensures forall k int :: 0 <= k && k < len(q) && k != i && k != j ==> q[k] == old(q[k])
//@ func (*queue).Push
//@   requires tagis(x, "*candidate")
//@   ensures len(*q) == old(len(*q)) + 1
//@   ensures forall k int :: 0 <= k && k < old(len(*q)) ==> (*q)[k] == old((*q)[k])
//@ func (*queue).Pop
//@   requires len(*q) >= 1
//@   ensures len(*q) == old(len(*q)) - 1 && tagis(result, "*candidate")
//@   ensures forall k int :: 0 <= k && k < len(*q) ==> (*q)[k] == old((*q)[k])

// container/heap on a *queue (trusted library contracts): the calls work on the queue behind h through its
// methods only - Len/Less read, Swap exchanges two slots, Push/Pop append/cut (frames proved above) - and
// heap.Pop returns what h.Pop() returned, for a *queue a *candidate (proved on (*queue).Pop; (*queue).Push
// accepts nothing else). The order of the elements inside the queue is not read by any clause.
//@ extern func container/heap.Init
//@   modifies boxed(h)
//@ extern func container/heap.Push
//@   modifies boxed(h)
//@ extern func container/heap.Pop
//@   modifies boxed(h)
//@   ensures tagis(result, "*candidate")
