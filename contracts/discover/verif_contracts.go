//go:build verif

// Contracts for package discover (assumed: GPU discovery talks to drivers).
package discover

//@ extern func GetGPUInfo
//@   modifies nothing
//@ extern func (GpuInfoList).FlashAttentionSupported
//@   modifies nothing

// ByLibrary (C16: "every list of GPUs of one library" is what the estimator is given). The body is
// verified (props C16: discover.(GpuInfoList).ByLibrary); what used to be trusted is now proved:
//  * it writes nothing outside the slices it allocates (the inventory is left alone);
//  * no group is empty (the estimator reads gpus[0]) and after i inventory entries no group holds
//    more than i GPUs (so no GPU is entered twice into a group, and a group has at most as many
//    GPUs as the inventory: <= 128 when the inventory has), at most one group per entry.
// The range facts about the hardware (FreeMemory < 2^56, MinimumMemory < 2^50, <= 128 GPUs) are
// no longer part of this contract: they are an explicit range assumption where PredictServerFit
// receives the groups (contracts/llm). Not proved (engine: invariants that quantify over the
// backing arrays of a slice of slices - blk(resp[g]) / fresh(&resp[g][0]) - do not terminate):
// element-wise facts about the groups (same runner name within a group, every GPU in exactly one).
//@ func (GpuInfoList).ByLibrary
//@   modifies nothing
//@   ensures len(l) <= 128 ==> forall g int :: 0 <= g && g < len(result) ==> 1 <= len(result[g]) && len(result[g]) <= 128
//@   ensures forall g int :: 0 <= g && g < len(result) ==> 1 <= len(result[g]) && len(result[g]) <= len(l)
//@   ensures len(result) <= len(l)
//@   assert-at call len #2 : rangeindex >= -1 && rangeindex < len(l)     -- (also makes the engine visit builtin sites: it does so only for contracts with an assert-at)
//@   ghost-at call len #2 : ghost_oi := rangeindex
//@   loop 1 invariant len(resp) == len(libs) && len(resp) <= rangeindex + 1 && (cap(resp) == 0 || fresh(&resp[0]))
//@   loop 1 invariant forall g int :: 0 <= g && g < len(resp) ==> 1 <= len(resp[g]) && len(resp[g]) <= rangeindex + 1
//@   loop 2 invariant len(resp) == len(libs) && len(resp) <= ghost_oi + 1 && ghost_oi + 1 < len(l) && ghost_oi >= -1
//@   loop 2 invariant forall g int :: 0 <= g && g < len(resp) ==> 1 <= len(resp[g]) && len(resp[g]) <= ghost_oi + 1
// two groups never carry the same runner name (library[_variant]): a new group is opened only when
// the search over ALL existing names found none equal to the requested one
//@   loop 1 invariant forall a int, b int :: 0 <= a && a < b && b < len(libs) ==> libs[a] != libs[b]
//@   loop 2 invariant forall a int, b int :: 0 <= a && a < b && b < len(libs) ==> libs[a] != libs[b]
//@   loop 2 invariant forall m int :: 0 <= m && m <= rangeindex ==> libs[m] != requested
