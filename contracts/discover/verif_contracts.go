//go:build verif

// Contracts for package discover (assumed: GPU discovery talks to drivers).
package discover

//@ extern func GetGPUInfo
//@   modifies nothing
//@ extern func (GpuInfoList).FlashAttentionSupported
//@   modifies nothing
// Range assumptions on the GPU inventory (never proved: they describe the hardware).
//@ extern func (GpuInfoList).ByLibrary
//@   modifies nothing
//@   ensures forall g int :: 0 <= g && g < len(result) ==> 1 <= len(result[g]) && len(result[g]) <= 128
//@   ensures forall g int, k int :: 0 <= g && g < len(result) && 0 <= k && k < len(result[g]) ==> result[g][k].FreeMemory < (1 << 56) && result[g][k].MinimumMemory < (1 << 50)
