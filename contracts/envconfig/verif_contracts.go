//go:build verif

// Contracts for package envconfig (assumed, not verified: values come from the environment).
package envconfig

//@ extern func GpuOverhead
//@   pure reads none
//@   ensures result < (1 << 56)
