//go:build verif

// C19: the legacy (.System/.Prompt/.Response) rendering path of Template.Execute. Messages are
// rendered as (system, prompt, response) triples in that order; a message is put into its field
// only when nothing that belongs to an EARLIER position of the next triple is still pending -
// otherwise the pending text would be overwritten or rendered after a later message.
package template

//@ extern func log/slog.Debug
//@   modifies nothing

// the flush closure renders the pending triple and clears it
//@ func (*Template).Execute$1
//@   opt safe panic
//@   ensures result == nil ==> system == "" && prompt == "" && response == ""

//@ func (*Template).Execute
//@   opt safe panic
// frame as used by chatPrompt (C19): renders into w, reads v. Trusted here (opt frame assume): the
// body calls text/template and collate, which are not under contract.
//@   modifies boxed(w)
//@   opt frame assume
// a system message starts a new triple: prompt and response of the previous one were rendered
//@   assert-at store system #3 : prompt == "" && response == ""
// a user message follows the system message of its triple: no response may be pending
//@   assert-at store prompt #1 : response == ""
