//go:build verif

// C19: the legacy (.System/.Prompt/.Response) rendering path of Template.Execute. Messages are
// rendered as (system, prompt, response) triples in that order; a message is put into its field
// only when nothing that belongs to an EARLIER position of the next triple is still pending -
// otherwise the pending text would be overwritten or rendered after a later message.
package template

//@ extern func log/slog.Debug
//@   modifies nothing

// the flush closure renders the pending triple and clears it
//@ func (*Template).Execute$1
//@   opt safe panic
//@   ensures result == nil ==> system == "" && prompt == "" && response == ""

//@ func (*Template).Execute
//@   opt safe panic
// frame as used by chatPrompt (C19): renders into w, reads v. Trusted here (opt frame assume): the
// body calls text/template and collate, which are not under contract.
//@   modifies boxed(w)
//@   opt frame assume
// a system message starts a new triple: prompt and response of the previous one were rendered
//@   assert-at store system #3 : prompt == "" && response == ""
// a user message follows the system message of its triple: no response may be pending
//@   assert-at store prompt #1 : response == ""
// collate is given the whole message list of the request
//@   assert-at call collate #1 : len(arg0) == len(v.Messages) && (len(arg0) > 0 ==> &arg0[0] == &v.Messages[0])
// definitional (see collate): names for the system count, the collation index and the merged text of
// THIS message list; every list has such an interpretation - listed in the assumptions
//@   assume-at call collate #1 : tplnsys(0) == 0 && tplgrp(0) == 0 && (len(arg0) > 0 ==> tplcat(0) == arg0[0].Content)
//@   assume-at call collate #1 : forall j int :: 0 <= j && j < len(arg0) ==> tplnsys(j+1) == tplnsys(j) + ite(arg0[j].Role == "system", 1, 0)
//@   assume-at call collate #1 : forall j int :: 0 <= j && j + 1 < len(arg0) ==> tplgrp(j+1) == tplgrp(j) + ite(arg0[j+1].Role == arg0[j].Role, 0, 1)
//@   assume-at call collate #1 : forall j int :: 0 <= j && j + 1 < len(arg0) ==> tplcat(j+1) == ite(arg0[j+1].Role == arg0[j].Role, tplcat(j) + ("\n\n" + arg0[j+1].Content), arg0[j+1].Content)
// each message text goes unchanged into the field of its role
//@   assert-at store system #3 : stored == m.Content
//@   assert-at store prompt #1 : stored == m.Content
//@   assert-at store response #1 : stored == m.Content
// NO SYSTEM MESSAGE IS OVERWRITTEN: when a system message is put into the pending triple, no earlier
// system message is still pending there. FAILS ON THE UNCHANGED TREE (genuine defect, reproduced with a
// Go test): the flush above runs only when prompt or response is non-empty, so for
// [system A, tool T, system B, user U] or [system A, user "", system B, user U] and a legacy
// (.System/.Prompt/.Response) template the prompt contains B but not A.
//@   assert-at store system #3 : system == ""

// ---- C19: message collation and system extraction (collate) ----
// Ghost names, introduced by definitional preconditions (for every message list there is an
// interpretation that satisfies the recurrences, so they restrict nothing; the engine has no
// recursive spec functions over slices of structs):
//   tplnsys(j) = number of system messages among msgs[0:j]
//   tplgrp(j)  = index of the collated message that msgs[j] goes into (number of role changes in msgs[0:j+1])
//   tplcat(j)  = merged content of the run of same-role messages that ends at msgs[j]
//@ spec func tplnsys(j int) int
//@ spec func tplgrp(j int) int
//@ spec func tplcat(j int) string

// Every message goes into the collated list: a message that continues a run of one role is appended to
// the last collated message (separator "\n\n", nothing of the earlier text lost), any other message
// opens a new collated message; roles and order are kept, so in particular the LATEST message is the
// tail of the last collated message. The content of every system message is collected, in order, and
// joined into the system string. The caller's messages are not written (a copy is merged into).
//@ func collate
//@   requires tplnsys(0) == 0
//@   requires forall j int :: 0 <= j && j < len(msgs) ==> tplnsys(j+1) == tplnsys(j) + ite(msgs[j].Role == "system", 1, 0)
//@   requires tplgrp(0) == 0
//@   requires forall j int :: 0 <= j && j + 1 < len(msgs) ==> tplgrp(j+1) == tplgrp(j) + ite(msgs[j+1].Role == msgs[j].Role, 0, 1)
//@   requires len(msgs) > 0 ==> tplcat(0) == msgs[0].Content
//@   requires forall j int :: 0 <= j && j + 1 < len(msgs) ==> tplcat(j+1) == ite(msgs[j+1].Role == msgs[j].Role, tplcat(j) + ("\n\n" + msgs[j+1].Content), msgs[j+1].Content)
//@   modifies nothing
//@   ensures len(msgs) == 0 ==> len(result.1) == 0
//@   ensures len(msgs) > 0 ==> len(result.1) == tplgrp(len(msgs) - 1) + 1
//@   ensures forall q int :: 0 <= q && q < len(msgs) ==> 0 <= tplgrp(q) && tplgrp(q) < len(result.1) && result.1[tplgrp(q)].Role == msgs[q].Role
//@   ensures forall q int :: 0 <= q && q < len(msgs) && (q == len(msgs) - 1 || msgs[q+1].Role != msgs[q].Role) ==> result.1[tplgrp(q)].Content == tplcat(q)
//@   loop 1 invariant forall q int :: 0 <= q && q < len(msgs) ==> msgs[q].Role == old(msgs[q].Role) && msgs[q].Content == old(msgs[q].Content)
//@   loop 1 invariant len(system) == tplnsys(rangeindex + 1)
//@   loop 1 invariant forall q int :: 0 <= q && q <= rangeindex && msgs[q].Role == "system" ==> 0 <= tplnsys(q) && tplnsys(q) < len(system) && system[tplnsys(q)] == msgs[q].Content
//@   loop 1 invariant rangeindex == -1 ==> len(collated) == 0
//@   loop 1 invariant rangeindex >= 0 ==> len(collated) == tplgrp(rangeindex) + 1
//@   loop 1 invariant forall q int :: 0 <= q && q <= rangeindex ==> 0 <= tplgrp(q) && tplgrp(q) < len(collated) && collated[tplgrp(q)].Role == msgs[q].Role
//@   loop 1 invariant forall q int :: 0 <= q && q <= rangeindex && (q == rangeindex || msgs[q+1].Role != msgs[q].Role) ==> collated[tplgrp(q)].Content == tplcat(q)
//@   loop 1 invariant (cap(system) == 0 || fresh(system)) && (cap(collated) == 0 || fresh(collated))
//@   loop 1 invariant forall k int :: 0 <= k && k < len(collated) ==> fresh(collated[k])
//@   loop 1 invariant forall k int, l int :: 0 <= k && k < l && l < len(collated) ==> collated[k] != collated[l]
//   (the last collated message, stated without the ghost index: instantiation hints)
//@   loop 1 invariant rangeindex >= 0 ==> len(collated) >= 1 && collated[len(collated) - 1].Role == msgs[rangeindex].Role && collated[len(collated) - 1].Content == tplcat(rangeindex)
//@   loop 1 invariant forall q int :: 0 <= q && q <= rangeindex ==> tplgrp(q) <= tplgrp(rangeindex)
// Go semantics of allocation: the variable msg allocated by this iteration is distinct from every
// pointer created by earlier iterations (the engine bounds loaded pointers by the allocation counter at
// the time of the LOAD, which here comes after the allocation) - listed in the assumptions
//@   assume-at store msg #1 : forall k int :: 0 <= k && k < len(collated) ==> blk(collated[k]) != blk(&msg)
//@   assert-at call Join #1 : arg1 == "\n\n" && len(arg0) == tplnsys(len(msgs)) && forall q int :: 0 <= q && q < len(msgs) && msgs[q].Role == "system" ==> arg0[tplnsys(q)] == msgs[q].Content
//@   assert-at return #1 : result.0 == sjoin(system, "\n\n")
//   consecutive collated messages have different roles (a run of one role is ONE collated message)
//@   loop 1 invariant forall g int :: 0 <= g && g + 1 < len(collated) ==> collated[g].Role != collated[g+1].Role
//@   ensures forall g int :: 0 <= g && g + 1 < len(result.1) ==> result.1[g].Role != result.1[g+1].Role
