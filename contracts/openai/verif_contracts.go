//go:build verif

// Contracts for package openai (C17: the OpenAI-compatible endpoints return the same content as
// the native ones), checked by /verif/govc.
package openai

// Token counts: the native counts, and their sum.
//@ func toUsage
//@   modifies nothing
//@   ensures result.PromptTokens == r.PromptEvalCount && result.CompletionTokens == r.EvalCount
//@   ensures result.TotalTokens == wrapint(r.PromptEvalCount + r.EvalCount)

//@ func toUsageGenerate
//@   modifies nothing
//@   ensures result.PromptTokens == r.PromptEvalCount && result.CompletionTokens == r.EvalCount
//@   ensures result.TotalTokens == wrapint(r.PromptEvalCount + r.EvalCount)

//@ extern func encoding/json.Marshal
//@   modifies nothing
//@ extern func log/slog.Error
//@   modifies nothing
//@ extern func math/rand.Intn
//@   modifies nothing
//@   ensures 0 <= result && result < n

//@ func toolCallId
//@   modifies nothing

// Tool calls: one OpenAI tool call per native tool call, in order, same function name and
// index, type "function" (the arguments are json.Marshal of the native arguments: library, not decided).
//@ func toToolCalls
//@   modifies nothing
//@   ensures len(result) == len(tc)
//@   ensures forall k int :: 0 <= k && k < len(tc) ==> result[k].Type == "function" && result[k].Function.Name == tc[k].Function.Name && result[k].Index == tc[k].Function.Index
//@   loop 1 invariant len(toolCalls) == len(tc)
//@   loop 1 invariant forall k int :: 0 <= k && k <= rangeindex ==> toolCalls[k].Type == "function" && toolCalls[k].Function.Name == tc[k].Function.Name && toolCalls[k].Index == tc[k].Function.Index

// Finish reason of a whole completion: "tool_calls" when the message carries tool calls,
// otherwise the native done reason, absent when that is empty.
//@ func toChatCompletion$1
//@   modifies nothing
//@   ensures len(toolCalls) > 0 ==> result != nil && *result == "tool_calls"
//@   ensures len(toolCalls) == 0 && len(reason) > 0 ==> result != nil && *result == reason
//@   ensures len(toolCalls) == 0 && len(reason) == 0 ==> result == nil

// From the property: the OpenAI chat completion carries the native response's text, role,
// tool calls, finish reason and token counts.
//@ func toChatCompletion
//@   modifies nothing
//@   ensures result.Id == id && result.Object == "chat.completion" && result.Model == r.Model
//@   ensures len(result.Choices) == 1 && result.Choices[0].Index == 0
//@   ensures result.Choices[0].Message.Role == r.Message.Role && tagis(result.Choices[0].Message.Content, "string") && unbox(result.Choices[0].Message.Content, "string") == r.Message.Content
//@   ensures len(result.Choices[0].Message.ToolCalls) == len(r.Message.ToolCalls)
//@   ensures forall k int :: 0 <= k && k < len(r.Message.ToolCalls) ==> result.Choices[0].Message.ToolCalls[k].Function.Name == r.Message.ToolCalls[k].Function.Name && result.Choices[0].Message.ToolCalls[k].Index == r.Message.ToolCalls[k].Function.Index
//@   ensures len(r.Message.ToolCalls) > 0 ==> result.Choices[0].FinishReason != nil && *result.Choices[0].FinishReason == "tool_calls"
//@   ensures len(r.Message.ToolCalls) == 0 && len(r.DoneReason) > 0 ==> result.Choices[0].FinishReason != nil && *result.Choices[0].FinishReason == r.DoneReason
//@   ensures len(r.Message.ToolCalls) == 0 && len(r.DoneReason) == 0 ==> result.Choices[0].FinishReason == nil
//@   ensures result.Usage.PromptTokens == r.PromptEvalCount && result.Usage.CompletionTokens == r.EvalCount && result.Usage.TotalTokens == wrapint(r.PromptEvalCount + r.EvalCount)

// Finish reason of a stream chunk: only the chunk that carries the native done reason has one;
// it is "tool_calls" when a tool call was sent earlier in this stream.
//@ func toChunk$1
//@   modifies nothing
//@   ensures len(reason) == 0 ==> result == nil
//@   ensures len(reason) > 0 && toolCallSent ==> result != nil && *result == finishReasonToolCalls
//@   ensures len(reason) > 0 && !toolCallSent ==> result != nil && *result == reason

// A stream chunk carries the native chunk's text and tool calls unchanged.
//@ func toChunk
//@   modifies nothing
//@   ensures result.Id == id && result.Object == "chat.completion.chunk" && result.Model == r.Model
//@   ensures len(result.Choices) == 1 && result.Choices[0].Index == 0 && result.Usage == nil
//@   ensures result.Choices[0].Delta.Role == "assistant" && tagis(result.Choices[0].Delta.Content, "string") && unbox(result.Choices[0].Delta.Content, "string") == r.Message.Content
//@   ensures len(result.Choices[0].Delta.ToolCalls) == len(r.Message.ToolCalls)
//@   ensures forall k int :: 0 <= k && k < len(r.Message.ToolCalls) ==> result.Choices[0].Delta.ToolCalls[k].Function.Name == r.Message.ToolCalls[k].Function.Name && result.Choices[0].Delta.ToolCalls[k].Index == r.Message.ToolCalls[k].Function.Index
//@   ensures len(r.DoneReason) == 0 ==> result.Choices[0].FinishReason == nil
//@   ensures len(r.DoneReason) > 0 && toolCallSent ==> result.Choices[0].FinishReason != nil && *result.Choices[0].FinishReason == finishReasonToolCalls
//@   ensures len(r.DoneReason) > 0 && !toolCallSent ==> result.Choices[0].FinishReason != nil && *result.Choices[0].FinishReason == r.DoneReason

//@ func toCompletion$1
//@   modifies nothing
//@   ensures len(reason) == 0 ==> result == nil
//@   ensures len(reason) > 0 ==> result != nil && *result == reason

// /v1/completions: the native generate response's text, finish reason and token counts.
//@ func toCompletion
//@   modifies nothing
//@   ensures result.Id == id && result.Object == "text_completion" && result.Model == r.Model
//@   ensures len(result.Choices) == 1 && result.Choices[0].Index == 0 && result.Choices[0].Text == r.Response
//@   ensures len(r.DoneReason) == 0 ==> result.Choices[0].FinishReason == nil
//@   ensures len(r.DoneReason) > 0 ==> result.Choices[0].FinishReason != nil && *result.Choices[0].FinishReason == r.DoneReason
//@   ensures result.Usage.PromptTokens == r.PromptEvalCount && result.Usage.CompletionTokens == r.EvalCount && result.Usage.TotalTokens == wrapint(r.PromptEvalCount + r.EvalCount)

//@ func toCompleteChunk$1
//@   modifies nothing
//@   ensures len(reason) == 0 ==> result == nil
//@   ensures len(reason) > 0 ==> result != nil && *result == reason

//@ func toCompleteChunk
//@   modifies nothing
//@   ensures result.Id == id && result.Object == "text_completion" && result.Model == r.Model && result.Usage == nil
//@   ensures len(result.Choices) == 1 && result.Choices[0].Index == 0 && result.Choices[0].Text == r.Response
//@   ensures len(r.DoneReason) == 0 ==> result.Choices[0].FinishReason == nil
//@   ensures len(r.DoneReason) > 0 ==> result.Choices[0].FinishReason != nil && *result.Choices[0].FinishReason == r.DoneReason

// ---- the SSE / JSON writers ------------------------------------------------------------------
//@ extern func encoding/json.Unmarshal
//@   modifies boxed(v)
//@ extern func encoding/json.NewEncoder
//@   modifies nothing
//@ extern func fmt.Sprintf
//@   modifies nothing
// trusted: gin's response writer and the JSON encoder write to the connection, never to the
// fields of the OpenAI writer wrapped around them
//@ extern func github.com/gin-gonic/gin.(ResponseWriter).Write
//@   modifies nothing
//@ extern func github.com/gin-gonic/gin.(ResponseWriter).Header
//@   modifies nothing
//@ extern func github.com/gin-gonic/gin.(ResponseWriter).Status
//@   modifies nothing
//@ extern func net/http.(Header).Set
//@   modifies nothing
//@ extern func encoding/json.(*Encoder).Encode
//@   modifies nothing

// From the property ("a stream ends with exactly one final message"): in stream mode every native
// chunk becomes one SSE data event built by toChunk from that chunk with the writer's id and its
// tool-call-sent flag; the terminator `data: [DONE]` is written for the chunk that has Done set and
// only for it, once, after the chunk itself (and after the usage event when the client asked for
// usage); the usage event carries the native token counts; the flag stays set once a chunk carried
// tool calls. Without streaming the body is toChatCompletion of the decoded native response.
//@ func (*ChatWriter).writeResponse
//@   ghost-at entry : ghost_ev := 0
//@   ghost-at entry : ghost_done := 0
//@   ghost-at after call Write #1 : ghost_ev := ghost_ev + 1
//@   ghost-at after call Write #3 : ghost_done := ghost_done + 1
//@   assert-at call toChunk #1 : w.stream && arg0 == w.id && arg2 == w.toolCallSent
//@   assert-at call Write #1 : w.stream && ghost_ev == 0
//@   assert-at call Write #2 : w.stream && chatResponse.Done && ghost_ev == 1 && w.streamOptions != nil && w.streamOptions.IncludeUsage
//@   assert-at call Write #2 : c.Usage != nil && c.Usage.PromptTokens == chatResponse.PromptEvalCount && c.Usage.CompletionTokens == chatResponse.EvalCount && len(c.Choices) == 0
//@   assert-at call Write #3 : w.stream && chatResponse.Done && ghost_ev == 1 && ghost_done == 0
//@   assert-at call toChatCompletion #1 : !w.stream && arg0 == w.id && ghost_ev == 0
//@   ensures old(w.toolCallSent) ==> w.toolCallSent

// Same for /v1/completions.
//@ func (*CompleteWriter).writeResponse
//@   ghost-at entry : ghost_ev := 0
//@   ghost-at entry : ghost_done := 0
//@   ghost-at after call Write #1 : ghost_ev := ghost_ev + 1
//@   ghost-at after call Write #3 : ghost_done := ghost_done + 1
//@   assert-at call toCompleteChunk #1 : w.stream && arg0 == w.id
//@   assert-at call Write #1 : w.stream && ghost_ev == 0
//@   assert-at call Write #2 : w.stream && generateResponse.Done && ghost_ev == 1 && w.streamOptions != nil && w.streamOptions.IncludeUsage
//@   assert-at call Write #2 : c.Usage != nil && c.Usage.PromptTokens == generateResponse.PromptEvalCount && c.Usage.CompletionTokens == generateResponse.EvalCount && len(c.Choices) == 0
//@   assert-at call Write #3 : w.stream && generateResponse.Done && ghost_ev == 1 && ghost_done == 0
//@   assert-at call toCompletion #1 : !w.stream && arg0 == w.id && ghost_ev == 0

// A native error status (anything but 200) is answered with the OpenAI error body only; a 200 with the
// translated response only ("exactly one final message or one error").
//@ func (*ChatWriter).Write
//@   assert-at call writeError #1 : code != 200
//@   assert-at call writeResponse #1 : code == 200
//@ func (*CompleteWriter).Write
//@   assert-at call writeError #1 : code != 200
//@   assert-at call writeResponse #1 : code == 200
