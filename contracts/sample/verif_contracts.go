//go:build verif

// Contracts for package sample (C18: order/bounds skeleton of the sampler), checked by /verif/govc.
// float32 arithmetic is uninterpreted in govc: nothing below depends on numeric facts
// except the two order axioms on `<`, which hold for IEEE-754 comparison (NaN included:
// every comparison with NaN is false).
package sample

//@ axiom forall a float32 :: !(a < a)
//@ axiom forall a float32, b float32, c float32 :: a < b && b < c ==> a < c
// `<=`, `==` and the literals 0 and 1 (needed for NewSampler's clamps; `<=` / `>=` are a separate
// uninterpreted relation in govc): IEEE-754 facts, NaN included (every comparison with NaN is false)
//@ axiom 0.0 < 1.0
//@ axiom forall a float32, b float32 :: a <= b ==> !(b < a)
//@ axiom forall a float32, b float32 :: a < b ==> a <= b
//@ axiom forall a float32, b float32 :: a == b ==> !(a < b) && !(b < a)
// fsame(a, b): a and b are the same point of the order (compare alike against every x). Used instead of
// `==`, which is the uninterpreted feq (not reflexive: NaN != NaN)
//@ spec func fsame(a float32, b float32) bool = forall x float32 :: ((a < x) <==> (b < x)) && ((x < a) <==> (x < b))

// ---- trusted library contracts used by this package ----
// sorting permutes: every element afterwards is one of the elements before
//@ extern func slices.SortFunc
//@   modifies x[all]
//@   ensures forall k int :: 0 <= k && k < len(x) ==> exists j int :: 0 <= j && j < len(x) && x[k] == old(x[j])
// ... and it sorts by the comparator. The only SortFunc call of the package is topK's, whose comparator topK$1 is
// verified to order by DESCENDING value; it is a strict weak order when no value is NaN (feq is reflexive
// exactly on non-NaN values)
//@   ensures (forall j int :: 0 <= j && j < len(x) ==> old(x[j].value) == old(x[j].value)) ==> forall i int, j int :: 0 <= i && i < j && j < len(x) ==> !(x[i].value < x[j].value)
// binary search returns an insertion position 0..len (the comparison closure sample$1 writes nothing)
//@ extern func slices.BinarySearchFunc
//@   modifies nothing
//@   ensures 0 <= result.0 && result.0 <= len(x)
//@ extern func llama.(*Sampler).Apply
//@   modifies tokens[all]

// greedy: an element of tokens that no element exceeds
//@ func greedy
//@   requires len(tokens) >= 1
//@   modifies nothing
//@   ensures exists k int :: 0 <= k && k < len(tokens) && result == tokens[k]
//@   ensures forall k int :: 0 <= k && k < len(tokens) ==> !(tokens[k].value > result.value)
//@   loop 1 invariant 1 <= i && exists k int :: 0 <= k && k < i && k < len(tokens) && max == tokens[k]
//@   loop 1 invariant forall k int :: 0 <= k && k < i && k < len(tokens) ==> !(tokens[k].value > max.value)

//@ extern func errors.New
//@   modifies nothing
//@   ensures result != nil
//@ extern func math/rand/v2.New
//@   modifies nothing
//@   ensures result != nil
// generator calls: they write generator state only (the Rand and the Source behind it), no token memory
//@ extern func math/rand/v2.(*Rand).Float32
//@   modifies *r
//@ extern func math/rand/v2.Float32
//@   modifies nothing
//@ extern func math.IsNaN
//@   pure
//@ extern func math.IsInf
//@   pure
//@ extern func math.Inf
//@   pure reads none
//@ axiom float32(math.Inf(-1)) < float32(math.Inf(1))
// container/heap on a *tokenHeap: the frame names the boxed slice header; the elements of
// that slice are permuted too, which no designator can express - no clause below reads them.
// What the calls do to the length is stated at the call sites in topK (assume-at).
//@ extern func container/heap.Init
//@   modifies boxed(h)
//@ extern func container/heap.Pop
//@   modifies boxed(h)
//@ extern func container/heap.Push
//@   modifies boxed(h)

// ghost_vocab: the vocabulary size (len(logits)) of the running Sample call; every token id
// in every slice handed between the transforms lies in [0, ghost_vocab).

//@ func (*Sampler).Sample
//@   requires len(logits) <= 2147483647
// the sampler was built by NewSampler (its proved postcondition): min-p is not above 1 (NaN allowed)
//@   requires !(s.minP > 1.0)
//@   ensures len(logits) == 0 ==> result.0 == -1 && result.1 != nil
//@   ensures result.1 != nil ==> result.0 == -1
//@   ensures result.1 == nil ==> 0 <= result.0 && result.0 < len(logits)
//@   ensures s.temperature == 0.0 && s.grammar == nil && result.1 == nil ==> forall k int :: 0 <= k && k < len(logits) ==> !(logits[k] > logits[result.0])
//@   ghost-at entry : ghost_vocab := len(logits)
//@   loop 1 invariant forall k int :: 0 <= k && k <= rangeindex ==> tokens[k].id == k
// tokens[k].value is a copy of logits[k]: `==` on floats is the uninterpreted feq (NaN != NaN), so the
// copy is stated observationally: both compare alike against every x
//@   loop 1 invariant forall k int :: 0 <= k && k <= rangeindex ==> forall x float32 :: ((tokens[k].value < x) <==> (logits[k] < x)) && ((x < tokens[k].value) <==> (x < logits[k]))
//@   loop 2 invariant forall k int :: 0 <= k && k <= rangeindex ==> tokens[k].id == k
// the id returned is the id of the token sample chose (the one whose membership in the filter sets sample's
// contract is about): the first draw without a grammar or when the grammar accepts it, the second draw otherwise
//@   ghost-at entry : ghost_t1 := -1
//@   ghost-at entry : ghost_t2 := -1
//@   ghost-at entry : ghost_inf := -1
//@   ghost-at after call (*Sampler).sample #1 : ghost_t1 := result.0.id
//@   ghost-at after call (*Sampler).sample #2 : ghost_t2 := result.0.id
//@   ghost-at after call math.IsInf : ghost_inf := ite(result, 1, 0)
//@   assert-at call math.IsInf #1 : arg1 == -1
// (return sites are numbered in the engine's block order: #4 is `return top[0].id, nil`, #3 the second `return -1, err`)
//@   assert-at return #4 : ghost_inf == 0 && result.0 == ghost_t1
//@   assert-at return #5 : (s.grammar == nil ==> result.0 == ghost_t1) && (s.grammar != nil ==> result.0 == ghost_t2)
// every draw is over the whole vocabulary; before the second draw (the grammar rejected the first token, its
// masked logit is -Inf) the list that the first draw sorted / overwrote is rebuilt from the logits, then masked
//@   assert-at call (*Sampler).sample #1 : len(arg1) == len(logits)
//@   loop 2 invariant forall k int :: 0 <= k && k <= rangeindex ==> forall x float32 :: ((tokens[k].value < x) <==> (logits[k] < x)) && ((x < tokens[k].value) <==> (x < logits[k]))
//@   assert-at call (*Grammar).Apply #2 : ghost_inf == 1 && len(arg1) == len(logits) && forall k int :: 0 <= k && k < len(logits) ==> arg1[k].id == k && forall x float32 :: ((arg1[k].value < x) <==> (logits[k] < x)) && ((x < arg1[k].value) <==> (x < logits[k]))
//@   ghost-at entry : ghost_applied := 0
//@   ghost-at after call (*Grammar).Apply #2 : ghost_applied := 1
//@   assert-at call (*Sampler).sample #2 : len(arg1) == len(logits) && ghost_applied == 1
// sampling does not change the sampler: the next call uses the same parameters and the same generator
//@   ensures s.rng == old(s.rng) && s.topK == old(s.topK) && s.grammar == old(s.grammar) && fsame(s.temperature, old(s.temperature)) && fsame(s.topP, old(s.topP)) && fsame(s.minP, old(s.minP))
// extension round. "Sampling ALWAYS returns a token": the only error Sample raises itself is the one for an empty
// logit vector (a length-1 vector is sampled like any other); every other error is sample's (the NaN guard);
// at temperature zero without a grammar there is no error path at all for a non-empty vector
//@   assert-at return #1 : len(logits) == 0
//@   ghost-at entry : ghost_e1 := 0
//@   ghost-at entry : ghost_e2 := 0
//@   ghost-at after call (*Sampler).sample #1 : ghost_e1 := ite(result.1 != nil, 1, 0)
//@   ghost-at after call (*Sampler).sample #2 : ghost_e2 := ite(result.1 != nil, 1, 0)
//@   assert-at return #2 : ghost_e1 == 1
//@   assert-at return #3 : ghost_e2 == 1
//@   ensures s.temperature == 0.0 && len(logits) >= 1 ==> result.1 == nil
// the grammar is advanced by exactly the token that is returned (a later draw is constrained by what was emitted)
// (call sites are numbered in the engine's block order: #2 is the Accept of the first draw, #1 the one after the second)
//@   assert-at call (*Grammar).Accept #2 : arg1 == ghost_t1 && ghost_inf == 0
//@   assert-at call (*Grammar).Accept #1 : arg1 == ghost_t2

//@ func (*Grammar).Apply
//@   modifies tokens[all]
//@   ensures forall k int :: 0 <= k && k < len(tokens) ==> tokens[k].id == old(tokens[k].id)
//@   loop 2 invariant forall k int :: 0 <= k && k < len(tokens) ==> tokens[k].id == old(tokens[k].id)
// the grammar judges the tokens it is given: candidate k goes to llama.cpp with its own id and logit, and the
// masked logit that comes back for candidate k is stored in token k (Sample's -Inf test reads it)
//@   loop 1 invariant forall k int :: 0 <= k && k <= rangeindex ==> tds[k].Id == tokens[k].id && fsame(tds[k].Logit, tokens[k].value)
//@   assert-at call (*Sampler).Apply #1 : len(arg1) == len(tokens) && forall k int :: 0 <= k && k < len(tokens) ==> arg1[k].Id == tokens[k].id && fsame(arg1[k].Logit, tokens[k].value)
//@   loop 2 invariant forall k int :: 0 <= k && k <= rangeindex ==> fsame(tokens[k].value, tds[k].Logit)
//@   assert-at return #1 : forall k int :: 0 <= k && k < len(tokens) ==> fsame(tokens[k].value, tds[k].Logit)

//@ func (*Sampler).sample
//@   requires len(tokens) >= 1
//@   requires !(s.minP > 1.0)
//@   requires forall k int :: 0 <= k && k < len(tokens) ==> 0 <= tokens[k].id && tokens[k].id < ghost_vocab
//@   modifies tokens[all], *s.rng
//@   ensures result.1 == nil ==> 0 <= result.0.id && result.0.id < ghost_vocab
//@   ensures s.temperature == 0.0 && result.1 == nil ==> (exists k int :: 0 <= k && k < len(tokens) && result.0 == old(tokens[k])) && forall k int :: 0 <= k && k < len(tokens) ==> !(old(tokens[k].value) > result.0.value)
//@   assert-at call greedy #1 : s.temperature == 0.0
//@   assert-at call topK #1 : !(s.temperature == 0.0)
//@   assert-at return #1 : (exists k int :: 0 <= k && k < len(tokens) && result.0 == tokens[k]) && forall k int :: 0 <= k && k < len(tokens) ==> !(tokens[k].value > result.0.value)
//@   assert-at call (*Rand).Float32 #1 : s.rng != nil && arg0 == s.rng
//@   assert-at call v2.Float32 #1 : s.rng == nil
//@   loop 1 invariant forall k int :: 0 <= k && k < len(tokens) ==> 0 <= tokens[k].id && tokens[k].id < ghost_vocab
// "the returned token belongs to the set those filters define": top-p and min-p are defined on the
// tokens in DESCENDING order (top-p cuts a prefix of the cumulative mass, min-p takes ts[0] as the
// maximum and cuts at the first token below the threshold). The order comes from topK's sort, which
// therefore runs before either filter whatever the parameters are (temperature and softmax are
// monotone and keep it; that is not proved). Added after seeded change C18-seed2.
//@   ghost-at entry : ghost_sorted := 0
//@   ghost-at after call topK : ghost_sorted := 1
//@   assert-at call topP : ghost_sorted == 1
//@   assert-at call minP : ghost_sorted == 1
// the pipeline runs in the order the filters are defined in: top-k (sort), temperature, softmax (logits become
// probabilities: top-p and min-p are thresholds on probabilities), top-p, min-p, then the draw over what min-p left.
// Each step runs exactly once, on the list the previous step produced (lengths recorded from the call results),
// with the sampler's own parameter
//@   ghost-at entry : ghost_stage := 0
//@   ghost-at after call topK : ghost_stage := ite(ghost_stage == 0, 1, -1)
//@   ghost-at after call topK : ghost_nk := len(result)
//@   assert-at call topK #1 : ghost_stage == 0 && arg0 == tokens && arg1 == s.topK
// (the order and the lengths seen at temperature / softmax are recorded there and checked at the topP call, after
// the older sort-before-filter assertion, so that a skipped topK is still reported under that assertion's name)
//@   ghost-at call temperature : ghost_lt := len(arg0)
//@   assert-at call temperature #1 : fsame(arg1, s.temperature)
//@   ghost-at after call temperature : ghost_stage := ite(ghost_stage == 1, 2, -1)
//@   assert-at call softmax #1 : len(arg0) == ghost_lt
//@   ghost-at after call softmax : ghost_stage := ite(ghost_stage == 2, 3, -1)
//@   assert-at call topP #1 : ghost_stage == 3 && ghost_lt == ghost_nk && len(arg0) == ghost_nk && fsame(arg1, s.topP)
//@   ghost-at after call topP : ghost_stage := 4
//@   ghost-at after call topP : ghost_np := len(result)
//@   assert-at call minP #1 : ghost_stage == 4 && len(arg0) == ghost_np && fsame(arg1, s.minP)
//@   ghost-at after call minP : ghost_stage := 5
//@   ghost-at after call minP : ghost_nm := len(result)
// the cumulative sums are built over exactly the tokens min-p left, each cell receives the running sum
//@   loop 1 invariant ghost_stage == 5 && len(tokens) == ghost_nm
//@   loop 1 invariant rangeindex >= 0 ==> fsame(tokens[rangeindex].value, sum)
// the search runs over that same list and the token returned is the one at the position it found; the NaN guard
// decides between the error and the token (no token is returned for a NaN total)
//@   assert-at call BinarySearchFunc #1 : ghost_stage == 5 && len(arg0) == ghost_nm && arg0 == tokens
//@   ghost-at after call BinarySearchFunc : ghost_idx := result.0
//@   ghost-at after call math.IsNaN : ghost_nan := ite(result, 1, 0)
//@   assert-at return #2 : ghost_nan == 1
//@   assert-at return #3 : ghost_nan == 0 && len(tokens) == ghost_nm && 0 <= ghost_idx && (ghost_idx < ghost_nm ==> result.0 == tokens[ghost_idx]) && result.1 == nil
// reproducibility: no draw from the process-wide generator, at any site, when the sampler is seeded
//@   assert-at call v2.Float32 : s.rng == nil
// extension round. The greedy path cannot fail; the only error of the sampling path is the NaN guard's
//@   ensures s.temperature == 0.0 ==> result.1 == nil
// "top-k keeps exactly min(k, n) tokens" as seen by the pipeline: the list handed to temperature / softmax has
// s.topK entries when 0 < s.topK < n and all n otherwise
//@   ghost-at entry : ghost_n0 := len(tokens)
//@   assert-at call temperature #1 : (0 < s.topK && s.topK < ghost_n0 ==> len(arg0) == s.topK) && (s.topK <= 0 || s.topK >= ghost_n0 ==> len(arg0) == ghost_n0)
// the NaN guard inspects the total of the cumulative sums (the value of the last cell, see loop 1)
//@   assert-at call math.IsNaN #1 : fsame(arg0, float64(sum))

//@ func topK
//@   requires len(ts) >= 1
//@   requires forall j int :: 0 <= j && j < len(ts) ==> 0 <= ts[j].id && ts[j].id < ghost_vocab
//@   modifies ts[all]
//@   ensures 1 <= len(result) && len(result) <= len(ts)
//@   ensures result == ts || fresh(result)
//@   ensures forall j int :: 0 <= j && j < len(result) ==> 0 <= result[j].id && result[j].id < ghost_vocab
//@   ghost-at call heap.Init : ghost_hl := len(h)
//@   assume-at after call heap.Init : len(h) == ghost_hl
//@   ghost-at call heap.Pop : ghost_hl := len(h)
//@   assert-at call heap.Pop : len(h) >= 1
//@   assume-at after call heap.Pop : len(h) == ghost_hl - 1 && tagis(result, "token")
//@   ghost-at call heap.Push : ghost_hl := len(h)
//@   assume-at after call heap.Push : len(h) == ghost_hl + 1
//@   loop 1 invariant k <= i && len(h) == k && 1 <= k && k < len(ts)
//@   loop 2 invariant -1 <= i && i < k && len(h) == i + 1 && len(result) == k && 1 <= k && k < len(ts)
// the top-k set: top-k disabled (k <= 0) or not smaller than the list: the whole list, sorted in place;
// otherwise exactly k tokens survive (in a fresh slice)
//@   ensures k <= 0 || k >= len(ts) ==> result == ts
//@   ensures 0 < k && k < len(ts) ==> len(result) == k && fresh(result)
// the sort branch leaves the list in DESCENDING order of value (what top-p's cumulative cut and min-p's
// "ts[0] is the maximum" rely on), provided no value is NaN (with NaN the comparator is not a strict weak
// order and the library promises nothing). Rests on the trusted contract of slices.SortFunc below and on
// the verified contract of the comparator topK$1
//@   ensures (k <= 0 || k >= len(ts)) && (forall j int :: 0 <= j && j < len(ts) ==> old(ts[j].value) == old(ts[j].value)) ==> forall i int, j int :: 0 <= i && i < j && j < len(result) ==> !(result[i].value < result[j].value)
// the heap keeps the k LARGEST values seen: h[0] is the smallest kept value (min-heap, (tokenHeap).Less) and
// it is evicted only for a strictly larger one
//@   assert-at call heap.Pop #1 : ts[i].value > h[0].value
// extension round. The heap is seeded with exactly the first k tokens (cell m holds token m; ids identify the cells, copy moves whole tokens): together with the
// scan starting at k no token is left out or entered twice
// (stated for the first and the last cell, quantifier-free: a shifted or shortened copy moves both)
//@   assert-at call heap.Init #1 : len(h) == k && h[0].id == ts[0].id && h[k-1].id == ts[k-1].id
// the scan over the remaining tokens starts right after the k tokens the heap was seeded with, advances one token
// at a time (ghost_it = iterations of the scan loop so far) and runs to the end of the list
//@   ghost-at after call heap.Init : ghost_it := 0
//@   ghost-at call len #2 : ghost_it := ghost_it + 1
//@   loop 1 invariant ghost_it == i - k
//@   assert-at call len #3 : i >= len(ts)
// every kept token was moved to the result: the heap is empty when the result is returned
//@   assert-at return #2 : len(h) == 0 && i == -1

// comparator of the sort: descending by value (1 = a after b)
//@ func topK$1
//@   ensures a.value < b.value ==> result == 1
//@   ensures !(a.value < b.value) && a.value > b.value ==> result == -1
//@   ensures !(a.value < b.value) && !(a.value > b.value) ==> result == 0

// comparator of the binary search over the cumulative sums: -1 (keep right) exactly for sums below the target,
// so the position found is the first token whose cumulative sum reaches the target
//@ func (*Sampler).sample$1
//@   ensures token.value < target ==> result == -1
//@   ensures !(token.value < target) ==> result == 1

//@ func temperature
//@   modifies ts[all]
//@   ensures forall k int :: 0 <= k && k < len(ts) ==> ts[k].id == old(ts[k].id)
//@   loop 1 invariant forall k int :: 0 <= k && k < len(ts) ==> ts[k].id == old(ts[k].id)
// extension round. The divisor is clipped from BELOW at 1e-7 (a zero or tiny temperature must not divide by ~0);
// the infinity test that guards the finite-clamp looks at the logit itself, either sign
//@   assert-at call math.IsInf #1 : !(temp < 0.00000010000000116860974) && arg1 == 0
// added after seeded change C18-seed4 (scaling done in place before the guard): "a finite logit stays finite" is a test on
// the ORIGINAL logit of the iteration. Cells not yet visited still hold their entry value; when the infinity test runs,
// cell i has not been written yet and the value tested is the one in that cell (so: the original logit, not the quotient)
//@   loop 1 invariant forall k int :: rangeindex < k && k < len(ts) ==> fsame(ts[k].value, old(ts[k].value))
//@   assert-at call math.IsInf #1 : fsame(ts[i].value, old(ts[i].value)) && fsame(arg0, float64(ts[i].value))

//@ func softmax
//@   modifies ts[all]
//@   ensures forall k int :: 0 <= k && k < len(ts) ==> ts[k].id == old(ts[k].id)
//@   loop 2 invariant forall k int :: 0 <= k && k < len(ts) ==> ts[k].id == old(ts[k].id)
//@   loop 3 invariant forall k int :: 0 <= k && k < len(ts) ==> ts[k].id == old(ts[k].id)
// "huge magnitudes": exp is taken of value - maxLogit, which must not be positive for any token (else exp
// overflows to +Inf and Inf/Inf = NaN makes every draw fail): when the exponentials are computed, maxLogit is
// not exceeded by any value still to be processed (the subtraction itself cannot be written in a contract)
//@   loop 1 invariant forall k int :: 0 <= k && k <= rangeindex ==> !(ts[k].value > maxLogit)
//@   loop 2 invariant forall k int :: rangeindex < k && k < len(ts) ==> !(ts[k].value > maxLogit)
// extension round. maxLogit is not merely an upper bound: it is the -Inf it starts from or the value of a token seen
// (an upper bound that is too high, e.g. a +Inf start, makes every exponential 0 and the sum 0: 0/0 = NaN, every draw fails)
//@   loop 1 invariant fsame(maxLogit, float32(math.Inf(-1))) || exists k int :: 0 <= k && k <= rangeindex && fsame(maxLogit, ts[k].value)

// topP / minP return a prefix of their argument (same backing array)
//@ func topP
//@   requires len(ts) >= 1
//@   modifies nothing
//@   ensures 1 <= len(result) && len(result) <= len(ts)
//@   ensures forall k int :: 0 <= k && k < len(result) ==> &result[k] == &ts[k]
// the top-p set: the SHORTEST prefix whose cumulative probability exceeds p (everything when p == 1 or no
// prefix exceeds p). `sum` is the running cumulative sum (float addition cannot be written in a contract):
// at every loop head the prefix seen so far has NOT exceeded p, the cut happens right after the element
// that makes it exceed p, and that element is kept
//@   ensures p == 1.0 ==> len(result) == len(ts)
//@   loop 1 invariant rangeindex >= 0 ==> !(sum > p)
//@   assert-at return #2 : sum > p && len(result) == i + 1
//@   assert-at return #3 : len(result) == len(ts) && (len(ts) >= 1 ==> !(sum > p))

// minP keeps ts[0] only if its threshold ts[0].value*p is not above ts[0].value: p must not exceed 1
// (the caller's obligation; with p > 1 the result is empty and sample's tokens[len(tokens)-1] faults)
//@ func minP
//@   requires len(ts) >= 1
//@   requires !(p > 1.0)
//@   modifies nothing
//@   ensures len(result) <= len(ts)
//@   ensures forall k int :: 0 <= k && k < len(result) ==> &result[k] == &ts[k]
// the min-p set: the longest prefix none of whose tokens is below the threshold (threshold = ts[0].value * p;
// the product cannot be written in a contract, so the clauses name the local): the maximum is taken from
// ts[0] (the list is sorted descending), every kept token is not below the threshold, the first token cut is
//@   loop 1 invariant forall k int :: 0 <= k && k <= rangeindex ==> !(ts[k].value < threshold)
//@   assert-at return #1 : fsame(maxProb, ts[0].value) && len(result) == i && ts[i].value < threshold && forall k int :: 0 <= k && k < len(result) ==> !(ts[k].value < threshold)
//@   assert-at return #2 : fsame(maxProb, ts[0].value) && len(result) == len(ts) && forall k int :: 0 <= k && k < len(ts) ==> !(ts[k].value < threshold)
//@   ensures exists th float32 :: (forall k int :: 0 <= k && k < len(result) ==> !(ts[k].value < th)) && (len(result) < len(ts) ==> ts[len(result)].value < th)

//@ func NewSampler
//@   ensures seed != -1 ==> result.rng != nil
//@   ensures seed == -1 ==> result.rng == nil
//@   ensures result.topK == topK && result.grammar == grammar
// parameter ranges the transforms rely on (a NaN parameter stays NaN: every comparison false).
// min-p above 1 would put minP's threshold above the top probability: empty candidate list,
// tokens[len(tokens)-1] in sample faults. These are the facts Sample / sample / minP require.
//@   ensures !(result.minP < 0.0) && !(result.minP > 1.0)
//@   ensures !(result.topP < 0.0) && !(result.topP > 1.0)
//@   ensures !(result.temperature < 0.0)
// the clamps are exact: a value inside the range is stored unchanged (the filters applied are the
// ones asked for), a value outside becomes the nearest bound
//@   ensures !(minP < 0.0) && !(minP >= 1.0) ==> fsame(result.minP, minP)
//@   ensures minP < 0.0 ==> fsame(result.minP, 0.0)
//@   ensures minP >= 1.0 ==> fsame(result.minP, 1.0)
//@   ensures !(topP < 0.0) && !(topP >= 1.0) ==> fsame(result.topP, topP)
//@   ensures topP < 0.0 ==> fsame(result.topP, 0.0)
//@   ensures topP >= 1.0 ==> fsame(result.topP, 1.0)
//@   ensures !(temperature < 0.0) ==> fsame(result.temperature, temperature)
//@   ensures temperature < 0.0 ==> fsame(result.temperature, 0.0)
// temperature zero selects the greedy path of sample (which tests s.temperature == 0)
//@   ensures temperature == 0.0 ==> result.temperature == 0.0
// "with a fixed seed the sequence is reproducible": the generator's state is a function of the seed alone
// (sequence = uint64(seed), two's complement for negative seeds; stream derived from it)
//@   assert-at call NewPCG #1 : arg0 == ite(seed >= 0, seed, seed + 18446744073709551616)

// heap.Interface methods: container/heap calls them with indices inside the heap
//@ func (tokenHeap).Len
//@   ensures result == len(h)
//@ func (tokenHeap).Less
//@   requires 0 <= i && i < len(h) && 0 <= j && j < len(h)
// a MIN-heap on value: container/heap keeps a Less-minimal element at index 0, so topK's h[0] is the smallest
// of the k kept values (a max-heap would keep the k smallest tokens)
//@   ensures result <==> h[i].value < h[j].value
//@ func (tokenHeap).Swap
//@   requires 0 <= i && i < len(h) && 0 <= j && j < len(h)
// exchanges the two tokens (id and value together) and nothing else
//@   ensures h[i] == old(h[j]) && h[j] == old(h[i])
//@   ensures forall k int :: 0 <= k && k < len(h) && k != i && k != j ==> h[k] == old(h[k])
//@ func (*tokenHeap).Push
//@   requires tagis(x, "token")
//@   ensures len(*h) == old(len(*h)) + 1
// appends: the tokens already in the heap stay where they are
//@   ensures forall k int :: 0 <= k && k < old(len(*h)) ==> (*h)[k] == old((*h)[k])
//@ func (*tokenHeap).Pop
//@   requires len(*h) >= 1
//@   ensures len(*h) == old(len(*h)) - 1 && tagis(result, "token")
// removes the LAST token (container/heap has moved the minimum there); the others stay
//@   ensures forall k int :: 0 <= k && k < len(*h) ==> (*h)[k] == old((*h)[k])

// extension round: the grammar sampler is advanced with the token Sample hands over
//@ func (*Grammar).Accept
//@   assert-at call (*Sampler).Accept #1 : arg1 == token
