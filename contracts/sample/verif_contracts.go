//go:build verif

// Contracts for package sample (C18: order/bounds skeleton of the sampler), checked by /verif/govc.
// float32 arithmetic is uninterpreted in govc: nothing below depends on numeric facts
// except the two order axioms on `<`, which hold for IEEE-754 comparison (NaN included:
// every comparison with NaN is false).
package sample

//@ axiom forall a float32 :: !(a < a)
//@ axiom forall a float32, b float32, c float32 :: a < b && b < c ==> a < c
// `<=`, `==` and the literals 0 and 1 (needed for NewSampler's clamps; `<=` / `>=` are a separate
// uninterpreted relation in govc): IEEE-754 facts, NaN included (every comparison with NaN is false)
//@ axiom 0.0 < 1.0
//@ axiom forall a float32, b float32 :: a <= b ==> !(b < a)
//@ axiom forall a float32, b float32 :: a < b ==> a <= b
//@ axiom forall a float32, b float32 :: a == b ==> !(a < b) && !(b < a)
// fsame(a, b): a and b are the same point of the order (compare alike against every x). Used instead of
// `==`, which is the uninterpreted feq (not reflexive: NaN != NaN)
//@ spec func fsame(a float32, b float32) bool = forall x float32 :: ((a < x) <==> (b < x)) && ((x < a) <==> (x < b))

// ---- trusted library contracts used by this package ----
// sorting permutes: every element afterwards is one of the elements before
//@ extern func slices.SortFunc
//@   modifies x[all]
//@   ensures forall k int :: 0 <= k && k < len(x) ==> exists j int :: 0 <= j && j < len(x) && x[k] == old(x[j])
// binary search returns an insertion position 0..len (the comparison closure sample$1 writes nothing)
//@ extern func slices.BinarySearchFunc
//@   modifies nothing
//@   ensures 0 <= result.0 && result.0 <= len(x)
//@ extern func llama.(*Sampler).Apply
//@   modifies tokens[all]

// greedy: an element of tokens that no element exceeds
//@ func greedy
//@   requires len(tokens) >= 1
//@   modifies nothing
//@   ensures exists k int :: 0 <= k && k < len(tokens) && result == tokens[k]
//@   ensures forall k int :: 0 <= k && k < len(tokens) ==> !(tokens[k].value > result.value)
//@   loop 1 invariant 1 <= i && exists k int :: 0 <= k && k < i && k < len(tokens) && max == tokens[k]
//@   loop 1 invariant forall k int :: 0 <= k && k < i && k < len(tokens) ==> !(tokens[k].value > max.value)

//@ extern func errors.New
//@   modifies nothing
//@   ensures result != nil
//@ extern func math/rand/v2.New
//@   modifies nothing
//@   ensures result != nil
// generator calls: they write generator state only (the Rand and the Source behind it), no token memory
//@ extern func math/rand/v2.(*Rand).Float32
//@   modifies *r
//@ extern func math/rand/v2.Float32
//@   modifies nothing
//@ extern func math.IsNaN
//@   pure
//@ extern func math.IsInf
//@   pure
// container/heap on a *tokenHeap: the frame names the boxed slice header; the elements of
// that slice are permuted too, which no designator can express - no clause below reads them.
// What the calls do to the length is stated at the call sites in topK (assume-at).
//@ extern func container/heap.Init
//@   modifies boxed(h)
//@ extern func container/heap.Pop
//@   modifies boxed(h)
//@ extern func container/heap.Push
//@   modifies boxed(h)

// ghost_vocab: the vocabulary size (len(logits)) of the running Sample call; every token id
// in every slice handed between the transforms lies in [0, ghost_vocab).

//@ func (*Sampler).Sample
//@   requires len(logits) <= 2147483647
// the sampler was built by NewSampler (its proved postcondition): min-p is not above 1 (NaN allowed)
//@   requires !(s.minP > 1.0)
//@   ensures len(logits) == 0 ==> result.0 == -1 && result.1 != nil
//@   ensures result.1 != nil ==> result.0 == -1
//@   ensures result.1 == nil ==> 0 <= result.0 && result.0 < len(logits)
//@   ensures s.temperature == 0.0 && s.grammar == nil && result.1 == nil ==> forall k int :: 0 <= k && k < len(logits) ==> !(logits[k] > logits[result.0])
//@   ghost-at entry : ghost_vocab := len(logits)
//@   loop 1 invariant forall k int :: 0 <= k && k <= rangeindex ==> tokens[k].id == k
// tokens[k].value is a copy of logits[k]: `==` on floats is the uninterpreted feq (NaN != NaN), so the
// copy is stated observationally: both compare alike against every x
//@   loop 1 invariant forall k int :: 0 <= k && k <= rangeindex ==> forall x float32 :: ((tokens[k].value < x) <==> (logits[k] < x)) && ((x < tokens[k].value) <==> (x < logits[k]))
//@   loop 2 invariant forall k int :: 0 <= k && k <= rangeindex ==> tokens[k].id == k

//@ func (*Grammar).Apply
//@   modifies tokens[all]
//@   ensures forall k int :: 0 <= k && k < len(tokens) ==> tokens[k].id == old(tokens[k].id)
//@   loop 2 invariant forall k int :: 0 <= k && k < len(tokens) ==> tokens[k].id == old(tokens[k].id)

//@ func (*Sampler).sample
//@   requires len(tokens) >= 1
//@   requires !(s.minP > 1.0)
//@   requires forall k int :: 0 <= k && k < len(tokens) ==> 0 <= tokens[k].id && tokens[k].id < ghost_vocab
//@   modifies tokens[all], *s.rng
//@   ensures result.1 == nil ==> 0 <= result.0.id && result.0.id < ghost_vocab
//@   ensures s.temperature == 0.0 && result.1 == nil ==> (exists k int :: 0 <= k && k < len(tokens) && result.0 == old(tokens[k])) && forall k int :: 0 <= k && k < len(tokens) ==> !(old(tokens[k].value) > result.0.value)
//@   assert-at call greedy #1 : s.temperature == 0.0
//@   assert-at call topK #1 : !(s.temperature == 0.0)
//@   assert-at return #1 : (exists k int :: 0 <= k && k < len(tokens) && result.0 == tokens[k]) && forall k int :: 0 <= k && k < len(tokens) ==> !(tokens[k].value > result.0.value)
//@   assert-at call (*Rand).Float32 #1 : s.rng != nil && arg0 == s.rng
//@   assert-at call v2.Float32 #1 : s.rng == nil
//@   loop 1 invariant forall k int :: 0 <= k && k < len(tokens) ==> 0 <= tokens[k].id && tokens[k].id < ghost_vocab
// "the returned token belongs to the set those filters define": top-p and min-p are defined on the
// tokens in DESCENDING order (top-p cuts a prefix of the cumulative mass, min-p takes ts[0] as the
// maximum and cuts at the first token below the threshold). The order comes from topK's sort, which
// therefore runs before either filter whatever the parameters are (temperature and softmax are
// monotone and keep it; that is not proved). Added after seeded change C18-seed2.
//@   ghost-at entry : ghost_sorted := 0
//@   ghost-at after call topK : ghost_sorted := 1
//@   assert-at call topP : ghost_sorted == 1
//@   assert-at call minP : ghost_sorted == 1

//@ func topK
//@   requires len(ts) >= 1
//@   requires forall j int :: 0 <= j && j < len(ts) ==> 0 <= ts[j].id && ts[j].id < ghost_vocab
//@   modifies ts[all]
//@   ensures 1 <= len(result) && len(result) <= len(ts)
//@   ensures result == ts || fresh(result)
//@   ensures forall j int :: 0 <= j && j < len(result) ==> 0 <= result[j].id && result[j].id < ghost_vocab
//@   ghost-at call heap.Init : ghost_hl := len(h)
//@   assume-at after call heap.Init : len(h) == ghost_hl
//@   ghost-at call heap.Pop : ghost_hl := len(h)
//@   assert-at call heap.Pop : len(h) >= 1
//@   assume-at after call heap.Pop : len(h) == ghost_hl - 1 && tagis(result, "token")
//@   ghost-at call heap.Push : ghost_hl := len(h)
//@   assume-at after call heap.Push : len(h) == ghost_hl + 1
//@   loop 1 invariant k <= i && len(h) == k && 1 <= k && k < len(ts)
//@   loop 2 invariant -1 <= i && i < k && len(h) == i + 1 && len(result) == k && 1 <= k && k < len(ts)

//@ func temperature
//@   modifies ts[all]
//@   ensures forall k int :: 0 <= k && k < len(ts) ==> ts[k].id == old(ts[k].id)
//@   loop 1 invariant forall k int :: 0 <= k && k < len(ts) ==> ts[k].id == old(ts[k].id)

//@ func softmax
//@   modifies ts[all]
//@   ensures forall k int :: 0 <= k && k < len(ts) ==> ts[k].id == old(ts[k].id)
//@   loop 2 invariant forall k int :: 0 <= k && k < len(ts) ==> ts[k].id == old(ts[k].id)
//@   loop 3 invariant forall k int :: 0 <= k && k < len(ts) ==> ts[k].id == old(ts[k].id)

// topP / minP return a prefix of their argument (same backing array)
//@ func topP
//@   requires len(ts) >= 1
//@   modifies nothing
//@   ensures 1 <= len(result) && len(result) <= len(ts)
//@   ensures forall k int :: 0 <= k && k < len(result) ==> &result[k] == &ts[k]

// minP keeps ts[0] only if its threshold ts[0].value*p is not above ts[0].value: p must not exceed 1
// (the caller's obligation; with p > 1 the result is empty and sample's tokens[len(tokens)-1] faults)
//@ func minP
//@   requires len(ts) >= 1
//@   requires !(p > 1.0)
//@   modifies nothing
//@   ensures len(result) <= len(ts)
//@   ensures forall k int :: 0 <= k && k < len(result) ==> &result[k] == &ts[k]

//@ func NewSampler
//@   ensures seed != -1 ==> result.rng != nil
//@   ensures seed == -1 ==> result.rng == nil
//@   ensures result.topK == topK && result.grammar == grammar
// parameter ranges the transforms rely on (a NaN parameter stays NaN: every comparison false).
// min-p above 1 would put minP's threshold above the top probability: empty candidate list,
// tokens[len(tokens)-1] in sample faults. These are the facts Sample / sample / minP require.
//@   ensures !(result.minP < 0.0) && !(result.minP > 1.0)
//@   ensures !(result.topP < 0.0) && !(result.topP > 1.0)
//@   ensures !(result.temperature < 0.0)
// the clamps are exact: a value inside the range is stored unchanged (the filters applied are the
// ones asked for), a value outside becomes the nearest bound
//@   ensures !(minP < 0.0) && !(minP >= 1.0) ==> fsame(result.minP, minP)
//@   ensures minP < 0.0 ==> fsame(result.minP, 0.0)
//@   ensures minP >= 1.0 ==> fsame(result.minP, 1.0)
//@   ensures !(topP < 0.0) && !(topP >= 1.0) ==> fsame(result.topP, topP)
//@   ensures topP < 0.0 ==> fsame(result.topP, 0.0)
//@   ensures topP >= 1.0 ==> fsame(result.topP, 1.0)
//@   ensures !(temperature < 0.0) ==> fsame(result.temperature, temperature)
//@   ensures temperature < 0.0 ==> fsame(result.temperature, 0.0)
// temperature zero selects the greedy path of sample (which tests s.temperature == 0)
//@   ensures temperature == 0.0 ==> result.temperature == 0.0

// heap.Interface methods: container/heap calls them with indices inside the heap
//@ func (tokenHeap).Len
//@   ensures result == len(h)
//@ func (tokenHeap).Less
//@   requires 0 <= i && i < len(h) && 0 <= j && j < len(h)
//@ func (tokenHeap).Swap
//@   requires 0 <= i && i < len(h) && 0 <= j && j < len(h)
//@ func (*tokenHeap).Push
//@   requires tagis(x, "token")
//@   ensures len(*h) == old(len(*h)) + 1
//@ func (*tokenHeap).Pop
//@   requires len(*h) >= 1
//@   ensures len(*h) == old(len(*h)) - 1 && tagis(result, "token")
