//go:build verif

// Contracts for package llm, checked by /verif/govc.
package llm

//@ extern func strconv.Itoa
//@   pure reads none
//@ extern func projectorMemoryRequirements
//@   modifies nothing
//@   ensures result.0 < (1 << 40) && result.1 < (1 << 40)

// Loop ordinals of EstimateGPULayers in source order:
//  1 available list   2 projectors   3 kv total   4 admission   5 layers   6 placement (inner)
//  7 overflow   8 output placement   9 graph add   10 partial sum   11 split strings   12 allocation strings
//
// Range preconditions (stated in the evidence): every byte quantity is far below 2^56,
// at most 128 GPUs, at most 1024 projectors; with these no uint64 sum below wraps, and
// that is itself proved, not assumed (machine arithmetic is modelled exactly).

//@ func EstimateGPULayers
//@   opt strzero on
//@   modifies nothing
//@   opt abstract mod
//@   assert-at call max #3 : g.g == &gpus[g.i] && 0 <= g.i && g.i < len(gpus)
//@   assert-at call max #4 : g.g == &gpus[g.i] && 0 <= g.i && g.i < len(gpus)
//@   requires 1 <= len(gpus) && len(gpus) <= 128 && len(projectors) <= 1024
//@   requires forall k int :: 0 <= k && k < len(gpus) ==> gpus[k].FreeMemory < (1 << 56)
//@   requires forall k int :: 0 <= k && k < len(gpus) ==> gpus[k].MinimumMemory < (1 << 50)
//@
//@   ensures forall k int :: 0 <= k && k < len(result.GPUSizes) ==> k < len(gpus) && (result.GPUSizes[k] == 0 || result.GPUSizes[k] + envconfig.GpuOverhead() <= old(gpus[k].FreeMemory))
//@   ensures 0 <= result.Layers && result.Layers <= f.KV().BlockCount() + 1
//@   ensures opts.NumGPU >= 0 ==> result.Layers <= opts.NumGPU
//@   ensures result.TotalSize >= result.VRAMSize
// "reports a per-GPU split that sums to the layer count": the split string is printed from
// layerCounts (one strconv.Itoa per GPU); at that point the counts add up to the number of
// layers placed, which is what Layers reports (or 0 layers are reported)
//@   assert-at call strings.Join #1 : sum(layerCounts) == layerCount && len(layerCounts) == len(gpus)
//@   assert-at return #3 : estimate.Layers == layerCount && sum(layerCounts) == layerCount
//@
//@   loop 2 invariant projectorWeights <= (rangeindex + 1) * (1 << 40) && projectorGraph <= (rangeindex + 1) * (1 << 40)
//@   loop 3 invariant kvTotal <= (rangeindex + 1) * (1 << 34)
//@
//@   loop 4 invariant layerSize < (1 << 41) && max(graphPartialOffload, graphFullOffload) < (1 << 62) && gpuZeroOverhead < (1 << 52)
//@   loop 4 invariant forall w int :: 0 <= w && w < len(gpusWithSpace) ==> 0 <= gpusWithSpace[w].i && gpusWithSpace[w].i <= rangeindex && gpusWithSpace[w].g == &gpus[gpusWithSpace[w].i]
//@   loop 4 invariant forall k int :: 0 <= k && k < len(gpus) ==> gpuAllocations[k] == 0 || (gpuAllocations[k] + max(graphPartialOffload, graphFullOffload) + overhead + layerSize <= gpus[k].FreeMemory && k <= rangeindex)
//@   loop 4 invariant len(gpusWithSpace) > 0 ==> gpuAllocations[gpusWithSpace[0].i] + gpuZeroOverhead + max(graphPartialOffload, graphFullOffload) + overhead + layerSize <= gpus[gpusWithSpace[0].i].FreeMemory
//@   loop 4 invariant forall k int :: 0 <= k && k < len(gpus) ==> layerCounts[k] == 0
//@
//@   loop 5 invariant layerSize < (1 << 41) && max(graphPartialOffload, graphFullOffload) < (1 << 62)
//@   loop 5 invariant forall w int :: 0 <= w && w < len(gpusWithSpace) ==> 0 <= gpusWithSpace[w].i && gpusWithSpace[w].i < len(gpus) && gpusWithSpace[w].g == &gpus[gpusWithSpace[w].i]
//@   loop 5 invariant forall k int :: 0 <= k && k < len(gpus) ==> gpuAllocations[k] == 0 || gpuAllocations[k] + max(graphPartialOffload, graphFullOffload) + overhead <= gpus[k].FreeMemory
//@   loop 5 invariant forall k int :: 0 <= k && k < len(gpus) && layerCounts[k] > 0 ==> gpuAllocations[k] + max(graphPartialOffload, graphFullOffload) + overhead <= gpus[k].FreeMemory
//@   loop 5 invariant 0 <= layerCount && layerCount <= i && (opts.NumGPU >= 0 ==> layerCount <= opts.NumGPU)
//@   loop 5 invariant sum(layerCounts) == layerCount
//@   loop 5 invariant forall k int :: 0 <= k && k < len(layerCounts) ==> 0 <= layerCounts[k] && layerCounts[k] <= layerCount
//@
//@   loop 6 invariant j == len(gpusWithSpace) && layerSize < (1 << 41)
//@   loop 6 invariant forall w int :: 0 <= w && w < len(gpusWithSpace) ==> 0 <= gpusWithSpace[w].i && gpusWithSpace[w].i < len(gpus) && gpusWithSpace[w].g == &gpus[gpusWithSpace[w].i]
//@   loop 6 invariant forall k int :: 0 <= k && k < len(gpus) ==> gpuAllocations[k] == 0 || gpuAllocations[k] + max(graphPartialOffload, graphFullOffload) + overhead <= gpus[k].FreeMemory
//@   loop 6 invariant forall k int :: 0 <= k && k < len(gpus) && layerCounts[k] > 0 ==> gpuAllocations[k] + max(graphPartialOffload, graphFullOffload) + overhead <= gpus[k].FreeMemory
//@   loop 6 invariant sum(layerCounts) == layerCount
//@   loop 6 invariant forall k int :: 0 <= k && k < len(layerCounts) ==> 0 <= layerCounts[k] && layerCounts[k] <= layerCount
//@
//@   loop 7 invariant layerCount <= i && overflow <= (i - layerCount) * (1 << 41) && (i <= layerCount || i <= f.KV().BlockCount()) && layerCount >= 0
//@
//@   loop 8 invariant 0 <= j && j <= len(gpusWithSpace)
//@   loop 8 invariant forall k int :: 0 <= k && k < len(gpus) ==> gpuAllocations[k] == 0 || gpuAllocations[k] + max(graphPartialOffload, graphFullOffload) + overhead <= gpus[k].FreeMemory
//@   loop 8 invariant forall k int :: 0 <= k && k < len(gpus) && layerCounts[k] > 0 ==> gpuAllocations[k] + max(graphPartialOffload, graphFullOffload) + overhead <= gpus[k].FreeMemory
//@   loop 8 invariant forall w int :: 0 <= w && w < len(gpusWithSpace) ==> 0 <= gpusWithSpace[w].i && gpusWithSpace[w].i < len(gpus) && gpusWithSpace[w].g == &gpus[gpusWithSpace[w].i]
//@   loop 8 invariant sum(layerCounts) == layerCount
//@   loop 8 invariant forall k int :: 0 <= k && k < len(layerCounts) ==> 0 <= layerCounts[k] && layerCounts[k] <= layerCount
//@
//@   loop 9 invariant forall k int :: 0 <= k && k <= rangeindex ==> gpuAllocations[k] == 0 || gpuAllocations[k] + overhead <= gpus[k].FreeMemory
//@   loop 9 invariant forall k int :: rangeindex < k && k < len(gpus) ==> gpuAllocations[k] == 0 || gpuAllocations[k] + max(graphPartialOffload, graphFullOffload) + overhead <= gpus[k].FreeMemory
//@   loop 9 invariant forall k int :: rangeindex < k && k < len(gpus) && layerCounts[k] > 0 ==> gpuAllocations[k] + max(graphPartialOffload, graphFullOffload) + overhead <= gpus[k].FreeMemory
//@
//@   loop 10 invariant memoryRequiredPartial <= (rangeindex + 1) * (1 << 56)
//@   loop 10 invariant forall k int :: 0 <= k && k < len(gpus) ==> gpuAllocations[k] < (1 << 56)
//
// ---- strengthening round 4 (appended; assert numbering of the clauses above is unchanged) ----
// "VRAMSize is the GPU-resident part": the reported VRAMSize covers every reported per-GPU size
// (the exact equality VRAMSize == sum of GPUSizes needs a recursive spec function over a slice,
// which this engine cannot encode: see props not_decided), one size per GPU is reported, and
// an estimate of zero layers claims no GPU memory.
//@   loop 10 invariant forall k int :: 0 <= k && k <= rangeindex ==> gpuAllocations[k] <= memoryRequiredPartial
//@   ensures result.Layers > 0 ==> len(result.GPUSizes) == len(gpus) && forall k int :: 0 <= k && k < len(gpus) ==> result.GPUSizes[k] <= result.VRAMSize
//@   ensures result.Layers == 0 ==> len(result.GPUSizes) == 0 && result.VRAMSize == 0
// "reports a per-GPU split": every entry of the split that is joined is the decimal form of
// that GPU's layer count (loop 11), all GPUs are in it, the separator is the comma, and the
// reported TensorSplit / Layers / GPUSizes are the values computed above.
//@   loop 11 invariant len(splits) == len(gpus) && forall k int :: 0 <= k && k <= rangeindex ==> splits[k] == strconv.Itoa(layerCounts[k])
//@   assert-at call strings.Join #1 : len(arg0) == len(gpus) && arg1 == "," && forall k int :: 0 <= k && k < len(gpus) ==> arg0[k] == strconv.Itoa(layerCounts[k])
//@   assert-at store TensorSplit #1 : stored == tensorSplit && (len(gpus) <= 1 ==> stored == "")
// "graph size switch between partial and full offload": the full-offload graph is chosen only
// when every repeating layer was placed (and, when an output layer exists and the user's limit
// admits it, that one too); the chosen graph is what is reported and what every GPU that holds
// layers is charged (so the reported GPUSizes[k] include it).
//@   loop 9 invariant forall k int :: 0 <= k && k <= rangeindex && layerCounts[k] > 0 ==> gpuAllocations[k] >= ite(fullyLoaded, graphFullOffload, graphPartialOffload)
//@   assert-at store Graph #3 : stored == ite(fullyLoaded, graphFullOffload, graphPartialOffload)
//@     && (fullyLoaded ==> layerCount >= f.KV().BlockCount())
//@     && (fullyLoaded && memoryLayerOutput > 0 && (opts.NumGPU < 0 || opts.NumGPU > f.KV().BlockCount()) ==> layerCount == f.KV().BlockCount() + 1)
//@   assert-at return #3 : forall k int :: 0 <= k && k < len(gpus) && layerCounts[k] > 0 ==> estimate.GPUSizes[k] >= estimate.Graph
// ---- coverage extension (appended) ----
// What NewLlamaServer puts on the runner's command line is Layers (--n-gpu-layers, when the user set
// no limit) and TensorSplit (--tensor-split, when not empty): an estimate that places nothing, and an
// estimate for a single GPU, carry no split (NewLlamaServer falls back to the CPU with the same estimate).
//@   ensures result.Layers == 0 ==> result.TensorSplit == ""
//@   ensures len(gpus) <= 1 ==> result.TensorSplit == ""
// helper for assert.2 (index layerCount % j of the output placement is within gpusWithSpace): the count is not negative
//@   loop 8 invariant layerCount >= 0

// "A model is declared to fit completely only if all of its layers were placed":
// the two `return true` statements (return #1: no user limit, return #2: num_gpu set).
//@ extern func discover.(GpuInfoList).ByLibrary
//@   modifies nothing
//@ func PredictServerFit
//@   requires len(projectors) <= 1024
//@   modifies nothing
//@   assert-at return #1 : opts.NumGPU < 0 && estimate.Layers >= f.KV().BlockCount() + 1
//@   assert-at return #2 : opts.NumGPU >= 0 && estimate.Layers >= opts.NumGPU && estimate.Layers > 0
// (appended) the verdict is about THIS model, these options, this parallelism and the GPU group
// of the current iteration, and the VRAM figure returned with it is the estimate's.
//@   assert-at call EstimateGPULayers #1 : arg0 == gpus && arg1 == f && arg2 == projectors && arg3 == opts && arg4 == numParallel
//@   assert-at return #1 : estimatedVRAM == estimate.VRAMSize
//@   assert-at return #2 : estimatedVRAM == estimate.VRAMSize
// (appended, coverage extension) discover.(GpuInfoList).ByLibrary is no longer trusted: its body is
// verified (contracts/discover). What remains assumed is only the RANGE of the hardware figures the
// groups carry - stated here, at the point where they enter the estimator, as an explicit assumption
// (props assumptions): at most 128 GPUs, FreeMemory < 2^56, MinimumMemory < 2^50. That every group is
// non-empty and no larger than the inventory is ByLibrary's proved postcondition.
//@   assume-at after call ByLibrary #1 : len(allGpus) <= 128 && forall g int, k int :: 0 <= g && g < len(result) && 0 <= k && k < len(result[g]) ==> result[g][k].FreeMemory < (1 << 56) && result[g][k].MinimumMemory < (1 << 50)
