//go:build verif

// Trusted contracts for library functions (never verified; each one that a
// property's proof uses is listed in that property's evidence file).
package contracts

//@ spec func scontains(s string, t string) bool
//@ spec func shasprefix(s string, t string) bool
//@ spec func shassuffix(s string, t string) bool
//@ spec func sindex(s string, t string) int
//@ spec func slastindex(s string, t string) int

//@ extern func strings.Contains
//@   pure
//@   ensures result <==> scontains(s, substr)

//@ extern func strings.HasSuffix
//@   pure
//@   ensures result <==> shassuffix(s, suffix)
//@   ensures result ==> len(suffix) <= len(s)

//@ extern func strings.HasPrefix
//@   pure
//@   ensures result <==> shasprefix(s, prefix)
//@   ensures result ==> len(prefix) <= len(s)

//@ extern func strings.Index
//@   pure
//@   ensures result == sindex(s, substr)
//@   ensures result == -1 || (0 <= result && result + len(substr) <= len(s))
//@   ensures result >= 0 <==> scontains(s, substr)
