//go:build verif

// Trusted contracts for library functions (never verified; each one that a
// property's proof uses is listed in that property's evidence file).
package contracts

//@ spec func scontains(s string, t string) bool
//@ spec func shasprefix(s string, t string) bool
//@ spec func shassuffix(s string, t string) bool
//@ spec func sindex(s string, t string) int
//@ spec func slastindex(s string, t string) int
//@ spec func sjoin(xs []string, sep string) string
//@ spec func svalidutf8(s string) bool

//@ extern func strings.Contains
//@   pure
//@   ensures result <==> scontains(s, substr)

//@ extern func strings.HasSuffix
//@   pure
//@   ensures result <==> shassuffix(s, suffix)
//@   ensures result ==> len(suffix) <= len(s)

//@ extern func strings.HasPrefix
//@   pure
//@   ensures result <==> shasprefix(s, prefix)
//@   ensures result ==> len(prefix) <= len(s)

//@ extern func strings.Index
//@   pure
//@   ensures result == sindex(s, substr)
//@   ensures result == -1 || (0 <= result && result + len(substr) <= len(s))
//@   ensures result >= 0 <==> scontains(s, substr)

// ---- io / encoding/binary: readers and writers are opaque objects behind interfaces;
// ---- what a call may change in the caller's memory is stated by `modifies`.

//@ extern func encoding/binary.Read
//@   modifies boxed(data)
//@ extern func encoding/binary.Write
//@   modifies w.ghost_pos
//@   ensures result == nil ==> w.ghost_pos == old(w.ghost_pos) + binsize(data)
//@ extern func io.ReadFull
//@   modifies buf[all]
//@   ensures 0 <= result.0 && result.0 <= len(buf)
//@   ensures result.1 == nil ==> result.0 == len(buf)
//@ extern func io.(Reader).Read
//@   modifies p[all]
//@   ensures 0 <= result.0 && result.0 <= len(p)
//@   ensures result.0 > 0 || result.1 != nil || len(p) == 0
//@ extern func io.CopyN
//@   modifies boxed(dst)
//@   ensures 0 <= result.0 && (n >= 0 ==> result.0 <= n)
//@   ensures result.1 == nil ==> result.0 == max(n, 0)
//@   ensures dst.ghost_len == old(dst.ghost_len) + result.0
//@ extern func bytes.(*Buffer).Len
//@   pure
//@   ensures result == b.ghost_len && result >= 0
//@ extern func bytes.(*Buffer).Truncate
//@   requires 0 <= n && n <= b.ghost_len
//@   modifies *b, b.ghost_len
//@   ensures b.ghost_len == n
//@ extern func bytes.(*Buffer).String
//@   pure
//@   ensures len(result) == b.ghost_len
//@ extern func io.(Seeker).Seek
//@   modifies nothing
//@   ensures result.1 == nil ==> result.0 >= 0
//@ extern func io.(ReadSeeker).Seek
//@   modifies nothing
//@   ensures result.1 == nil ==> result.0 >= 0
//@ extern func encoding/binary.(ByteOrder).Uint64
//@   pure
//@ extern func encoding/binary.(ByteOrder).Uint32
//@   pure

//@ extern func io.(WriteSeeker).Seek
//@   modifies nothing
//@   ensures result.1 == nil ==> result.0 >= 0
//@   ensures result.1 == nil && offset == 0 && whence == 1 ==> result.0 == this.ghost_pos
//@ extern func io.(WriterTo).WriteTo
//@   modifies w.ghost_pos
//@   ensures result.1 == nil ==> w.ghost_pos == old(w.ghost_pos) + result.0
//@ extern func bytes.Repeat
//@   requires count >= 0
//@   modifies nothing
//@   ensures len(result) == len(b) * count

//@ extern func strings.Join
//@   pure
//@   ensures result == sjoin(elems, sep)
//@ extern func unicode/utf8.ValidString
//@   pure
//@   ensures result <==> svalidutf8(s)
//@   ensures len(s) == 0 ==> result
