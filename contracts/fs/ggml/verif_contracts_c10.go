//go:build verif

// Contracts for package fs/ggml, part 2 (C10 safety sweep of the consumers of decoded values,
// C05 writer helpers). Comment-only; see verif_contracts.go.
package ggml

// ---- C10: consumers of decoded metadata. Every value comes from the file: a key may be absent,
// ---- hold another type, or hold 0. The accessors must not panic on any of these (safe.*
// ---- obligations of the bodies: division, index, type assertion) and write nothing.

//@ func (KV).Kind
//@   modifies nothing
//@ func (KV).FileType
//@   modifies nothing
//@ func (KV).EmbeddingLength
//@   modifies nothing
//@   ensures 0 <= result && result < (1 << 32)
//@ func (KV).HeadCount
//@   modifies nothing
//@   ensures 0 <= result && result < (1 << 32)
//@ func (KV).HeadCountKV
//@   modifies nothing
//@   ensures 0 <= result && result < (1 << 32)
// the default for an absent attention.head_count_kv is 1, never 0: KV.GQA and GraphSize divide by it
//@   assert-at call Uint #1 : len(arg2) == 1 && arg2[0] == 1
// the division by the head count is guarded (attention.head_count 0 or absent -> 0)
//@ func (KV).EmbeddingHeadCount
//@   modifies nothing
//@   ensures 0 <= result && result < (1 << 32)
//@ func (KV).EmbeddingHeadCountK
//@   modifies nothing
//@   ensures 0 <= result && result < (1 << 32)
//@ func (KV).EmbeddingHeadCountV
//@   modifies nothing
//@   ensures 0 <= result && result < (1 << 32)
//@ func (KV).ContextLength
//@   modifies nothing
//@   ensures 0 <= result && result < (1 << 32)
//@ func (KV).ChatTemplate
//@   modifies nothing
//@ func (KV).Float
//@   modifies nothing
//@ func (KV).Bool
//@   modifies nothing
//@ func (KV).OllamaEngineRequired
//@   modifies nothing

// Tensors.Items: prefix[0] only when a prefix was given; the tensor list is not written
//@ func (Tensors).Items
//@   modifies nothing
//@   ensures len(prefix) == 0 ==> blk(result) == blk(s.items) && len(result) == len(s.items)
//@ func (Tensor).Type
//@   modifies nothing

// what the decoder hands to every consumer is what it decoded (C05 observe_at: KV, Tensors().Items(),
// Tensors().Offset)
//@ func (*gguf).KV
//@   modifies nothing
//@   ensures result == llm.kv
//@ func (*gguf).Tensors
//@   modifies nothing
//@   ensures blk(result.items) == blk(llm.tensors) && len(result.items) == len(llm.tensors) && result.Offset == llm.tensorOffset
//@ func (*containerGGUF).Name
//@   modifies nothing

// these two replace the extern stubs of verif_contracts.go (same clause: purity is the A-meta
// assumption of C16, "metadata is immutable after decoding"); their bodies are now verified for
// panics: SupportsFlashAttention reads attention.key_length / value_length / head_count of the file
//@ func (GGML).SupportsKVCacheType
//@   pure reads none
//@ func (GGML).SupportsFlashAttention
//@   pure reads none

// GroupLayers splits every tensor name (a string from the file) at "." and indexes the parts:
// parts[0] exists because strings.Split with a non-empty separator returns at least one part,
// parts[:index+2] is guarded by len(parts) > index+2, and the inner map is created before it is
// written. Replaces the extern stub (same clauses; purity stays the A-meta assumption).
// (library, trusted; a call without contract that takes a closure would havoc the whole heap: the
// predicate passed here captures nothing and writes nothing)
//@ extern func slices.IndexFunc
//@   modifies nothing
//@   ensures -1 <= result && result < len(s)
//@ func (Tensors).GroupLayers
//@   pure reads none
//@   opt frame assume
//@   ensures result != nil
//@   loop 1 invariant layers != nil
//@   loop 1 invariant forall k string :: has(layers, k) ==> layers[k] != nil
// library facts (assumed at the call, local to this function): strings.Split with a non-empty
// separator returns at least one part
//@   assume-at after call Split #1 : len(result) >= 1

// ---- C05: the typed value writers used by ggufWriteKV. Each writes the u32 type tag first and
// ---- then the value, and advances the stream by exactly the encoded size the decoder consumes
// ---- for that tag (readGGUF[uint32] + reader of the tag). A dropped tag, a tag of another
// ---- width, a length prefix of another width or a second write of a field shifts every byte
// ---- the decoder reads afterwards.
//@ func writeGGUF
//@   modifies w.ghost_pos
//@   ghost-at entry : ghost_w0 := w.ghost_pos
//@   assert-at call Write #1 : binsize(arg2) == 4 && arg0 == w
//@   assert-at call Write #2 : w.ghost_pos == ghost_w0 + 4 && arg0 == w
// (the value's width cannot be named for every instance: binsize of a float-typed generic parameter is
// ill-sorted in the engine; the value is the LAST thing written, directly after the 4-byte tag)
//@   ghost-at after call Write #2 : ghost_vend := w.ghost_pos
//@   ensures result == nil ==> w.ghost_pos == ghost_vend

//@ func writeGGUFString
//@   modifies w.ghost_pos
//@   opt frame assume       -- io.Copy (library, no contract) is the only call that is not checked against the frame
//@   ghost-at entry : ghost_w0 := w.ghost_pos
//@   assert-at call Write #1 : binsize(arg2) == 4 && arg0 == w
//@   assert-at call Write #2 : binsize(arg2) == 8 && arg0 == w && w.ghost_pos == ghost_w0 + 4
//@   assert-at call Copy #1 : arg0 == w && w.ghost_pos == ghost_w0 + 12
// library fact: io.Copy from a strings.Reader over s to w writes len(s) bytes to w on success
//@   assume-at after call Copy #1 : result.1 == nil ==> w.ghost_pos == ghost_w0 + 12 + len(s)
//@   ensures result == nil ==> w.ghost_pos == old(w.ghost_pos) + 4 + 8 + len(s)

//@ func writeGGUFArray
//@   modifies w.ghost_pos
//@   ghost-at entry : ghost_w0 := w.ghost_pos
//@   assert-at call Write #1 : binsize(arg2) == 4 && arg0 == w
//@   assert-at call Write #2 : binsize(arg2) == 4 && arg0 == w && w.ghost_pos == ghost_w0 + 4
//@   assert-at call Write #3 : binsize(arg2) == 8 && arg0 == w && w.ghost_pos == ghost_w0 + 8
//@   assert-at call Write #4 : arg0 == w && w.ghost_pos == ghost_w0 + 16
//@   ensures result == nil ==> w.ghost_pos == old(w.ghost_pos) + 4 + 4 + 8 + binsize(s)
