//go:build verif

// Contracts for package fs/ggml, checked by /verif/govc (contract-based deductive
// verification). Comment-only: compiled only under the "verif" build tag and then
// still contributes no code.
package ggml

//@ func ggufPadding
//@   requires align > 0 && align < (1 << 62)
//@   modifies nothing
//@   ensures  result == pad(offset, align)
//@   ensures  offset >= 0 ==> 0 <= result && result < align
//@   ensures  offset >= 0 ==> (offset + result) % align == 0
//@   ensures  offset >= 0 && offset % align == 0 ==> result == 0

// ---- decode path (C10): every function between ggml.Decode and the bytes of the file.
// ---- Readers are opaque; every decoded integer is unconstrained within its type.

//@ func (*containerGGUF).canCollectArray
//@   modifies nothing
//@   ensures result <==> (c.maxArraySize < 0 || size <= c.maxArraySize)

//@ func newGGUF
//@   modifies nothing
//@   ensures fresh(result) && result.kv != nil && fresh(result.kv) && result.containerGGUF == container

//@ func readGGUF
//@   modifies nothing

//@ func readGGUFV1String
//@   modifies nothing

// C10 termination ("never fails to terminate"): the decoder only moves FORWARD in its input.
// Every relative seek has a non-negative offset (a size taken from the file that is negative
// as an int64 would move back and let the caller decode the same bytes again, for ever), and
// the one loop whose count is not a range reads at least one byte per iteration.
// this.ghost_pos is the read position; a successful relative seek moves it by the offset and
// returns it (C05: "the end offset reported by the decoder equals the file length")
//@ extern func io.(ReadSeeker).Seek
//@   requires whence == 1 ==> offset >= 0
//@   modifies this.ghost_pos
//@   ensures result.1 == nil ==> result.0 >= 0
//@   ensures result.1 == nil && whence == 1 ==> this.ghost_pos == old(this.ghost_pos) + offset && result.0 == this.ghost_pos
//@   ensures result.1 != nil ==> this.ghost_pos == old(this.ghost_pos)
//@ extern func io.(Seeker).Seek
//@   requires whence == 1 ==> offset >= 0
//@   modifies nothing
//@   ensures result.1 == nil ==> result.0 >= 0

//@ func discardGGUFString
//@   modifies llm.scratch
//@   loop 1 decreases size

//@ func readGGUFString
//@   modifies llm.scratch

//@ func readGGUFV1Array
//@   modifies llm.scratch

//@ func readGGUFArray
//@   modifies llm.scratch

//@ extern func fmt.Errorf
//@   modifies nothing
//@   ensures result != nil
//@ extern func errors.New
//@   modifies nothing
//@   ensures result != nil
//@ func (*gguf).Decode
//@   requires llm.kv != nil
// the well-known key the decoder patches is what the default-less accessor KV.ParameterCount
// relies on: after a successful Decode it is present and holds a uint64 (whatever the file
// declared under that key) - added after seeded change C10-seed3
//@   ensures result == nil ==> has(llm.kv, "general.parameter_count") && tagis(llm.kv["general.parameter_count"], "uint64")
// C05, decoder side of the layout: after the header (Seek #1 reports where it ends) the decoder
// moves only over the tensors: per tensor the padding of the CURRENT position to the alignment
// (the same `pad` the writer uses) and the tensor's size. So the end offset is the header end
// plus that layout, and with no tensors it is the header end itself (added after C05-seed3).
//@   ghost-at after call Seek #1 : ghost_hdr := result.0
//@   loop 4 invariant rangeindex == -1 ==> rs.ghost_pos == ghost_hdr
//@   assert-at call Seek #3 : arg2 == 1 && arg1 == pad(rs.ghost_pos, alignment)
//@   assert-at call Seek #4 : arg2 == 1 && arg1 == tensor.Size()
//@   ensures result == nil && len(llm.tensors) == 0 ==> rs.ghost_pos == ghost_hdr
//@   modifies llm.scratch, llm.kv, llm.tensors, llm.parameters, llm.tensorOffset
//@   loop 3 invariant 0 <= i && i <= dims
// ---- added by the C05/C10 audit (appended: numbering of the clauses above is unchanged) ----
// C05 "decodes to the same keys and values": the value read for a key has the Go type that the
// file's type tag names - the reader called in each case is the one for that tag (tag values
// are the GGUF constants the writer's ggufWriteKV passes to writeGGUF / writeGGUFArray).
//@   assert-at after call readGGUF #2 : t == 0 && 0 <= result.0 && result.0 < 256
//@   assert-at after call readGGUF #3 : t == 1 && -128 <= result.0 && result.0 < 128
//@   assert-at after call readGGUF #4 : t == 2 && 0 <= result.0 && result.0 < 65536
//@   assert-at after call readGGUF #5 : t == 3 && -32768 <= result.0 && result.0 < 32768
//@   assert-at after call readGGUF #6 : t == 4 && 0 <= result.0 && result.0 < (1 << 32)
//@   assert-at after call readGGUF #7 : t == 5 && -(1 << 31) <= result.0 && result.0 < (1 << 31)
//@   assert-at after call readGGUF #8 : t == 10 && 0 <= result.0 && result.0 < (1 << 64)
//@   assert-at after call readGGUF #9 : t == 11 && -(1 << 63) <= result.0 && result.0 < (1 << 63)
//@   assert-at after call readGGUF #10 : t == 6
//@   assert-at after call readGGUF #11 : t == 12
//@   assert-at after call readGGUF #12 : t == 7
//@   assert-at after call readGGUFString #2 : t == 8
//@   assert-at after call readGGUFArray #1 : t == 9
// C05 "the same tensor names, types and shapes": the decoded tensor carries the fields read
// for it (name, dims x shape, kind, offset - the record ggufWriteTensorInfo writes)
//@   assert-at store Name : stored == name
//@   assert-at store Kind : stored == kind
//@   assert-at store Offset #1 : stored == offset
//@   assert-at store Shape : len(stored) == dims && blk(stored) == blk(shape)
// C05 "the bytes found at its decoded location": the data section starts at the aligned end of
// the header (the writer's first ggufWriteTensor pads from exactly there)
//@   assert-at store tensorOffset : stored == ghost_hdr + pad(ghost_hdr, alignment)
// C05 "the end offset reported by the decoder equals the file length": nothing is skipped after
// the last tensor's data, every tensor is stepped over
//@   ghost-at after call Seek #4 : ghost_dlast := rs.ghost_pos
//@   loop 4 invariant rangeindex >= 0 ==> rs.ghost_pos == ghost_dlast
//@   ensures result == nil && len(llm.tensors) > 0 ==> rs.ghost_pos == ghost_dlast
// C10 "never allocates memory out of proportion to the size of the input": when a shape entry
// is read, the shape slice allocated for this tensor exceeds the entries read so far by at most
// a constant (holds for a bounded dims as well as for a slice grown as data arrives).
// GENUINE FINDING on the pinned tree: make([]uint64, dims) with dims <= 2^32-1 taken from the
// file (86-byte file -> 1 GiB; 32 GiB at the maximum), reproduced - see audit report.
//@   assert-at call readGGUF #14 : len(shape) <= i + 64

//@ func (*containerGGUF).Decode
//@   modifies *c
// C10 "ends with a decoded model or an error" - exactly one of the two (coverage extension): an
// error of the inner decoder is not swallowed into a half-decoded model, success carries a model
//@   ensures result.1 == nil ==> result.0 != nil
//@   ensures result.1 != nil ==> result.0 == nil
//@   assert-at call Decode #1 : arg1 == rs

//@ func (Tensor).blockSize
//@   pure reads none
//@   ensures result == 1 || result == 32 || result == 256
// C05 "any supported type": elements per block of each GGML type (ggml type traits); the byte
// size that places every following tensor is parameters * typeSize / blockSize
//@   ensures (t.Kind == 0 || t.Kind == 1 || (24 <= t.Kind && t.Kind <= 28) || t.Kind == 30) ==> result == 1
//@   ensures (t.Kind == 2 || t.Kind == 3 || (6 <= t.Kind && t.Kind <= 9) || t.Kind == 20) ==> result == 32
//@   ensures ((10 <= t.Kind && t.Kind <= 19) || (21 <= t.Kind && t.Kind <= 23) || t.Kind == 29) ==> result == 256

//@ func (Tensor).typeSize
//@   pure reads none
// bytes per block of each GGML type (sizeof(block_*) in ggml-common.h)
//@   ensures t.Kind == 0 ==> result == 4
//@   ensures t.Kind == 1 ==> result == 2
//@   ensures t.Kind == 2 ==> result == 18
//@   ensures t.Kind == 3 ==> result == 20
//@   ensures t.Kind == 6 ==> result == 22
//@   ensures t.Kind == 7 ==> result == 24
//@   ensures t.Kind == 8 ==> result == 34
//@   ensures t.Kind == 9 ==> result == 36
//@   ensures t.Kind == 10 ==> result == 84
//@   ensures t.Kind == 11 ==> result == 110
//@   ensures t.Kind == 12 ==> result == 144
//@   ensures t.Kind == 13 ==> result == 176
//@   ensures t.Kind == 14 ==> result == 210
//@   ensures t.Kind == 15 ==> result == 292
//@   ensures t.Kind == 16 ==> result == 66
//@   ensures t.Kind == 17 ==> result == 74
//@   ensures t.Kind == 18 ==> result == 98
//@   ensures t.Kind == 19 ==> result == 50
//@   ensures t.Kind == 20 ==> result == 18
//@   ensures t.Kind == 21 ==> result == 110
//@   ensures t.Kind == 22 ==> result == 82
//@   ensures t.Kind == 23 ==> result == 136
//@   ensures t.Kind == 24 ==> result == 1
//@   ensures t.Kind == 25 ==> result == 2
//@   ensures t.Kind == 26 ==> result == 4
//@   ensures t.Kind == 27 ==> result == 8
//@   ensures t.Kind == 28 ==> result == 8
//@   ensures t.Kind == 29 ==> result == 56
//@   ensures t.Kind == 30 ==> result == 2

//@ func (Tensor).parameters
//@   pure reads uint64

//@ func (Tensor).Size
//@   pure reads uint64
//@   ensures result == wrapuint64(t.parameters() * t.typeSize()) / t.blockSize()

// C05 "the end offset reported by the decoder": what ggml.Decode returns as the offset is the
// read position after the container has been decoded (the position query that follows it)
//@ func Decode
//@   ghost-at after call Seek #1 : ghost_endoff := result.0
//@   ensures result.2 == nil ==> result.1 == ghost_endoff && result.0 != nil
// (coverage extension) a failure is reported as an error with no model
//@   ensures result.2 != nil ==> result.0 == nil

//@ func DetectContentType
//@   modifies nothing

// (KV.ParameterCount calls keyValue[uint64] without a default: it relies on the postcondition
// of gguf.Decode about "general.parameter_count"; the accessor itself is not under contract)

//@ func keyValue
//@   requires len(defaultValue) >= 1
//@   modifies nothing

//@ func (*gguf).numKV
//@   modifies nothing
//@ func (*gguf).numTensor
//@   modifies nothing
//@ func (KV).Architecture
//@   modifies nothing
//@ func (KV).String
//@   modifies nothing
//@ func (KV).Uint
//@   modifies nothing
//@   ensures 0 <= result && result < (1 << 32)      -- (coverage extension) a uint32: makes WriteGGUF's range assumption on the alignment a proved fact

// ---- accessors used by the memory estimator (C16). Model metadata is immutable after
// ---- decoding, so these are functions of their receiver only (assumption A-meta).
// ---- Size bounds are range assumptions: no real model approaches them.

//@ extern func (model).KV
//@   pure reads none
//@ extern func (model).Tensors
//@   pure reads none
//@ extern func (KV).BlockCount
//@   pure reads none
//@   ensures result <= 65536
//@ extern func (KV).GQA
//@   pure reads none
//@   ensures result <= 1024
//@ extern func (Tensors).GroupLayers
//@   pure reads none
//@   ensures result != nil
//@ extern func (Layer).Size
//@   pure reads none
//@   ensures result < (1 << 40)
//@ extern func (GGML).GraphSize
//@   pure reads none
//@   ensures len(result.0) == f.KV().BlockCount()
//@   ensures result.1 < (1 << 50) && result.2 < (1 << 50)
//@   ensures forall k int :: 0 <= k && k < len(result.0) ==> result.0[k] < (1 << 34)
//@ extern func (GGML).VisionGraphSize
//@   pure reads none
//@   ensures result.0 < (1 << 44) && result.1 < (1 << 44)
//@ extern func (GGML).SupportsFlashAttention
//@   pure reads none
//@ extern func (GGML).SupportsKVCacheType
//@   pure reads none

// ---- GGUF writer layout (C05). The stream position of the io.WriteSeeker is the ghost
// ---- field ws.ghost_pos; encoding/binary.Write advances it by the encoded size, Seek(0,
// ---- SeekCurrent) returns it. ghost_end (ghost variable of WriteGGUF) is the end of the
// ---- previous tensor's data relative to the start of the data section.

//@ spec func pad(off int, al int) int = (al - off % al) % al
// an arbitrary but fixed tensor index (uninterpreted): a clause proved for it holds for every index
//@ spec func anytensor(z int) int

//@ lemma pad_aligned(off int, al int)
//@   requires al > 0 && off >= 0
//@   ensures 0 <= pad(off, al) && pad(off, al) < al && (off + pad(off, al)) % al == 0

// library frame conditions used by WriteGGUF (trusted): collecting and sorting the keys of the
// metadata map writes nothing but the fresh key slice
//@ extern func maps.Keys
//@   modifies nothing
//@ extern func slices.Collect
//@   modifies nothing
//@ extern func slices.Sort
//@   modifies x[all]

//@ func ggufWriteTensorInfo
//@   modifies ws.ghost_pos
// C05 "same tensor names, types and shapes": a tensor info is exactly the record the decoder
// reads back (gguf.Decode: string = u64 length + bytes, u32 dims, dims x u64, u32 kind, u64
// offset), field by field in that order and with those widths - a dropped, duplicated,
// reordered or re-sized field shifts everything the decoder reads after it.
//@   ghost-at entry : ghost_w0 := ws.ghost_pos
//@   assert-at call Write #1 : binsize(arg2) == 8
//@   assert-at call Write #2 : binsize(arg2) == len(t.Name) && ws.ghost_pos == ghost_w0 + 8
//@   assert-at call Write #3 : binsize(arg2) == 4 && ws.ghost_pos == ghost_w0 + 8 + len(t.Name)
//@   loop 1 invariant ws.ghost_pos == ghost_w0 + 8 + len(t.Name) + 4 + 8 * i
//@   assert-at call Write #4 : binsize(arg2) == 8
//@   assert-at call Write #5 : binsize(arg2) == 4 && ws.ghost_pos == ghost_w0 + 8 + len(t.Name) + 4 + 8 * len(t.Shape)
//@   assert-at call Write #6 : binsize(arg2) == 8 && ws.ghost_pos == ghost_w0 + 8 + len(t.Name) + 4 + 8 * len(t.Shape) + 4
//@   ensures result == nil ==> ws.ghost_pos == old(ws.ghost_pos) + 8 + len(t.Name) + 4 + 8 * len(t.Shape) + 4 + 8

//@ func ggufWriteTensor
//@   requires alignment > 0 && alignment < (1 << 62)
//@   modifies ws.ghost_pos
//@   assume-at after call WriteTo #1 : result.1 == nil ==> result.0 == t.Size()    -- what callers of WriteGGUF owe: a tensor's WriterTo writes exactly Size() bytes
//@   ensures result == nil ==> ws.ghost_pos == old(ws.ghost_pos) + pad(old(ws.ghost_pos), alignment) + t.Size()
// C05 "the bytes found at its decoded location ... at an offset aligned to the file's alignment":
// the padding comes BEFORE the data - when the tensor's own writer starts, the stream (this
// stream) stands at the aligned position; nothing is written after the data.
//@   ghost-at entry : ghost_p0 := ws.ghost_pos
//@   assert-at call WriteTo #1 : arg1 == ws && ws.ghost_pos == ghost_p0 + pad(ghost_p0, alignment) && ws.ghost_pos % alignment == 0
//@   ghost-at after call WriteTo #1 : ghost_dend := ws.ghost_pos
//@   ensures result == nil ==> ws.ghost_pos == ghost_dend

// WriteGGUF: the offset declared for a tensor is the aligned end of the previous tensor,
// i.e. declared offsets obey  off(0) = 0, off(i+1) = alignup(off(i) + Size(i));
// ggufWriteTensor's contract gives the data positions the same recurrence from the
// aligned start D of the data section, so data(i) - D == off(i) (induction, pad_shift).
// Loops: 1 keys, 2 tensor infos, 3 tensor data.
//@ func WriteGGUF
//@   assume-at call Write #1 : alignment > 0        -- general.alignment = 0 is not a valid GGUF (the writer would divide by zero)
//@   ghost-at entry : ghost_end := 0
//@   assert-at call ggufWriteTensorInfo #1 : t.Offset == ghost_end + pad(ghost_end, alignment)
//@   ghost-at after call ggufWriteTensorInfo #1 : ghost_end := t.Offset + t.Size()
//@   requires len(ts) <= (1 << 20)
//@   assume-at after call Size #1 : result < (1 << 40)          -- range assumption: a tensor is smaller than 1 TiB
//@   assume-at call ggufWriteTensorInfo #1 : alignment < (1 << 40)
//@   loop 2 invariant s == ghost_end
//@   loop 2 invariant s <= (rangeindex + 1) * (1 << 41)
// ---- added by the C05 audit (appended: the numbering of the clauses above is unchanged) ----
// Header: magic (4 bytes), version (u32), tensor count (u64), KV count (u64) - the 24 bytes the
// decoder consumes before the first key (ggml.Decode: u32 magic; containerGGUF.Decode: u32
// version + V3{NumTensor, NumKV uint64}).
//@   ghost-at entry : ghost_w0 := ws.ghost_pos
//@   assert-at call Write #1 : binsize(arg2) == 4
//@   assert-at call Write #2 : binsize(arg2) == 4 && ws.ghost_pos == ghost_w0 + 4
//@   assert-at call Write #3 : binsize(arg2) == 8 && ws.ghost_pos == ghost_w0 + 8
//@   assert-at call Write #4 : binsize(arg2) == 8 && ws.ghost_pos == ghost_w0 + 16
//@   loop 1 invariant rangeindex == -1 ==> ws.ghost_pos == ghost_w0 + 24
// The stream holds nothing but: header, KVs, tensor infos, then per tensor padding + data.
// Nothing between the last tensor info and the first tensor's padding (the decoder takes the
// aligned end of the infos as the start of the data section), nothing after the last tensor's
// data (the decoder's end offset must be the file length).
//@   ghost-at after call ggufWriteTensorInfo #1 : ghost_hend := ws.ghost_pos
//@   loop 2 invariant rangeindex >= 0 ==> ws.ghost_pos == ghost_hend
//@   loop 3 invariant rangeindex == -1 && len(ts) > 0 ==> ws.ghost_pos == ghost_hend
//@   ghost-at after call ggufWriteTensor #1 : ghost_last := ws.ghost_pos
//@   loop 3 invariant rangeindex >= 0 ==> ws.ghost_pos == ghost_last
//@   ensures result == nil && len(ts) > 0 ==> ws.ghost_pos == ghost_last
// The i-th data block belongs to the i-th tensor info (same list, same order, list untouched
// in between): the tensor declared at position i is the tensor written at position i, for
// every i (anytensor(0) is an arbitrary index). A tensor is identified by its shape array,
// kind and name length (its byte size, which the layout depends on, is a function of these).
//@   ghost-at after call ggufWriteTensorInfo #1 : ghost_shj := ite(rangeindex + 1 == anytensor(0), blk(t.Shape), ghost_shj)
//@   ghost-at after call ggufWriteTensorInfo #1 : ghost_kdj := ite(rangeindex + 1 == anytensor(0), t.Kind, ghost_kdj)
//@   ghost-at after call ggufWriteTensorInfo #1 : ghost_nmj := ite(rangeindex + 1 == anytensor(0), len(t.Name), ghost_nmj)
//@   loop 2 invariant 0 <= anytensor(0) && anytensor(0) <= rangeindex ==> ghost_shj == blk(ts[anytensor(0)].Shape) && ghost_kdj == ts[anytensor(0)].Kind && ghost_nmj == len(ts[anytensor(0)].Name)
//@   assert-at call ggufWriteTensor #1 : rangeindex + 1 == anytensor(0) ==> blk(arg1.Shape) == ghost_shj && arg1.Kind == ghost_kdj && len(arg1.Name) == ghost_nmj
// ---- added by the coverage extension (appended) ----
// every record goes to THIS stream; each key is written with ITS value (the i-th sorted key and
// kv[that key] - not a stale key or the value of another key); the data blocks are padded with the
// SAME alignment the declared offsets were computed with (otherwise the two recurrences differ).
//@   assert-at call ggufWriteKV #1 : arg0 == ws
//@   assert-at call ggufWriteKV #1 : arg1 == keys[rangeindex + 1]
//@   assert-at call ggufWriteKV #1 : has(kv, arg1) ==> arg2 == kv[arg1]
//@   assert-at call ggufWriteTensorInfo #1 : arg0 == ws
//@   assert-at call ggufWriteTensor #1 : arg0 == ws && arg2 == alignment

// C05 "decodes to the same keys and values": the type tag written for a value is the GGUF
// constant of its Go type (the constants gguf.Decode / readGGUFArray switch on), the key is
// written as u64 length + bytes (what readGGUFString reads)
//@ func ggufWriteKV
//@   assert-at call Write #1 : binsize(arg2) == 8
//@   assert-at call Write #2 : binsize(arg2) == len(k)
//@   assert-at call writeGGUF #1 : arg1 == 4
//@   assert-at call writeGGUF #2 : arg1 == 6
//@   assert-at call writeGGUF #3 : arg1 == 7
//@   assert-at call writeGGUFArray #1 : arg1 == 5
//@   assert-at call writeGGUFArray #2 : arg1 == 4
//@   assert-at call writeGGUFArray #3 : arg1 == 6
//@   assert-at call Write #3 : binsize(arg2) == 4
//@   assert-at call Write #4 : binsize(arg2) == 4
//@   assert-at call Write #5 : binsize(arg2) == 8
//@   assert-at call Write #6 : binsize(arg2) == 8
//@   assert-at call Write #7 : binsize(arg2) == len(e)
// ---- added by the coverage extension (appended): the value record directly follows the key (u64
// ---- length + bytes) - no byte in between, whatever the value's type; every writer gets THIS stream;
// ---- the []string record is tag, element tag, u64 count, then per element u64 length + bytes.
//@   ghost-at entry : ghost_k0 := ws.ghost_pos
//@   assert-at call Write #1 : arg0 == ws
//@   assert-at call Write #2 : arg0 == ws && ws.ghost_pos == ghost_k0 + 8
//@   assert-at call writeGGUF #1 : arg0 == ws && ws.ghost_pos == ghost_k0 + 8 + len(k)
//@   assert-at call writeGGUF #2 : arg0 == ws && ws.ghost_pos == ghost_k0 + 8 + len(k)
//@   assert-at call writeGGUF #3 : arg0 == ws && ws.ghost_pos == ghost_k0 + 8 + len(k)
//@   assert-at call writeGGUFString #1 : arg0 == ws && ws.ghost_pos == ghost_k0 + 8 + len(k)
//@   assert-at call writeGGUFArray #1 : arg0 == ws && ws.ghost_pos == ghost_k0 + 8 + len(k)
//@   assert-at call writeGGUFArray #2 : arg0 == ws && ws.ghost_pos == ghost_k0 + 8 + len(k)
//@   assert-at call writeGGUFArray #3 : arg0 == ws && ws.ghost_pos == ghost_k0 + 8 + len(k)
//@   assert-at call Write #3 : arg0 == ws && ws.ghost_pos == ghost_k0 + 8 + len(k)
//@   assert-at call Write #4 : arg0 == ws && ws.ghost_pos == ghost_k0 + 8 + len(k) + 4
//@   assert-at call Write #5 : arg0 == ws && ws.ghost_pos == ghost_k0 + 8 + len(k) + 8
//@   loop 1 invariant rangeindex == -1 ==> ws.ghost_pos == ghost_k0 + 8 + len(k) + 16
//@   ghost-at call Write #6 : ghost_e0 := ws.ghost_pos
//@   assert-at call Write #6 : arg0 == ws
//@   assert-at call Write #7 : arg0 == ws && ws.ghost_pos == ghost_e0 + 8

// ---- C10 audit: the typed array accessors (the KV.* helpers of "where it lives"). They index
// ---- and type-assert what the file declared.
// ---- GENUINE FINDING (reproduced, see audit report): the element type of an array is whatever
// ---- the file declared, the accessors assert string / int32 / float32 without a check ->
// ---- safe.typeassert.1 of each fails on the pinned tree. Only the type assertions are claimed
// ---- here; the index r.values[i] additionally needs "the array was collected" (callers decode
// ---- with maxArraySize -1), which is not stated.
//@ func (KV).Strings
//@   opt safe typeassert
//@ func (KV).Uints
//@   opt safe typeassert
//@ func (KV).Floats
//@   opt safe typeassert
