//go:build verif

// Contracts for package fs/ggml, checked by /verif/govc (contract-based deductive
// verification). Comment-only: compiled only under the "verif" build tag and then
// still contributes no code.
package ggml

//@ func ggufPadding
//@   requires align > 0 && align < (1 << 62)
//@   modifies nothing
//@   ensures  result == pad(offset, align)
//@   ensures  offset >= 0 ==> 0 <= result && result < align
//@   ensures  offset >= 0 ==> (offset + result) % align == 0
//@   ensures  offset >= 0 && offset % align == 0 ==> result == 0

// ---- decode path (C10): every function between ggml.Decode and the bytes of the file.
// ---- Readers are opaque; every decoded integer is unconstrained within its type.

//@ func (*containerGGUF).canCollectArray
//@   modifies nothing
//@   ensures result <==> (c.maxArraySize < 0 || size <= c.maxArraySize)

//@ func newGGUF
//@   modifies nothing
//@   ensures fresh(result) && result.kv != nil && fresh(result.kv) && result.containerGGUF == container

//@ func readGGUF
//@   modifies nothing

//@ func readGGUFV1String
//@   modifies nothing

// C10 termination ("never fails to terminate"): the decoder only moves FORWARD in its input.
// Every relative seek has a non-negative offset (a size taken from the file that is negative
// as an int64 would move back and let the caller decode the same bytes again, for ever), and
// the one loop whose count is not a range reads at least one byte per iteration.
// this.ghost_pos is the read position; a successful relative seek moves it by the offset and
// returns it (C05: "the end offset reported by the decoder equals the file length")
//@ extern func io.(ReadSeeker).Seek
//@   requires whence == 1 ==> offset >= 0
//@   modifies this.ghost_pos
//@   ensures result.1 == nil ==> result.0 >= 0
//@   ensures result.1 == nil && whence == 1 ==> this.ghost_pos == old(this.ghost_pos) + offset && result.0 == this.ghost_pos
//@   ensures result.1 != nil ==> this.ghost_pos == old(this.ghost_pos)
//@ extern func io.(Seeker).Seek
//@   requires whence == 1 ==> offset >= 0
//@   modifies nothing
//@   ensures result.1 == nil ==> result.0 >= 0

//@ func discardGGUFString
//@   modifies llm.scratch
//@   loop 1 decreases size

//@ func readGGUFString
//@   modifies llm.scratch

//@ func readGGUFV1Array
//@   modifies llm.scratch

//@ func readGGUFArray
//@   modifies llm.scratch

//@ extern func fmt.Errorf
//@   modifies nothing
//@   ensures result != nil
//@ extern func errors.New
//@   modifies nothing
//@   ensures result != nil
//@ func (*gguf).Decode
//@   requires llm.kv != nil
// the well-known key the decoder patches is what the default-less accessor KV.ParameterCount
// relies on: after a successful Decode it is present and holds a uint64 (whatever the file
// declared under that key) - added after seeded change C10-seed3
//@   ensures result == nil ==> has(llm.kv, "general.parameter_count") && tagis(llm.kv["general.parameter_count"], "uint64")
// C05, decoder side of the layout: after the header (Seek #1 reports where it ends) the decoder
// moves only over the tensors: per tensor the padding of the CURRENT position to the alignment
// (the same `pad` the writer uses) and the tensor's size. So the end offset is the header end
// plus that layout, and with no tensors it is the header end itself (added after C05-seed3).
//@   ghost-at after call Seek #1 : ghost_hdr := result.0
//@   loop 4 invariant rangeindex == -1 ==> rs.ghost_pos == ghost_hdr
//@   assert-at call Seek #3 : arg2 == 1 && arg1 == pad(rs.ghost_pos, alignment)
//@   assert-at call Seek #4 : arg2 == 1 && arg1 == tensor.Size()
//@   ensures result == nil && len(llm.tensors) == 0 ==> rs.ghost_pos == ghost_hdr
//@   modifies llm.scratch, llm.kv, llm.tensors, llm.parameters, llm.tensorOffset
//@   loop 3 invariant 0 <= i && i <= dims

//@ func (*containerGGUF).Decode
//@   modifies *c

//@ func (Tensor).blockSize
//@   pure reads none
//@   ensures result == 1 || result == 32 || result == 256

//@ func (Tensor).typeSize
//@   pure reads none

//@ func (Tensor).parameters
//@   pure reads uint64

//@ func (Tensor).Size
//@   pure reads uint64

//@ func DetectContentType
//@   modifies nothing

// (KV.ParameterCount calls keyValue[uint64] without a default: it relies on the postcondition
// of gguf.Decode about "general.parameter_count"; the accessor itself is not under contract)

//@ func keyValue
//@   requires len(defaultValue) >= 1
//@   modifies nothing

//@ func (*gguf).numKV
//@   modifies nothing
//@ func (*gguf).numTensor
//@   modifies nothing
//@ func (KV).Architecture
//@   modifies nothing
//@ func (KV).String
//@   modifies nothing
//@ func (KV).Uint
//@   modifies nothing

// ---- accessors used by the memory estimator (C16). Model metadata is immutable after
// ---- decoding, so these are functions of their receiver only (assumption A-meta).
// ---- Size bounds are range assumptions: no real model approaches them.

//@ extern func (model).KV
//@   pure reads none
//@ extern func (model).Tensors
//@   pure reads none
//@ extern func (KV).BlockCount
//@   pure reads none
//@   ensures result <= 65536
//@ extern func (KV).GQA
//@   pure reads none
//@   ensures result <= 1024
//@ extern func (Tensors).GroupLayers
//@   pure reads none
//@   ensures result != nil
//@ extern func (Layer).Size
//@   pure reads none
//@   ensures result < (1 << 40)
//@ extern func (GGML).GraphSize
//@   pure reads none
//@   ensures len(result.0) == f.KV().BlockCount()
//@   ensures result.1 < (1 << 50) && result.2 < (1 << 50)
//@   ensures forall k int :: 0 <= k && k < len(result.0) ==> result.0[k] < (1 << 34)
//@ extern func (GGML).VisionGraphSize
//@   pure reads none
//@   ensures result.0 < (1 << 44) && result.1 < (1 << 44)
//@ extern func (GGML).SupportsFlashAttention
//@   pure reads none
//@ extern func (GGML).SupportsKVCacheType
//@   pure reads none

// ---- GGUF writer layout (C05). The stream position of the io.WriteSeeker is the ghost
// ---- field ws.ghost_pos; encoding/binary.Write advances it by the encoded size, Seek(0,
// ---- SeekCurrent) returns it. ghost_end (ghost variable of WriteGGUF) is the end of the
// ---- previous tensor's data relative to the start of the data section.

//@ spec func pad(off int, al int) int = (al - off % al) % al

//@ lemma pad_aligned(off int, al int)
//@   requires al > 0 && off >= 0
//@   ensures 0 <= pad(off, al) && pad(off, al) < al && (off + pad(off, al)) % al == 0

//@ func ggufWriteTensorInfo
//@   modifies ws.ghost_pos

//@ func ggufWriteTensor
//@   requires alignment > 0 && alignment < (1 << 62)
//@   modifies ws.ghost_pos
//@   assume-at after call WriteTo #1 : result.1 == nil ==> result.0 == t.Size()    -- what callers of WriteGGUF owe: a tensor's WriterTo writes exactly Size() bytes
//@   ensures result == nil ==> ws.ghost_pos == old(ws.ghost_pos) + pad(old(ws.ghost_pos), alignment) + t.Size()

// WriteGGUF: the offset declared for a tensor is the aligned end of the previous tensor,
// i.e. declared offsets obey  off(0) = 0, off(i+1) = alignup(off(i) + Size(i));
// ggufWriteTensor's contract gives the data positions the same recurrence from the
// aligned start D of the data section, so data(i) - D == off(i) (induction, pad_shift).
// Loops: 1 keys, 2 tensor infos, 3 tensor data.
//@ func WriteGGUF
//@   assume-at call Write #1 : alignment > 0        -- general.alignment = 0 is not a valid GGUF (the writer would divide by zero)
//@   ghost-at entry : ghost_end := 0
//@   assert-at call ggufWriteTensorInfo #1 : t.Offset == ghost_end + pad(ghost_end, alignment)
//@   ghost-at after call ggufWriteTensorInfo #1 : ghost_end := t.Offset + t.Size()
//@   requires len(ts) <= (1 << 20)
//@   assume-at after call Size #1 : result < (1 << 40)          -- range assumption: a tensor is smaller than 1 TiB
//@   assume-at call ggufWriteTensorInfo #1 : alignment < (1 << 40)
//@   loop 2 invariant s == ghost_end
//@   loop 2 invariant s <= (rangeindex + 1) * (1 << 41)
