//go:build verif

// Contracts for package fs/ggml, checked by /verif/govc (contract-based deductive
// verification). Comment-only: compiled only under the "verif" build tag and then
// still contributes no code.
package ggml

//@ func ggufPadding
//@   requires align > 0 && offset >= 0
//@   ensures  0 <= result && result < align
//@   ensures  (offset + result) % align == 0
//@   ensures  offset % align == 0 ==> result == 0

// ---- decode path (C10): every function between ggml.Decode and the bytes of the file.
// ---- Readers are opaque; every decoded integer is unconstrained within its type.

//@ func (*containerGGUF).canCollectArray
//@   modifies nothing
//@   ensures result <==> (c.maxArraySize < 0 || size <= c.maxArraySize)

//@ func newGGUF
//@   modifies nothing
//@   ensures fresh(result) && result.kv != nil && fresh(result.kv) && result.containerGGUF == container

//@ func readGGUF
//@   modifies nothing

//@ func readGGUFV1String
//@   modifies nothing

//@ func discardGGUFString
//@   modifies llm.scratch

//@ func readGGUFString
//@   modifies llm.scratch

//@ func readGGUFV1Array
//@   modifies llm.scratch

//@ func readGGUFArray
//@   modifies llm.scratch

//@ func (*gguf).Decode
//@   requires llm.kv != nil
//@   modifies llm.scratch, llm.kv, llm.tensors, llm.parameters, llm.tensorOffset
//@   loop 3 invariant 0 <= i && i <= dims

//@ func (*containerGGUF).Decode
//@   modifies *c

//@ func (Tensor).blockSize
//@   modifies nothing
//@   ensures result == 1 || result == 32 || result == 256

//@ func (Tensor).typeSize
//@   modifies nothing

//@ func (Tensor).parameters
//@   modifies nothing

//@ func (Tensor).Size
//@   modifies nothing

//@ func DetectContentType
//@   modifies nothing

//@ func keyValue
//@   requires len(defaultValue) >= 1
//@   modifies nothing

//@ func (*gguf).numKV
//@   modifies nothing
//@ func (*gguf).numTensor
//@   modifies nothing
//@ func (KV).Architecture
//@   modifies nothing
//@ func (KV).String
//@   modifies nothing
//@ func (KV).Uint
//@   modifies nothing

// ---- accessors used by the memory estimator (C16). Model metadata is immutable after
// ---- decoding, so these are functions of their receiver only (assumption A-meta).
// ---- Size bounds are range assumptions: no real model approaches them.

//@ extern func (model).KV
//@   pure reads none
//@ extern func (model).Tensors
//@   pure reads none
//@ extern func (KV).BlockCount
//@   pure reads none
//@   ensures result <= 65536
//@ extern func (KV).GQA
//@   pure reads none
//@   ensures result <= 1024
//@ extern func (Tensors).GroupLayers
//@   pure reads none
//@   ensures result != nil
//@ extern func (Layer).Size
//@   pure reads none
//@   ensures result < (1 << 40)
//@ extern func (GGML).GraphSize
//@   pure reads none
//@   ensures len(result.0) == f.KV().BlockCount()
//@   ensures result.1 < (1 << 50) && result.2 < (1 << 50)
//@   ensures forall k int :: 0 <= k && k < len(result.0) ==> result.0[k] < (1 << 34)
//@ extern func (GGML).VisionGraphSize
//@   pure reads none
//@   ensures result.0 < (1 << 44) && result.1 < (1 << 44)
//@ extern func (GGML).SupportsFlashAttention
//@   pure reads none
//@ extern func (GGML).SupportsKVCacheType
//@   pure reads none
