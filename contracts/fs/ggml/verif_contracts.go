//go:build verif

// Contracts for package fs/ggml, checked by /verif/govc (contract-based deductive
// verification). Comment-only: compiled only under the "verif" build tag and then
// still contributes no code.
package ggml

//@ func ggufPadding
//@   requires align > 0 && offset >= 0
//@   ensures  0 <= result && result < align
//@   ensures  (offset + result) % align == 0
//@   ensures  offset % align == 0 ==> result == 0
