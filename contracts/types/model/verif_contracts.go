//go:build verif

// Contracts for package types/model, checked by /verif/govc.
package model

//@ spec func alnumu(c int) bool = (65 <= c && c <= 90) || (97 <= c && c <= 122) || (48 <= c && c <= 57) || c == 95
//@ spec func partmax(kind int) int = ite(kind == 0, 350, 80)
//@ spec func partchar(kind int, c int) bool = alnumu(c) || c == 45 || (c == 46 && kind != 1) || (c == 58 && (kind == 0 || kind == 4))
//@ spec func validpart(kind int, s string) bool = len(s) >= 1 && len(s) <= partmax(kind) && alnumu(s[0]) && forall j int :: 1 <= j && j < len(s) ==> partchar(kind, s[j])

//@ func isAlphanumericOrUnderscore
//@   ensures result <==> alnumu(c)

//@ func isValidLen
//@   ensures result <==> (len(s) >= 1 && len(s) <= partmax(kind))

//@ func isValidPart
//@   ensures result <==> validpart(kind, s)
//@   loop 1 invariant 0 <= rangeidx && rangeidx <= len(s) && len(s) >= 1 && len(s) <= partmax(kind)
//@   loop 1 invariant rangeidx >= 1 ==> alnumu(s[0])
//@   loop 1 invariant forall j int :: 1 <= j && j < rangeidx ==> partchar(kind, s[j])

//@ lemma validpart_no_separators(kind int, s string, j int)
//@   requires validpart(kind, s) && 0 <= j && j < len(s)
//@   ensures s[j] != 47 && s[j] != 92 && s[j] != 0 && s[0] != 46

// ===== C13: names accepted by the validators cannot leave the model store =====================
//
// Trusted library contracts used by the C13 packages (types/model, server/internal/internal/names,
// server). They live here because _extern.go is shared; every property that loads the names or
// server C13 block must also load this file (props "contract_packages": ["types/model"]).
// Strings are compared by identity of opaque ids in govc; "" is the id `sempty`.

// Engine gap (reported): the zero value of a string is encoded as id 0, the literal "" as
// `sempty`; nothing links them. Both denote the empty string, and the empty string is unique.
//@ axiom "" == 0
//@ axiom forall s string :: len(s) == 0 ==> s == ""

//@ spec func ssplitn(s string, sep string) int
//@ spec func ssplitpart(s string, sep string, k int) string
//@ spec func sfoldeq(s string, t string) bool
//@ spec func fpjoin2(a string, b string) string
//@ spec func fpjoin3(a string, b string, c string) string
//@ spec func fpjoin4(a string, b string, c string, d string) string

//@ extern func strings.LastIndex
//@   pure
//@   ensures result == slastindex(s, substr)
//@   ensures result == -1 || (0 <= result && result + len(substr) <= len(s))
//@   ensures result >= 0 <==> scontains(s, substr)
//@   ensures len(substr) == 1 && result >= 0 ==> s[result] == substr[0]
//@   ensures len(substr) == 1 ==> forall j int :: result < j && j < len(s) ==> s[j] != substr[0]

// sanyof(chars, c): byte c occurs in chars. Byte-wise reading of IndexAny/LastIndexAny, stated
// only for ASCII `chars` (for other sets the functions work on runes).
//@ spec func sanyof(chars string, c int) bool = exists k int :: 0 <= k && k < len(chars) && chars[k] == c
//@ spec func asciistr(chars string) bool = forall k int :: 0 <= k && k < len(chars) ==> chars[k] < 128
// (strings.IndexAny is declared in the C08 contract file of server/internal/cache/blob, its only user.)

//@ extern func strings.Cut
//@   pure
//@   ensures result.2 <==> scontains(s, sep)
//@   ensures !result.2 ==> result.0 == s && result.1 == ""
//@   ensures result.2 ==> 0 <= sindex(s, sep) && sindex(s, sep) + len(sep) <= len(s)
//@   ensures result.2 ==> result.0 == s[0:sindex(s, sep)] && result.1 == s[sindex(s, sep)+len(sep):len(s)]
//@   ensures result.2 ==> len(result.0) == sindex(s, sep) && len(result.1) == len(s) - sindex(s, sep) - len(sep)

//@ extern func strings.Split
//@   modifies nothing
//@   ensures len(result) == ssplitn(s, sep)
//@   ensures len(sep) >= 1 ==> len(result) >= 1
//@   ensures forall k int :: 0 <= k && k < len(result) ==> result[k] == ssplitpart(s, sep, k)

//@ extern func strings.EqualFold
//@   pure
//@   ensures result <==> sfoldeq(s, t)

//@ extern func cmp.Or
//@   pure
//@   ensures len(vals) == 2 ==> result == ite(vals[0] != "", vals[0], vals[1])

// filepath.Join is an uninterpreted function of its elements (see props/C13.json assumptions
// for what is assumed about it).
//@ extern func path/filepath.Join
//@   pure
//@   ensures len(elem) == 2 ==> result == fpjoin2(elem[0], elem[1])
//@   ensures len(elem) == 3 ==> result == fpjoin3(elem[0], elem[1], elem[2])
//@   ensures len(elem) == 4 ==> result == fpjoin4(elem[0], elem[1], elem[2], elem[3])

// ---- digest shape (used by the server block and offered to C08 for blob.ParseDigest) ----
//@ spec func hexdig(c int) bool = (48 <= c && c <= 57) || (97 <= c && c <= 102) || (65 <= c && c <= 70)
// "sha256" + (':' | '-') + 64 hex digits, nothing else: what ^sha256[:-][0-9a-fA-F]{64}$ accepts
//@ spec func digestshape(s string) bool = len(s) == 71 && s[0] == 115 && s[1] == 104 && s[2] == 97 && s[3] == 50 && s[4] == 53 && s[5] == 54 && (s[6] == 58 || s[6] == 45) && forall j int :: 7 <= j && j < 71 ==> hexdig(s[j])
// the file name below blobs/: "sha256-" + 64 hex digits (no separator byte, not dot-first)
//@ spec func blobfile(s string) bool = len(s) == 71 && s[0] == 115 && s[1] == 104 && s[2] == 97 && s[3] == 50 && s[4] == 53 && s[5] == 54 && s[6] == 45 && forall j int :: 7 <= j && j < 71 ==> hexdig(s[j])

// ---- the validator over a whole name ----

//@ spec func fqname(h string, n string, m string, t string) bool = validpart(0, h) && validpart(1, n) && validpart(2, m) && validpart(3, t)

//@ func (Name).IsFullyQualified
//@   pure reads none
//@   ensures result <==> fqname(n.Host, n.Namespace, n.Model, n.Tag)
//@   loop 1 invariant -1 <= rangeindex && rangeindex <= 3
//@   loop 1 invariant rangeindex >= 0 ==> validpart(0, n.Host)
//@   loop 1 invariant rangeindex >= 1 ==> validpart(1, n.Namespace)
//@   loop 1 invariant rangeindex >= 2 ==> validpart(2, n.Model)
//@   loop 1 invariant rangeindex >= 3 ==> validpart(3, n.Tag)

//@ func (Name).IsValid
//@   pure reads none
//@   ensures result <==> fqname(n.Host, n.Namespace, n.Model, n.Tag)

//@ func IsValidNamespace
//@   ensures result <==> validpart(1, s)

// Filepath: the panic is unreachable for fully qualified names; the path is the join of
// exactly the four validated parts.
//@ func (Name).Filepath
//@   requires fqname(n.Host, n.Namespace, n.Model, n.Tag)
//@   ensures result == fpjoin4(n.Host, n.Namespace, n.Model, n.Tag)
// (audit) Filepath's own refusal stays in place: the join is reached only after IsFullyQualified was
// called on the receiver and answered true. (Callers outside the verified set get no obligation from
// the `requires`; for them the panic is the only guard. If the test is deleted or replaced by
// another one these clauses no longer bind / no longer hold.)
//@   ghost-at entry : ghost_fq := 0
//@   ghost-at after call IsFullyQualified #1 : ghost_fq := ite(result, 1, 0)
//@   assert-at call Join #1 : ghost_fq == 1

//@ func ParseNameFromFilepath
//@   ensures (n.Host == "" && n.Namespace == "" && n.Model == "" && n.Tag == "") || fqname(n.Host, n.Namespace, n.Model, n.Tag)
//@   ensures n.Host != "" ==> ssplitn(s, "/") == 4 && n.Host == ssplitpart(s, "/", 0) && n.Namespace == ssplitpart(s, "/", 1) && n.Model == ssplitpart(s, "/", 2) && n.Tag == ssplitpart(s, "/", 3)
//@   ensures ssplitn(s, "/") == 4 && fqname(ssplitpart(s, "/", 0), ssplitpart(s, "/", 1), ssplitpart(s, "/", 2), ssplitpart(s, "/", 3)) ==> n.Host == ssplitpart(s, "/", 0)

// ---- the parser: splitting at the last separator ----

//@ func cutLast
//@   pure reads none
//@   ensures result.2 <==> slastindex(s, sep) >= 0
//@   ensures !result.2 ==> result.0 == s && result.1 == ""
//@   ensures result.2 ==> result.0 == s[0:slastindex(s, sep)] && result.1 == s[slastindex(s, sep)+len(sep):len(s)]
//@   ensures result.2 ==> len(result.0) == slastindex(s, sep) && len(result.0) + len(sep) + len(result.1) == len(s)
//@   ensures result.2 ==> forall j int :: 0 <= j && j < len(result.0) ==> result.0[j] == s[j]
//@   ensures result.2 ==> forall j int :: 0 <= j && j < len(result.1) ==> result.1[j] == s[len(result.0) + len(sep) + j]
//@   ensures result.2 && len(sep) == 1 ==> forall j int :: 0 <= j && j < len(result.1) ==> result.1[j] != sep[0]

//@ func cutPromised
//@   pure reads none
//@   ensures result.2 <==> slastindex(s, sep) >= 0
//@   ensures !result.2 ==> result.0 == s && result.1 == ""
//@   ensures result.2 ==> result.0 == ite(s[0:slastindex(s, sep)] != "", s[0:slastindex(s, sep)], "!MISSING!")
//@   ensures result.2 ==> result.1 == ite(s[slastindex(s, sep)+len(sep):len(s)] != "", s[slastindex(s, sep)+len(sep):len(s)], "!MISSING!")
//@   ensures result.2 ==> result.0 != "" && result.1 != ""

//@ func Merge
//@   pure reads none
//@   ensures result.Host == ite(a.Host != "", a.Host, b.Host)
//@   ensures result.Namespace == ite(a.Namespace != "", a.Namespace, b.Namespace)
//@   ensures result.Tag == ite(a.Tag != "", a.Tag, b.Tag)
//@   ensures result.Model == a.Model

//@ func (Name).EqualFold
//@   pure reads none
//@   ensures result <==> (sfoldeq(n.Host, o.Host) && sfoldeq(n.Namespace, o.Namespace) && sfoldeq(n.Model, o.Model) && sfoldeq(n.Tag, o.Tag))

// ---- printing: strings.Builder as a ghost accumulator -------------------------------------
// b.ghost_acc is an abstract token for the bytes written so far (0 for a fresh Builder),
// bstr(token) the accumulated string, sbyte(c) the one-byte string c.
//@ spec func bstr(acc int) string
//@ spec func sbyte(c int) string
//@ axiom bstr(0) == ""
//@ axiom forall x string :: "" + x == x
//@ axiom forall c int :: len(sbyte(c)) == 1 && sbyte(c)[0] == c

//@ extern func strings.(*Builder).WriteString
//@   modifies this.ghost_acc
//@   ensures result.0 == len(s) && result.1 == nil
//@   ensures bstr(this.ghost_acc) == bstr(old(this.ghost_acc)) + s
//@ extern func strings.(*Builder).WriteByte
//@   modifies this.ghost_acc
//@   ensures result == nil
//@   ensures bstr(this.ghost_acc) == bstr(old(this.ghost_acc)) + sbyte(c)
//@ extern func strings.(*Builder).String
//@   modifies nothing
//@   ensures result == bstr(this.ghost_acc)

// ---- string theory (C13 extension). govc treats strings as opaque values with len, s[i], s[a:b], +, ==
// and links none of them. The byte-level meaning of these operations in Go (facts about the language,
// not about /repo; listed in props/C13.json `assumptions`) is assumed where the round trip is proved:
// the assume-at clauses of (Name).String. They are NOT file-level axioms, so that no other function's
// proof can lean on them. seqx(x, y): same length and same bytes.
//@ spec func seqx(x string, y string) bool := len(x) == len(y) && forall j int :: 0 <= j && j < len(x) ==> x[j] == y[j]
//@ spec func rtZ(h string, n string) string = h + sbyte(47) + n
//@ spec func rtY(h string, n string, m string) string = h + sbyte(47) + n + sbyte(47) + m

//@ spec func namestr1(h string) string = ite(h != "", h + sbyte(47), "")
//@ spec func namestr2(h string, n string) string = ite(n != "", namestr1(h) + n + sbyte(47), namestr1(h))
//@ spec func namestr(h string, n string, m string, t string) string = ite(t != "", namestr2(h, n) + m + sbyte(58) + t, namestr2(h, n) + m)

// String prints host/namespace/model:tag, leaving out empty host, namespace and tag.
//@ func (Name).String
//@   ensures result == namestr(n.Host, n.Namespace, n.Model, n.Tag)
// string theory, assumed here only (see the block "string theory" below): concatenation; substring;
// extensionality (behind the marker seqx, so that it is applied only where a clause asks for it);
// strings.LastIndex / Contains / Index on the spec level (the facts the trusted contract of
// strings.LastIndex states at its call sites: for a one-byte separator the position of its last
// occurrence; an occurrence of t in s starts at sindex(s, t))
//@   assume-at return : (forall a string, b string :: len(a + b) == len(a) + len(b)) && (forall a string, b string, j int :: 0 <= j && j < len(a) + len(b) ==> (a + b)[j] == ite(j < len(a), a[j], b[j - len(a)]))
//@   assume-at return : (forall s string, lo int, hi int :: 0 <= lo && lo <= hi && hi <= len(s) ==> len(s[lo:hi]) == hi - lo) && (forall s string, lo int, hi int, j int :: 0 <= lo && lo <= hi && hi <= len(s) && 0 <= j && j < hi - lo ==> s[lo:hi][j] == s[lo + j])
//@   assume-at return : forall x string, y string :: seqx(x, y) ==> x == y
//@   assume-at return : (forall s string, c string :: len(c) == 1 ==> -1 <= slastindex(s, c) && slastindex(s, c) < len(s) && (slastindex(s, c) >= 0 ==> s[slastindex(s, c)] == c[0]) && (forall j int :: slastindex(s, c) < j && j < len(s) ==> s[j] != c[0])) && (forall s string, t string :: scontains(s, t) ==> 0 <= sindex(s, t) && sindex(s, t) + len(t) <= len(s) && (forall i int :: 0 <= i && i < len(t) ==> s[sindex(s, t) + i] == t[i]))
// ---- C13 extension: the print/parse round trip for ALL accepted names (replaces the bounded stand-in) ----
// For a fully qualified name the printed string S = H "/" N "/" M ":" T is read back by
// ParseNameBare with exactly the parts H, N, M, T: the pnb* functions below are ParseNameBare's
// PROVED functional contract (result.Tag == pnbtag(s), ...), so post.2 is
// ParseNameBare(n.String()) == n for every accepted n. Stepping stones (assert-at return: proved,
// then assumed): where the last ':' and the last '/' of S, of S minus the tag, of S minus model and
// tag lie, and what the substrings cut there are (seqx = same length and same bytes; strext: such
// strings are equal). String theory used: see the axioms in the block "string theory" below.
//@   assert-at return : fqname(n.Host, n.Namespace, n.Model, n.Tag) ==> result == rtY(n.Host, n.Namespace, n.Model) + sbyte(58) + n.Tag && len(result) == (len(n.Host) + len(n.Namespace) + len(n.Model) + 2) + 1 + len(n.Tag) && len(rtY(n.Host, n.Namespace, n.Model)) == (len(n.Host) + len(n.Namespace) + len(n.Model) + 2) && len(rtZ(n.Host, n.Namespace)) == (len(n.Host) + len(n.Namespace) + 1)
//@   assert-at return : fqname(n.Host, n.Namespace, n.Model, n.Tag) ==> n.Host != "" && n.Namespace != "" && n.Model != "" && n.Tag != "" && rtY(n.Host, n.Namespace, n.Model) != "" && rtZ(n.Host, n.Namespace) != ""
//@   assert-at return : fqname(n.Host, n.Namespace, n.Model, n.Tag) ==> (forall j int :: 0 <= j && j < len(n.Tag) ==> n.Tag[j] != 47 && n.Tag[j] != 58) && (forall j int :: 0 <= j && j < len(n.Model) ==> n.Model[j] != 47 && n.Model[j] != 58) && (forall j int :: 0 <= j && j < len(n.Namespace) ==> n.Namespace[j] != 47 && n.Namespace[j] != 58) && (forall j int :: 0 <= j && j < len(n.Host) ==> n.Host[j] != 47)
//@   assert-at return : fqname(n.Host, n.Namespace, n.Model, n.Tag) ==> rtZ(n.Host, n.Namespace)[len(n.Host)] == 47 && (forall k int :: len(n.Host) < k && k < (len(n.Host) + len(n.Namespace) + 1) ==> rtZ(n.Host, n.Namespace)[k] != 47) && (forall k int :: 0 <= k && k < len(n.Host) ==> rtZ(n.Host, n.Namespace)[k] == n.Host[k])
//@   assert-at return : fqname(n.Host, n.Namespace, n.Model, n.Tag) ==> rtY(n.Host, n.Namespace, n.Model)[(len(n.Host) + len(n.Namespace) + 1)] == 47 && (forall k int :: (len(n.Host) + len(n.Namespace) + 1) < k && k < (len(n.Host) + len(n.Namespace) + len(n.Model) + 2) ==> rtY(n.Host, n.Namespace, n.Model)[k] != 47 && rtY(n.Host, n.Namespace, n.Model)[k] != 58) && (forall k int :: 0 <= k && k < (len(n.Host) + len(n.Namespace) + 1) ==> rtY(n.Host, n.Namespace, n.Model)[k] == rtZ(n.Host, n.Namespace)[k])
//@   assert-at return : fqname(n.Host, n.Namespace, n.Model, n.Tag) ==> result[(len(n.Host) + len(n.Namespace) + len(n.Model) + 2)] == 58 && (forall k int :: (len(n.Host) + len(n.Namespace) + len(n.Model) + 2) < k && k < len(result) ==> result[k] != 47 && result[k] != 58) && (forall k int :: 0 <= k && k < (len(n.Host) + len(n.Namespace) + len(n.Model) + 2) ==> result[k] == rtY(n.Host, n.Namespace, n.Model)[k])
//@   assert-at return : fqname(n.Host, n.Namespace, n.Model, n.Tag) ==> slastindex(result, ":") == (len(n.Host) + len(n.Namespace) + len(n.Model) + 2)
//@   assert-at return : fqname(n.Host, n.Namespace, n.Model, n.Tag) ==> slastindex(result, "/") == (len(n.Host) + len(n.Namespace) + 1)
//@   assert-at return : fqname(n.Host, n.Namespace, n.Model, n.Tag) ==> seqx(result[slastindex(result, ":")+1:len(result)], n.Tag) && seqx(result[0:slastindex(result, ":")], rtY(n.Host, n.Namespace, n.Model))
//@   assert-at return : fqname(n.Host, n.Namespace, n.Model, n.Tag) ==> result[slastindex(result, ":")+1:len(result)] == n.Tag && result[0:slastindex(result, ":")] == rtY(n.Host, n.Namespace, n.Model)
//@   assert-at return : fqname(n.Host, n.Namespace, n.Model, n.Tag) ==> pnbtag(result) == n.Tag && pnbr1(result) == rtY(n.Host, n.Namespace, n.Model)
//@   assert-at return : fqname(n.Host, n.Namespace, n.Model, n.Tag) ==> slastindex(rtY(n.Host, n.Namespace, n.Model), "/") == (len(n.Host) + len(n.Namespace) + 1)
//@   assert-at return : fqname(n.Host, n.Namespace, n.Model, n.Tag) ==> seqx(rtY(n.Host, n.Namespace, n.Model)[slastindex(rtY(n.Host, n.Namespace, n.Model), "/")+1:len(rtY(n.Host, n.Namespace, n.Model))], n.Model) && seqx(rtY(n.Host, n.Namespace, n.Model)[0:slastindex(rtY(n.Host, n.Namespace, n.Model), "/")], rtZ(n.Host, n.Namespace))
//@   assert-at return : fqname(n.Host, n.Namespace, n.Model, n.Tag) ==> rtY(n.Host, n.Namespace, n.Model)[slastindex(rtY(n.Host, n.Namespace, n.Model), "/")+1:len(rtY(n.Host, n.Namespace, n.Model))] == n.Model && rtY(n.Host, n.Namespace, n.Model)[0:slastindex(rtY(n.Host, n.Namespace, n.Model), "/")] == rtZ(n.Host, n.Namespace)
//@   assert-at return : fqname(n.Host, n.Namespace, n.Model, n.Tag) ==> pnbcutafter(rtY(n.Host, n.Namespace, n.Model)) == n.Model && pnbcutbefore(rtY(n.Host, n.Namespace, n.Model)) == rtZ(n.Host, n.Namespace)
//@   assert-at return : fqname(n.Host, n.Namespace, n.Model, n.Tag) ==> pnbmodel(result) == n.Model
//@   assert-at return : fqname(n.Host, n.Namespace, n.Model, n.Tag) ==> pnbr2(result) == rtZ(n.Host, n.Namespace)
//@   assert-at return : fqname(n.Host, n.Namespace, n.Model, n.Tag) ==> slastindex(rtZ(n.Host, n.Namespace), "/") == len(n.Host)
//@   assert-at return : fqname(n.Host, n.Namespace, n.Model, n.Tag) ==> seqx(rtZ(n.Host, n.Namespace)[slastindex(rtZ(n.Host, n.Namespace), "/")+1:len(rtZ(n.Host, n.Namespace))], n.Namespace)
//@   assert-at return : fqname(n.Host, n.Namespace, n.Model, n.Tag) ==> seqx(rtZ(n.Host, n.Namespace)[0:slastindex(rtZ(n.Host, n.Namespace), "/")], n.Host)
//@   assert-at return : fqname(n.Host, n.Namespace, n.Model, n.Tag) ==> rtZ(n.Host, n.Namespace)[slastindex(rtZ(n.Host, n.Namespace), "/")+1:len(rtZ(n.Host, n.Namespace))] == n.Namespace && rtZ(n.Host, n.Namespace)[0:slastindex(rtZ(n.Host, n.Namespace), "/")] == n.Host
//@   assert-at return : fqname(n.Host, n.Namespace, n.Model, n.Tag) ==> pnbcutafter(rtZ(n.Host, n.Namespace)) == n.Namespace && pnbcutbefore(rtZ(n.Host, n.Namespace)) == n.Host
//@   assert-at return : fqname(n.Host, n.Namespace, n.Model, n.Tag) ==> pnbns(result) == n.Namespace
//@   assert-at return : fqname(n.Host, n.Namespace, n.Model, n.Tag) ==> pnbr3(result) == n.Host
//@   assert-at return : fqname(n.Host, n.Namespace, n.Model, n.Tag) ==> !scontains(n.Host, "://")
//@   assert-at return : fqname(n.Host, n.Namespace, n.Model, n.Tag) ==> pnbtag(result) == n.Tag && pnbmodel(result) == n.Model && pnbns(result) == n.Namespace && pnbhost(result) == n.Host

// ===== C13 strengthening (audit): the parser, the defaults and the short printer are pinned down ====
//
// ParseNameBare is the grammar  [[host "/"] namespace "/"] model [":" tag]  read from the right:
// the tag is what follows the last ':' provided that ':' lies after the last '/'; the model is what
// follows the last '/' of the rest; the namespace what follows the last '/' of that rest; the host
// is what remains, minus a "scheme://" prefix. A part "promised" by its separator but empty is
// the (invalid) marker "!MISSING!". Any change of the parser that moves a boundary, swaps two
// parts, normalises a part (case, trimming) or drops the missing-part marker changes one of these
// functions of s, and with it the print/parse round trip the property demands.
//@ spec func orm(x string) string = ite(x != "", x, "!MISSING!")
//@ spec func pnbhastag(s string) bool = slastindex(s, ":") > slastindex(s, "/")
//@ spec func pnbtag(s string) string = ite(pnbhastag(s), orm(s[slastindex(s, ":")+1:len(s)]), "")
//@ spec func pnbr1(s string) string = ite(pnbhastag(s), orm(s[0:slastindex(s, ":")]), s)
//@ spec func pnbcutafter(x string) string = orm(x[slastindex(x, "/")+1:len(x)])
//@ spec func pnbcutbefore(x string) string = orm(x[0:slastindex(x, "/")])
//@ spec func pnbmodel(s string) string = ite(slastindex(pnbr1(s), "/") >= 0, pnbcutafter(pnbr1(s)), pnbr1(s))
//@ spec func pnbr2(s string) string = pnbcutbefore(pnbr1(s))
//@ spec func pnbns(s string) string = ite(slastindex(pnbr1(s), "/") < 0, "", ite(slastindex(pnbr2(s), "/") >= 0, pnbcutafter(pnbr2(s)), pnbr2(s)))
//@ spec func pnbr3(s string) string = pnbcutbefore(pnbr2(s))
//@ spec func unscheme(x string) string = ite(scontains(x, "://"), x[sindex(x, "://")+3:len(x)], x)
//@ spec func pnbhost(s string) string = ite(slastindex(pnbr1(s), "/") >= 0 && slastindex(pnbr2(s), "/") >= 0, unscheme(pnbr3(s)), "")

//@ func ParseNameBare
//@   pure reads none
//@   ensures result.Tag == pnbtag(s)
//@   ensures result.Model == pnbmodel(s)
//@   ensures result.Namespace == pnbns(s)
//@   ensures result.Host == pnbhost(s)

// The defaults that complete a bare name. (They are what makes "m", "library/m" and
// "registry.ollama.ai/library/m:latest" one model: a changed default silently re-addresses
// every short name.)
//@ func DefaultName
//@   pure reads none
//@   ensures result.Host == "registry.ollama.ai" && result.Namespace == "library" && result.Model == "" && result.Tag == "latest"
//@   ensures validpart(0, result.Host) && validpart(1, result.Namespace) && validpart(3, result.Tag)

// ParseName = the bare parse completed by the defaults: no part of the bare parse is replaced
// unless it is empty, the model never.
//@ func ParseName
//@   pure reads none
//@   ensures result.Host == ite(pnbhost(s) != "", pnbhost(s), "registry.ollama.ai")
//@   ensures result.Namespace == ite(pnbns(s) != "", pnbns(s), "library")
//@   ensures result.Model == pnbmodel(s)
//@   ensures result.Tag == ite(pnbtag(s) != "", pnbtag(s), "latest")

// DisplayShortest prints [host "/" namespace "/" | namespace "/"] model ":" tag; host and namespace
// are left out only when they are (case-insensitively) the defaults that ParseName puts back.
//@ spec func dsprefix(h string, ns string) string = ite(!sfoldeq(h, "registry.ollama.ai"), h + sbyte(47) + ns + sbyte(47), ite(!sfoldeq(ns, "library"), ns + sbyte(47), ""))
//@ func (Name).DisplayShortest
//@   ensures result == dsprefix(n.Host, n.Namespace) + n.Model + ":" + n.Tag
