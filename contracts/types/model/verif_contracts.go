//go:build verif

// Contracts for package types/model, checked by /verif/govc.
package model

//@ spec func alnumu(c int) bool = (65 <= c && c <= 90) || (97 <= c && c <= 122) || (48 <= c && c <= 57) || c == 95
//@ spec func partmax(kind int) int = ite(kind == 0, 350, 80)
//@ spec func partchar(kind int, c int) bool = alnumu(c) || c == 45 || (c == 46 && kind != 1) || (c == 58 && (kind == 0 || kind == 4))
//@ spec func validpart(kind int, s string) bool = len(s) >= 1 && len(s) <= partmax(kind) && alnumu(s[0]) && forall j int :: 1 <= j && j < len(s) ==> partchar(kind, s[j])

//@ func isAlphanumericOrUnderscore
//@   ensures result <==> alnumu(c)

//@ func isValidLen
//@   ensures result <==> (len(s) >= 1 && len(s) <= partmax(kind))

//@ func isValidPart
//@   ensures result <==> validpart(kind, s)
//@   loop 1 invariant 0 <= rangeidx && rangeidx <= len(s) && len(s) >= 1 && len(s) <= partmax(kind)
//@   loop 1 invariant rangeidx >= 1 ==> alnumu(s[0])
//@   loop 1 invariant forall j int :: 1 <= j && j < rangeidx ==> partchar(kind, s[j])

//@ lemma validpart_no_separators(kind int, s string, j int)
//@   requires validpart(kind, s) && 0 <= j && j < len(s)
//@   ensures s[j] != 47 && s[j] != 92 && s[j] != 0 && s[0] != 46
