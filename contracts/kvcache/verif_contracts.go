//go:build verif

// Contracts for package kvcache (property C06: "the KV cache exposes exactly the causal
// history of each sequence"), checked by /verif/govc.
//
// Abstract view of the cache metadata: cell j = (c.cells[j].pos, S_j) with
// S_j = { s | inseq(c.cells[j].sequences, s) }; c.ghost_dat[j] = identity of the K/V row
// stored at location j (ghost array, written only by the trusted contract of moveCells).
//
//	R  (representation invariant)  s in S_j ==> has(c.cellRanges, s) && c.cellRanges[s].min <= j <= c.cellRanges[s].max
//	W  (ranges well formed)        has(c.cellRanges, s) && min <= max ==> 0 <= min && max < len(c.cells)
//	O1 (ownership, ASSUMED at entry and re-established): the backing arrays of different
//	   cells' `sequences` slices are never shared (blk = backing object of a slice)
package kvcache

//@ spec func inseq(xs []int, s int) bool = exists k int :: 0 <= k && k < len(xs) && xs[k] == s
//@ spec func trg(v int) int := v
//@ spec func fid(x float32) int
//@ spec func wfr(mn int, mx int, n int) bool = (mn == 9223372036854775807 && mx == 0) || (0 <= mn && mn <= mx && mx < n)

// ---- trusted library contracts ----
//@ extern func slices.Contains
//@   modifies nothing
//@   ensures result <==> inseq(s, v)
// DeleteFunc works in place: the result is a prefix of s holding exactly the kept elements
//@ extern func slices.DeleteFunc
//@   modifies s[all]
//@   ensures len(result) <= len(s) && result == s[0:len(result)]
//@   ensures forall v int :: inseq(result, v) <==> (old(inseq(s, v)) && !del(v))
// the same fact with a trigger for v (the quantifier above offers the solvers no E-matching trigger for v, v occurs only
// under the existential of inseq): trg is the identity, a caller names the sequences it asks about as trg(x) == x
//@   ensures forall v int :: trg(v) == v ==> (inseq(result, v) <==> (old(inseq(s, v)) && !del(v)))
//@ extern func slices.ContainsFunc
//@   modifies nothing
//@   ensures result <==> exists v int :: inseq(s, v) && f(v)
//@ extern func errors.New
//@   modifies nothing
//@   ensures result != nil
//@ extern func errors.Is
//@   modifies nothing
//@ extern func fmt.Errorf
//@   modifies nothing
//@   ensures result != nil
//@ extern func log/slog.Debug
//@   modifies nothing
//@ extern func math.Inf
//@   pure reads none

// ---- ml.Backend / ml.Context / ml.Tensor (interface calls): they build graph nodes and
// ---- tensors; none of them writes cache metadata or Go slices handed to them.
//@ extern func ml.(Backend).NewContext
//@   modifies nothing
//@ extern func ml.(Context).Input
//@   modifies nothing
//@ extern func ml.(Context).FromFloatSlice
//@   modifies nothing
//@ extern func ml.(Context).FromIntSlice
//@   modifies nothing
//@ extern func ml.(Context).Empty
//@   modifies nothing
//@ extern func ml.(Context).Forward
//@   modifies nothing
//@ extern func ml.(Context).Compute
//@   modifies nothing
//@ extern func ml.(Context).Close
//@   modifies nothing
//@ extern func ml.(Context).MaxGraphNodes
//@   modifies nothing
//@ extern func ml.(Tensor).Shape
//@   modifies nothing
//@ extern func ml.(Tensor).Copy
//@   modifies nothing
//@ extern func ml.(Tensor).Dim
//@   modifies nothing
//@ extern func ml.(Tensor).Stride
//@   modifies nothing
//@ extern func ml.(Tensor).View
//@   modifies nothing
// The model's RoPE shift callback (field c.shiftFn) builds graph nodes only (A-shiftfn).
//@ extern func (Causal).shiftFn
//@   modifies nothing

// ---- arithmetic helpers ----
//@ func roundDown
//@   requires 0 <= length && 0 < pad
//@   modifies nothing
//@   ensures 0 <= result && result <= length && length < result + pad
//@   ensures result % pad == 0

//@ func roundUp
//@   requires 0 <= length && 0 < pad && length < (1 << 61) && pad < (1 << 61)
//@   modifies nothing
//@   ensures length <= result && result < length + pad
//@   ensures result % pad == 0

//@ func newRange
//@   modifies nothing
//@   ensures result.min == 9223372036854775807 && result.max == 0

// ---- findStartLoc: first fit. Success: the returned run lies inside the cache and every
// ---- cell of it is empty (StartForward stores only into that run, so live cells are never
// ---- overwritten); otherwise an error, and then (for a batch of at least one token) no run
// ---- of curBatchSize empty cells exists anywhere.
//@ func (*Causal).findStartLoc
//@   requires c.curBatchSize >= 0
//@   modifies nothing
//@   ensures result.1 == nil ==> 0 <= result.0 && result.0 + c.curBatchSize <= len(c.cells)
//@   ensures result.1 == nil ==> forall k int :: result.0 <= k && k < result.0 + c.curBatchSize ==> len(c.cells[k].sequences) == 0
//@   ensures result.1 != nil ==> result.0 == 0
//@   ensures result.1 != nil && c.curBatchSize >= 1 ==> forall s int :: 0 <= s && s + c.curBatchSize <= len(c.cells) ==> exists k int :: s <= k && k < s + c.curBatchSize && len(c.cells[k].sequences) != 0
//@   loop 1 invariant 0 <= start && 0 <= count && start + count == rangeindex + 1
//@   loop 1 invariant c.curBatchSize >= 1 ==> count < c.curBatchSize
//@   loop 1 invariant forall k int :: start <= k && k <= rangeindex ==> len(c.cells[k].sequences) == 0
//@   loop 1 invariant c.curBatchSize >= 1 ==> forall s int :: 0 <= s && s < start ==> exists k int :: s <= k && k < s + c.curBatchSize && k < start && len(c.cells[k].sequences) != 0

// ---- buildMask: loops 1 (batch rows i), 2 (history columns j), 3 (padding rows).
// ---- mask[i*length+(j-min)] is float32(-Inf) iff the cell j is not visible to batch entry i
// ---- (other sequence, later position unless causality is disabled for i, or outside the
// ---- window), else 0; padding rows are -Inf. Floats are uninterpreted: float32(math.Inf(-1))
// ---- is one fixed term, 0.0 the zero value.
//@ func (*Causal).buildMask
//@   requires c.config != nil && 1 <= c.config.MaskBatchPadding && c.config.MaskBatchPadding <= 65536 && 1 <= c.config.CachePadding && c.config.CachePadding <= 65536
//@   requires 0 <= c.curBatchSize && c.curBatchSize <= 1048576 && len(c.curSequences) == c.curBatchSize && len(c.curPositions) == c.curBatchSize
//@   requires len(c.cells) <= 2147483648 && len(c.cells) % c.config.CachePadding == 0
//@   requires 0 <= c.curCellRange.min && c.curCellRange.min <= c.curCellRange.max && c.curCellRange.max < len(c.cells)
//@   modifies c.curCellRange
//@   ensures 0 <= c.curCellRange.min && c.curCellRange.min <= old(c.curCellRange.min) && old(c.curCellRange.max) <= c.curCellRange.max && c.curCellRange.max < len(c.cells)
//@   assert-at call FromFloatSlice #1 : len(mask) == batchSize * length && length == c.curCellRange.max - c.curCellRange.min + 1 && c.curBatchSize <= batchSize
//@   loop 1 invariant 0 <= i && i < c.curBatchSize
//@   loop 2 invariant c.curCellRange.min <= j && j <= c.curCellRange.max + 1
//@   loop 3 invariant c.curBatchSize * length <= i
// Mask VALUES, row by row (floats are uninterpreted and `==` on floats is the NaN-aware feq, so
// values are compared through the uninterpreted tag fid: fid(x) == fid(y) is proved only when x
// and y are the same term). vis(i,b) below is the property's visibility condition.
//@   requires 1 <= c.windowSize && forall k int :: 0 <= k && k < len(c.curPositions) ==> c.curPositions[k] >= 0
//@   assert-at call Inf #1 : !inseq(c.cells[j].sequences, c.curSequences[i]) || (!inseq(c.opts.Except, i) && c.cells[j].pos > c.curPositions[i]) || c.cells[j].pos < c.curPositions[i] - c.windowSize
//@   loop 1 invariant forall k int :: i * length <= k && k < len(mask) ==> fid(mask[k]) == fid(0.0)
//@   loop 2 invariant enabled <==> !inseq(c.opts.Except, i)
//@   loop 2 invariant 0 <= i * length && i * length + length <= len(mask) && length == c.curCellRange.max - c.curCellRange.min + 1
//@   loop 2 invariant forall k int :: i * length + (j - c.curCellRange.min) <= k && k < len(mask) ==> fid(mask[k]) == fid(0.0)
//@   loop 2 invariant forall k int :: i * length <= k && k < i * length + (j - c.curCellRange.min) ==> fid(mask[k]) == ite(!inseq(c.cells[k-i*length+c.curCellRange.min].sequences, c.curSequences[i]) || (enabled && c.cells[k-i*length+c.curCellRange.min].pos > c.curPositions[i]) || c.cells[k-i*length+c.curCellRange.min].pos < c.curPositions[i] - c.windowSize, fid(float32(math.Inf(-1))), fid(0.0))
//@   loop 3 invariant forall k int :: c.curBatchSize * length <= k && k < i ==> fid(mask[k]) == fid(float32(math.Inf(-1)))
//@   assert-at call FromFloatSlice #1 : forall k int :: c.curBatchSize * length <= k && k < len(mask) ==> fid(mask[k]) == fid(float32(math.Inf(-1)))
// Shape of the mask tensor: `length` columns (one per exposed cache row, the count Get uses for the K/V views) by batchSize rows, built from `mask`
//@   assert-at call FromFloatSlice #1 : arg1 == mask && len(arg2) == 2 && arg2[0] == length && arg2[1] == batchSize
// NOT DECIDED (drafted, the solver does not settle the two-variable nonlinear-index quantifiers
// within the budget, and the zero value of a fresh []float32 is not the term of the literal 0.0):
//   at the call of FromFloatSlice, forall a < curBatchSize, min <= b <= max:
//     mask[a*length+(b-min)] == ite(!inseq(c.cells[b].sequences, c.curSequences[a]) || (!inseq(c.opts.Except, a) && c.cells[b].pos > c.curPositions[a])
//                                   || c.cells[b].pos < c.curPositions[a] - c.windowSize, float32(math.Inf(-1)), 0.0)
//   and mask[k] == float32(math.Inf(-1)) for curBatchSize*length <= k < len(mask).

// ---- CanResume: loop 1 scans the range of seq.
//@ func (*Causal).CanResume
//@   requires 0 <= pos && 1 <= c.windowSize
//@   requires has(c.cellRanges, seq) && c.cellRanges[seq].min <= c.cellRanges[seq].max ==> 0 <= c.cellRanges[seq].min && c.cellRanges[seq].max < len(c.cells)
//@   requires forall j int :: 0 <= j && j < len(c.cells) && inseq(c.cells[j].sequences, seq) ==> c.cells[j].pos >= 0 && has(c.cellRanges, seq) && c.cellRanges[seq].min <= j && j <= c.cellRanges[seq].max
//@   modifies nothing
//@   ensures c.windowSize == 2147483647 ==> result
//@   ensures result && c.windowSize != 2147483647 ==> exists j int :: 0 <= j && j < len(c.cells) && inseq(c.cells[j].sequences, seq)
//@   ensures result && c.windowSize != 2147483647 ==> forall j int :: 0 <= j && j < len(c.cells) && inseq(c.cells[j].sequences, seq) ==> max(0, c.cells[j].pos - c.windowSize) <= max(0, pos - c.windowSize)
//@   ensures !result ==> c.windowSize != 2147483647
//@   ensures !result ==> (forall j int :: 0 <= j && j < len(c.cells) ==> !inseq(c.cells[j].sequences, seq)) || (exists j int :: 0 <= j && j < len(c.cells) && inseq(c.cells[j].sequences, seq) && max(0, c.cells[j].pos - c.windowSize) > max(0, pos - c.windowSize))
//@   loop 1 invariant seqRange.min <= i && (i <= seqRange.max + 1 || i == seqRange.min) && -1 <= last
//@   loop 1 invariant forall k int :: seqRange.min <= k && k < i && inseq(c.cells[k].sequences, seq) ==> c.cells[k].pos <= last
//@   loop 1 invariant last == -1 ==> forall k int :: seqRange.min <= k && k < i ==> !inseq(c.cells[k].sequences, seq)
//@   loop 1 invariant last != -1 ==> exists k int :: seqRange.min <= k && k < i && inseq(c.cells[k].sequences, seq) && c.cells[k].pos == last

// ---- shift: only the offset vector handed to the RoPE shift and the bounds are specified
// ---- (loop 1 fills the vector, loop 2 runs over the layers).
//@ func (*Causal).shift
//@   requires has(c.cellRanges, seq) && 0 <= c.cellRanges[seq].min && c.cellRanges[seq].min <= c.cellRanges[seq].max && c.cellRanges[seq].max < len(c.cells)
//@   requires len(c.cells) <= 2147483648
//@   modifies nothing
//@   assert-at call FromIntSlice #1 : len(offsets) == seqRange.max - seqRange.min + 1
//@   assert-at call FromIntSlice #1 : forall k int :: 0 <= k && k < len(offsets) ==> offsets[k] == ite(inseq(c.cells[seqRange.min+k].sequences, seq) && c.cells[seqRange.min+k].pos >= beginIndex, offset, 0)
//@   loop 1 invariant forall k int :: 0 <= k && k <= rangeindex ==> offsets[k] == ite(inseq(c.cells[seqRange.min+k].sequences, seq) && c.cells[seqRange.min+k].pos >= beginIndex, offset, 0)
//@   loop 1 invariant forall k int :: rangeindex < k && k < len(offsets) ==> offsets[k] == 0
// Row alignment: offsets[k] was decided from the metadata of cell seqRange.min+k, so the key view handed to the model's
// shift function must start at row seqRange.min and span exactly len(offsets) rows, and it is handed over together with the tensor built from offsets.
// (the byte offset rowSize*seqRange.min is a machine product of two unbounded ints, which the mathematical integers of
// the specification cannot restate; it is pinned for the unit stride, where it is linear)
//@   assert-at call View #1 : len(arg3) == 5 && arg3[4] == len(offsets) && (rowSize == 1 ==> arg2 == seqRange.min)
//@   assert-at call shiftFn #1 : arg3 == kShift

// ---- predicate closures handed to slices.DeleteFunc / slices.ContainsFunc ----
//@ func (*Causal).Remove$1
//@   modifies nothing
//@   ensures result <==> s == seq
//@ func (*Causal).Remove$2
//@   modifies nothing
//@   ensures result <==> s != seq
//@ func (*Causal).CopyPrefix$1
//@   modifies nothing
//@   ensures result <==> s == dstSeq
//@ func (*Causal).updateSlidingWindow$1
//@   modifies nothing
//@   ensures result <==> s == seq

// ---- Remove: view update of seq. With d = (endIndex == MaxInt32 ? 0 : beginIndex-endIndex):
// ----   seq leaves exactly the cells with beginIndex <= pos < endIndex, every cell of seq with
// ----   pos >= endIndex moves to pos+d, the new range of seq covers every cell that still holds
// ----   it (R for seq) and lies inside the cache (W for seq, precondition of shift); O1 kept.
// ----   Loop 1 scans the cells.
//@ func (*Causal).Remove
//@   requires len(c.cells) <= 2147483648 && c.cellRanges != nil
//@   requires 0 <= beginIndex && beginIndex <= endIndex
//@   requires forall i int, j int :: 0 <= i && i < len(c.cells) && 0 <= j && j < len(c.cells) && i != j ==> c.cells[i].sequences == nil || blk(c.cells[i].sequences) != blk(c.cells[j].sequences)
//@   modifies c.cells[all], c.cellRanges, anyrow(c.cells[0].sequences)
//@   ensures result == nil ==> forall j int :: 0 <= j && j < len(c.cells) ==> (inseq(c.cells[j].sequences, seq) <==> old(inseq(c.cells[j].sequences, seq)) && !(beginIndex <= old(c.cells[j].pos) && old(c.cells[j].pos) < endIndex))
//@   ensures result == nil ==> forall j int :: 0 <= j && j < len(c.cells) ==> c.cells[j].pos == ite(old(inseq(c.cells[j].sequences, seq)) && old(c.cells[j].pos) >= endIndex, old(c.cells[j].pos) + ite(endIndex != 2147483647, beginIndex - endIndex, 0), old(c.cells[j].pos))
//@   ensures result == nil ==> forall j int :: 0 <= j && j < len(c.cells) && inseq(c.cells[j].sequences, seq) ==> has(c.cellRanges, seq) && c.cellRanges[seq].min <= j && j <= c.cellRanges[seq].max
//@   ensures forall v int :: v != seq ==> (has(c.cellRanges, v) <==> old(has(c.cellRanges, v))) && c.cellRanges[v].min == old(c.cellRanges[v].min) && c.cellRanges[v].max == old(c.cellRanges[v].max)
//@   ensures forall j int :: 0 <= j && j < len(c.cells) ==> blk(c.cells[j].sequences) == old(blk(c.cells[j].sequences))
// The RoPE re-shift (property C07: a context shift must not change what the model sees): shift is asked to rotate, by
// exactly the amount the positions moved, the entries of seq at positions >= beginIndex, and those are exactly the
// entries that were renumbered (members of seq that were at positions >= endIndex); no shift when nothing moved.
//@   assert-at call shift #1 : arg1 == seq && arg2 == beginIndex && arg3 == beginIndex - endIndex && endIndex != 2147483647
//@   assert-at call shift #1 : forall j int :: 0 <= j && j < len(c.cells) ==> ((inseq(c.cells[j].sequences, seq) && c.cells[j].pos >= beginIndex) <==> (old(inseq(c.cells[j].sequences, seq)) && old(c.cells[j].pos) >= endIndex))
//@   loop 1 invariant (seqRange.min == 9223372036854775807 && seqRange.max == 0) || (0 <= seqRange.min && seqRange.min <= seqRange.max && seqRange.max <= rangeindex)
//@   loop 1 invariant forall j int :: rangeindex < j && j < len(c.cells) ==> c.cells[j].pos == old(c.cells[j].pos) && c.cells[j].sequences == old(c.cells[j].sequences)
//@   loop 1 invariant forall j int :: rangeindex < j && j < len(c.cells) ==> (inseq(c.cells[j].sequences, seq) <==> old(inseq(c.cells[j].sequences, seq)))
//@   loop 1 invariant forall j int :: 0 <= j && j <= rangeindex ==> (inseq(c.cells[j].sequences, seq) <==> old(inseq(c.cells[j].sequences, seq)) && !(beginIndex <= old(c.cells[j].pos) && old(c.cells[j].pos) < endIndex))
//@   loop 1 invariant forall j int :: 0 <= j && j <= rangeindex ==> c.cells[j].pos == ite(old(inseq(c.cells[j].sequences, seq)) && old(c.cells[j].pos) >= endIndex, old(c.cells[j].pos) + offset, old(c.cells[j].pos))
//@   loop 1 invariant forall j int :: 0 <= j && j <= rangeindex && inseq(c.cells[j].sequences, seq) ==> seqRange.min <= j && j <= seqRange.max
//@   loop 1 invariant forall j int :: 0 <= j && j < len(c.cells) ==> blk(c.cells[j].sequences) == old(blk(c.cells[j].sequences)) && (c.cells[j].sequences == nil <==> old(c.cells[j].sequences == nil))
// Removing up to the end (endIndex == MaxInt32) never fails (what WrapperCache.StartForward's unwinding and the runner's
// fallback `Remove(seq, 0, MaxInt32)` rely on): no cell is renumbered, so neither the shared-cell error nor shift can occur.
//@   ensures endIndex == 2147483647 && (forall j int :: 0 <= j && j < len(c.cells) && old(inseq(c.cells[j].sequences, seq)) ==> old(c.cells[j].pos) < 2147483647) ==> result == nil

// ---- CopyPrefix: afterwards dstSeq owns exactly the cells of srcSeq with pos < len, positions
// ---- are untouched, the new range of dstSeq covers its cells (R for dstSeq). Loop 1 scans the cells.
// ---- O1 is required in owner form: own0 (uninterpreted) maps the backing array of every non-nil
// ---- `sequences` slice at entry back to its cell, i.e. no two cells share one (the pairwise form
// ---- forall i != j gives the solvers a quadratic trigger; both forms say the same about the state).
//@ spec func own0(b int) int
//@ func (*Causal).CopyPrefix
//@   requires srcSeq != dstSeq && len(c.cells) <= 2147483648 && c.cellRanges != nil
//@   requires forall j int :: 0 <= j && j < len(c.cells) && c.cells[j].sequences != nil ==> own0(blk(c.cells[j].sequences)) == j
//@   modifies c.cells[all], c.cellRanges, anyrow(c.cells[0].sequences)
//@   ensures forall j int :: 0 <= j && j < len(c.cells) ==> (inseq(c.cells[j].sequences, dstSeq) <==> old(inseq(c.cells[j].sequences, srcSeq)) && old(c.cells[j].pos) < len)
//@   ensures forall j int :: 0 <= j && j < len(c.cells) ==> (inseq(c.cells[j].sequences, srcSeq) <==> old(inseq(c.cells[j].sequences, srcSeq)))
//@   ensures forall j int :: 0 <= j && j < len(c.cells) ==> c.cells[j].pos == old(c.cells[j].pos)
//@   ensures forall j int :: 0 <= j && j < len(c.cells) && inseq(c.cells[j].sequences, dstSeq) ==> has(c.cellRanges, dstSeq) && c.cellRanges[dstSeq].min <= j && j <= c.cellRanges[dstSeq].max
//@   ensures forall v int :: v != dstSeq ==> (has(c.cellRanges, v) <==> old(has(c.cellRanges, v))) && c.cellRanges[v].min == old(c.cellRanges[v].min) && c.cellRanges[v].max == old(c.cellRanges[v].max)
//@   ensures forall j int :: 0 <= j && j < len(c.cells) ==> (blk(c.cells[j].sequences) == old(blk(c.cells[j].sequences)) && (c.cells[j].sequences == nil <==> old(c.cells[j].sequences == nil))) || fresh(c.cells[j].sequences)
// Go semantics the engine loses at the loop head (listed as assumptions A-capture, A-alloc in props/C06.json):
//@   assume-at call DeleteFunc #1 : arg1(dstSeq)     -- A-capture (arg1 is the predicate `s == dstSeq` over the closure's captured variable): the variable dstSeq captured by the predicate closure is assigned once (the parameter) and never reassigned
// (the engine has no `after call` site for builtins: the result of append is named at the store that follows it, `stored`)
//@   assume-at call append #1 : forall j int :: 0 <= j && j < len(c.cells) ==> blk(arg1) != blk(c.cells[j].sequences)     -- A-alloc: the one-element array holding the appended value is newly allocated
//@   assume-at store sequences #2 : forall j int :: 0 <= j && j < len(c.cells) && j != i ==> blk(stored) == blk(c.cells[i].sequences) || blk(stored) != blk(c.cells[j].sequences)     -- A-alloc: append returns its argument's backing array or a newly allocated one, which no existing slice refers to
// per iteration: what DeleteFunc and append do to cell i, and (lemmas for the solvers, proved like everything else)
// that the earlier cells keep what the invariants say about them across the two writes to cell i's backing array
//@   assert-at call Contains #1 : i == rangeindex + 1 && (inseq(c.cells[i].sequences, srcSeq) <==> old(inseq(c.cells[i].sequences, srcSeq)))
//@   assert-at call Contains #1 : forall j int :: 0 <= j && j < len(c.cells) && j != i ==> c.cells[i].sequences == nil || blk(c.cells[j].sequences) != blk(c.cells[i].sequences)
//@   assert-at call DeleteFunc #1 : arg0 == c.cells[i].sequences && arg0 != nil
//@   assert-at after call DeleteFunc #1 : blk(result) == blk(c.cells[i].sequences) && result != nil
//@   assert-at after call DeleteFunc #1 : trg(dstSeq) == dstSeq && !inseq(result, dstSeq)
//@   assert-at after call DeleteFunc #1 : trg(srcSeq) == srcSeq && (inseq(result, srcSeq) <==> old(inseq(c.cells[i].sequences, srcSeq)))
//@   assert-at call Contains #2 : !inseq(c.cells[i].sequences, dstSeq) && (inseq(c.cells[i].sequences, srcSeq) <==> old(inseq(c.cells[i].sequences, srcSeq)))
//@   assert-at call Contains #2 : forall j int :: 0 <= j && j <= rangeindex ==> (inseq(c.cells[j].sequences, dstSeq) <==> old(inseq(c.cells[j].sequences, srcSeq)) && old(c.cells[j].pos) < len)
//@   assert-at call Contains #2 : forall j int :: 0 <= j && j <= rangeindex ==> (inseq(c.cells[j].sequences, srcSeq) <==> old(inseq(c.cells[j].sequences, srcSeq)))
//@   assert-at call append #1 : arg0 == c.cells[i].sequences && len(arg1) == 1 && arg1[0] == dstSeq && old(inseq(c.cells[i].sequences, srcSeq)) && old(c.cells[i].pos) < len
//@   assert-at store sequences #2 : stored != nil && inseq(stored, dstSeq) && inseq(stored, srcSeq) && (blk(stored) == blk(c.cells[i].sequences) || fresh(stored))
//@   assert-at store sequences #2 : forall j int :: 0 <= j && j <= rangeindex ==> (inseq(c.cells[j].sequences, dstSeq) <==> old(inseq(c.cells[j].sequences, srcSeq)) && old(c.cells[j].pos) < len)
//@   assert-at store sequences #2 : forall j int :: 0 <= j && j <= rangeindex ==> (inseq(c.cells[j].sequences, srcSeq) <==> old(inseq(c.cells[j].sequences, srcSeq)))
//@   assert-at store sequences #2 : forall j int :: i < j && j < len(c.cells) ==> (inseq(c.cells[j].sequences, srcSeq) <==> old(inseq(c.cells[j].sequences, srcSeq)))
//@   loop 1 invariant (seqRange.min == 9223372036854775807 && seqRange.max == 0) || (0 <= seqRange.min && seqRange.min <= seqRange.max && seqRange.max <= rangeindex)
//@   loop 1 invariant forall j int :: 0 <= j && j < len(c.cells) ==> c.cells[j].pos == old(c.cells[j].pos)
//@   loop 1 invariant forall j int :: rangeindex < j && j < len(c.cells) ==> c.cells[j].sequences == old(c.cells[j].sequences)
//@   loop 1 invariant forall j int :: rangeindex < j && j < len(c.cells) ==> (inseq(c.cells[j].sequences, srcSeq) <==> old(inseq(c.cells[j].sequences, srcSeq)))
//@   loop 1 invariant forall j int :: 0 <= j && j <= rangeindex ==> (inseq(c.cells[j].sequences, dstSeq) <==> old(inseq(c.cells[j].sequences, srcSeq)) && old(c.cells[j].pos) < len)
//@   loop 1 invariant forall j int :: 0 <= j && j <= rangeindex ==> (inseq(c.cells[j].sequences, srcSeq) <==> old(inseq(c.cells[j].sequences, srcSeq)))
//@   loop 1 invariant forall j int :: 0 <= j && j <= rangeindex && old(inseq(c.cells[j].sequences, srcSeq)) && old(c.cells[j].pos) < len ==> seqRange.min <= j && j <= seqRange.max
//@   loop 1 invariant forall j int :: 0 <= j && j < len(c.cells) ==> (blk(c.cells[j].sequences) == old(blk(c.cells[j].sequences)) && (c.cells[j].sequences == nil <==> old(c.cells[j].sequences == nil))) || fresh(c.cells[j].sequences)

// ---- updateSlidingWindow: loops 1 (lowest position per batch sequence), 2 (batch sequences,
// ---- map order), 3 (cells of the sequence's range): bounds, positions never change, W kept.
//@ func (*Causal).updateSlidingWindow
//@   requires 1 <= c.windowSize && len(c.curSequences) == len(c.curPositions) && len(c.cells) <= 2147483648 && c.cellRanges != nil
//@   requires forall v int :: has(c.cellRanges, v) && c.cellRanges[v].min <= c.cellRanges[v].max ==> 0 <= c.cellRanges[v].min && c.cellRanges[v].max < len(c.cells)
//@   modifies c.cells[all], c.cellRanges, anyrow(c.cells[0].sequences)
//@   ensures forall j int :: 0 <= j && j < len(c.cells) ==> c.cells[j].pos == old(c.cells[j].pos)
//@   ensures forall v int :: has(c.cellRanges, v) && c.cellRanges[v].min <= c.cellRanges[v].max ==> 0 <= c.cellRanges[v].min && c.cellRanges[v].max < len(c.cells)
//@   loop 2 invariant forall j int :: 0 <= j && j < len(c.cells) ==> c.cells[j].pos == old(c.cells[j].pos)
//@   loop 2 invariant forall v int :: has(c.cellRanges, v) && c.cellRanges[v].min <= c.cellRanges[v].max ==> 0 <= c.cellRanges[v].min && c.cellRanges[v].max < len(c.cells)
//@   loop 3 invariant (i <= oldRange.max + 1 || i == oldRange.min) && (oldRange.min <= oldRange.max ==> 0 <= oldRange.min && oldRange.max < len(c.cells))
//@   loop 3 invariant oldRange.min <= i && (newRange.min == 9223372036854775807 && newRange.max == 0 || (oldRange.min <= newRange.min && newRange.min <= newRange.max && newRange.max < i))
//@   loop 3 invariant forall j int :: 0 <= j && j < len(c.cells) ==> c.cells[j].pos == old(c.cells[j].pos)
//@   loop 3 invariant forall v int :: has(c.cellRanges, v) && c.cellRanges[v].min <= c.cellRanges[v].max ==> 0 <= c.cellRanges[v].min && c.cellRanges[v].max < len(c.cells)
// W' (strong form of W, what StartForward's range bookkeeping needs): a stored range is either the
// empty sentinel of newRange() or a non-empty interval inside the cache.
//@   ensures (forall v int :: old(has(c.cellRanges, v)) ==> old(wfr(c.cellRanges[v].min, c.cellRanges[v].max, len(c.cells)))) ==> forall v int :: has(c.cellRanges, v) ==> wfr(c.cellRanges[v].min, c.cellRanges[v].max, len(c.cells))
//@   loop 2 invariant (forall v int :: old(has(c.cellRanges, v)) ==> old(wfr(c.cellRanges[v].min, c.cellRanges[v].max, len(c.cells)))) ==> forall v int :: has(c.cellRanges, v) ==> wfr(c.cellRanges[v].min, c.cellRanges[v].max, len(c.cells))
//@   loop 3 invariant (forall v int :: old(has(c.cellRanges, v)) ==> old(wfr(c.cellRanges[v].min, c.cellRanges[v].max, len(c.cells)))) ==> forall v int :: has(c.cellRanges, v) ==> wfr(c.cellRanges[v].min, c.cellRanges[v].max, len(c.cells))
// Eviction ("nothing missing ... within the sliding window"): an entry is evicted only if it lies before the
// window of EVERY token of its sequence in the batch (lowestPos[seq] is a lower bound of their positions).
//@   requires forall k int :: 0 <= k && k < len(c.curPositions) ==> c.curPositions[k] >= 0
//@   loop 1 invariant forall k int :: 0 <= k && k <= rangeindex ==> has(lowestPos, c.curSequences[k]) && lowestPos[c.curSequences[k]] <= c.curPositions[k]
//@   loop 1 invariant forall v int :: has(lowestPos, v) ==> lowestPos[v] >= 0
//@   assert-at call DeleteFunc #1 : pos >= 0 && inseq(c.cells[i].sequences, seq) && c.cells[i].pos < pos - c.windowSize
//@   assert-at call newRange #1 : has(lowestPos, seq) && pos == lowestPos[seq]
//@   assert-at call newRange #1 : forall k int :: 0 <= k && k < len(c.curPositions) && c.curSequences[k] == seq ==> pos <= c.curPositions[k]
//@   loop 2 invariant forall k int :: 0 <= k && k < len(c.curPositions) ==> has(lowestPos, c.curSequences[k]) && lowestPos[c.curSequences[k]] <= c.curPositions[k]
//@   loop 2 invariant forall v int :: has(lowestPos, v) ==> lowestPos[v] >= 0
//@   requires forall j int :: 0 <= j && j < len(c.cells) ==> blk(c.curSequences) != blk(c.cells[j].sequences)   -- ownership (O1): the batch's Sequences slice is the caller's, cell slices are allocated by the cache
//@   loop 2 invariant forall j int :: 0 <= j && j < len(c.cells) ==> blk(c.curSequences) != blk(c.cells[j].sequences)
//@   loop 3 invariant forall j int :: 0 <= j && j < len(c.cells) ==> blk(c.curSequences) != blk(c.cells[j].sequences)
//@   loop 3 invariant forall k int :: 0 <= k && k < len(c.curPositions) ==> has(lowestPos, c.curSequences[k]) && lowestPos[c.curSequences[k]] <= c.curPositions[k]

// ---- moveCells (trusted: View/Copy row semantics of the backend, assumption A-rows): copies
// ---- the K/V rows [src, src+length) to [dst, dst+length) in order.
//@ extern func (*Causal).moveCells
//@   requires 0 <= src && 0 <= dst && 0 <= length && dst + length <= src && src + length <= len(c.cells)
//@   modifies c.ghost_dat[all]
//@   ensures forall j int :: dst <= j && j < dst + length ==> c.ghost_dat[j] == old(c.ghost_dat[j-dst+src])
//@   ensures forall j int :: j < dst || dst + length <= j ==> c.ghost_dat[j] == old(c.ghost_dat[j])

// ---- defrag: loops 1 (count layers), 2 (dst ascending), 3 (src descending), 4 (sequences), 5 (cells).
// ---- With row identities named by their location at entry (c.ghost_dat[j] == j): afterwards
// ---- every live cell j carries the metadata of the original cell whose ROW is now at j.
//@ func (*Causal).defrag
//@   opt abstract div
//@   requires len(c.cells) <= 2147483648
//@   requires forall j int :: c.ghost_dat[j] == j
//@   ensures forall j int, g int :: 0 <= j && j < len(c.cells) && g == c.ghost_dat[j] && len(c.cells[j].sequences) != 0 ==> 0 <= g && g < len(c.cells) && c.cells[j].pos == old(c.cells[g].pos) && c.cells[j].sequences == old(c.cells[g].sequences)
//@   loop 2 invariant 0 <= dst && -1 <= src && src < len(c.cells) && dst <= src + 1 && 0 <= pendingLen
//@   loop 2 invariant pendingLen > 0 ==> 0 <= pendingDst && pendingDst + pendingLen <= dst && pendingDst + pendingLen <= src && src <= pendingSrc && pendingSrc + pendingLen <= len(c.cells)
//@   loop 2 invariant forall j int :: pendingLen == 0 || j >= pendingDst ==> c.ghost_dat[j] == j
//@   loop 2 invariant forall j int, g int :: 0 <= j && j < dst && (pendingLen == 0 || j < pendingDst || j >= pendingDst + pendingLen) && g == c.ghost_dat[j] && len(c.cells[j].sequences) != 0 ==> 0 <= g && g < len(c.cells) && c.cells[j].pos == old(c.cells[g].pos) && c.cells[j].sequences == old(c.cells[g].sequences)
//@   loop 2 invariant forall j int :: dst <= j && j <= src ==> (j == src && len(c.cells[j].sequences) == 0) || (c.cells[j].pos == old(c.cells[j].pos) && c.cells[j].sequences == old(c.cells[j].sequences))
//@   loop 2 invariant forall j int :: src < j && j < len(c.cells) ==> len(c.cells[j].sequences) == 0
//@   loop 2 invariant forall i int :: pendingSrc <= i && i < pendingSrc + pendingLen ==> c.cells[i-pendingSrc+pendingDst].pos == old(c.cells[i].pos) && c.cells[i-pendingSrc+pendingDst].sequences == old(c.cells[i].sequences)
//@   loop 3 invariant dst <= src && src < len(c.cells) && (pendingLen > 0 ==> src <= pendingSrc)
//@   loop 3 invariant forall j int :: src < j && j < len(c.cells) ==> len(c.cells[j].sequences) == 0
// (Close #1 is the early return for a cache without layers, added by fix bff31ff73; #2 closes a
// full context inside the loop; #3 is the final one)
//@   assume-at call MaxGraphNodes #1 : 0 <= layers && layers <= 4294967296   -- range assumption: layers counts entries of c.keys, between 0 and 2^32 (the counter and 6*layers do not wrap)
//@   assert-at call Close #3 : forall j int, g int :: 0 <= j && j < len(c.cells) && g == c.ghost_dat[j] && len(c.cells[j].sequences) != 0 ==> 0 <= g && g < len(c.cells) && c.cells[j].pos == old(c.cells[g].pos) && c.cells[j].sequences == old(c.cells[g].sequences)
//@   loop 4 invariant forall j int, g int :: 0 <= j && j < len(c.cells) && g == c.ghost_dat[j] && len(c.cells[j].sequences) != 0 ==> 0 <= g && g < len(c.cells) && c.cells[j].pos == old(c.cells[g].pos) && c.cells[j].sequences == old(c.cells[g].sequences)
//@   loop 5 invariant forall j int, g int :: 0 <= j && j < len(c.cells) && g == c.ghost_dat[j] && len(c.cells[j].sequences) != 0 ==> 0 <= g && g < len(c.cells) && c.cells[j].pos == old(c.cells[g].pos) && c.cells[j].sequences == old(c.cells[g].sequences)
//@   loop 3 invariant forall j int :: dst <= j && j <= src ==> (j == src && len(c.cells[j].sequences) == 0) || (c.cells[j].pos == old(c.cells[j].pos) && c.cells[j].sequences == old(c.cells[j].sequences))
// Frame, and the range reset (loops 4, 5): every range written back is the empty sentinel or an
// interval inside the cache (W'), and it covers every cell that holds the sequence (R for seq).
//@   modifies c.cells[all], c.cellRanges, c.ghost_dat[all]
//@   ensures len(c.cells) == old(len(c.cells))
//@   ensures (forall v int :: old(has(c.cellRanges, v)) ==> old(wfr(c.cellRanges[v].min, c.cellRanges[v].max, len(c.cells)))) ==> forall v int :: has(c.cellRanges, v) ==> wfr(c.cellRanges[v].min, c.cellRanges[v].max, len(c.cells))
//@   loop 4 invariant forall v int :: has(c.cellRanges, v) <==> rangehad(v)
//@   loop 4 invariant forall v int :: visited(v) ==> wfr(c.cellRanges[v].min, c.cellRanges[v].max, len(c.cells))
//@   loop 5 invariant forall v int :: has(c.cellRanges, v) <==> rangehad(v)
//@   loop 5 invariant forall v int :: visited(v) && v != seq ==> wfr(c.cellRanges[v].min, c.cellRanges[v].max, len(c.cells))
//@   loop 5 invariant (seqRange.min == 9223372036854775807 && seqRange.max == 0) || (0 <= seqRange.min && seqRange.min <= seqRange.max && seqRange.max <= rangeindex)
//@   loop 5 invariant forall k int :: 0 <= k && k <= rangeindex && inseq(c.cells[k].sequences, seq) ==> seqRange.min <= k && k <= seqRange.max

// ---- StartForward: placement of a batch (property clauses "entries previously stored ... each with
// ---- the data stored for it", "a full cache is reported as an error, not by overwriting live entries",
// ---- "nothing missing": the cell range handed to buildMask covers the ranges of all batch sequences).
// ---- Loop 1 stores the batch entries. ghost_pmin/ghost_pmax: range of seq before this iteration.
//@ func (*Causal).StartForward
//@   requires c.config != nil && 1 <= c.config.MaskBatchPadding && c.config.MaskBatchPadding <= 65536 && 1 <= c.config.CachePadding && c.config.CachePadding <= 65536
//@   requires len(batch.Sequences) == len(batch.Positions) && len(batch.Positions) <= 1048576 && (reserve || 1 <= len(batch.Positions))
//@   requires 1 <= len(c.cells) && len(c.cells) <= 2147483648 && len(c.cells) % c.config.CachePadding == 0 && c.cellRanges != nil
//@   requires 1 <= c.windowSize && forall k int :: 0 <= k && k < len(batch.Positions) ==> batch.Positions[k] >= 0
//@   requires forall v int :: has(c.cellRanges, v) ==> wfr(c.cellRanges[v].min, c.cellRanges[v].max, len(c.cells))
//@   assume-at call defrag #1 : forall j int :: c.ghost_dat[j] == j   -- A-relabel: row identities are named by location when defrag starts (ghost state only)
//@   assert-at return #1 : err != nil
//@   assert-at return #1 : forall s int :: 0 <= s && s + len(batch.Positions) <= len(c.cells) ==> exists k int :: s <= k && k < s + len(batch.Positions) && len(c.cells[k].sequences) != 0
//@   assert-at store pos #1 : i == rangeindex + 1 && 0 <= c.curLoc + i && c.curLoc + i < len(c.cells)
//@   assert-at store pos #1 : len(c.cells[c.curLoc+i].sequences) == 0
//@   ghost-at store pos #1 : ghost_pmin := ite(has(c.cellRanges, seq), c.cellRanges[seq].min, 9223372036854775807)
//@   ghost-at store pos #1 : ghost_pmax := ite(has(c.cellRanges, seq), c.cellRanges[seq].max, 0)
//@   loop 1 invariant 0 <= c.curLoc && c.curLoc + len(batch.Positions) <= len(c.cells) && len(c.cells) == old(len(c.cells))
//@   loop 1 invariant forall k int :: c.curLoc + rangeindex < k && k < c.curLoc + len(batch.Positions) ==> len(c.cells[k].sequences) == 0
//@   loop 1 invariant forall k int :: 0 <= k && k <= rangeindex ==> c.cells[c.curLoc+k].pos == batch.Positions[k] && len(c.cells[c.curLoc+k].sequences) == 1
//@   loop 1 invariant forall v int :: has(c.cellRanges, v) ==> wfr(c.cellRanges[v].min, c.cellRanges[v].max, len(c.cells))
//@   loop 1 invariant forall k int :: 0 <= k && k <= rangeindex ==> has(c.cellRanges, batch.Sequences[k]) && c.cellRanges[batch.Sequences[k]].min <= c.curLoc + k && c.curLoc + k <= c.cellRanges[batch.Sequences[k]].max && c.curCellRange.min <= c.cellRanges[batch.Sequences[k]].min && c.cellRanges[batch.Sequences[k]].max <= c.curCellRange.max
//@   loop 1 invariant (rangeindex == -1 && c.curCellRange.min == 9223372036854775807 && c.curCellRange.max == 0) || (rangeindex >= 0 && 0 <= c.curCellRange.min && c.curCellRange.min <= c.curCellRange.max && c.curCellRange.max < len(c.cells))
//@   loop 1 invariant rangeindex >= 0 ==> c.cellRanges[batch.Sequences[rangeindex]].min <= ghost_pmin && ghost_pmax <= c.cellRanges[batch.Sequences[rangeindex]].max
//@   assert-at call buildMask #1 : c.curBatchSize == len(batch.Positions) && c.curSequences == batch.Sequences && c.curPositions == batch.Positions && len(c.opts.Except) == 0
//@   assert-at call buildMask #1 : !reserve ==> forall k int :: 0 <= k && k < len(batch.Positions) ==> c.cells[c.curLoc+k].pos == batch.Positions[k] && len(c.cells[c.curLoc+k].sequences) == 1
//@   assert-at call buildMask #1 : !reserve ==> forall k int :: 0 <= k && k < len(batch.Positions) ==> has(c.cellRanges, batch.Sequences[k]) && c.cellRanges[batch.Sequences[k]].min <= c.curLoc + k && c.curLoc + k <= c.cellRanges[batch.Sequences[k]].max && c.curCellRange.min <= c.cellRanges[batch.Sequences[k]].min && c.cellRanges[batch.Sequences[k]].max <= c.curCellRange.max
//@   assert-at call buildMask #1 : reserve ==> c.curCellRange.min == 0 && c.curCellRange.max == len(c.cells) - 1
//@   ensures reserve ==> forall j int :: 0 <= j && j < len(c.cells) ==> c.cells[j].pos == old(c.cells[j].pos) && c.cells[j].sequences == old(c.cells[j].sequences)
//@   ensures reserve ==> forall v int :: (has(c.cellRanges, v) <==> old(has(c.cellRanges, v))) && c.cellRanges[v].min == old(c.cellRanges[v].min) && c.cellRanges[v].max == old(c.cellRanges[v].max)
//@   ensures !reserve && result == nil ==> 0 <= c.curLoc && c.curLoc + len(batch.Positions) <= len(c.cells) && forall k int :: 0 <= k && k < len(batch.Positions) ==> c.cells[c.curLoc+k].pos == batch.Positions[k] && len(c.cells[c.curLoc+k].sequences) == 1
//@   ensures forall v int :: has(c.cellRanges, v) ==> wfr(c.cellRanges[v].min, c.cellRanges[v].max, len(c.cells))
//@   assert-at store sequences #1 : len(stored) == 1 && stored[0] == batch.Sequences[i] && pos == batch.Positions[i]
//@   requires forall j int :: 0 <= j && j < len(c.cells) ==> blk(batch.Sequences) != blk(c.cells[j].sequences)   -- ownership (O1): the caller's Sequences slice shares no backing array with a cell's slice (precondition of updateSlidingWindow, carried to the caller)
