//go:build verif

// Contracts for package kvcache (property C06), checked by /verif/govc.
package kvcache

//@ func roundDown
//@   requires 0 <= length && 0 < pad
//@   modifies nothing
//@   ensures 0 <= result && result <= length && length < result + pad
//@   ensures result % pad == 0

//@ func roundUp
//@   requires 0 <= length && 0 < pad && length < (1 << 61) && pad < (1 << 61)
//@   modifies nothing
//@   ensures length <= result && result < length + pad
//@   ensures result % pad == 0

//@ func newRange
//@   modifies nothing
//@   ensures result.min == 9223372036854775807 && result.max == 0

//@ extern func fmt.Errorf
//@   modifies nothing
//@   ensures result != nil

//@ func (*Causal).findStartLoc
//@   requires c.curBatchSize >= 0
//@   modifies nothing
//@   ensures result.1 == nil ==> 0 <= result.0 && result.0 + c.curBatchSize <= len(c.cells)
//@   ensures result.1 == nil ==> forall k int :: result.0 <= k && k < result.0 + c.curBatchSize ==> len(c.cells[k].sequences) == 0
//@   ensures result.1 != nil ==> result.0 == 0
//@   loop 1 invariant 0 <= start && 0 <= count && start + count == rangeindex + 1
//@   loop 1 invariant forall k int :: start <= k && k <= rangeindex ==> len(c.cells[k].sequences) == 0

// ---- abstract view: cell j = (c.cells[j].pos, { s | inseq(c.cells[j].sequences, s) }) ----
//@ spec func inseq(xs []int, s int) bool := exists k int :: 0 <= k && k < len(xs) && xs[k] == s

//@ extern func slices.Contains
//@   modifies nothing
//@   ensures result <==> inseq(s, v)

//@ extern func math.Inf
//@   pure reads none

//@ extern func ml.(Context).Input
//@   modifies nothing
//@ extern func ml.(Context).FromFloatSlice
//@   modifies nothing
//@ extern func ml.(Context).Empty
//@   modifies nothing
//@ extern func ml.(Context).Forward
//@   modifies nothing
//@ extern func ml.(Tensor).Shape
//@   modifies nothing
//@ extern func ml.(Tensor).Copy
//@   modifies nothing

// buildMask: loops 1 (batch rows i), 2 (history columns j), 3 (padding rows)
//@ func (*Causal).buildMask
//@   requires c.config != nil && 1 <= c.config.MaskBatchPadding && c.config.MaskBatchPadding <= 65536 && 1 <= c.config.CachePadding && c.config.CachePadding <= 65536
//@   requires 0 <= c.curBatchSize && c.curBatchSize <= 1048576 && len(c.curSequences) == c.curBatchSize && len(c.curPositions) == c.curBatchSize
//@   requires len(c.cells) <= 2147483648 && len(c.cells) % c.config.CachePadding == 0
//@   requires 0 <= c.curCellRange.min && c.curCellRange.min <= c.curCellRange.max && c.curCellRange.max < len(c.cells)
//@   modifies c.curCellRange
//@   loop 1 invariant 0 <= i && i < c.curBatchSize
//@   loop 2 invariant c.curCellRange.min <= j && j <= c.curCellRange.max + 1
//@   loop 3 invariant c.curBatchSize * length <= i

// CanResume: loop 1 scans the range of seq.
//@ func (*Causal).CanResume
//@   requires 0 <= pos && 1 <= c.windowSize
//@   requires has(c.cellRanges, seq) && c.cellRanges[seq].min <= c.cellRanges[seq].max ==> 0 <= c.cellRanges[seq].min && c.cellRanges[seq].max < len(c.cells)
//@   requires forall j int :: 0 <= j && j < len(c.cells) && inseq(c.cells[j].sequences, seq) ==> c.cells[j].pos >= 0 && has(c.cellRanges, seq) && c.cellRanges[seq].min <= j && j <= c.cellRanges[seq].max
//@   modifies nothing
//@   ensures c.windowSize == 2147483647 ==> result
//@   ensures result && c.windowSize != 2147483647 ==> exists j int :: 0 <= j && j < len(c.cells) && inseq(c.cells[j].sequences, seq)
//@   ensures result && c.windowSize != 2147483647 ==> forall j int :: 0 <= j && j < len(c.cells) && inseq(c.cells[j].sequences, seq) ==> max(0, c.cells[j].pos - c.windowSize) <= max(0, pos - c.windowSize)
//@   ensures !result ==> c.windowSize != 2147483647
//@   ensures !result ==> (forall j int :: 0 <= j && j < len(c.cells) ==> !inseq(c.cells[j].sequences, seq)) || (exists j int :: 0 <= j && j < len(c.cells) && inseq(c.cells[j].sequences, seq) && max(0, c.cells[j].pos - c.windowSize) > max(0, pos - c.windowSize))
//@   loop 1 invariant seqRange.min <= i && (i <= seqRange.max + 1 || i == seqRange.min) && -1 <= last
//@   loop 1 invariant forall k int :: seqRange.min <= k && k < i && inseq(c.cells[k].sequences, seq) ==> c.cells[k].pos <= last
//@   loop 1 invariant last == -1 ==> forall k int :: seqRange.min <= k && k < i ==> !inseq(c.cells[k].sequences, seq)
//@   loop 1 invariant last != -1 ==> exists k int :: seqRange.min <= k && k < i && inseq(c.cells[k].sequences, seq) && c.cells[k].pos == last

//@ extern func ml.(Backend).NewContext
//@   modifies nothing
//@ extern func ml.(Context).Close
//@   modifies nothing
//@ extern func ml.(Context).Compute
//@   modifies nothing
//@ extern func ml.(Context).FromIntSlice
//@   modifies nothing
//@ extern func ml.(Tensor).Dim
//@   modifies nothing
//@ extern func ml.(Tensor).Stride
//@   modifies nothing
//@ extern func ml.(Tensor).View
//@   modifies nothing

// The model's RoPE shift callback (field c.shiftFn) builds graph nodes only: it does not
// write cache metadata (assumption A-shiftfn).
//@ extern func (Causal).shiftFn
//@   modifies nothing

// shift: only the offset vector handed to the RoPE shift and the bounds are specified
// (loop 1 fills the vector, loop 2 runs over the layers).
//@ func (*Causal).shift
//@   requires has(c.cellRanges, seq) && 0 <= c.cellRanges[seq].min && c.cellRanges[seq].min <= c.cellRanges[seq].max && c.cellRanges[seq].max < len(c.cells)
//@   requires len(c.cells) <= 2147483648 && !fresh(c.cells)
//@   requires forall j int :: 0 <= j && j < len(c.cells) ==> !fresh(c.cells[j].sequences)
//@   modifies nothing
//@   assert-at call FromIntSlice #1 : len(offsets) == seqRange.max - seqRange.min + 1
//@   assert-at call FromIntSlice #1 : forall k int :: 0 <= k && k < len(offsets) ==> offsets[k] == ite(inseq(c.cells[seqRange.min+k].sequences, seq) && c.cells[seqRange.min+k].pos >= beginIndex, offset, 0)
//@   loop 1 invariant forall k int :: 0 <= k && k <= rangeindex ==> offsets[k] == ite(inseq(c.cells[seqRange.min+k].sequences, seq) && c.cells[seqRange.min+k].pos >= beginIndex, offset, 0)
//@   loop 1 invariant forall k int :: rangeindex < k && k < len(offsets) ==> offsets[k] == 0

// slices.DeleteFunc / ContainsFunc take a predicate closure; fnsat(f, v) is "f(v) is true".
//@ spec func fnsat(f int, v int) bool
//@ extern func slices.DeleteFunc
//@   modifies s[all]
//@   ensures len(result) <= len(s) && result == s[0:len(result)]
//@   ensures forall v int :: inseq(result, v) <==> (old(inseq(s, v)) && !fnsat(del, v))
//@ extern func slices.ContainsFunc
//@   modifies nothing
//@   ensures result <==> exists v int :: inseq(s, v) && fnsat(f, v)
//@ extern func errors.New
//@   modifies nothing
//@   ensures result != nil

//@ func (*Causal).Remove
//@   requires len(c.cells) <= 2147483648 && !fresh(c.cells) && c.cellRanges != nil
//@   requires forall j int :: 0 <= j && j < len(c.cells) ==> !fresh(c.cells[j].sequences)
//@   requires 0 <= beginIndex && beginIndex <= endIndex
//@   requires forall i int, j int, a int, b int :: 0 <= i && i < j && j < len(c.cells) ==> c.cells[i].sequences == nil || &c.cells[i].sequences[a] != &c.cells[j].sequences[b]
//@   assume-at call slices.DeleteFunc #1 : forall v int :: fnsat(arg1, v) <==> v == seq
//@   assume-at call slices.ContainsFunc #1 : forall v int :: fnsat(arg1, v) <==> v != seq
//@   ensures result == nil ==> forall j int :: 0 <= j && j < len(c.cells) ==> (inseq(c.cells[j].sequences, seq) <==> old(inseq(c.cells[j].sequences, seq)) && !(beginIndex <= old(c.cells[j].pos) && old(c.cells[j].pos) < endIndex))
//@   ensures forall j int, v int :: 0 <= j && j < len(c.cells) && v != seq ==> (inseq(c.cells[j].sequences, v) <==> old(inseq(c.cells[j].sequences, v)))
//@   ensures result == nil ==> forall j int :: 0 <= j && j < len(c.cells) ==> c.cells[j].pos == ite(old(inseq(c.cells[j].sequences, seq)) && old(c.cells[j].pos) >= endIndex, old(c.cells[j].pos) + ite(endIndex != 2147483647, beginIndex - endIndex, 0), old(c.cells[j].pos))
//@   ensures forall j int, v int :: 0 <= j && j < len(c.cells) && v != seq && old(inseq(c.cells[j].sequences, v)) ==> c.cells[j].pos == old(c.cells[j].pos)
//@   ensures forall v int :: v != seq ==> (has(c.cellRanges, v) <==> old(has(c.cellRanges, v))) && c.cellRanges[v].min == old(c.cellRanges[v].min) && c.cellRanges[v].max == old(c.cellRanges[v].max)
//@   loop 1 invariant (seqRange.min == 9223372036854775807 && seqRange.max == 0) || (0 <= seqRange.min && seqRange.min <= seqRange.max && seqRange.max <= rangeindex)
//@   loop 1 invariant forall j int :: rangeindex < j && j < len(c.cells) ==> c.cells[j].pos == old(c.cells[j].pos) && c.cells[j].sequences == old(c.cells[j].sequences)
//@   loop 1 invariant forall j int, v int :: rangeindex < j && j < len(c.cells) ==> (inseq(c.cells[j].sequences, v) <==> old(inseq(c.cells[j].sequences, v)))
//@   loop 1 invariant forall j int :: 0 <= j && j <= rangeindex ==> (inseq(c.cells[j].sequences, seq) <==> old(inseq(c.cells[j].sequences, seq)) && !(beginIndex <= old(c.cells[j].pos) && old(c.cells[j].pos) < endIndex))
//@   loop 1 invariant forall j int, v int :: 0 <= j && j <= rangeindex && v != seq ==> (inseq(c.cells[j].sequences, v) <==> old(inseq(c.cells[j].sequences, v)))
//@   loop 1 invariant forall j int :: 0 <= j && j <= rangeindex ==> c.cells[j].pos == ite(old(inseq(c.cells[j].sequences, seq)) && old(c.cells[j].pos) >= endIndex, old(c.cells[j].pos) + offset, old(c.cells[j].pos))
//@   loop 1 invariant forall j int, v int :: 0 <= j && j <= rangeindex && v != seq && old(inseq(c.cells[j].sequences, v)) ==> c.cells[j].pos == old(c.cells[j].pos)
//@   loop 1 invariant forall j int :: 0 <= j && j <= rangeindex && inseq(c.cells[j].sequences, seq) ==> seqRange.min <= j && j <= seqRange.max
//@   loop 1 invariant forall j int :: 0 <= j && j < len(c.cells) ==> !fresh(c.cells[j].sequences)

//@ extern func log/slog.Debug
//@   modifies nothing
//@ extern func ml.(Context).MaxGraphNodes
//@   modifies nothing

// moveCells (trusted: View/Copy row semantics of the backend, assumption A-rows): copies
// the K/V rows [src, src+length) to [dst, dst+length) in order. c.ghost_dat[j] is the
// identity of the row stored at location j.
//@ extern func (*Causal).moveCells
//@   requires 0 <= src && 0 <= dst && 0 <= length && dst + length <= src && src + length <= len(c.cells)
//@   modifies c.ghost_dat[all]
//@   ensures forall j int :: dst <= j && j < dst + length ==> c.ghost_dat[j] == old(c.ghost_dat[j-dst+src])
//@   ensures forall j int :: j < dst || dst + length <= j ==> c.ghost_dat[j] == old(c.ghost_dat[j])

// defrag: loops 1 (count layers), 2 (dst ascending), 3 (src descending), 4 (sequences), 5 (cells)
//@ func (*Causal).defrag
//@   opt abstract div
//@   requires len(c.cells) <= 2147483648 && !fresh(c.cells)
//@   requires forall j int :: 0 <= j && j < len(c.cells) ==> !fresh(c.cells[j].sequences)
//@   requires forall j int :: c.ghost_dat[j] == j
//@   ensures forall j int, g int :: 0 <= j && j < len(c.cells) && g == c.ghost_dat[j] && len(c.cells[j].sequences) != 0 ==> 0 <= g && g < len(c.cells) && c.cells[j].pos == old(c.cells[g].pos) && c.cells[j].sequences == old(c.cells[g].sequences)
//@   loop 2 invariant 0 <= dst && -1 <= src && src < len(c.cells) && dst <= src + 1 && 0 <= pendingLen
//@   loop 2 invariant pendingLen > 0 ==> 0 <= pendingDst && pendingDst + pendingLen <= dst && pendingDst + pendingLen <= src && src <= pendingSrc && pendingSrc + pendingLen <= len(c.cells)
//@   loop 2 invariant forall j int :: pendingLen == 0 || j >= pendingDst ==> c.ghost_dat[j] == j
//@   loop 2 invariant forall j int, g int :: 0 <= j && j < dst && (pendingLen == 0 || j < pendingDst || j >= pendingDst + pendingLen) && g == c.ghost_dat[j] && len(c.cells[j].sequences) != 0 ==> 0 <= g && g < len(c.cells) && c.cells[j].pos == old(c.cells[g].pos) && c.cells[j].sequences == old(c.cells[g].sequences)
//@   loop 2 invariant forall j int :: dst <= j && j <= src ==> (j == src && len(c.cells[j].sequences) == 0) || (c.cells[j].pos == old(c.cells[j].pos) && c.cells[j].sequences == old(c.cells[j].sequences))
//@   loop 2 invariant forall j int :: pendingDst <= j && j < pendingDst + pendingLen ==> len(c.cells[j].sequences) != 0 && c.cells[j].pos == old(c.cells[j-pendingDst+pendingSrc].pos) && c.cells[j].sequences == old(c.cells[j-pendingDst+pendingSrc].sequences)
//@   loop 2 invariant forall j int :: src < j && j < len(c.cells) ==> len(c.cells[j].sequences) == 0
//@   loop 2 invariant forall i int :: pendingSrc <= i && i < pendingSrc + pendingLen ==> c.cells[i-pendingSrc+pendingDst].pos == old(c.cells[i].pos) && c.cells[i-pendingSrc+pendingDst].sequences == old(c.cells[i].sequences)
//@   loop 3 invariant dst <= src && src < len(c.cells) && (pendingLen > 0 ==> src <= pendingSrc)
//@   loop 3 invariant forall j int :: src < j && j < len(c.cells) ==> len(c.cells[j].sequences) == 0
//@   assert-at call Close #2 : forall j int, g int :: 0 <= j && j < len(c.cells) && g == c.ghost_dat[j] && len(c.cells[j].sequences) != 0 ==> 0 <= g && g < len(c.cells) && c.cells[j].pos == old(c.cells[g].pos) && c.cells[j].sequences == old(c.cells[g].sequences)
//@   loop 4 invariant forall j int, g int :: 0 <= j && j < len(c.cells) && g == c.ghost_dat[j] && len(c.cells[j].sequences) != 0 ==> 0 <= g && g < len(c.cells) && c.cells[j].pos == old(c.cells[g].pos) && c.cells[j].sequences == old(c.cells[g].sequences)
//@   loop 5 invariant forall j int, g int :: 0 <= j && j < len(c.cells) && g == c.ghost_dat[j] && len(c.cells[j].sequences) != 0 ==> 0 <= g && g < len(c.cells) && c.cells[j].pos == old(c.cells[g].pos) && c.cells[j].sequences == old(c.cells[g].sequences)
//@   loop 3 invariant forall j int :: dst <= j && j <= src ==> (j == src && len(c.cells[j].sequences) == 0) || (c.cells[j].pos == old(c.cells[j].pos) && c.cells[j].sequences == old(c.cells[j].sequences))
