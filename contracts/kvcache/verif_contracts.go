//go:build verif

// Contracts for package kvcache (property C06), checked by /verif/govc.
package kvcache

//@ func roundDown
//@   requires 0 <= length && 0 < pad
//@   modifies nothing
//@   ensures 0 <= result && result <= length && length < result + pad
//@   ensures result % pad == 0

//@ func roundUp
//@   requires 0 <= length && 0 < pad && length < (1 << 61) && pad < (1 << 61)
//@   modifies nothing
//@   ensures length <= result && result < length + pad
//@   ensures result % pad == 0

//@ func newRange
//@   modifies nothing
//@   ensures result.min == 9223372036854775807 && result.max == 0

//@ extern func fmt.Errorf
//@   modifies nothing
//@   ensures result != nil

//@ func (*Causal).findStartLoc
//@   requires c.curBatchSize >= 0
//@   modifies nothing
//@   ensures result.1 == nil ==> 0 <= result.0 && result.0 + c.curBatchSize <= len(c.cells)
//@   ensures result.1 == nil ==> forall k int :: result.0 <= k && k < result.0 + c.curBatchSize ==> len(c.cells[k].sequences) == 0
//@   ensures result.1 != nil ==> result.0 == 0
//@   loop 1 invariant 0 <= start && 0 <= count && start + count == rangeindex + 1
//@   loop 1 invariant forall k int :: start <= k && k <= rangeindex ==> len(c.cells[k].sequences) == 0
