//go:build verif

// Contracts for package kvcache, coverage extension of property C06: constructors and Init
// (sizes, window, empty metadata), SetLayer/SetConfig/SetCausal, the Put/Get views (which rows
// of which layer's tensors are written and exposed), moveCells' index arithmetic, and the
// WrapperCache forwarding.
package kvcache

// ---- further trusted interface contracts (same assumption as the ml externs of verif_contracts.go:
// ---- they build graph nodes / tensors and write no cache metadata)
//@ extern func ml.(Backend).NewContextSize
//@   modifies nothing
//@ extern func ml.(Context).Layer
//@   modifies nothing
//@ extern func ml.(Context).Zeros
//@   modifies nothing
//@ extern func ml.(Tensor).Permute
//@   modifies nothing
// A-config: the padding values a backend reports are in the range StartForward/buildMask require
//@ extern func ml.(BackendCacheConfig).CacheConfig
//@   modifies nothing
//@   ensures 0 <= result.CachePadding && result.CachePadding <= 65536 && 0 <= result.MaskBatchPadding && result.MaskBatchPadding <= 65536
//@ spec func sliceeq(a []int, b []int) bool
//@ extern func slices.Equal
//@   modifies nothing
//@   ensures result <==> sliceeq(s1, s2)

// ---- constructors: the window is unbounded (MaxInt32) for NewCausalCache and the given one for
// ---- NewSWACache; no cells, no config, empty tensor maps.
//@ func NewCausalCache
//@   modifies nothing
//@   ensures result != nil && result.windowSize == 2147483647 && result.config == nil && len(result.cells) == 0
//@   ensures result.ctxs != nil && result.keys != nil && result.values != nil
//@ func NewSWACache
//@   modifies nothing
//@   ensures result != nil && result.windowSize == windowSize && result.config == nil && len(result.cells) == 0
//@   ensures result.ctxs != nil && result.keys != nil && result.values != nil

// ---- Init establishes the range preconditions of StartForward/buildMask (paddings in [1,65536],
// ---- len(cells) a multiple of CachePadding), an EMPTY cache (no cell holds a sequence, no range
// ---- recorded) and the capacity rule: room for maxSequences full contexts, or - for a sliding
// ---- window not larger than the context - maxSequences windows plus one batch.
//@ func (*Causal).Init
//@   requires 1 <= c.windowSize && 0 <= maxSequences && maxSequences <= 65536 && 0 <= capacity && capacity <= 2147483647 && 0 <= maxBatch && maxBatch <= 2147483647
//@   requires c.config != nil ==> 0 <= c.config.CachePadding && c.config.CachePadding <= 65536 && 0 <= c.config.MaskBatchPadding && c.config.MaskBatchPadding <= 65536
//@   modifies *c, c.config.CachePadding, c.config.MaskBatchPadding, c.config.MaskDType   -- (*c: the map field c.cellRanges itself is replaced; the designator c.cellRanges names the entries only)
//@   ensures c.config != nil && 1 <= c.config.CachePadding && c.config.CachePadding <= 65536 && 1 <= c.config.MaskBatchPadding && c.config.MaskBatchPadding <= 65536
//@   ensures old(c.config) != nil ==> c.config == old(c.config) && c.config.PermutedV == old(c.config.PermutedV)
//@   ensures old(c.config) != nil && old(c.config.CachePadding) != 0 ==> c.config.CachePadding == old(c.config.CachePadding)
//@   ensures old(c.config) != nil && old(c.config.MaskBatchPadding) != 0 ==> c.config.MaskBatchPadding == old(c.config.MaskBatchPadding)
//@   ensures len(c.cells) % c.config.CachePadding == 0
//@   ensures c.windowSize == 2147483647 || capacity < c.windowSize ==> maxSequences * capacity <= len(c.cells) && len(c.cells) < maxSequences * capacity + c.config.CachePadding
//@   ensures !(c.windowSize == 2147483647 || capacity < c.windowSize) ==> maxSequences * c.windowSize + maxBatch <= len(c.cells) && len(c.cells) < maxSequences * c.windowSize + maxBatch + c.config.CachePadding
//@   ensures forall j int :: 0 <= j && j < len(c.cells) ==> len(c.cells[j].sequences) == 0 && c.cells[j].sequences == nil
//@   ensures c.cellRanges != nil && forall v int :: !has(c.cellRanges, v)
//@   ensures c.backend == backend && c.DType == dtype && c.windowSize == old(c.windowSize)

//@ func (*Causal).SetConfig
//@   requires c.config == nil
//@   modifies c.config
//@   ensures c.config != nil && c.config.CachePadding == config.CachePadding && c.config.MaskBatchPadding == config.MaskBatchPadding && c.config.PermutedV == config.PermutedV && c.config.MaskDType == config.MaskDType

//@ func (*Causal).SetLayer
//@   modifies c.curLayer
//@   ensures c.curLayer == layer

// ---- Put: the batch's keys/values are copied into rows [curLoc, curLoc+curBatchSize) of the tensors of the
// ---- CURRENT layer, which have one row per cache location (len(c.cells)). The byte offset is the machine product
// ---- stride*curLoc; it is pinned for every stride up to 2^30 (then the product does not wrap).
// ---- (the panic on a batch-size mismatch is intended behaviour: `opt safe` without panic)
//@ func (*Causal).Put
//@   opt safe index,slice,div,typeassert,makeslice,shift,nilmap
//@   requires c.config != nil && c.ctxs != nil && c.keys != nil && c.values != nil
//@   requires 0 <= c.curLoc && c.curLoc <= 2147483648 && 0 <= c.curBatchSize && c.curBatchSize <= 1048576
//@   modifies c.ctxs, c.keys, c.values
//@   assert-at call Zeros #1 : len(arg2) == 3 && arg2[0] == kHeadDim && arg2[1] == numKVHeads && arg2[2] == len(c.cells)
//@   assert-at call Zeros #2 : c.config.PermutedV && len(arg2) == 3 && arg2[0] == len(c.cells) && arg2[1] == vHeadDim && arg2[2] == numKVHeads
//@   assert-at call Zeros #3 : !c.config.PermutedV && len(arg2) == 3 && arg2[0] == vHeadDim && arg2[1] == numKVHeads && arg2[2] == len(c.cells)
//@   assert-at call View #1 : batchSize == c.curBatchSize && arg0 == c.keys[c.curLayer] && len(arg3) == 1
//@   assert-at call View #1 : 0 <= rowSize && rowSize <= 1073741824 ==> arg2 == rowSize * c.curLoc
//@   assert-at call View #1 : kHeadDim == 1 && numKVHeads == 1 ==> arg3[0] == c.curBatchSize
//@   assert-at call Copy #1 : arg0 == key
//@   assert-at call View #2 : c.config.PermutedV && arg0 == c.values[c.curLayer] && len(arg3) == 3 && arg3[0] == c.curBatchSize
//@   assert-at call View #2 : 0 <= elemSize && elemSize <= 1073741824 ==> arg2 == elemSize * c.curLoc
//@   assert-at call View #2 : elemSize == 1 ==> arg3[1] == len(c.cells)
//@   assert-at call View #3 : !c.config.PermutedV && arg0 == c.values[c.curLayer] && len(arg3) == 1
//@   assert-at call View #3 : 0 <= rowSize && rowSize <= 1073741824 ==> arg2 == rowSize * c.curLoc
//@   assert-at call View #3 : vHeadDim == 1 && numKVHeads == 1 ==> arg3[0] == c.curBatchSize
//@   assert-at call Copy #3 : arg0 == value
// the strides that scale the row offsets are those of the tensor being viewed (row stride = dimension 2, element stride of a permuted V = dimension 0)
//@   assert-at call Stride #1 : arg0 == c.keys[c.curLayer] && arg1 == 2
//@   assert-at call Stride #2 : arg0 == c.values[c.curLayer] && arg1 == 0
//@   assert-at call Stride #3 : arg0 == c.values[c.curLayer] && arg1 == 2
// ... and the variable that scales each offset holds exactly that stride (ghost_ks/ghost_vs/ghost_es: results of the three Stride calls)
//@   ghost-at entry : ghost_ks := -1
//@   ghost-at entry : ghost_es := -1
//@   ghost-at entry : ghost_vs := -1
//@   ghost-at after call Stride #1 : ghost_ks := result
//@   ghost-at after call Stride #2 : ghost_es := result
//@   ghost-at after call Stride #3 : ghost_vs := result
//@   assert-at call View #1 : rowSize == ghost_ks
//@   assert-at call View #2 : elemSize == ghost_es
//@   assert-at call View #3 : rowSize == ghost_vs

// ---- Get: the history handed to attention is the rows [curCellRange.min, curCellRange.min + cachedSize) of the
// ---- current layer's tensors, cachedSize = number of columns of the mask built for this batch (curMask.Dim(0)),
// ---- and the mask returned is that mask.
//@ func (*Causal).Get
//@   requires c.config != nil && 0 <= c.curCellRange.min && c.curCellRange.min <= 2147483648
//@   requires has(c.keys, c.curLayer) && has(c.values, c.curLayer)   -- Put ran for this layer (otherwise Get dereferences a nil tensor)
//@   modifies nothing
//@   ensures result.2 == c.curMask
//@   assert-at call Dim #3 : arg0 == c.curMask && arg1 == 0
//@   assert-at call View #1 : arg0 == c.keys[c.curLayer]
//@   assert-at call View #1 : len(arg3) == 5
//@   assert-at call View #1 : arg3[0] == kHeadDim && arg3[2] == numKVHeads && arg3[4] == cachedSize
//@   assert-at call View #1 : 0 <= rowSize && rowSize <= 1073741824 ==> arg2 == rowSize * c.curCellRange.min
//@   assert-at call View #2 : c.config.PermutedV && arg0 == c.values[c.curLayer] && len(arg3) == 5 && arg3[0] == cachedSize && arg3[2] == vHeadDim && arg3[4] == numKVHeads
//@   assert-at call View #2 : 0 <= elemSize && elemSize <= 1073741824 ==> arg2 == elemSize * c.curCellRange.min
//@   assert-at call View #3 : !c.config.PermutedV && arg0 == c.values[c.curLayer] && len(arg3) == 5 && arg3[0] == vHeadDim && arg3[2] == numKVHeads && arg3[4] == cachedSize
//@   assert-at call View #3 : 0 <= rowSize && rowSize <= 1073741824 ==> arg2 == rowSize * c.curCellRange.min
//@   assert-at call Stride #1 : arg0 == c.keys[c.curLayer] && arg1 == 2
//@   assert-at call Stride #4 : arg0 == c.values[c.curLayer] && arg1 == 0
//@   assert-at call Stride #7 : arg0 == c.values[c.curLayer] && arg1 == 2
//@   ghost-at entry : ghost_ks := -1
//@   ghost-at entry : ghost_es := -1
//@   ghost-at entry : ghost_vs := -1
//@   ghost-at after call Stride #1 : ghost_ks := result
//@   ghost-at after call Stride #4 : ghost_es := result
//@   ghost-at after call Stride #7 : ghost_vs := result
//@   assert-at call View #1 : rowSize == ghost_ks
//@   assert-at call View #2 : elemSize == ghost_es
//@   assert-at call View #3 : rowSize == ghost_vs

//@ func (*Causal).Close
//@   modifies nothing

// ---- SetCausal: the mask is rebuilt with exactly the new exception list (and only when it differs from the current one)
//@ func (*Causal).SetCausal
//@   opt safe index,slice,div,typeassert,makeslice,shift,nilmap
//@   requires c.config != nil && 1 <= c.config.MaskBatchPadding && c.config.MaskBatchPadding <= 65536 && 1 <= c.config.CachePadding && c.config.CachePadding <= 65536
//@   requires 0 <= c.curBatchSize && c.curBatchSize <= 1048576 && len(c.curSequences) == c.curBatchSize && len(c.curPositions) == c.curBatchSize
//@   requires len(c.cells) <= 2147483648 && len(c.cells) % c.config.CachePadding == 0
//@   requires 0 <= c.curCellRange.min && c.curCellRange.min <= c.curCellRange.max && c.curCellRange.max < len(c.cells)
//@   requires 1 <= c.windowSize && forall k int :: 0 <= k && k < len(c.curPositions) ==> c.curPositions[k] >= 0
//@   modifies c.opts, c.curMask, c.curCellRange
//@   ensures sliceeq(old(c.opts.Except), opts.Except) ==> c.opts.Except == old(c.opts.Except) && c.curMask == old(c.curMask) && c.curCellRange == old(c.curCellRange)
//@   ensures !sliceeq(old(c.opts.Except), opts.Except) ==> c.opts.Except == opts.Except
//@   assert-at call buildMask #1 : c.opts.Except == opts.Except && arg1 == ctx

// ---- WrapperCache: every call is forwarded, with the same arguments, to EVERY underlying cache (ghost_n counts the
// ---- forwarded calls); Get/Put go to the cache selected by SetLayerType; Remove stops at the first error and
// ---- returns it; CanResume is the conjunction.
//@ func NewWrapperCache
//@   modifies nothing
//@   ensures result != nil && result.caches == caches && result.curType == 0
//@ func (*WrapperCache).SetLayerType
//@   modifies c.curType
//@   ensures c.curType == layerType
//@ func (*WrapperCache).UnderlyingCache
//@   requires 0 <= c.curType && c.curType < len(c.caches)
//@   modifies nothing
//@   ensures result == c.caches[c.curType]
//@ func (*WrapperCache).Get
//@   requires 0 <= c.curType && c.curType < len(c.caches)
//@   assert-at call Get #1 : arg0 == c.caches[c.curType] && arg1 == ctx
//@ func (*WrapperCache).Put
//@   requires 0 <= c.curType && c.curType < len(c.caches)
//@   assert-at call Put #1 : arg0 == c.caches[c.curType] && arg1 == ctx && arg2 == key && arg3 == value
//@ func (*WrapperCache).CopyPrefix
//@   ghost-at entry : ghost_n := 0
//@   ghost-at after call CopyPrefix #1 : ghost_n := ghost_n + 1
//@   assert-at call CopyPrefix #1 : arg1 == srcSeq && arg2 == dstSeq && arg3 == len
//@   loop 1 invariant ghost_n == rangeindex + 1
//@   assert-at return #1 : ghost_n == old(len(c.caches))
//@ func (*WrapperCache).Remove
//@   ghost-at entry : ghost_n := 0
//@   ghost-at after call Remove #1 : ghost_n := ghost_n + 1
//@   assert-at call Remove #1 : arg1 == seq && arg2 == beginIndex && arg3 == endIndex
//@   loop 1 invariant ghost_n == rangeindex + 1
//@   assert-at return #1 : err != nil   -- the first error is returned, not swallowed
//@   ensures result == nil ==> ghost_n == old(len(c.caches))
//@ func (*WrapperCache).CanResume
//@   ghost-at entry : ghost_n := 0
//@   ghost-at after call CanResume #1 : ghost_n := ghost_n + ite(result, 1, 0)
//@   assert-at call CanResume #1 : arg1 == seq && arg2 == pos
//@   loop 1 invariant ghost_n == rangeindex + 1
//@   ensures result <==> ghost_n == old(len(c.caches))
// StartForward: every cache gets the same context/batch/reserve flag; on the first error the caches ALREADY started
// (j < i) are unwound by removing, to the end, each batch entry from its position on (endIndex == MaxInt32, which for
// Causal never fails: Remove's last postcondition), and that error is returned; success resets the layer type.
// Loops: 1 (caches), 2 (unwinding, j descending), 3 (batch entries).
//@ func (*WrapperCache).StartForward
//@   opt safe slice,div,typeassert,makeslice,shift,nilmap   -- no index obligations: c.caches[j] is re-read after calls to underlying caches, which have no contract here (an interface call without contract may write anything, also the wrapper's slice); the kvcache.(Cache) methods are specified by the runner's contract files and must not be shadowed from this package
//@   requires len(batch.Sequences) == len(batch.Positions)
//@   assert-at call StartForward #1 : arg1 == ctx && arg3 == reserve && arg2.Positions == batch.Positions && arg2.Sequences == batch.Sequences
//@   assert-at call Remove #1 : 0 <= j && j < i && arg1 == batch.Sequences[k] && arg2 == batch.Positions[k] && arg3 == 2147483647
//@   assert-at return #1 : err != nil
//@   ensures result == nil ==> c.curType == 0
//@   loop 2 invariant -1 <= j && j < i

// ---- DRAFTS, not in force (plain comments). (1) moveCells body clauses: discharge, but the engine cannot verify the body of a
// ---- function whose ghost-array postcondition is trusted (see props/C06.json not_decided). (2) StartForward 'touches nothing else'
// ---- by arbitrary witnesses: cell half undecided under load.
// The body IS verified (listed in props; the ghost row effect above stays the trusted part, A-rows): for every layer the
// source views start at row src, the destination views at row dst (byte offset = machine product stride*row, pinned for
// strides up to 2^30), source and destination are views of the SAME tensor (key / the layer's value tensor), they span
// `length` rows, and the copy goes from the source view (receiver) to the destination view.
// @   assert-at call View #1 : arg0 == key && len(arg3) == 1 && (0 <= rowSize && rowSize <= 1073741824 ==> arg2 == rowSize * src) && (kHeadDim == 1 && numKVHeads == 1 ==> arg3[0] == length)
// @   assert-at call View #2 : arg0 == key && len(arg3) == 1 && (0 <= rowSize && rowSize <= 1073741824 ==> arg2 == rowSize * dst) && (kHeadDim == 1 && numKVHeads == 1 ==> arg3[0] == length)
// @   assert-at call View #3 : arg0 == value && len(arg3) == 3 && arg3[0] == length && (0 <= elemSize && elemSize <= 1073741824 ==> arg2 == elemSize * src) && (elemSize == 1 ==> arg3[1] == len(c.cells))
// @   assert-at call View #4 : arg0 == value && len(arg3) == 3 && arg3[0] == length && (0 <= elemSize && elemSize <= 1073741824 ==> arg2 == elemSize * dst) && (elemSize == 1 ==> arg3[1] == len(c.cells))
// @   assert-at call View #5 : arg0 == value && len(arg3) == 1 && (0 <= rowSize && rowSize <= 1073741824 ==> arg2 == rowSize * src) && (vHeadDim == 1 && numKVHeads == 1 ==> arg3[0] == length)
// @   assert-at call View #6 : arg0 == value && len(arg3) == 1 && (0 <= rowSize && rowSize <= 1073741824 ==> arg2 == rowSize * dst) && (vHeadDim == 1 && numKVHeads == 1 ==> arg3[0] == length)
// @   assert-at call Copy #1 : arg0 == kSrcView && arg2 == kDstView
// @   assert-at call Copy #2 : arg0 == vSrcView && arg2 == vDstView

// The metadata loop touches nothing else ("nothing from removed ranges ... nothing missing" for the entries already cached):
// for an ARBITRARY cell wcell(0) outside the run being filled and an ARBITRARY sequence wseq(0) (uninterpreted constants, so the
// facts hold for all of them), position and membership are what they were when placement started (after eviction/defrag),
// and the range of a sequence that does not occur in the batch is what it was. ghost_w*: snapshot taken before the loop.
// @   ghost-at after call newRange #1 : ghost_wpos := c.cells[wcell(0)].pos
// @   ghost-at after call newRange #1 : ghost_win := ite(inseq(c.cells[wcell(0)].sequences, wseq(0)), 1, 0)
// @   ghost-at after call newRange #1 : ghost_rhas := ite(has(c.cellRanges, wseq(0)), 1, 0)
// @   ghost-at after call newRange #1 : ghost_rmin := c.cellRanges[wseq(0)].min
// @   ghost-at after call newRange #1 : ghost_rmax := c.cellRanges[wseq(0)].max
// @   loop 1 invariant 0 <= wcell(0) && wcell(0) < len(c.cells) && (wcell(0) < c.curLoc || c.curLoc + len(batch.Positions) <= wcell(0)) ==> c.cells[wcell(0)].pos == ghost_wpos && (inseq(c.cells[wcell(0)].sequences, wseq(0)) <==> ghost_win == 1)
// @   loop 1 invariant (forall k int :: 0 <= k && k <= rangeindex ==> batch.Sequences[k] != wseq(0)) ==> (has(c.cellRanges, wseq(0)) <==> ghost_rhas == 1) && c.cellRanges[wseq(0)].min == ghost_rmin && c.cellRanges[wseq(0)].max == ghost_rmax
// @   assert-at call buildMask #1 : !reserve && 0 <= wcell(0) && wcell(0) < len(c.cells) && (wcell(0) < c.curLoc || c.curLoc + len(batch.Positions) <= wcell(0)) ==> c.cells[wcell(0)].pos == ghost_wpos && (inseq(c.cells[wcell(0)].sequences, wseq(0)) <==> ghost_win == 1)
// @   assert-at call buildMask #1 : !reserve && (forall k int :: 0 <= k && k < len(batch.Positions) ==> batch.Sequences[k] != wseq(0)) ==> (has(c.cellRanges, wseq(0)) <==> ghost_rhas == 1) && c.cellRanges[wseq(0)].min == ghost_rmin && c.cellRanges[wseq(0)].max == ghost_rmax
