//go:build verif

// C14: the final flush of withheld pieces (runner.go flushPending) streams only whole,
// valid UTF-8, and only a prefix of what was withheld.
package ollamarunner

// facts about strings (trusted): the empty string is valid UTF-8; prefix is reflexive and
// closed under taking a shorter prefix
//@ axiom forall s string :: len(s) == 0 ==> svalidutf8(s)
//@ axiom forall s string :: shasprefix(s, s)
//@ axiom forall s string, t string, n int :: shasprefix(s, t) && 0 <= n && n <= len(t) ==> shasprefix(s, t[0:n])

//@ func flushPending
//@   modifies seq.pendingResponses
//@   loop 1 invariant shasprefix(old(sjoin(seq.pendingResponses, "")), joined)
//@   loop 1 decreases len(joined)
//@   assert-at send responses #1 : svalidutf8(sent) && len(sent) > 0 && shasprefix(old(sjoin(seq.pendingResponses, "")), sent)
//@   ensures len(seq.pendingResponses) == 0

// ---- processBatch: the per-token stop / withhold / flush decision -------------------------------
// Only this decision is under contract (order-of-effects with recorded results); the model,
// sampler and cache calls around it are unknown code (everything reachable is forgotten there).
// Per generated piece: the piece is appended to the withheld pieces, `sequence` is their
// concatenation; a contained stop (FindStop on the whole withheld text with the request's stops)
// truncates with THAT stop and ends the sequence with reason stop; otherwise nothing is streamed
// while the text ends in a proper prefix of a stop or in an incomplete character; only then the
// withheld pieces are flushed. The finish reason says which of limit / end-of-sequence / stop /
// closed connection ended generation.
//@ extern func log/slog.Debug
//@   modifies nothing
//@ extern func log/slog.Warn
//@   modifies nothing
//@ func (*Server).processBatch
//@   opt safe panic
//@   ghost-at after call FindStop #1 : ghost_fs := ite(result.0, 1, 0)
//@   ghost-at after call ContainsStopSuffix #1 : ghost_cs := ite(result, 1, 0)
//@   ghost-at after call IncompleteUnicode #1 : ghost_iu := ite(result, 1, 0)
//@   assert-at call FindStop #1 : arg0 == sjoin(seq.pendingResponses, "") && arg1 == seq.stop
//@   assert-at call TruncateStop #1 : ghost_fs == 1 && arg0 == seq.pendingResponses && arg1 == stop
//@   assert-at call ContainsStopSuffix #1 : ghost_fs == 0 && arg0 == sjoin(seq.pendingResponses, "") && arg1 == seq.stop
//@   assert-at call IncompleteUnicode #1 : ghost_fs == 0 && ghost_cs == 0 && arg0 == sjoin(seq.pendingResponses, "")
//@   assert-at call flushPending #1 : ghost_fs == 0 && ghost_cs == 0 && ghost_iu == 0 && arg0 == seq
//@   assert-at call removeSequence #1 : arg2 == llm.DoneReasonLength && seq.numPredict > 0 && seq.numPredicted >= seq.numPredict
//@   assert-at call removeSequence #3 : arg2 == llm.DoneReasonStop
//@   assert-at call removeSequence #4 : arg2 == llm.DoneReasonStop && ghost_fs == 1
//@   assert-at call removeSequence #5 : arg2 == llm.DoneReasonConnectionClosed && ghost_fs == 0 && ghost_cs == 0 && ghost_iu == 0
// C07 (the cached state of a slot corresponds to the inputs recorded for it): the position handed
// to the cache for an input is its index in the slot's record AT THAT MOMENT (cached + queued in
// this batch, i.e. after a context shift has shortened the record), under the slot's sequence id;
// after Forward the queued inputs are appended to the record (added after C07-seed3)
//@   assume-at call append #5 : len(seq.cache.Inputs) + len(seq.pendingInputs) < 2147483648   -- range assumption (int32 positions)
//@   assert-at call append #5 : arg1[0] == len(seq.cache.Inputs) + len(seq.pendingInputs)
//@   assert-at call append #6 : arg1[0] == seq.cache.Id
//@   assert-at call append #9 : arg0 == seq.cache.Inputs && arg1 == seq.pendingInputs

// removeSequence: the final flush and the reason are in place before the stream is closed.
//@ func (*Server).removeSequence
//@   opt safe panic
//@   ghost-at entry : ghost_flushed := 0
//@   ghost-at after call flushPending #1 : ghost_flushed := 1
//@   assert-at call close #1 : ghost_flushed == 1 && seq.doneReason == reason
