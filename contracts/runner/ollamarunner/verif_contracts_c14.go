//go:build verif

// C14: the final flush of withheld pieces (runner.go flushPending) streams only whole,
// valid UTF-8, and only a prefix of what was withheld.
package ollamarunner

// facts about strings (trusted): the empty string is valid UTF-8; prefix is reflexive and
// closed under taking a shorter prefix
//@ axiom forall s string :: len(s) == 0 ==> svalidutf8(s)
//@ axiom forall s string :: shasprefix(s, s)
//@ axiom forall s string, t string, n int :: shasprefix(s, t) && 0 <= n && n <= len(t) ==> shasprefix(s, t[0:n])
// (C14 audit) two more facts about strings (trusted, listed in props/C14.json): a string is its own full-length
// substring; a prefix of a prefix is a prefix.
//@ axiom forall s string :: s[0:len(s)] == s
//@ axiom forall s string, a int, b int :: 0 <= b && b <= a && a <= len(s) ==> s[0:a][0:b] == s[0:b]

//@ func flushPending
//@   modifies seq.pendingResponses
//@   loop 1 invariant shasprefix(old(sjoin(seq.pendingResponses, "")), joined)
//@   loop 1 decreases len(joined)
//@   assert-at send responses #1 : svalidutf8(sent) && len(sent) > 0 && shasprefix(old(sjoin(seq.pendingResponses, "")), sent)
//@   ensures len(seq.pendingResponses) == 0
// -- added by the C14 audit: "drop invalid tail on final flush" drops ONLY the invalid tail - what is
// sent is the LONGEST valid prefix of the withheld text (no longer prefix of it is valid UTF-8), and
// when nothing is sent no non-empty prefix was valid. Otherwise generated text would be lost and the
// streamed text would not "end at the end-of-sequence token or the prediction limit".
//@   loop 1 invariant joined == old(sjoin(seq.pendingResponses, ""))[0:len(joined)] && len(joined) <= len(old(sjoin(seq.pendingResponses, "")))
//@   loop 1 invariant forall n int :: len(joined) < n && n <= len(old(sjoin(seq.pendingResponses, ""))) ==> !svalidutf8(old(sjoin(seq.pendingResponses, ""))[0:n])
//@   assert-at send responses #1 : forall n int :: len(sent) < n && n <= len(old(sjoin(seq.pendingResponses, ""))) ==> !svalidutf8(old(sjoin(seq.pendingResponses, ""))[0:n])
//@   assert-at return #1 : forall n int :: 0 < n && n <= len(old(sjoin(seq.pendingResponses, ""))) ==> !svalidutf8(old(sjoin(seq.pendingResponses, ""))[0:n])

// ---- processBatch: the per-token stop / withhold / flush decision -------------------------------
// Only this decision is under contract (order-of-effects with recorded results); the model,
// sampler and cache calls around it are unknown code (everything reachable is forgotten there).
// Per generated piece: the piece is appended to the withheld pieces, `sequence` is their
// concatenation; a contained stop (FindStop on the whole withheld text with the request's stops)
// truncates with THAT stop and ends the sequence with reason stop; otherwise nothing is streamed
// while the text ends in a proper prefix of a stop or in an incomplete character; only then the
// withheld pieces are flushed. The finish reason says which of limit / end-of-sequence / stop /
// closed connection ended generation.
//@ extern func log/slog.Debug
//@   modifies nothing
//@ extern func log/slog.Warn
//@   modifies nothing
//@ func (*Server).processBatch
//@   opt safe panic
//@   ghost-at after call FindStop #1 : ghost_fs := ite(result.0, 1, 0)
//@   ghost-at after call ContainsStopSuffix #1 : ghost_cs := ite(result, 1, 0)
//@   ghost-at after call IncompleteUnicode #1 : ghost_iu := ite(result, 1, 0)
//@   assert-at call FindStop #1 : arg0 == sjoin(seq.pendingResponses, "") && arg1 == seq.stop
//@   assert-at call TruncateStop #1 : ghost_fs == 1 && arg0 == seq.pendingResponses && arg1 == stop
//@   assert-at call ContainsStopSuffix #1 : ghost_fs == 0 && arg0 == sjoin(seq.pendingResponses, "") && arg1 == seq.stop
//@   assert-at call IncompleteUnicode #1 : ghost_fs == 0 && ghost_cs == 0 && arg0 == sjoin(seq.pendingResponses, "")
//@   assert-at call flushPending #1 : ghost_fs == 0 && ghost_cs == 0 && ghost_iu == 0 && arg0 == seq
//@   assert-at call removeSequence #1 : arg2 == llm.DoneReasonLength && seq.numPredict > 0 && seq.numPredicted >= seq.numPredict
//@   assert-at call removeSequence #3 : arg2 == llm.DoneReasonStop
//@   assert-at call removeSequence #4 : arg2 == llm.DoneReasonStop && ghost_fs == 1
//@   assert-at call removeSequence #5 : arg2 == llm.DoneReasonConnectionClosed && ghost_fs == 0 && ghost_cs == 0 && ghost_iu == 0
// C07 (the cached state of a slot corresponds to the inputs recorded for it): the position handed
// to the cache for an input is its index in the slot's record AT THAT MOMENT (cached + queued in
// this batch, i.e. after a context shift has shortened the record), under the slot's sequence id;
// after Forward the queued inputs are appended to the record (added after C07-seed3)
//@   assume-at call append #5 : len(seq.cache.Inputs) + len(seq.pendingInputs) < 2147483648   -- range assumption (int32 positions)
//@   assert-at call append #5 : arg1[0] == len(seq.cache.Inputs) + len(seq.pendingInputs)
//@   assert-at call append #6 : arg1[0] == seq.cache.Id
//@   assert-at call append #9 : arg0 == seq.cache.Inputs && arg1 == seq.pendingInputs
// -- added by the C14/C07 audit --
// C14 "it ends at the end-of-sequence token": once the sampled token is end-of-sequence nothing more is
// decoded or appended to the text for this sequence; the sequence that is removed is the one being
// looked at (index of the loop at hand, not a stale one); the withheld list grows by exactly the
// decoded piece.
//@   ghost-at after call Is #1 : ghost_eos := ite(result, 1, 0)
//@   assert-at call Decode #1 : ghost_eos == 0
//@   assert-at call append #10 : ghost_eos == 0 && arg0 == seq.pendingResponses && len(arg1) == 1 && arg1[0] == piece
//@   assert-at call removeSequence #1 : arg1 == seqIdx
//@   assert-at call removeSequence #3 : arg1 == i && ghost_eos == 1
//@   assert-at call removeSequence #4 : arg1 == i
//@   assert-at call removeSequence #5 : arg1 == i
// C14 "or the prediction limit": a sequence that has reached its limit gets nothing queued in this pass.
//@   assert-at call append #3 : !(seq.numPredict > 0 && seq.numPredicted >= seq.numPredict)
// C07 "cache record trimmed when a stop sequence removes generated tokens": with o/n = number of withheld
// pieces before/after TruncateStop and t = 1 if the last kept piece was cut, the new record is a prefix of
// the old one that (1) never contains the token sampled in this pass (it was not given to the model:
// the cache holds len(Inputs) entries, so a longer record would break "cache == record"), and (2) has
// dropped every token whose piece was removed or cut: at most len(Inputs) + 1 - (o - n) - t entries.
//@   ghost-at call TruncateStop #1 : ghost_olen := len(arg0)
//@   ghost-at after call TruncateStop #1 : ghost_nlen := len(result.0)
//@   ghost-at after call TruncateStop #1 : ghost_trunc := ite(result.1, 1, 0)
//@   assert-at store Inputs #5 : len(stored) <= len(seq.cache.Inputs) && len(stored) <= len(seq.cache.Inputs) + 1 - (ghost_olen - ghost_nlen) - ghost_trunc
//@   assert-at store Inputs #5 : stored == seq.cache.Inputs[0:len(stored)]      -- #5: the selector matches field names by suffix, stores to pendingInputs count too
// C07 "what the model is given": the token queued for the model is the token of the input that is
// recorded as pending (and so, after Forward, in the slot's record at the position handed to the cache);
// tokens, positions and sequence ids stay aligned (one of each per input); the logits row a sequence
// samples from (iBatch-th output) is the row of its own last input; a context shift happens only while
// nothing of the sequence is queued (queued positions were computed before the shift) and for the
// sequence's own slot and keep count; after a failed shift the inputs handed back are put in front of
// the remaining queue; at the end of the pass the queue loses exactly the inputs that were queued; the
// sampled token is the next input.
//@   ghost-at call append #3 : ghost_tok := arg1[0]
//@   assert-at call append #8 : arg0 == seq.pendingInputs && len(arg1) == 1 && arg1[0].Token == ghost_tok
//@   assert-at call append #7 : arg0 == batch.Outputs && seq.iBatch == len(batch.Outputs) && arg1[0] == wrapint32(len(batchInputs) - 1)
//@   assert-at call ShiftCacheSlot #1 : len(seq.pendingInputs) == 0 && arg0 == s.cache && arg1 == seq.cache && arg2 == seq.numKeep
//@   assert-at call append #2 : arg1 == seq.inputs && len(seq.pendingInputs) == 0
//@   assert-at store inputs #3 : stored == seq.inputs[len(seq.pendingInputs):]
//@   assert-at store inputs #4 : len(stored) == 1 && stored[0].Token == token

// removeSequence: the final flush and the reason are in place before the stream is closed.
//@ func (*Server).removeSequence
//@   opt safe panic
//@   ghost-at entry : ghost_flushed := 0
//@   ghost-at after call flushPending #1 : ghost_flushed := 1
//@   assert-at call close #1 : ghost_flushed == 1 && seq.doneReason == reason
// (C14/C07 audit) C07 "a slot in use is never given to a second request": when the semaphore lets the next
// request in, the finished sequence is no longer in s.seqs (processBatch will not touch it or its slot
// again) and only then is its slot free; the stream that is closed and the slot that is released are
// those of the sequence at seqIndex.
//@   assert-at call Release #1 : s.seqs[seqIndex] == nil && !seq.cache.InUse
//@   assert-at call flushPending #1 : arg0 == s.seqs[seqIndex]
