//go:build verif

// Contracts for package runner/ollamarunner (property C07), checked by /verif/govc.
//
// C07: "prompt caching, slot reuse and context shifting never change what the model
// sees". At the level of the slot bookkeeping this is the invariant
//
//	I(c):  c.cache != nil ==> for every slot k:  kvlen(cache state, slots[k].Id) == len(slots[k].Inputs)
//
// (the KV cache holds exactly one entry per recorded input, positions 0..len-1), the
// rule that a slot in use is never selected, and the rule that whatever LoadCacheSlot
// keeps in the slot is a prefix of the new prompt and the rest of the prompt is what is
// handed back for evaluation.
//
// The KV cache is behind the interface kvcache.Cache: its state is the ghost field
// this.ghost_ver (a version number) and the uninterpreted function kvlen(version, seq).
package ollamarunner

// Two inputs are "the same input" for the cache when Token and MultimodalHash agree
// (assumption A-hash in props/C07.json); written out in every clause below.

//@ spec func kvlen(ver int, seq int) int      -- number of cached positions of sequence seq in cache state ver
//@ axiom forall v int, s int :: kvlen(v, s) >= 0

// ---- kvcache.Cache (trusted; from the interface documentation in kvcache/cache.go) ----

// Remove deletes [beginIndex, endIndex) from seq and moves the later entries down;
// endIndex == math.MaxInt32 means "to the end". An end below the begin denotes no range.
// On error the state of seq is unspecified (callers must then remove the whole
// sequence); removing a whole sequence never fails (A-remove-all).
//@ extern func kvcache.(Cache).Remove
//@   requires 0 <= beginIndex
//@   modifies this.ghost_ver
//@   ensures forall s int :: s != seq ==> kvlen(this.ghost_ver, s) == kvlen(old(this.ghost_ver), s)
//@   ensures result == nil && endIndex == 2147483647 ==> kvlen(this.ghost_ver, seq) == min(old(kvlen(this.ghost_ver, seq)), beginIndex)
//@   ensures result == nil && endIndex != 2147483647 ==> kvlen(this.ghost_ver, seq) == old(kvlen(this.ghost_ver, seq)) - (max(min(endIndex, old(kvlen(this.ghost_ver, seq))), min(beginIndex, old(kvlen(this.ghost_ver, seq)))) - min(beginIndex, old(kvlen(this.ghost_ver, seq))))
//@   ensures beginIndex == 0 && endIndex == 2147483647 ==> result == nil
// (coverage extension) the real implementation (kvcache.Causal.Remove; its contract in contracts/kvcache requires
// beginIndex <= endIndex) renumbers every entry at or behind endIndex by beginIndex - endIndex: with an end below the
// begin nothing is deleted but positions move UP, which the kvlen model cannot express - so callers must not do it.
//@   requires beginIndex <= endIndex

// CopyPrefix makes dstSeq hold exactly the first len entries of srcSeq.
//@ extern func kvcache.(Cache).CopyPrefix
//@   requires 0 <= len
//@   modifies this.ghost_ver
//@   ensures forall s int :: s != dstSeq ==> kvlen(this.ghost_ver, s) == kvlen(old(this.ghost_ver), s)
//@   ensures kvlen(this.ghost_ver, dstSeq) == min(len, old(kvlen(this.ghost_ver, srcSeq)))

//@ extern func kvcache.(Cache).CanResume
//@   modifies nothing

// ---- countCommonPrefix ----

//@ func countCommonPrefix
//@   modifies nothing
//@   requires len(a) < (1 << 31) || len(b) < (1 << 31)
//@   ensures 0 <= result && result <= len(a) && result <= len(b)
//@   ensures forall k int :: 0 <= k && k < result ==> a[k].Token == b[k].Token && a[k].MultimodalHash == b[k].MultimodalHash
//@   ensures result == len(a) || result == len(b) || a[result].Token != b[result].Token || a[result].MultimodalHash != b[result].MultimodalHash
//@   loop 1 invariant count == rangeindex + 1 && count <= len(a) && count <= len(b)
//@   loop 1 invariant forall k int :: 0 <= k && k <= rangeindex ==> a[k].Token == b[k].Token && a[k].MultimodalHash == b[k].MultimodalHash

// ---- ShiftDiscard ----
// With 0 <= numKeep < numCtx: the discarded range [numKeep, numKeep+result) lies inside the
// inputs, and after discarding at least one cache entry is free.

//@ func (*InputCache).ShiftDiscard
//@   modifies nothing
//@   requires 0 <= numKeep && numKeep < c.numCtx && 0 <= inputLen
//@   ensures 0 <= result && result <= inputLen
//@   ensures result > 0 ==> numKeep + result <= inputLen
//@   ensures inputLen - result < c.numCtx
//@   ensures inputLen <= c.numCtx - max((c.numCtx - numKeep) / 2, 1) ==> result == 0
//@   ensures inputLen == c.numCtx ==> result == max((c.numCtx - numKeep) / 2, 1)

// ---- findLongestCacheSlot ----
// The selected slot is one of c.slots, is not in use, and the returned length is the
// length of the longest common prefix of its inputs and the prompt. "No slot" is
// reported only when every slot is in use.

//@ func (*InputCache).findLongestCacheSlot
//@   modifies nothing
//@   requires len(prompt) < (1 << 31)
//@   ensures result.2 == nil ==> exists j int :: 0 <= j && j < len(c.slots) && result.0 == &c.slots[j]
//@   ensures result.2 == nil ==> !result.0.InUse
//@   ensures result.2 == nil ==> 0 <= result.1 && result.1 <= len(result.0.Inputs) && result.1 <= len(prompt)
//@   ensures result.2 == nil ==> forall k int :: 0 <= k && k < result.1 ==> result.0.Inputs[k].Token == prompt[k].Token && result.0.Inputs[k].MultimodalHash == prompt[k].MultimodalHash
//@   ensures result.2 == nil ==> result.1 == len(result.0.Inputs) || result.1 == len(prompt) || result.0.Inputs[result.1].Token != prompt[result.1].Token || result.0.Inputs[result.1].MultimodalHash != prompt[result.1].MultimodalHash
//@   ensures result.2 != nil ==> result.0 == nil && forall k int :: 0 <= k && k < len(c.slots) ==> c.slots[k].InUse
//@   loop 1 invariant longestSlot == nil ==> longest == -1 && forall k int :: 0 <= k && k <= rangeindex ==> c.slots[k].InUse
//@   loop 1 invariant longestSlot != nil ==> exists j int :: 0 <= j && j <= rangeindex && longestSlot == &c.slots[j]
//@   loop 1 invariant longestSlot != nil ==> !longestSlot.InUse && 0 <= longest && longest <= len(longestSlot.Inputs) && longest <= len(prompt)
//@   loop 1 invariant longestSlot != nil ==> forall k int :: 0 <= k && k < longest ==> longestSlot.Inputs[k].Token == prompt[k].Token && longestSlot.Inputs[k].MultimodalHash == prompt[k].MultimodalHash
//@   loop 1 invariant longestSlot != nil ==> longest == len(longestSlot.Inputs) || longest == len(prompt) || longestSlot.Inputs[longest].Token != prompt[longest].Token || longestSlot.Inputs[longest].MultimodalHash != prompt[longest].MultimodalHash

// ---- library functions that never return a nil error ----
// (declared once, here; the llamarunner contract file relies on the same two clauses)
//@ extern func errors.New
//@   modifies nothing
//@   ensures result != nil
//@ extern func fmt.Errorf
//@   modifies nothing
//@   ensures result != nil

// ---- ShiftCacheSlot ----
// Success (nil): Inputs' == Inputs[:numKeep] ++ Inputs[numKeep+d:] where d = old length - new
// length, the kept prefix is untouched (numKeep <= new length when anything was discarded),
// at least one cache entry is free afterwards, a full context loses half of its non-kept
// window, the cache was asked to remove exactly [numKeep, numKeep+d) of this slot's sequence,
// and the cache still holds one entry per recorded input.
// Failure (an error although numKeep < numCtx, i.e. *ErrReprocessInputs): the recorded inputs are cleared AND the cache holds nothing
// for the sequence; the inputs handed back for reprocessing are Inputs[:numKeep] ++ Inputs[numKeep+d:].
// The other error (numKeep >= numCtx): nothing changed.
// Loop 1 is the in-place shift.

//@ func (*InputCache).ShiftCacheSlot
//@   requires 0 <= numKeep && len(slot.Inputs) < (1 << 31)
//@   requires c.cache != nil ==> kvlen(c.cache.ghost_ver, slot.Id) == len(slot.Inputs)
//@   modifies slot.Inputs, slot.Inputs[all], c.cache.ghost_ver
//@
//@   ensures result == nil ==> len(slot.Inputs) <= old(len(slot.Inputs)) && len(slot.Inputs) < c.numCtx
//@   ensures result == nil && len(slot.Inputs) < old(len(slot.Inputs)) ==> numKeep <= len(slot.Inputs)
//@   ensures result == nil && old(len(slot.Inputs)) == c.numCtx ==> old(len(slot.Inputs)) - len(slot.Inputs) == max((c.numCtx - numKeep) / 2, 1)
//@   ensures result == nil ==> forall k int :: 0 <= k && k < numKeep && k < len(slot.Inputs) ==> slot.Inputs[k] == old(slot.Inputs[k])
//@   ensures result == nil ==> forall k int, d int :: numKeep <= k && k < len(slot.Inputs) && d == old(len(slot.Inputs)) - len(slot.Inputs) ==> slot.Inputs[k] == old(slot.Inputs[k + d])
//@   ensures result == nil && c.cache != nil ==> kvlen(c.cache.ghost_ver, slot.Id) == len(slot.Inputs)
//@   ensures result != nil && numKeep < c.numCtx ==> len(slot.Inputs) == 0
//@   ensures result != nil && numKeep < c.numCtx && c.cache != nil ==> kvlen(c.cache.ghost_ver, slot.Id) == 0
//@   ensures result != nil && numKeep >= c.numCtx ==> slot.Inputs == old(slot.Inputs) && c.cache.ghost_ver == old(c.cache.ghost_ver)
//@
//@   assert-at call Remove #1 : arg1 == slot.Id && arg2 == numKeep && arg3 == numKeep + discard && 0 < discard && arg3 <= inputLen
//@   assert-at call Remove #2 : arg1 == slot.Id && arg2 == 0
//@   assert-at call Remove #2 : arg3 == 2147483647      -- "remove the whole sequence": math.MaxInt32 is the end index that means "to the end"
//@   assert-at return #3 : len(newInputs) == inputLen - discard
//@   assert-at return #3 : forall k int :: 0 <= k && k < numKeep ==> newInputs[k] == old(slot.Inputs[k])
//@   assert-at return #3 : forall k int :: numKeep <= k && k < inputLen - discard ==> newInputs[k] == old(slot.Inputs[k + discard])
//@
//@   loop 1 invariant numKeep + discard <= i && i <= inputLen && slot.Inputs == old(slot.Inputs)
//@   loop 1 invariant forall k int :: 0 <= k && k < numKeep ==> slot.Inputs[k] == old(slot.Inputs[k])
//@   loop 1 invariant forall k int :: numKeep <= k && k < i - discard ==> slot.Inputs[k] == old(slot.Inputs[k + discard])
//@   loop 1 invariant forall k int :: i <= k && k < inputLen ==> slot.Inputs[k] == old(slot.Inputs[k])

// ---- findBestCacheSlot ----
// Same selection contract as findLongestCacheSlot (slot of c.slots, not in use, returned
// length = longest common prefix of the slot's inputs - after a possible fork - and the
// prompt). Fork: the evicted slot gets Inputs == src.Inputs[:n] in a fresh array and the cache
// is asked CopyPrefix(src.Id, dst.Id, n) with the same n. Nothing else changes, and I(c) is kept.
//
// `opt safe+ nil`: oldestSlot stays nil when no slot that is not in use compares older than
// time.Now(); `oldestSlot.InUse` then dereferences nil (see props/C07.json).

//@ func (*InputCache).findBestCacheSlot
//@   opt safe+ nil
//@   requires len(prompt) < (1 << 31) && len(c.slots) >= 1
//@   requires forall k int :: 0 <= k && k < len(c.slots) ==> c.slots[k].Id == k
//@   requires c.cache != nil ==> forall k int :: 0 <= k && k < len(c.slots) ==> kvlen(c.cache.ghost_ver, c.slots[k].Id) == len(c.slots[k].Inputs)
//@   modifies c.slots[all], c.cache.ghost_ver
//@
//@   ensures result.2 == nil ==> exists j int :: 0 <= j && j < len(c.slots) && result.0 == &c.slots[j]
//@   ensures result.2 == nil ==> !result.0.InUse
//@   ensures result.2 == nil ==> 0 <= result.1 && result.1 <= len(result.0.Inputs) && result.1 <= len(prompt)
//@   ensures result.2 == nil ==> forall k int :: 0 <= k && k < result.1 ==> result.0.Inputs[k].Token == prompt[k].Token && result.0.Inputs[k].MultimodalHash == prompt[k].MultimodalHash
//@   ensures result.2 == nil ==> result.1 == len(result.0.Inputs) || result.1 == len(prompt) || result.0.Inputs[result.1].Token != prompt[result.1].Token || result.0.Inputs[result.1].MultimodalHash != prompt[result.1].MultimodalHash
//@   ensures result.2 != nil ==> result.0 == nil
//@   ensures forall k int :: 0 <= k && k < len(c.slots) ==> c.slots[k].Id == old(c.slots[k].Id) && c.slots[k].InUse == old(c.slots[k].InUse) && c.slots[k].lastUsed == old(c.slots[k].lastUsed)
//@   ensures forall k int :: 0 <= k && k < len(c.slots) && (result.2 != nil || result.0 != &c.slots[k]) ==> c.slots[k].Inputs == old(c.slots[k].Inputs)
//@   ensures result.2 == nil ==> result.0.Inputs == old(result.0.Inputs) || (len(result.0.Inputs) == result.1 && fresh(&result.0.Inputs[0]))
//@   ensures c.cache != nil ==> forall k int :: 0 <= k && k < len(c.slots) ==> kvlen(c.cache.ghost_ver, c.slots[k].Id) == len(c.slots[k].Inputs)
//@   ensures result.2 != nil ==> c.cache.ghost_ver == old(c.cache.ghost_ver)
//@
//@   assert-at call CopyPrefix #1 : arg1 == longestSlot.Id && arg2 == oldestSlot.Id && arg3 == longest && arg1 != arg2
//@   assert-at call CopyPrefix #1 : len(oldestSlot.Inputs) == longest && forall k int :: 0 <= k && k < longest ==> oldestSlot.Inputs[k] == longestSlot.Inputs[k]
//@
//@   loop 1 invariant -1 <= longest && (rangeindex >= 0 ==> longestSlot != nil) && (longestSlot == nil ==> longest == -1)
//@   loop 1 invariant longestSlot != nil ==> exists j int :: 0 <= j && j <= rangeindex && longestSlot == &c.slots[j]
//@   loop 1 invariant longestSlot != nil ==> 0 <= longest && longest <= len(longestSlot.Inputs) && longest <= len(prompt)
//@   loop 1 invariant longestSlot != nil ==> forall k int :: 0 <= k && k < longest ==> longestSlot.Inputs[k].Token == prompt[k].Token && longestSlot.Inputs[k].MultimodalHash == prompt[k].MultimodalHash
//@   loop 1 invariant longestSlot != nil ==> longest == len(longestSlot.Inputs) || longest == len(prompt) || longestSlot.Inputs[longest].Token != prompt[longest].Token || longestSlot.Inputs[longest].MultimodalHash != prompt[longest].MultimodalHash
//@   loop 1 invariant longest <= 0 ==> forall k int :: 0 <= k && k <= rangeindex ==> len(c.slots[k].Inputs) == 0 || len(prompt) == 0 || c.slots[k].Inputs[0].Token != prompt[0].Token || c.slots[k].Inputs[0].MultimodalHash != prompt[0].MultimodalHash
//@   loop 1 invariant oldestSlot != nil ==> exists j int :: 0 <= j && j <= rangeindex && oldestSlot == &c.slots[j]
//@   loop 1 invariant oldestSlot != nil ==> !oldestSlot.InUse

// ---- LoadCacheSlot ----
// The slot handed out was not in use and is now; no other slot changes owner. What stays
// recorded in the slot is a prefix of the prompt (input-wise equal), what is returned is
// exactly the rest of the prompt and is never empty; the cache was trimmed to the same
// length (Remove(id, numPast, "to the end")), so I(c) holds again. No other slot's inputs change.

//@ func (*InputCache).LoadCacheSlot
//@   requires 1 <= len(prompt) && len(prompt) < (1 << 31) && len(c.slots) >= 1
//@   requires &c.slots[0] != nil      -- Go type invariant of a non-empty slice (its array exists); the engine assumes it only for values loaded by code, and this body never loads c.slots itself
//@   requires forall k int :: 0 <= k && k < len(c.slots) ==> c.slots[k].Id == k
//@   requires c.cache != nil ==> forall k int :: 0 <= k && k < len(c.slots) ==> kvlen(c.cache.ghost_ver, c.slots[k].Id) == len(c.slots[k].Inputs)
//@   modifies c.slots[all], c.cache.ghost_ver
//@
//@   ensures result.2 == nil ==> exists j int :: 0 <= j && j < len(c.slots) && result.0 == &c.slots[j]
//@   ensures result.2 == nil ==> !old(result.0.InUse) && result.0.InUse
//@   ensures forall k int :: 0 <= k && k < len(c.slots) && (result.2 != nil || result.0 != &c.slots[k]) ==> c.slots[k].InUse == old(c.slots[k].InUse) && c.slots[k].Inputs == old(c.slots[k].Inputs)
//@   ensures forall k int :: 0 <= k && k < len(c.slots) ==> c.slots[k].Id == old(c.slots[k].Id)
//@   ensures result.2 == nil ==> len(result.1) >= 1 && len(result.0.Inputs) + len(result.1) == len(prompt)
//@   ensures result.2 == nil ==> result.1 == prompt[len(result.0.Inputs):]
//@   ensures result.2 == nil ==> forall k int :: 0 <= k && k < len(result.0.Inputs) ==> result.0.Inputs[k].Token == prompt[k].Token && result.0.Inputs[k].MultimodalHash == prompt[k].MultimodalHash
//@   ensures c.cache != nil ==> forall k int :: 0 <= k && k < len(c.slots) ==> kvlen(c.cache.ghost_ver, c.slots[k].Id) == len(c.slots[k].Inputs)
//@   ensures result.2 != nil ==> result.0 == nil && c.cache.ghost_ver == old(c.cache.ghost_ver)
//@
//@   assert-at call Remove #1 : arg1 == slot.Id && arg2 == numPast && arg3 == 2147483647
//@   assert-at call Remove #1 : 0 <= numPast && numPast < len(prompt) && numPast <= len(slot.Inputs)
//@   assert-at call Remove #2 : arg1 == slot.Id && arg2 == 0 && arg3 == 2147483647
