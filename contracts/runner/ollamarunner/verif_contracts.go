//go:build verif

// Contracts for package runner/ollamarunner (property C07), checked by /verif/govc.
//
// C07: "prompt caching, slot reuse and context shifting never change what the model
// sees". At the level of the slot bookkeeping this is the invariant
//
//	I(c):  c.cache != nil ==> for every slot k:  kvlen(cache state, slots[k].Id) == len(slots[k].Inputs)
//
// (the KV cache holds exactly one entry per recorded input, positions 0..len-1), the
// rule that a slot in use is never selected, and the rule that whatever LoadCacheSlot
// keeps in the slot is a prefix of the new prompt and the rest of the prompt is what is
// handed back for evaluation.
//
// The KV cache is behind the interface kvcache.Cache: its state is the ghost field
// this.ghost_ver (a version number) and the uninterpreted function kvlen(version, seq).
package ollamarunner

// Two inputs are "the same input" for the cache when Token and MultimodalHash agree
// (assumption A-hash in props/C07.json); written out in every clause below.

//@ spec func kvlen(ver int, seq int) int      -- number of cached positions of sequence seq in cache state ver

// ---- kvcache.Cache (trusted; from the interface documentation in kvcache/cache.go) ----

// Remove deletes [beginIndex, endIndex) from seq and moves the later entries down;
// endIndex == math.MaxInt32 means "to the end". An end below the begin denotes no range.
// On error the state of seq is unspecified (callers must then remove the whole
// sequence); removing a whole sequence never fails (A-remove-all).
//@ extern func kvcache.(Cache).Remove
//@   requires 0 <= beginIndex
//@   modifies this.ghost_ver
//@   ensures forall s int :: s != seq ==> kvlen(this.ghost_ver, s) == kvlen(old(this.ghost_ver), s)
//@   ensures result == nil && endIndex == 2147483647 ==> kvlen(this.ghost_ver, seq) == min(old(kvlen(this.ghost_ver, seq)), beginIndex)
//@   ensures result == nil && endIndex != 2147483647 ==> kvlen(this.ghost_ver, seq) == old(kvlen(this.ghost_ver, seq)) - (max(min(endIndex, old(kvlen(this.ghost_ver, seq))), min(beginIndex, old(kvlen(this.ghost_ver, seq)))) - min(beginIndex, old(kvlen(this.ghost_ver, seq))))
//@   ensures beginIndex == 0 && endIndex == 2147483647 ==> result == nil

// CopyPrefix makes dstSeq hold exactly the first len entries of srcSeq.
//@ extern func kvcache.(Cache).CopyPrefix
//@   requires 0 <= len
//@   modifies this.ghost_ver
//@   ensures forall s int :: s != dstSeq ==> kvlen(this.ghost_ver, s) == kvlen(old(this.ghost_ver), s)
//@   ensures kvlen(this.ghost_ver, dstSeq) == min(len, old(kvlen(this.ghost_ver, srcSeq)))

//@ extern func kvcache.(Cache).CanResume
//@   modifies nothing

// ---- countCommonPrefix ----

//@ func countCommonPrefix
//@   modifies nothing
//@   requires len(a) < (1 << 31) || len(b) < (1 << 31)
//@   ensures 0 <= result && result <= len(a) && result <= len(b)
//@   ensures forall k int :: 0 <= k && k < result ==> a[k].Token == b[k].Token && a[k].MultimodalHash == b[k].MultimodalHash
//@   ensures result == len(a) || result == len(b) || a[result].Token != b[result].Token || a[result].MultimodalHash != b[result].MultimodalHash
//@   loop 1 invariant count == rangeindex + 1 && count <= len(a) && count <= len(b)
//@   loop 1 invariant forall k int :: 0 <= k && k <= rangeindex ==> a[k].Token == b[k].Token && a[k].MultimodalHash == b[k].MultimodalHash

// ---- ShiftDiscard ----
// With 0 <= numKeep < numCtx: the discarded range [numKeep, numKeep+result) lies inside the
// inputs, and after discarding at least one cache entry is free.

//@ func (*InputCache).ShiftDiscard
//@   modifies nothing
//@   requires 0 <= numKeep && numKeep < c.numCtx && 0 <= inputLen
//@   ensures 0 <= result && result <= inputLen
//@   ensures result > 0 ==> numKeep + result <= inputLen
//@   ensures inputLen - result < c.numCtx
//@   ensures inputLen <= c.numCtx - max((c.numCtx - numKeep) / 2, 1) ==> result == 0
//@   ensures inputLen == c.numCtx ==> result == max((c.numCtx - numKeep) / 2, 1)

// ---- findLongestCacheSlot ----
// The selected slot is one of c.slots, is not in use, and the returned length is the
// length of the longest common prefix of its inputs and the prompt. "No slot" is
// reported only when every slot is in use.

//@ func (*InputCache).findLongestCacheSlot
//@   modifies nothing
//@   requires len(prompt) < (1 << 31)
//@   ensures result.2 == nil ==> exists j int :: 0 <= j && j < len(c.slots) && result.0 == &c.slots[j]
//@   ensures result.2 == nil ==> !result.0.InUse
//@   ensures result.2 == nil ==> 0 <= result.1 && result.1 <= len(result.0.Inputs) && result.1 <= len(prompt)
//@   ensures result.2 == nil ==> forall k int :: 0 <= k && k < result.1 ==> result.0.Inputs[k].Token == prompt[k].Token && result.0.Inputs[k].MultimodalHash == prompt[k].MultimodalHash
//@   ensures result.2 == nil ==> result.1 == len(result.0.Inputs) || result.1 == len(prompt) || result.0.Inputs[result.1].Token != prompt[result.1].Token || result.0.Inputs[result.1].MultimodalHash != prompt[result.1].MultimodalHash
//@   ensures result.2 != nil ==> result.0 == nil && forall k int :: 0 <= k && k < len(c.slots) ==> c.slots[k].InUse
//@   loop 1 invariant longestSlot == nil ==> longest == -1 && forall k int :: 0 <= k && k <= rangeindex ==> c.slots[k].InUse
//@   loop 1 invariant longestSlot != nil ==> exists j int :: 0 <= j && j <= rangeindex && longestSlot == &c.slots[j]
//@   loop 1 invariant longestSlot != nil ==> !longestSlot.InUse && 0 <= longest && longest <= len(longestSlot.Inputs) && longest <= len(prompt)
//@   loop 1 invariant longestSlot != nil ==> forall k int :: 0 <= k && k < longest ==> longestSlot.Inputs[k].Token == prompt[k].Token && longestSlot.Inputs[k].MultimodalHash == prompt[k].MultimodalHash
//@   loop 1 invariant longestSlot != nil ==> longest == len(longestSlot.Inputs) || longest == len(prompt) || longestSlot.Inputs[longest].Token != prompt[longest].Token || longestSlot.Inputs[longest].MultimodalHash != prompt[longest].MultimodalHash
