//go:build verif

// Coverage extension (C14 / C07): the request path in front of processBatch - NewSequence (prompt
// truncation to the context, keep count, what goes into seq.inputs, the stop list / prediction limit
// handed to the sequence), inputs, completion, NewInputCache, InputCache.Close.
package ollamarunner

// ---- NewSequence ----
// C07 "prompts longer than the context": the inputs handed to the sequence are never empty and never
// longer than the context window of a slot; the keep count is in [0, numCtx) (so that a context shift can
// always discard at least one input: precondition of ShiftDiscard / ShiftCacheSlot); a prompt that fits is
// passed on unchanged; a longer one keeps exactly its first numKeep inputs followed by its tail from
// promptStart (>= numKeep + the excess, moved forward only to the end of an unbreakable batch).
// C14: the stop list and the prediction limit of the request are the ones the sequence carries, nothing is
// withheld or counted as predicted yet.
// Server invariant assumed on entry (established by NewInputCache, which proves numCtx >= 1; s.cache is
// set once by loadModel): s.cache != nil && s.cache.numCtx >= 1.
//@ func (*Server).NewSequence
//@   requires s.cache != nil && 1 <= s.cache.numCtx
//@   ghost-at after call inputs #1 : ghost_n := len(result.0)
//@   assume-at after call inputs #1 : len(result.0) < 2147483648 && s.cache != nil && 1 <= s.cache.numCtx     -- range assumption (int32 counters) + the server invariant again after unknown model code
//@   ensures result.1 == nil ==> result.0 != nil && 1 <= len(result.0.inputs) && len(result.0.inputs) <= s.cache.numCtx
//@   ensures result.1 == nil ==> 0 <= result.0.numKeep && result.0.numKeep < s.cache.numCtx
//@   ensures result.1 == nil ==> result.0.numKeep == min(ite(params.numKeep < 0, ghost_n, params.numKeep), s.cache.numCtx - 1)
//@   ensures result.1 == nil ==> result.0.stop == params.stop && result.0.numPredict == params.numPredict
//@   ensures result.1 == nil ==> len(result.0.pendingResponses) == 0 && len(result.0.pendingInputs) == 0 && result.0.numPredicted == 0 && result.0.cache == nil
//@   ensures result.1 == nil ==> result.0.numPromptInputs == len(result.0.inputs) && result.0.embeddingOnly == params.embedding
//@   ensures result.1 == nil && ghost_n <= s.cache.numCtx ==> len(result.0.inputs) == ghost_n
//@   ensures result.1 == nil && ghost_n > s.cache.numCtx ==> result.0.numKeep < len(result.0.inputs)
//@   ensures result.1 == nil ==> len(result.0.inputs) < 2147483648      -- numCtx is an int32 (stated for callers: LoadCacheSlot's range precondition)
//@   loop 1 invariant params.numKeep + discard <= promptStart && promptStart <= max(params.numKeep + discard, rangeindex + 1)
//@   assert-at call append #1 : arg0 == inputs[0:params.numKeep] && arg1 == inputs[promptStart:]
//@   assert-at call append #1 : params.numKeep + (len(inputs) - s.cache.numCtx) <= promptStart && promptStart < len(inputs)

// ---- inputs ----
// C07 "what the model is given" starts here: the prompt text is tokenised part by part (special tokens
// only in front of the first part), every token becomes exactly one input, in order, behind what was
// collected before; the image attached after part i is the request image whose ID is the number in the
// i-th tag, its embedding and the hash of THAT image's bytes (the cache compares inputs by Token and
// MultimodalHash: a hash of other bytes would let a cached prefix of a different image be reused) go
// into one input behind the tokens of the part; PostTokenize sees the whole list.
//@ func (*Server).inputs
//@   opt safe slice      -- not index: matches[i][1] relies on regexp's submatch shape (library fact)
//@   ghost-at after call Encode #1 : ghost_l0 := len(inputs)
//@   assert-at call Encode #1 : arg1 == part && (arg2 <==> i == 0)
//@   loop 2 invariant len(inputs) == ghost_l0 + rangeindex + 1
//@   loop 2 invariant forall k int :: 0 <= k && k <= rangeindex ==> inputs[ghost_l0 + k].Token == tokens[k] && inputs[ghost_l0 + k].MultimodalHash == 0
//@   assert-at call append #1 : arg0 == inputs && len(arg1) == 1 && arg1[0].Token == t && arg1[0].MultimodalHash == 0
//@   assert-at call Backend #1 : 0 <= imageIndex && imageIndex < len(images) && images[imageIndex].ID == n
//@   assert-at call EncodeMultimodal #1 : 0 <= imageIndex && imageIndex < len(images) && arg2 == images[imageIndex].Data && arg1 == ctx
//@   assert-at call Write #1 : arg1 == images[imageIndex].Data
//@   assert-at call append #3 : arg0 == inputs && len(arg1) == 1 && arg1[0].MultimodalHash == imageHash && arg1[0].Multimodal == imageEmbeddings
//@   assert-at call PostTokenize #1 : arg1 == inputs

// ---- completion ----
// C14: the stop list and the prediction limit the sequence is created with are those of the request;
// every piece received from seq.responses is what is written as Content, and the finish reason written
// in the final response is the one recorded in the sequence by removeSequence.
// C07: the slot is looked up under s.mu, for the (truncated) inputs NewSequence produced, only for an
// entry of s.seqs that is free (a running sequence is never overwritten - its slot would stay InUse for
// ever and processBatch would lose it), and the slot and the remaining inputs LoadCacheSlot hands back are
// the ones the sequence is registered with; when LoadCacheSlot fails nothing is registered and the
// semaphore unit is given back. LoadCacheSlot's range preconditions on the prompt (non-empty, < 2^31)
// are PROVED here from NewSequence's postcondition (they used to be assumptions of C07).
// The monitor invariant of s.mu (I(c): the cache holds one entry per recorded input of every slot, slot
// k has Id k, at least one slot) is assumed where the lock has just been taken - it is the entry
// assumption of LoadCacheSlot moved to its only call site (props/C07.json: assumptions).
// trusted library frames (golang.org/x/sync/semaphore, net/http; used by both runner packages): taking a
// semaphore unit writes only the semaphore, Request.Context only reads.
//@ extern func golang.org/x/sync/semaphore.(*Weighted).Acquire
//@   modifies *s
//@ extern func net/http.(*Request).Context
//@   modifies nothing
//@ func (*Server).completion
//@   opt safe slice
//@   requires s.cache != nil && 1 <= s.cache.numCtx
//@   assume-at call NewSequence #1 : s.cache != nil && 1 <= s.cache.numCtx      -- server invariant (see NewSequence) after net/http / encoding/json / sample code
//@   assert-at call NewSequence #1 : arg0 == s && arg1 == req.Prompt && arg2 == req.Images && arg3.numPredict == req.Options.NumPredict && arg3.stop == req.Options.Stop && arg3.numKeep == wrapint32(req.Options.NumKeep) && !arg3.embedding
//@   assume-at call LoadCacheSlot #1 : len(s.cache.slots) >= 1 && &s.cache.slots[0] != nil && (forall k int :: 0 <= k && k < len(s.cache.slots) ==> s.cache.slots[k].Id == k) && (s.cache.cache != nil ==> forall k int :: 0 <= k && k < len(s.cache.slots) ==> kvlen(s.cache.cache.ghost_ver, s.cache.slots[k].Id) == len(s.cache.slots[k].Inputs))
//@   assert-at call LoadCacheSlot #1 : held(s.mu) && arg0 == s.cache && arg1 == seq.inputs && s.seqs[i] == nil
//@   assert-at call Signal #1 : held(s.mu) && s.seqs[i] == seq && seq.cache != nil && seq.cache.InUse && len(seq.inputs) >= 1
//@   assert-at call Release #1 : !held(s.mu) && err != nil
//@   assert-at store Content #1 : stored == content
//@   assert-at store DoneReason #1 : stored == seq.doneReason
// the registered sequence satisfies the preconditions a later context shift needs of it (keep count in [0, numCtx):
// ShiftDiscard can always discard one input) - proved at registration from NewSequence's postcondition
//@   assert-at call Signal #1 : 0 <= seq.numKeep && seq.numKeep < s.cache.numCtx
//@   assert-at call Signal #1 : len(seq.pendingResponses) == 0

// ---- NewInputCache ----
// C07 "over every number of parallel slots, context size": every slot gets the same window
// numCtx = kvSize / numSlots >= 1 (all windows together fit into the KV cache the model allocates:
// numCtx * numSlots <= kvSize), the cache behind the slots is initialised for exactly numSlots sequences
// of numCtx entries (and the runner's batch size), slot k has Id k (the `slot identity` the C07 contracts
// of cache.go rely on), starts free and records no inputs. This PROVES the server invariant
// numCtx >= 1 / slots[k].Id == k / len(slots) >= 1 at the point where the cache is created.
//@ func NewInputCache
//@   requires 1 <= numSlots && numSlots < (1 << 31)      -- the runner's -parallel flag; 0 would divide by zero
//@   ensures result.1 == nil ==> result.0 != nil && 1 <= result.0.numCtx && result.0.numCtx == kvSize / numSlots
//@   ensures result.1 == nil ==> len(result.0.slots) == numSlots && len(result.0.slots) >= 1
//@   ensures result.1 == nil ==> forall k int :: 0 <= k && k < numSlots ==> result.0.slots[k].Id == k && !result.0.slots[k].InUse && len(result.0.slots[k].Inputs) == 0
//@   ensures result.1 == nil ==> result.0.multiUserCache == multiUserCache && (result.0.enabled <==> result.0.cache != nil)
//@   ensures result.1 != nil ==> result.0 == nil
//@   ensures result.1 != nil <==> kvSize / numSlots < 1
//@   assert-at call Init #1 : arg0 == cache && arg3 == numSlots && arg4 == numCtx && arg5 == batchSize && 1 <= numCtx
//@   loop 1 invariant len(slots) == numSlots
//@   loop 1 invariant forall k int :: 0 <= k && k <= rangeindex ==> slots[k].Id == k && !slots[k].InUse && len(slots[k].Inputs) == 0

// ---- InputCache.Close ----
// The cache that is closed is the one behind this InputCache (order-of-effects; nothing else to state).
//@ func (*InputCache).Close
//@   assert-at call Close #1 : arg0 == c.cache
