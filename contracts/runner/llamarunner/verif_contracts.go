//go:build verif

// Contracts for package runner/llamarunner (property C07), checked by /verif/govc.
package llamarunner

//@ func countCommonPrefix
//@   modifies nothing
//@   ensures 0 <= result && result <= len(a) && result <= len(b)
//@   loop 1 invariant count == rangeindex + 1 && count <= len(a) && count <= len(b)
