//go:build verif

// Contracts for package runner/llamarunner (property C07), checked by /verif/govc.
//
// Twin of runner/ollamarunner/verif_contracts.go. The KV cache here is llama.cpp behind
// the cgo bindings of package llama; its state is the ghost field lc.ghost_ver (a version
// number) and the uninterpreted predicate llhas(version, seq, pos) = "the cache holds a
// cell of sequence seq at position pos". llama.cpp removes cells without renumbering the
// later ones (the runner renumbers with KvCacheSeqAdd), hence positions, not lengths.
//
//	I(c):  for every slot k and position q:  slots[k].Id == k  and  llhas(state, k, q) <==> 0 <= q < len(slots[k].Inputs)
//
// Input equality is reflect.DeepEqual, as in the code (pure function of the two values).
// errors.New / fmt.Errorf "never nil" are declared in the ollamarunner contract file.
package llamarunner

//@ spec func llhas(ver int, seq int, pos int) bool

//@ extern func reflect.DeepEqual
//@   pure reads none

// ---- llama.cpp KV cache through package llama (trusted; llama.h: p0 < 0 means 0, p1 < 0 means "to the end") ----

// seq_rm: removes the cells of seqId at positions [p0, p1); false = nothing could be removed
// (partial removal unsupported); removing a whole sequence always succeeds (A-remove-all).
//@ extern func llama.(*Context).KvCacheSeqRm
//@   modifies this.ghost_ver
//@   ensures result ==> forall s int, q int :: llhas(this.ghost_ver, s, q) <==> (llhas(old(this.ghost_ver), s, q) && !(s == seqId && p0 <= q && (p1 < 0 || q < p1)))
//@   ensures !result ==> forall s int, q int :: llhas(this.ghost_ver, s, q) <==> llhas(old(this.ghost_ver), s, q)
//@   ensures p0 <= 0 && p1 < 0 ==> result

// seq_add: the cells of seqId at positions [p0, p1) move to position + delta.
//@ extern func llama.(*Context).KvCacheSeqAdd
//@   requires 0 <= p0 && p0 <= p1
//@   modifies this.ghost_ver
//@   ensures forall s int, q int :: llhas(this.ghost_ver, s, q) <==> ((s != seqId && llhas(old(this.ghost_ver), s, q)) || (s == seqId && llhas(old(this.ghost_ver), s, q) && !(p0 <= q && q < p1)) || (s == seqId && p0 <= q - delta && q - delta < p1 && llhas(old(this.ghost_ver), s, q - delta)))

// seq_cp: dstSeqId additionally gets the cells of srcSeqId at positions [p0, p1).
//@ extern func llama.(*Context).KvCacheSeqCp
//@   modifies this.ghost_ver
//@   ensures forall s int, q int :: llhas(this.ghost_ver, s, q) <==> (llhas(old(this.ghost_ver), s, q) || (s == dstSeqId && p0 <= q && (p1 < 0 || q < p1) && llhas(old(this.ghost_ver), srcSeqId, q)))

//@ extern func llama.(*Context).KvCacheCanShift
//@   modifies nothing

// ---- countCommonPrefix ----

//@ func countCommonPrefix
//@   modifies nothing
//@   ensures 0 <= result && result <= len(a) && result <= len(b)
//@   ensures forall k int :: 0 <= k && k < result ==> reflect.DeepEqual(a[k], b[k])
//@   ensures result == len(a) || result == len(b) || !reflect.DeepEqual(a[result], b[result])
//@   loop 1 invariant count == rangeindex + 1 && count <= len(a) && count <= len(b)
//@   loop 1 invariant forall k int :: 0 <= k && k <= rangeindex ==> reflect.DeepEqual(a[k], b[k])

// ---- ShiftDiscard ----

//@ func (*InputCache).ShiftDiscard
//@   modifies nothing
//@   requires 0 <= numKeep && numKeep < c.numCtx && 0 <= inputLen && c.numCtx < (1 << 62) && inputLen < (1 << 62)
//@   ensures 0 <= result && result <= inputLen
//@   ensures result > 0 ==> numKeep + result <= inputLen
//@   ensures inputLen - result < c.numCtx
//@   ensures inputLen <= c.numCtx - max((c.numCtx - numKeep) / 2, 1) ==> result == 0
//@   ensures inputLen == c.numCtx ==> result == max((c.numCtx - numKeep) / 2, 1)

// ---- findLongestCacheSlot ----

//@ func (*InputCache).findLongestCacheSlot
//@   modifies nothing
//@   ensures result.2 == nil ==> exists j int :: 0 <= j && j < len(c.slots) && result.0 == &c.slots[j]
//@   ensures result.2 == nil ==> !result.0.InUse
//@   ensures result.2 == nil ==> 0 <= result.1 && result.1 <= len(result.0.Inputs) && result.1 <= len(prompt)
//@   ensures result.2 == nil ==> forall k int :: 0 <= k && k < result.1 ==> reflect.DeepEqual(result.0.Inputs[k], prompt[k])
//@   ensures result.2 == nil ==> result.1 == len(result.0.Inputs) || result.1 == len(prompt) || !reflect.DeepEqual(result.0.Inputs[result.1], prompt[result.1])
//@   ensures result.2 != nil ==> result.0 == nil && forall k int :: 0 <= k && k < len(c.slots) ==> c.slots[k].InUse
//@   loop 1 invariant longestSlot == nil ==> longest == -1 && forall k int :: 0 <= k && k <= rangeindex ==> c.slots[k].InUse
//@   loop 1 invariant longestSlot != nil ==> exists j int :: 0 <= j && j <= rangeindex && longestSlot == &c.slots[j]
//@   loop 1 invariant longestSlot != nil ==> !longestSlot.InUse && 0 <= longest && longest <= len(longestSlot.Inputs) && longest <= len(prompt)
//@   loop 1 invariant longestSlot != nil ==> forall k int :: 0 <= k && k < longest ==> reflect.DeepEqual(longestSlot.Inputs[k], prompt[k])
//@   loop 1 invariant longestSlot != nil ==> longest == len(longestSlot.Inputs) || longest == len(prompt) || !reflect.DeepEqual(longestSlot.Inputs[longest], prompt[longest])

// ---- findBestCacheSlot ----
// Fork: the evicted slot's sequence is emptied (KvCacheSeqRm(dst, 0, -1)) and then receives
// positions [0, n) of the source (KvCacheSeqCp(src, dst, 0, n)), n = the length of the copied inputs.
// `opt safe+ nil`: see the ollamarunner twin (oldestSlot may stay nil).

//@ func (*InputCache).findBestCacheSlot
//@   opt safe+ nil
//@   requires len(c.slots) >= 1 && !fresh(c.lc)      -- !fresh: c.lc existed before the call (pointer type invariant; the engine assumes it only for pointers loaded by code)
//@   requires forall k int :: 0 <= k && k < len(c.slots) ==> c.slots[k].Id == k
//@   requires c.lc != nil ==> forall k int, q int :: 0 <= k && k < len(c.slots) ==> (llhas(c.lc.ghost_ver, k, q) <==> (0 <= q && q < len(c.slots[k].Inputs)))
//@   modifies c.slots[all], c.lc.ghost_ver
//@
//@   ensures result.2 == nil ==> exists j int :: 0 <= j && j < len(c.slots) && result.0 == &c.slots[j]
//@   ensures result.2 == nil ==> !result.0.InUse
//@   ensures result.2 == nil ==> 0 <= result.1 && result.1 <= len(result.0.Inputs) && result.1 <= len(prompt)
//@   ensures result.2 == nil ==> forall k int :: 0 <= k && k < result.1 ==> reflect.DeepEqual(result.0.Inputs[k], prompt[k])
//@   ensures result.2 == nil ==> result.1 == len(result.0.Inputs) || result.1 == len(prompt) || !reflect.DeepEqual(result.0.Inputs[result.1], prompt[result.1])
//@   ensures result.2 != nil ==> result.0 == nil
//@   ensures forall k int :: 0 <= k && k < len(c.slots) ==> c.slots[k].Id == old(c.slots[k].Id) && c.slots[k].InUse == old(c.slots[k].InUse) && c.slots[k].lastUsed == old(c.slots[k].lastUsed)
//@   ensures forall k int :: 0 <= k && k < len(c.slots) && (result.2 != nil || result.0 != &c.slots[k]) ==> c.slots[k].Inputs == old(c.slots[k].Inputs)
//@   ensures result.2 == nil ==> result.0.Inputs == old(result.0.Inputs) || (len(result.0.Inputs) == result.1 && fresh(&result.0.Inputs[0]))
//@   ensures c.lc != nil ==> forall k int, q int :: 0 <= k && k < len(c.slots) ==> (llhas(c.lc.ghost_ver, k, q) <==> (0 <= q && q < len(c.slots[k].Inputs)))
//@   ensures result.2 != nil ==> c.lc.ghost_ver == old(c.lc.ghost_ver)
//@
//@   assert-at call KvCacheSeqRm #1 : arg1 == oldestSlot.Id && arg2 <= 0 && arg3 < 0
//@   assert-at call KvCacheSeqCp #1 : arg1 == longestSlot.Id && arg2 == oldestSlot.Id && arg3 == 0 && arg4 == longest && arg1 != arg2
//@   assert-at call KvCacheSeqCp #1 : len(oldestSlot.Inputs) == longest && forall k int :: 0 <= k && k < longest ==> oldestSlot.Inputs[k] == longestSlot.Inputs[k]
//@
//@   loop 1 invariant -1 <= longest && (rangeindex >= 0 ==> longestSlot != nil) && (longestSlot == nil ==> longest == -1)
//@   loop 1 invariant longestSlot != nil ==> exists j int :: 0 <= j && j <= rangeindex && longestSlot == &c.slots[j]
//@   loop 1 invariant longestSlot != nil ==> 0 <= longest && longest <= len(longestSlot.Inputs) && longest <= len(prompt)
//@   loop 1 invariant longestSlot != nil ==> forall k int :: 0 <= k && k < longest ==> reflect.DeepEqual(longestSlot.Inputs[k], prompt[k])
//@   loop 1 invariant longestSlot != nil ==> longest == len(longestSlot.Inputs) || longest == len(prompt) || !reflect.DeepEqual(longestSlot.Inputs[longest], prompt[longest])
//@   loop 1 invariant longest <= 0 ==> forall k int :: 0 <= k && k <= rangeindex ==> len(c.slots[k].Inputs) == 0 || len(prompt) == 0 || !reflect.DeepEqual(c.slots[k].Inputs[0], prompt[0])
//@   loop 1 invariant oldestSlot != nil ==> exists j int :: 0 <= j && j <= rangeindex && oldestSlot == &c.slots[j]
//@   loop 1 invariant oldestSlot != nil ==> !oldestSlot.InUse

// ---- LoadCacheSlot ----

//@ func (*InputCache).LoadCacheSlot
//@   requires 1 <= len(prompt) && len(c.slots) >= 1 && c.lc != nil && !fresh(c.lc)
//@   requires &c.slots[0] != nil      -- Go type invariant of a non-empty slice; see the ollamarunner twin
//@   requires forall k int :: 0 <= k && k < len(c.slots) ==> c.slots[k].Id == k
//@   requires forall k int, q int :: 0 <= k && k < len(c.slots) ==> (llhas(c.lc.ghost_ver, k, q) <==> (0 <= q && q < len(c.slots[k].Inputs)))
//@   modifies c.slots[all], c.lc.ghost_ver
//@
//@   ensures result.2 == nil ==> exists j int :: 0 <= j && j < len(c.slots) && result.0 == &c.slots[j]
//@   ensures result.2 == nil ==> !old(result.0.InUse) && result.0.InUse
//@   ensures forall k int :: 0 <= k && k < len(c.slots) && (result.2 != nil || result.0 != &c.slots[k]) ==> c.slots[k].InUse == old(c.slots[k].InUse) && c.slots[k].Inputs == old(c.slots[k].Inputs)
//@   ensures forall k int :: 0 <= k && k < len(c.slots) ==> c.slots[k].Id == old(c.slots[k].Id)
//@   ensures result.2 == nil ==> len(result.1) >= 1 && len(result.0.Inputs) + len(result.1) == len(prompt)
//@   ensures result.2 == nil ==> result.1 == prompt[len(result.0.Inputs):]
//@   ensures result.2 == nil ==> forall k int :: 0 <= k && k < len(result.0.Inputs) ==> reflect.DeepEqual(result.0.Inputs[k], prompt[k])
//@   ensures result.2 == nil && !cachePrompt ==> len(result.0.Inputs) == 0
//@   ensures forall k int, q int :: 0 <= k && k < len(c.slots) ==> (llhas(c.lc.ghost_ver, k, q) <==> (0 <= q && q < len(c.slots[k].Inputs)))
//@   ensures result.2 != nil ==> result.0 == nil && c.lc.ghost_ver == old(c.lc.ghost_ver)
//@
//@   assert-at call KvCacheSeqRm #1 : arg1 == slot.Id && arg2 == numPast && arg3 < 0
//@   assert-at call KvCacheSeqRm #1 : 0 <= numPast && numPast < len(prompt) && numPast <= len(slot.Inputs)
//@   assert-at call KvCacheSeqRm #2 : arg1 == slot.Id && arg2 <= 0 && arg3 < 0
//@   assert-at return #2 : slot.Id >= 0 && slot.Id < len(c.slots) && slot == &c.slots[slot.Id]      -- proof hints: split I(c) into the selected slot and the others
//@   assert-at return #2 : forall q int :: llhas(c.lc.ghost_ver, slot.Id, q) <==> (0 <= q && q < numPast)
//@   assert-at return #2 : forall k int, q int :: 0 <= k && k < len(c.slots) && k != slot.Id ==> (llhas(c.lc.ghost_ver, k, q) <==> (0 <= q && q < len(c.slots[k].Inputs)))

// ---- ShiftCacheSlot ---- (clauses as in the ollamarunner twin; loop 1 is the in-place shift)

//@ func (*InputCache).ShiftCacheSlot
//@   requires 0 <= numKeep && c.lc != nil && !fresh(c.lc) && c.numCtx < (1 << 62) && len(slot.Inputs) < (1 << 62)
//@   requires forall q int :: llhas(c.lc.ghost_ver, slot.Id, q) <==> (0 <= q && q < len(slot.Inputs))
//@   modifies slot.Inputs, slot.Inputs[all], c.lc.ghost_ver
//@
//@   ensures result == nil ==> len(slot.Inputs) <= old(len(slot.Inputs)) && len(slot.Inputs) < c.numCtx
//@   ensures result == nil && len(slot.Inputs) < old(len(slot.Inputs)) ==> numKeep <= len(slot.Inputs)
//@   ensures result == nil && old(len(slot.Inputs)) == c.numCtx ==> old(len(slot.Inputs)) - len(slot.Inputs) == max((c.numCtx - numKeep) / 2, 1)
//@   ensures result == nil ==> forall k int :: 0 <= k && k < numKeep && k < len(slot.Inputs) ==> slot.Inputs[k] == old(slot.Inputs[k])
//@   ensures result == nil ==> forall k int, d int :: numKeep <= k && k < len(slot.Inputs) && d == old(len(slot.Inputs)) - len(slot.Inputs) ==> slot.Inputs[k] == old(slot.Inputs[k + d])
//@   ensures result == nil ==> forall q int :: llhas(c.lc.ghost_ver, slot.Id, q) <==> (0 <= q && q < len(slot.Inputs))
//@   ensures result != nil && numKeep < c.numCtx ==> len(slot.Inputs) == 0
//@   ensures result != nil && numKeep < c.numCtx ==> forall q int :: !llhas(c.lc.ghost_ver, slot.Id, q)
//@   ensures result != nil && numKeep >= c.numCtx ==> slot.Inputs == old(slot.Inputs) && c.lc.ghost_ver == old(c.lc.ghost_ver)
//@
//@   assert-at call KvCacheSeqRm #1 : arg1 == slot.Id && arg2 == numKeep && arg3 == numKeep + discard && 0 < discard && arg3 <= inputLen
//@   assert-at call KvCacheSeqAdd #1 : arg1 == slot.Id && arg2 == numKeep + discard && arg3 == inputLen && arg4 == -discard
//@   assert-at call KvCacheSeqRm #2 : arg1 == slot.Id && arg2 <= 0
//@   assert-at call KvCacheSeqRm #2 : arg3 < 0      -- "remove the whole sequence": llama.cpp reads a negative p1 as "to the end"
//@   assert-at return #3 : len(newInputs) == inputLen - discard
//@   assert-at return #3 : forall k int :: 0 <= k && k < numKeep ==> newInputs[k] == old(slot.Inputs[k])
//@   assert-at return #3 : forall k int :: numKeep <= k && k < inputLen - discard ==> newInputs[k] == old(slot.Inputs[k + discard])
//@
//@   loop 1 invariant numKeep + discard <= i && i <= inputLen && slot.Inputs == old(slot.Inputs)
//@   loop 1 invariant forall k int :: 0 <= k && k < numKeep ==> slot.Inputs[k] == old(slot.Inputs[k])
//@   loop 1 invariant forall k int :: numKeep <= k && k < i - discard ==> slot.Inputs[k] == old(slot.Inputs[k + discard])
//@   loop 1 invariant forall k int :: i <= k && k < inputLen ==> slot.Inputs[k] == old(slot.Inputs[k])
