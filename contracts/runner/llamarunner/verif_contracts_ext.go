//go:build verif

// Coverage extension (C14 / C07), twin of runner/ollamarunner/verif_contracts_ext.go: the request path in
// front of processBatch - NewSequence (prompt truncation to the context, keep count, what goes into
// seq.inputs, stop list / prediction limit handed to the sequence), inputs, completion, NewInputCache.
package llamarunner

// ---- NewSequence ----
// C07 "prompts longer than the context": the inputs handed to the sequence are never empty and never
// longer than the context window of a slot; the keep count is in [0, numCtx) (precondition of
// ShiftDiscard / ShiftCacheSlot: a shift can always discard at least one input); a prompt that fits is
// passed on unchanged, a longer one keeps exactly its first numKeep inputs followed by its last
// numCtx - numKeep inputs. C14: the stop list and the prediction limit of the request are the ones the
// sequence carries, nothing is withheld or counted as predicted yet.
// Server invariant assumed on entry (established by NewInputCache; s.cache is set once by loadModel):
// s.cache != nil && s.cache.numCtx >= 1. Range: params.numKeep < 2^62 (numKeep += 1 must not wrap).
//@ extern func llama.(*Model).AddBOSToken
//@   modifies nothing
//@ func (*Server).NewSequence
//@   requires s.cache != nil && 1 <= s.cache.numCtx && params.numKeep < (1 << 62)
//@   ghost-at after call inputs #1 : ghost_n := len(result.0)
//@   assume-at after call inputs #1 : len(result.0) < (1 << 62) && s.cache != nil && 1 <= s.cache.numCtx     -- range assumption + the server invariant again after unknown (cgo) code
//@   ensures result.1 == nil ==> result.0 != nil && 1 <= len(result.0.inputs) && len(result.0.inputs) <= s.cache.numCtx
//@   ensures result.1 == nil ==> 0 <= result.0.numKeep && result.0.numKeep < s.cache.numCtx
//@   ensures result.1 == nil ==> result.0.stop == params.stop && result.0.numPredict == params.numPredict
//@   ensures result.1 == nil ==> len(result.0.pendingResponses) == 0 && len(result.0.pendingInputs) == 0 && result.0.numPredicted == 0 && result.0.cache == nil
//@   ensures result.1 == nil ==> result.0.numPromptInputs == len(result.0.inputs) && result.0.embeddingOnly == params.embedding
//@   ensures result.1 == nil && ghost_n <= s.cache.numCtx ==> len(result.0.inputs) == ghost_n
//@   ensures result.1 == nil && ghost_n > s.cache.numCtx ==> len(result.0.inputs) == s.cache.numCtx && result.0.numKeep < len(result.0.inputs)
//@   assert-at call append #1 : arg0 == inputs[0:params.numKeep] && arg1 == inputs[params.numKeep + (len(inputs) - s.cache.numCtx):]

// ---- inputs ----
// C07 "what the model is given" starts here: the prompt text is tokenised part by part (BOS only in
// front of the first part, special tokens parsed), every token becomes exactly one input, in order,
// behind what was collected before; the image attached after part i is the request image whose ID is the
// number in the i-th tag, and each of its embedding rows becomes one input behind the tokens of the part.
//@ func (*Server).inputs
//@   opt safe slice      -- not index: matches[i][1] relies on regexp's submatch shape (library fact)
//@   ghost-at after call Tokenize #1 : ghost_l0 := len(inputs)
//@   assert-at call Tokenize #1 : arg1 == part && (arg2 <==> i == 0) && arg3
//@   loop 2 invariant len(inputs) == ghost_l0 + rangeindex + 1
//@   loop 2 invariant forall k int :: 0 <= k && k <= rangeindex ==> inputs[ghost_l0 + k].token == tokens[k] && len(inputs[ghost_l0 + k].embed) == 0
//@   assert-at call append #1 : arg0 == inputs && len(arg1) == 1 && arg1[0].token == t && len(arg1[0].embed) == 0
//@   assert-at call NewEmbed #1 : 0 <= imageIndex && imageIndex < len(images) && images[imageIndex].ID == n && arg2 == images[imageIndex].Data && arg3 == images[imageIndex].AspectRatioID && arg1 == s.lc
//@   assert-at call append #2 : arg0 == inputs && len(arg1) == 1 && arg1[0].embed == e

// ---- completion ----
// Twin of the ollamarunner contract (see there): the sequence is created with the request's stop list,
// prediction limit and keep count; the slot is looked up under s.mu for the inputs NewSequence produced,
// only for a free entry of s.seqs, and the sequence is registered with what LoadCacheSlot handed back;
// on failure nothing is registered and the semaphore unit is returned; streamed Content is the piece
// received, the final DoneReason is the one recorded in the sequence. LoadCacheSlot's `non-empty prompt`
// precondition is proved from NewSequence's postcondition. The monitor invariant of s.mu (I(c), slot ids,
// live llama context) is assumed where the lock has just been taken (entry assumption of LoadCacheSlot
// moved to its only call site).
//@ func (*Server).completion
//@   opt safe slice
//@   requires s.cache != nil && 1 <= s.cache.numCtx
//@   assume-at call NewSequence #1 : s.cache != nil && 1 <= s.cache.numCtx && req.Options.NumKeep < (1 << 62)      -- server invariant (see NewSequence) after net/http / encoding/json code; range of the keep count
//@   assert-at call NewSequence #1 : arg0 == s && arg1 == req.Prompt && arg2 == req.Images && arg3.numPredict == req.Options.NumPredict && arg3.stop == req.Options.Stop && arg3.numKeep == req.Options.NumKeep && !arg3.embedding
//@   assume-at call LoadCacheSlot #1 : len(s.cache.slots) >= 1 && &s.cache.slots[0] != nil && s.cache.lc != nil && !fresh(s.cache.lc) && (forall k int :: 0 <= k && k < len(s.cache.slots) ==> s.cache.slots[k].Id == k) && (forall k int, q int :: 0 <= k && k < len(s.cache.slots) ==> (llhas(s.cache.lc.ghost_ver, k, q) <==> (0 <= q && q < len(s.cache.slots[k].Inputs))))
//@   assert-at call LoadCacheSlot #1 : held(s.mu) && arg0 == s.cache && arg1 == seq.inputs && arg2 && s.seqs[i] == nil
//@   assert-at call Signal #1 : held(s.mu) && s.seqs[i] == seq && seq.cache != nil && seq.cache.InUse && len(seq.inputs) >= 1
//@   assert-at call Release #1 : !held(s.mu) && err != nil
//@   assert-at store Content #1 : stored == content
//@   assert-at store DoneReason #1 : stored == seq.doneReason
// the registered sequence satisfies the preconditions a later context shift needs of it (keep count in [0, numCtx):
// ShiftDiscard can always discard one input) - proved at registration from NewSequence's postcondition
//@   assert-at call Signal #1 : 0 <= seq.numKeep && seq.numKeep < s.cache.numCtx
//@   assert-at call Signal #1 : len(seq.pendingResponses) == 0

// ---- NewInputCache ----
// C07 "over every number of parallel slots, context size": every slot gets the same window
// numCtx = kvSize / numSlots >= 1, slot k has Id k (the llama.cpp sequence id used for it), starts free
// and records no inputs; the llama context is the one handed in.
//@ func NewInputCache
//@   requires 1 <= numSlots && numSlots < (1 << 31)      -- the runner's -parallel flag; 0 would divide by zero
//@   ensures result.1 == nil ==> result.0 != nil && 1 <= result.0.numCtx && result.0.numCtx == kvSize / numSlots
//@   ensures result.1 == nil ==> len(result.0.slots) == numSlots && len(result.0.slots) >= 1 && result.0.lc == lc
//@   ensures result.1 == nil ==> forall k int :: 0 <= k && k < numSlots ==> result.0.slots[k].Id == k && !result.0.slots[k].InUse && len(result.0.slots[k].Inputs) == 0
//@   ensures result.1 == nil ==> result.0.multiUserCache == multiUserCache
//@   ensures result.1 != nil ==> result.0 == nil
//@   ensures result.1 != nil <==> kvSize / numSlots < 1
//@   loop 1 invariant len(slots) == numSlots
//@   loop 1 invariant forall k int :: 0 <= k && k <= rangeindex ==> slots[k].Id == k && !slots[k].InUse && len(slots[k].Inputs) == 0
