//go:build verif

// C14: the final flush of withheld pieces (runner.go flushPending) streams only whole,
// valid UTF-8, and only a prefix of what was withheld.
package llamarunner

// facts about strings (trusted): the empty string is valid UTF-8; prefix is reflexive and
// closed under taking a shorter prefix
//@ axiom forall s string :: len(s) == 0 ==> svalidutf8(s)
//@ axiom forall s string :: shasprefix(s, s)
//@ axiom forall s string, t string, n int :: shasprefix(s, t) && 0 <= n && n <= len(t) ==> shasprefix(s, t[0:n])
// (C14 audit) two more facts about strings (trusted, listed in props/C14.json): a string is its own full-length
// substring; a prefix of a prefix is a prefix.
//@ axiom forall s string :: s[0:len(s)] == s
//@ axiom forall s string, a int, b int :: 0 <= b && b <= a && a <= len(s) ==> s[0:a][0:b] == s[0:b]

//@ func flushPending
//@   modifies seq.pendingResponses
//@   loop 1 invariant shasprefix(old(sjoin(seq.pendingResponses, "")), joined)
//@   loop 1 decreases len(joined)
//@   assert-at send responses #1 : svalidutf8(sent) && len(sent) > 0 && shasprefix(old(sjoin(seq.pendingResponses, "")), sent)
//@   ensures len(seq.pendingResponses) == 0
// -- added by the C14 audit: "drop invalid tail on final flush" drops ONLY the invalid tail - what is
// sent is the LONGEST valid prefix of the withheld text (no longer prefix of it is valid UTF-8), and
// when nothing is sent no non-empty prefix was valid. Otherwise generated text would be lost and the
// streamed text would not "end at the end-of-sequence token or the prediction limit".
//@   loop 1 invariant joined == old(sjoin(seq.pendingResponses, ""))[0:len(joined)] && len(joined) <= len(old(sjoin(seq.pendingResponses, "")))
//@   loop 1 invariant forall n int :: len(joined) < n && n <= len(old(sjoin(seq.pendingResponses, ""))) ==> !svalidutf8(old(sjoin(seq.pendingResponses, ""))[0:n])
//@   assert-at send responses #1 : forall n int :: len(sent) < n && n <= len(old(sjoin(seq.pendingResponses, ""))) ==> !svalidutf8(old(sjoin(seq.pendingResponses, ""))[0:n])
//@   assert-at return #1 : forall n int :: 0 < n && n <= len(old(sjoin(seq.pendingResponses, ""))) ==> !svalidutf8(old(sjoin(seq.pendingResponses, ""))[0:n])

// ---- processBatch: the per-token stop / withhold / flush decision -------------------------------
// Only this decision is under contract (order-of-effects with recorded results); the model,
// sampler and cache calls around it are unknown code (everything reachable is forgotten there).
// Per generated piece: the piece is appended to the withheld pieces, `sequence` is their
// concatenation; a contained stop (FindStop on the whole withheld text with the request's stops)
// truncates with THAT stop and ends the sequence with reason stop; otherwise nothing is streamed
// while the text ends in a proper prefix of a stop or in an incomplete character; only then the
// withheld pieces are flushed. The finish reason says which of limit / end-of-sequence / stop /
// closed connection ended generation.
//@ extern func log/slog.Debug
//@   modifies nothing
//@ extern func log/slog.Warn
//@   modifies nothing
// (C14/C07 audit) trusted frames, read off llama/llama.go and runner/llamarunner/image.go: the batch accessors
// and ImageContext.NeedCrossAttention only read; Batch.Add writes the batch's own (C) memory only.
//@ extern func llama.(*Batch).Size
//@   modifies nothing
//@ extern func llama.(*Batch).NumTokens
//@   modifies nothing
//@ extern func llama.(*Batch).IsEmbedding
//@   modifies nothing
//@ extern func llama.(*Batch).Add
//@   modifies *b
//@ extern func (*ImageContext).NeedCrossAttention
//@   modifies nothing
//@ func (*Server).processBatch
//@   opt safe panic
//@   ghost-at after call FindStop #1 : ghost_fs := ite(result.0, 1, 0)
//@   ghost-at after call ContainsStopSuffix #1 : ghost_cs := ite(result, 1, 0)
//@   ghost-at after call IncompleteUnicode #1 : ghost_iu := ite(result, 1, 0)
//@   assert-at call FindStop #1 : arg0 == sjoin(seq.pendingResponses, "") && arg1 == seq.stop
//@   assert-at call TruncateStop #1 : ghost_fs == 1 && arg0 == seq.pendingResponses && arg1 == stop
//@   assert-at call ContainsStopSuffix #1 : ghost_fs == 0 && arg0 == sjoin(seq.pendingResponses, "") && arg1 == seq.stop
//@   assert-at call IncompleteUnicode #1 : ghost_fs == 0 && ghost_cs == 0 && arg0 == sjoin(seq.pendingResponses, "")
//@   assert-at call flushPending #1 : ghost_fs == 0 && ghost_cs == 0 && ghost_iu == 0 && arg0 == seq
//@   assert-at call removeSequence #1 : arg2 == llm.DoneReasonLength && seq.numPredict > 0 && seq.numPredicted >= seq.numPredict
//@   assert-at call removeSequence #3 : arg2 == llm.DoneReasonStop
//@   assert-at call removeSequence #4 : arg2 == llm.DoneReasonStop && ghost_fs == 1
//@   assert-at call removeSequence #5 : arg2 == llm.DoneReasonConnectionClosed && ghost_fs == 0 && ghost_cs == 0 && ghost_iu == 0
// -- added by the C14/C07 audit (twin of the ollamarunner clauses; see there for the derivation) --
// C14: after an end-of-generation token nothing more is appended to the text; the sequence removed is the
// one at hand; the withheld list grows by exactly the sampled token's piece; a sequence that has reached
// its prediction limit gets nothing queued in this pass.
//@   ghost-at after call TokenIsEog #1 : ghost_eos := ite(result, 1, 0)
//@   assert-at call append #4 : ghost_eos == 0 && arg0 == seq.pendingResponses && len(arg1) == 1 && arg1[0] == piece
//@   assert-at call removeSequence #1 : arg1 == seqIdx
//@   assert-at call removeSequence #3 : arg1 == i && ghost_eos == 1
//@   assert-at call removeSequence #4 : arg1 == i
//@   assert-at call removeSequence #5 : arg1 == i
//@   assert-at call Add #1 : !(seq.numPredict > 0 && seq.numPredicted >= seq.numPredict)
// C07 "cache record trimmed when a stop sequence removes generated tokens": the new record is a prefix of
// the old one, never contains the token sampled in this pass (not yet given to the model) and has dropped
// every token whose piece was removed or cut by TruncateStop.
//@   ghost-at call TruncateStop #1 : ghost_olen := len(arg0)
//@   ghost-at after call TruncateStop #1 : ghost_nlen := len(result.0)
//@   ghost-at after call TruncateStop #1 : ghost_trunc := ite(result.1, 1, 0)
//@   assert-at store Inputs #4 : len(stored) <= len(seq.cache.Inputs) && len(stored) <= len(seq.cache.Inputs) + 1 - (ghost_olen - ghost_nlen) - ghost_trunc      -- #4: the selector matches field names by suffix, stores to pendingInputs count too
//@   assert-at store Inputs #4 : stored == seq.cache.Inputs[0:len(stored)]
// C07 "positions assigned from cached+pending length; cache record appended after Decode": the position
// handed to llama.cpp for an input is its index in the slot's record at that moment (cached + queued,
// after a possible context shift), under the slot's sequence id only; the token queued is the token of
// the input recorded as pending; logits are requested exactly for the last input of the queue; a context
// shift happens only while nothing of the sequence is queued, for the sequence's own slot and keep count;
// after a failed shift the inputs handed back go in front of the remaining queue; after Decode the queued
// inputs are appended to the record; the queue loses exactly the queued inputs; the sampled token is the
// next input.
//@   ghost-at call Add #1 : ghost_tok := arg1
//@   assume-at call Add #1 : len(seq.cache.Inputs) + len(seq.pendingInputs) < 4611686018427387904   -- range assumption (the int sum does not wrap), as in the ollamarunner twin
//@   assert-at call Add #1 : arg3 == len(seq.cache.Inputs) + len(seq.pendingInputs)
//@   assert-at call Add #1 : len(arg5) == 1 && arg5[0] == seq.cache.Id
//@   assert-at call Add #1 : arg0 == batch
//@   assert-at call Add #1 : arg4 <==> i + 1 == len(seq.inputs)
//@   assert-at call append #2 : arg0 == seq.pendingInputs && len(arg1) == 1 && arg1[0].token == ghost_tok
//@   assert-at call ShiftCacheSlot #1 : len(seq.pendingInputs) == 0 && arg0 == s.cache && arg1 == seq.cache && arg2 == seq.numKeep
//@   assert-at call append #1 : arg1 == seq.inputs && len(seq.pendingInputs) == 0
//@   assert-at call append #3 : arg0 == seq.cache.Inputs && arg1 == seq.pendingInputs
//@   assert-at store inputs #2 : stored == seq.inputs[len(seq.pendingInputs):]
//@   assert-at store inputs #3 : len(stored) == 1 && stored[0].token == token

// removeSequence: the final flush and the reason are in place before the stream is closed.
//@ func (*Server).removeSequence
//@   opt safe panic
//@   ghost-at entry : ghost_flushed := 0
//@   ghost-at after call flushPending #1 : ghost_flushed := 1
//@   assert-at call close #1 : ghost_flushed == 1 && seq.doneReason == reason
// (C14/C07 audit) C07 "a slot in use is never given to a second request": when the semaphore lets the next
// request in, the finished sequence is no longer in s.seqs (processBatch will not touch it or its slot
// again) and only then is its slot free; the stream that is closed and the slot that is released are
// those of the sequence at seqIndex.
//@   assert-at call Release #1 : s.seqs[seqIndex] == nil && !seq.cache.InUse
//@   assert-at call flushPending #1 : arg0 == s.seqs[seqIndex]
