//go:build verif

// C14: the final flush of withheld pieces (runner.go flushPending) streams only whole,
// valid UTF-8, and only a prefix of what was withheld.
package llamarunner

// facts about strings (trusted): the empty string is valid UTF-8; prefix is reflexive and
// closed under taking a shorter prefix
//@ axiom forall s string :: len(s) == 0 ==> svalidutf8(s)
//@ axiom forall s string :: shasprefix(s, s)
//@ axiom forall s string, t string, n int :: shasprefix(s, t) && 0 <= n && n <= len(t) ==> shasprefix(s, t[0:n])

//@ func flushPending
//@   requires seq != nil
//@   loop 1 invariant shasprefix(old(sjoin(seq.pendingResponses, "")), joined)
//@   loop 1 decreases len(joined)
//@   assert-at send responses #1 : svalidutf8(sent) && len(sent) > 0 && shasprefix(old(sjoin(seq.pendingResponses, "")), sent)
//@   ensures len(seq.pendingResponses) == 0
