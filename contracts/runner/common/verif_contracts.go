//go:build verif

// Contracts for package runner/common, checked by /verif/govc.
package common

// From the property: the output ends immediately before a stop sequence and contains
// none. Cutting at the first occurrence of the reported stop achieves that only if no
// other stop starts earlier in the text, so FindStop must report a stop whose first
// occurrence is the earliest (third ensures).
//@ func FindStop
//@   modifies nothing
//@   ensures result.0 ==> scontains(sequence, result.1) && exists k int :: 0 <= k && k < len(stops) && stops[k] == result.1
//@   ensures !result.0 ==> result.1 == "" && forall k int :: 0 <= k && k < len(stops) ==> !scontains(sequence, stops[k])
//@   ensures result.0 ==> forall k int :: 0 <= k && k < len(stops) && scontains(sequence, stops[k]) ==> sindex(sequence, result.1) <= sindex(sequence, stops[k])
//@   loop 1 invariant !found ==> match == "" && forall k int :: 0 <= k && k <= rangeindex ==> !scontains(sequence, stops[k])
//@   loop 1 invariant found ==> scontains(sequence, match) && first == sindex(sequence, match) && exists k int :: 0 <= k && k <= rangeindex && stops[k] == match
//@   loop 1 invariant found ==> forall k int :: 0 <= k && k <= rangeindex && scontains(sequence, stops[k]) ==> first <= sindex(sequence, stops[k])

//@ func ContainsStopSuffix
//@   modifies nothing
//@   ensures result <==> exists k int, i int :: 0 <= k && k < len(stops) && 1 <= i && i <= len(stops[k]) && shassuffix(sequence, stops[k][0:i])
//@   loop 1 invariant forall k int, j int :: 0 <= k && k <= rangeindex && 1 <= j && j <= len(stops[k]) ==> !shassuffix(sequence, stops[k][0:j])
//@   loop 2 invariant 1 <= i && forall j int :: 1 <= j && j < i ==> !shassuffix(sequence, stop[0:j])

//@ spec func u8cont(c int) bool = 128 <= c && c < 192
//@ spec func u8lead2(c int) bool = 192 <= c && c < 224
//@ spec func u8lead3(c int) bool = 224 <= c && c < 240
//@ spec func u8lead4(c int) bool = 240 <= c && c < 248

//@ func IncompleteUnicode
//@   modifies nothing
//@   ensures result <==> (len(token) >= 1 && (u8lead2(token[len(token)-1]) || u8lead3(token[len(token)-1]) || u8lead4(token[len(token)-1])))
//@                    || (len(token) >= 2 && u8cont(token[len(token)-1]) && (u8lead3(token[len(token)-2]) || u8lead4(token[len(token)-2])))
//@                    || (len(token) >= 3 && u8cont(token[len(token)-1]) && u8cont(token[len(token)-2]) && u8lead4(token[len(token)-3]))
//@   loop 1 invariant 1 <= i && i <= 5 && !incomplete && forall j int :: 1 <= j && j < i ==> u8cont(token[len(token)-j])

// TruncateStop: loops 1 (piece lengths), 2 (re-split).
//@ func TruncateStop
//@   modifies nothing
//@   ensures len(result.0) <= len(pieces)
//@   ensures old(sindex(sjoin(pieces, ""), stop)) == -1 ==> result.0 == pieces && !result.1
//@   loop 1 invariant forall k int :: 0 <= k && k <= rangeindex ==> lengths[k] == len(pieces[k])
//@   loop 2 invariant 0 <= start && start <= len(joined) && len(result) <= rangeindex + 1
//@   loop 2 invariant forall k int :: 0 <= k && k < len(lengths) ==> 0 <= lengths[k] && lengths[k] <= 4611686018427387904
// -- added by the C14 audit: what TruncateStop returns when the stop IS present. --
// From the property ("the output ends immediately before one [stop]"): the text that is split
// back into pieces is exactly the joined text before the first occurrence of the stop (not one
// byte more); the k-th returned piece continues where piece k-1 ended (ghost_cov = bytes handed
// out so far), so the returned pieces, concatenated, are joined[0:ghost_cov]; no piece begins at
// or behind the cut; on return everything before the cut has been handed out unless every
// original piece was used. tokenTruncated (processBatch's cache-trim arithmetic depends on it,
// C07) is true exactly when the last returned piece is shorter than the piece it came from;
// all earlier pieces keep their length.
//@   ghost-at entry : ghost_cov := 0
//@   ghost-at call append #1 : ghost_cov := ghost_cov + len(arg1[0])      -- runs after the assert-at clauses of the same site
//@   loop 2 invariant cap(result) == 0 || fresh(&result[0])      -- result's array is allocated here, it never aliases pieces
//@   loop 2 invariant forall k int :: 0 <= k && k < len(pieces) ==> pieces[k] == old(pieces[k]) && lengths[k] == len(pieces[k])
//@   loop 2 invariant ghost_cov == start && len(result) == rangeindex + 1
//@   loop 2 invariant tokenTruncated ==> start == len(joined) && rangeindex >= 0 && len(result[rangeindex]) < lengths[rangeindex]
//@   loop 2 invariant forall k int :: 0 <= k && k <= rangeindex && (k < rangeindex || !tokenTruncated) ==> len(result[k]) == lengths[k]
//@   assert-at call append #1 : len(joined) == old(sindex(sjoin(pieces, ""), stop)) && joined == old(sjoin(pieces, ""))[0:len(joined)]
//@   assert-at call append #1 : ghost_cov < len(joined) && arg1[0] == joined[ghost_cov:ghost_cov+len(arg1[0])] && ghost_cov + len(arg1[0]) <= len(joined)
//@   assert-at return #2 : ghost_cov == len(joined) || len(result.0) == len(pieces)
//@   ensures result.1 <==> len(result.0) >= 1 && len(result.0[len(result.0)-1]) < len(pieces[len(result.0)-1])
//@   ensures forall k int :: 0 <= k && k < len(result.0) - 1 ==> len(result.0[k]) == len(pieces[k])
//@   ensures forall k int :: 0 <= k && k < len(result.0) ==> len(result.0[k]) <= len(pieces[k])
