//go:build verif

// Contracts for package runner/common, checked by /verif/govc.
package common

// From the property: the output ends immediately before a stop sequence and contains
// none. Cutting at the first occurrence of the reported stop achieves that only if no
// other stop starts earlier in the text, so FindStop must report a stop whose first
// occurrence is the earliest (third ensures).
//@ func FindStop
//@   modifies nothing
//@   ensures result.0 ==> scontains(sequence, result.1) && exists k int :: 0 <= k && k < len(stops) && stops[k] == result.1
//@   ensures !result.0 ==> result.1 == "" && forall k int :: 0 <= k && k < len(stops) ==> !scontains(sequence, stops[k])
//@   ensures result.0 ==> forall k int :: 0 <= k && k < len(stops) && scontains(sequence, stops[k]) ==> sindex(sequence, result.1) <= sindex(sequence, stops[k])
//@   loop 1 invariant !found ==> match == "" && forall k int :: 0 <= k && k <= rangeindex ==> !scontains(sequence, stops[k])
//@   loop 1 invariant found ==> scontains(sequence, match) && first == sindex(sequence, match) && exists k int :: 0 <= k && k <= rangeindex && stops[k] == match
//@   loop 1 invariant found ==> forall k int :: 0 <= k && k <= rangeindex && scontains(sequence, stops[k]) ==> first <= sindex(sequence, stops[k])

//@ func ContainsStopSuffix
//@   modifies nothing
//@   ensures result <==> exists k int, i int :: 0 <= k && k < len(stops) && 1 <= i && i <= len(stops[k]) && shassuffix(sequence, stops[k][0:i])
//@   loop 1 invariant forall k int, j int :: 0 <= k && k <= rangeindex && 1 <= j && j <= len(stops[k]) ==> !shassuffix(sequence, stops[k][0:j])
//@   loop 2 invariant 1 <= i && forall j int :: 1 <= j && j < i ==> !shassuffix(sequence, stop[0:j])

//@ spec func u8cont(c int) bool = 128 <= c && c < 192
//@ spec func u8lead2(c int) bool = 192 <= c && c < 224
//@ spec func u8lead3(c int) bool = 224 <= c && c < 240
//@ spec func u8lead4(c int) bool = 240 <= c && c < 248

//@ func IncompleteUnicode
//@   modifies nothing
//@   ensures result <==> (len(token) >= 1 && (u8lead2(token[len(token)-1]) || u8lead3(token[len(token)-1]) || u8lead4(token[len(token)-1])))
//@                    || (len(token) >= 2 && u8cont(token[len(token)-1]) && (u8lead3(token[len(token)-2]) || u8lead4(token[len(token)-2])))
//@                    || (len(token) >= 3 && u8cont(token[len(token)-1]) && u8cont(token[len(token)-2]) && u8lead4(token[len(token)-3]))
//@   loop 1 invariant 1 <= i && i <= 5 && !incomplete && forall j int :: 1 <= j && j < i ==> u8cont(token[len(token)-j])

// TruncateStop: loops 1 (piece lengths), 2 (re-split).
//@ func TruncateStop
//@   modifies nothing
//@   ensures len(result.0) <= len(pieces)
//@   ensures old(sindex(sjoin(pieces, ""), stop)) == -1 ==> result.0 == pieces && !result.1
//@   loop 1 invariant forall k int :: 0 <= k && k <= rangeindex ==> lengths[k] == len(pieces[k])
//@   loop 2 invariant 0 <= start && start <= len(joined) && len(result) <= rangeindex + 1
//@   loop 2 invariant forall k int :: 0 <= k && k < len(lengths) ==> 0 <= lengths[k] && lengths[k] <= 4611686018427387904
