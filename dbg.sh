#!/bin/bash
# dbg.sh <smt2 file> <regex over declared const names>: print model values
f=$1; re=$2
names=$(grep -oE '^\(declare-const [^ ]+ (Int|Bool)\)' "$f" | awk '{print $2}' | grep -E "$re" | tr '\n' ' ')
grep -v '^(get-value' "$f" > /tmp/dbg.smt2
echo "(get-value ($names))" >> /tmp/dbg.smt2
timeout 20 z3-new -smt2 /tmp/dbg.smt2 | tr -s ' \n' ' ' | sed 's/) (/)\n(/g' | head -80
