package llamarunner

import "testing"

// Property-level oracle (C07, slot selection): see the ollamarunner twin. Replays the
// scenario the failing obligation (nil oldestSlot) stands for: every slot is in use.
func TestGovcReplay(t *testing.T) {
	w := govcLoadWitness()
	n := w.Int("(*c).slots.len")
	if n < 1 || n > 64 {
		n = 1
	}
	c := &InputCache{numCtx: 16, slots: make([]InputCacheSlot, n), multiUserCache: true}
	for i := range c.slots {
		c.slots[i] = InputCacheSlot{Id: i, InUse: true, Inputs: []input{{token: 1}}}
	}
	defer func() {
		if r := recover(); r != nil {
			t.Fatalf("REPRODUCED: findBestCacheSlot with %d slots, all in use, panics instead of reporting that no slot is available: %v", n, r)
		}
	}()
	slot, _, err := c.findBestCacheSlot([]input{{token: 2}})
	if err == nil && (slot == nil || slot.InUse) {
		t.Fatalf("REPRODUCED: findBestCacheSlot returned slot %v (in use or nil) without an error", slot)
	}
}
