package ollamarunner

import (
	"testing"

	"github.com/ollama/ollama/model/input"
)

// Property-level oracle (C07, slot selection): findBestCacheSlot returns either a slot of
// c.slots that is not in use, or an error - it must not crash. The witness only records the
// number of slots (slot contents are below the witness depth), so the replay uses the
// scenario the failing obligation (nil oldestSlot) stands for: every slot is in use.
func TestGovcReplay(t *testing.T) {
	w := govcLoadWitness()
	n := w.Int("(*c).slots.len")
	if n < 1 || n > 64 {
		n = 1
	}
	c := &InputCache{numCtx: 16, slots: make([]InputCacheSlot, n), multiUserCache: true}
	for i := range c.slots {
		c.slots[i] = InputCacheSlot{Id: i, InUse: true, Inputs: []input.Input{{Token: 1}}}
	}
	defer func() {
		if r := recover(); r != nil {
			t.Fatalf("REPRODUCED: findBestCacheSlot with %d slots, all in use, panics instead of reporting that no slot is available: %v", n, r)
		}
	}()
	slot, _, err := c.findBestCacheSlot([]input.Input{{Token: 2}})
	if err == nil && (slot == nil || slot.InUse) {
		t.Fatalf("REPRODUCED: findBestCacheSlot returned slot %v (in use or nil) without an error", slot)
	}
}
