package server

import (
	"context"
	"testing"
	"time"

	"github.com/ollama/ollama/api"
)

// C03 oracle: no registry response crashes the server. opts.digest is a layer digest taken
// verbatim from the manifest the registry served (PullModel passes layer.Digest). The witness
// gives the digest; the blob store is an empty temporary directory, the registry address is
// unroutable (127.0.0.1:1) so that an accepted, absent digest fails fast instead of downloading.
func TestGovcReplay(t *testing.T) {
	w := govcLoadWitness()
	digest := w.Str("opts.digest")
	t.Setenv("OLLAMA_MODELS", t.TempDir())
	ctx, cancel := context.WithTimeout(context.Background(), 20*time.Second)
	defer cancel()
	defer func() {
		if r := recover(); r != nil {
			t.Fatalf("REPRODUCED: downloadBlob panicked on manifest layer digest %q: %v", digest, r)
		}
	}()
	_, err := downloadBlob(ctx, downloadOpts{
		mp:      ModelPath{ProtocolScheme: "http", Registry: "127.0.0.1:1", Namespace: "library", Repository: "m", Tag: "latest"},
		digest:  digest,
		regOpts: &registryOptions{Insecure: true},
		fn:      func(api.ProgressResponse) {},
	})
	t.Logf("downloadBlob(%q) returned %v", digest, err)
}
