package server

import (
	"context"
	"crypto/sha256"
	"encoding/json"
	"fmt"
	"os"
	"runtime"
	"strings"
	"testing"
	"time"

	"github.com/ollama/ollama/api"
)

// C15 oracle: "no request makes the server panic". Replays the two schedules behind
// downloadBlob#assert.9 / #assert.10 (`download.CancelFunc != nil` when Wait is called):
//
//	created: (assert.9) a pull whose context is already cancelled resumes a partial download
//	         (Prepare needs no request); Wait returns before the goroutine started by
//	         `go download.Run` is scheduled (GOMAXPROCS=1) and its release() calls b.CancelFunc.
//	joined:  (assert.10) the download was stored in blobDownloadManager by another pull that is
//	         still inside Prepare; this pull joins it with a cancelled context.
func TestGovcReplay(t *testing.T) {
	obl := ""
	if p := os.Getenv("GOVC_WITNESS"); p != "" {
		if data, err := os.ReadFile(p); err == nil {
			var doc struct {
				Obligation string `json:"obligation"`
			}
			json.Unmarshal(data, &doc)
			obl = doc.Obligation
		}
	}
	if obl == "" || strings.Contains(obl, "assert.9@") {
		t.Run("created", replayDownloadReleaseBeforeRun)
	}
	if obl == "" || strings.Contains(obl, "assert.10@") {
		t.Run("joined", replayDownloadJoinerDuringPrepare)
	}
}

func replayDownloadReleaseBeforeRun(t *testing.T) {
	defer runtime.GOMAXPROCS(runtime.GOMAXPROCS(1))
	t.Setenv("OLLAMA_MODELS", t.TempDir())
	digest := fmt.Sprintf("sha256:%x", sha256.Sum256([]byte("x")))
	fp, err := GetBlobsPath(digest)
	if err != nil {
		t.Fatal(err)
	}
	part := blobDownloadPart{N: 0, Offset: 0, Size: 10}
	bts, _ := json.Marshal(&part)
	if err := os.WriteFile(fp+"-partial-0", bts, 0o644); err != nil {
		t.Fatal(err)
	}
	ctx, cancel := context.WithCancel(context.Background())
	cancel()
	defer func() {
		if r := recover(); r != nil {
			t.Fatalf("VIOLATION C15: downloadBlob panicked: %v", r)
		}
	}()
	_, err = downloadBlob(ctx, downloadOpts{mp: ParseModelPath("example.com/library/m:latest"), digest: digest, regOpts: &registryOptions{}, fn: func(api.ProgressResponse) {}})
	t.Logf("downloadBlob: %v", err)
	// let the cancelled download goroutine finish before the temporary store is removed
	for range 300 {
		if _, ok := blobDownloadManager.Load(digest); !ok {
			break
		}
		time.Sleep(10 * time.Millisecond)
	}
}

func replayDownloadJoinerDuringPrepare(t *testing.T) {
	t.Setenv("OLLAMA_MODELS", t.TempDir())
	digest := fmt.Sprintf("sha256:%x", sha256.Sum256([]byte("y")))
	fp, err := GetBlobsPath(digest)
	if err != nil {
		t.Fatal(err)
	}
	// exactly what downloadBlob of the first pull has done when it enters Prepare
	blobDownloadManager.LoadOrStore(digest, &blobDownload{Name: fp, Digest: digest})
	defer blobDownloadManager.Delete(digest)
	ctx, cancel := context.WithCancel(context.Background())
	cancel()
	defer func() {
		if r := recover(); r != nil {
			t.Fatalf("VIOLATION C15: downloadBlob (joining pull) panicked: %v", r)
		}
	}()
	_, err = downloadBlob(ctx, downloadOpts{mp: ParseModelPath("example.com/library/m:latest"), digest: digest, regOpts: &registryOptions{}, fn: func(api.ProgressResponse) {}})
	t.Logf("downloadBlob: %v", err)
}
