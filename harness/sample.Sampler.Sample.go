package sample

import (
	"math"
	"testing"
)

// Property-level oracle (C18): Sample returns an id inside the vocabulary (or -1 with an
// error), never a -Inf logit when some logit is finite, and with temperature zero a
// highest-logit token. The witness fixes the vocabulary size and top-k; float values
// are uninterpreted in the solver and run over a grid here.
func TestGovcReplay(t *testing.T) {
	w := govcLoadWitness()
	n := int(w.Int("logits.len"))
	if n < 1 {
		n = 1
	}
	if n > 6 {
		n = 6
	}
	inf := float32(math.Inf(1))
	base := []float32{0.5, 2, -1, 2, -inf, 1e30}
	vectors := [][]float32{base[:n], {1}, {1, 1}, {-inf, 0, -inf}, {3, 1, 2, 3}, {-1e30, 1e30, 0}}
	for _, logits := range vectors {
		someFinite := false
		maxLogit := -inf
		for _, l := range logits {
			someFinite = someFinite || !math.IsInf(float64(l), 0)
			if l > maxLogit {
				maxLogit = l
			}
		}
		for _, temp := range []float32{0, 0.5, 1} {
			for _, k := range []int{int(w.Int("(*s).topK")), 0, 1, 2, 100} {
				for _, seed := range []int{-1, 7} {
					s := NewSampler(temp, k, 0.9, 0.05, seed, nil)
					for range 8 {
						id, err := func() (id int32, err error) {
							defer func() {
								if r := recover(); r != nil {
									t.Fatalf("REPRODUCED: Sample(%v) temp %v top_k %d panics: %v", logits, temp, k, r)
								}
							}()
							return s.Sample(append([]float32(nil), logits...))
						}()
						if err != nil {
							if id != -1 {
								t.Fatalf("REPRODUCED: error %v with id %d", err, id)
							}
							continue
						}
						if id < 0 || int(id) >= len(logits) {
							t.Fatalf("REPRODUCED: Sample(%v) temp %v top_k %d = %d: outside the vocabulary", logits, temp, k, id)
						}
						if someFinite && math.IsInf(float64(logits[id]), -1) {
							t.Fatalf("REPRODUCED: Sample(%v) temp %v top_k %d = %d: a -Inf logit", logits, temp, k, id)
						}
						if temp == 0 && logits[id] != maxLogit {
							t.Fatalf("REPRODUCED: Sample(%v) at temperature 0 = %d (logit %v), highest logit is %v", logits, id, logits[id], maxLogit)
						}
					}
				}
			}
		}
	}
}
