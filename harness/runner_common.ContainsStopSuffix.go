package common

import (
	"strings"
	"testing"
)

func TestGovcReplay(t *testing.T) {
	w := govcLoadWitness()
	seq, stops := w.Str("sequence"), w.Strs("stops")
	got := ContainsStopSuffix(seq, stops)
	want := false
	for _, s := range stops {
		for i := 1; i <= len(s); i++ {
			want = want || strings.HasSuffix(seq, s[:i])
		}
	}
	if got != want {
		t.Fatalf("REPRODUCED: ContainsStopSuffix(%q, %q) = %v, want %v", seq, stops, got, want)
	}
}
