package server

import (
	"net/http"
	"os"
	"strings"
	"testing"

	"github.com/gin-gonic/gin"

	"github.com/ollama/ollama/api"
)

// Property-level oracle (C04): after removing one model, every model that is still listed has
// all of its layers and its config present in the blob store.
//
// Shape of the counterexample of server.(*Layer).Remove#loop1.inv2.keep@b8 (the solver's strings
// are opaque ids; the concrete instance is fixed here): two spellings of one digest,
// "sha256:<hex>" and "sha256-<hex>", name the same blob file (GetBlobsPath rewrites ':' to '-'),
// but the scan in Layer.Remove compares digest strings. The dash spelling reaches a manifest
// through POST /api/create {"files": {"m.gguf": "sha256-<hex>"}} (ggufLayers ->
// NewLayerFromLayer keeps the request's spelling).
func TestGovcReplay(t *testing.T) {
	gin.SetMode(gin.TestMode)
	// both directions: delete the model that uses the colon spelling, then (fresh store) the one
	// that uses the dash spelling
	for _, victim := range []string{"a", "b"} {
		t.Setenv("OLLAMA_MODELS", t.TempDir())
		var s Server

		_, digest := createBinFile(t, nil, nil) // "sha256:<hex>", blob uploaded
		dash := strings.Replace(digest, ":", "-", 1)

		if w := createRequest(t, s.CreateHandler, api.CreateRequest{Name: "a", Files: map[string]string{"m.gguf": digest}}); w.Code != http.StatusOK {
			t.Fatalf("create a: status %d", w.Code)
		}
		if w := createRequest(t, s.CreateHandler, api.CreateRequest{Name: "b", Files: map[string]string{"m.gguf": dash}}); w.Code != http.StatusOK {
			t.Fatalf("create b: status %d", w.Code)
		}
		if w := createRequest(t, s.DeleteHandler, api.DeleteRequest{Name: victim}); w.Code != http.StatusOK {
			t.Fatalf("delete %s: status %d", victim, w.Code)
		}

		ms, err := Manifests(false)
		if err != nil {
			t.Fatal(err)
		}
		if len(ms) != 1 {
			t.Fatalf("expected one model to stay listed, got %d models", len(ms))
		}
		for n, m := range ms {
			for _, l := range append(m.Layers, m.Config) {
				p, err := GetBlobsPath(l.Digest)
				if err != nil {
					t.Fatal(err)
				}
				if _, err := os.Stat(p); err != nil {
					t.Fatalf("REPRODUCED: DELETE /api/delete %s removed blob %s that the listed model %s still references as %q (a records %q, b records %q): %v", victim, p, n.DisplayShortest(), l.Digest, digest, dash, err)
				}
			}
		}
	}
}
