package ggml

import (
	"bytes"
	"encoding/binary"
	"testing"
)

// C10 oracle: decoding never panics. The witness gives the length prefix read from the file.
func TestGovcReplay(t *testing.T) {
	w := govcLoadWitness()
	length := uint64(w.Int("ret.encoding/binary.(ByteOrder).Uint64.1"))
	var buf bytes.Buffer
	binary.Write(&buf, binary.LittleEndian, length)
	buf.Write(make([]byte, 64))
	llm := newGGUF(&containerGGUF{ByteOrder: binary.LittleEndian, Version: 3})
	defer func() {
		if r := recover(); r != nil {
			t.Fatalf("REPRODUCED: readGGUFString panicked on a declared string length of %d: %v", int64(length), r)
		}
	}()
	readGGUFString(llm, &buf)
}
