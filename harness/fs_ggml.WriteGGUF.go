package ggml

import (
	"bytes"
	"os"
	"path/filepath"
	"testing"
)

// C05 oracle: for every tensor, the bytes found at (data section start + declared offset)
// in the written file are the bytes that were written for it, and the declared offset is
// aligned. The failing obligation says the running offset `s` loses the padding, which
// needs >= 3 tensors whose sizes are not multiples of the alignment; the witness sizes are
// used when present, else 5, 5, 3.
func TestGovcReplay(t *testing.T) {
	w := govcLoadWitness()
	sz := func(label string, def int) int {
		n := int(w.Int(label))
		if n <= 0 || n > 4096 {
			return def
		}
		return n
	}
	sizes := []int{sz("ret.fs/ggml.(Tensor).Size.1", 5), 5, 3}
	if sizes[0]%32 == 0 {
		sizes[0] = 5
	}
	var ts []Tensor
	for i, n := range sizes {
		data := bytes.Repeat([]byte{byte('A' + i)}, n)
		ts = append(ts, Tensor{Name: string(rune('a' + i)), Kind: 24, Shape: []uint64{uint64(n)}, WriterTo: bytes.NewReader(data)})
	}
	f, err := os.Create(filepath.Join(t.TempDir(), "m.gguf"))
	if err != nil {
		t.Fatal(err)
	}
	defer f.Close()
	if err := WriteGGUF(f, KV{"general.architecture": "test"}, ts); err != nil {
		t.Fatal(err)
	}
	raw, _ := os.ReadFile(f.Name())
	f.Seek(0, 0)
	m, end, err := Decode(f, -1)
	if err != nil {
		t.Fatal(err)
	}
	if int(end) != len(raw) {
		t.Fatalf("REPRODUCED: decoder end offset %d != file length %d", end, len(raw))
	}
	base := m.Tensors().Offset
	for _, dt := range m.Tensors().Items() {
		if dt.Offset%32 != 0 {
			t.Fatalf("REPRODUCED: tensor %s declared at unaligned offset %d", dt.Name, dt.Offset)
		}
		want := bytes.Repeat([]byte{byte('A' + int(dt.Name[0]-'a'))}, int(dt.Size()))
		lo := base + dt.Offset
		if int(lo)+len(want) > len(raw) || !bytes.Equal(raw[lo:int(lo)+len(want)], want) {
			got := []byte{}
			if int(lo) < len(raw) {
				got = raw[lo:min(len(raw), int(lo)+len(want))]
			}
			t.Fatalf("REPRODUCED: tensor %s (sizes %v): bytes at declared offset %d are %q, written %q", dt.Name, sizes, dt.Offset, got, want)
		}
	}
}
