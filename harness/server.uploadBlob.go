package server

import (
	"context"
	"crypto/sha256"
	"encoding/json"
	"fmt"
	"net/http"
	"net/http/httptest"
	"os"
	"strings"
	"testing"

	"github.com/ollama/ollama/api"
)

// C15 oracle: "no request makes the server panic". Replays the schedules behind
// uploadBlob#assert.14 / #assert.15 (`upload.CancelFunc != nil` when Wait is called):
//
//	mounted: (assert.14) the registry mounts the layer (201 to the upload POST): Prepare sets done,
//	         Run returns at once, Wait sees done and its release() calls b.CancelFunc.
//	joined:  (assert.15) the upload was stored in blobUploadManager by another push that is still
//	         inside Prepare; this push joins it with a cancelled context.
func TestGovcReplay(t *testing.T) {
	obl := ""
	if p := os.Getenv("GOVC_WITNESS"); p != "" {
		if data, err := os.ReadFile(p); err == nil {
			var doc struct {
				Obligation string `json:"obligation"`
			}
			json.Unmarshal(data, &doc)
			obl = doc.Obligation
		}
	}
	if obl == "" || strings.Contains(obl, "assert.14@") {
		t.Run("mounted", replayMountedUploadRelease)
	}
	if obl == "" || strings.Contains(obl, "assert.15@") {
		t.Run("joined", replayUploadJoinerDuringPrepare)
	}
}

func replayMountedUploadRelease(t *testing.T) {
	t.Setenv("OLLAMA_MODELS", t.TempDir())
	data := []byte("layer bytes")
	digest := fmt.Sprintf("sha256:%x", sha256.Sum256(data))
	fp, err := GetBlobsPath(digest)
	if err != nil {
		t.Fatal(err)
	}
	if err := os.WriteFile(fp, data, 0o644); err != nil {
		t.Fatal(err)
	}
	srv := httptest.NewServer(http.HandlerFunc(func(w http.ResponseWriter, r *http.Request) {
		switch r.Method {
		case http.MethodHead:
			w.WriteHeader(http.StatusNotFound)
		case http.MethodPost:
			w.WriteHeader(http.StatusCreated)
		default:
			w.WriteHeader(http.StatusBadRequest)
		}
	}))
	defer srv.Close()
	mp := ParseModelPath("http://" + strings.TrimPrefix(srv.URL, "http://") + "/library/m:latest")
	defer func() {
		if r := recover(); r != nil {
			t.Fatalf("VIOLATION C15: uploadBlob panicked: %v", r)
		}
	}()
	err = uploadBlob(context.Background(), mp, Layer{Digest: digest, Size: int64(len(data)), From: "library/other"}, &registryOptions{Insecure: true}, func(api.ProgressResponse) {})
	if err != nil {
		t.Fatalf("uploadBlob: %v", err)
	}
}

func replayUploadJoinerDuringPrepare(t *testing.T) {
	t.Setenv("OLLAMA_MODELS", t.TempDir())
	data := []byte("other layer bytes")
	digest := fmt.Sprintf("sha256:%x", sha256.Sum256(data))
	layer := Layer{Digest: digest, Size: int64(len(data))}
	srv := httptest.NewServer(http.HandlerFunc(func(w http.ResponseWriter, r *http.Request) {
		w.WriteHeader(http.StatusNotFound)
	}))
	defer srv.Close()
	mp := ParseModelPath("http://" + strings.TrimPrefix(srv.URL, "http://") + "/library/m:latest")
	// exactly what uploadBlob of the first push has done when it enters Prepare
	blobUploadManager.LoadOrStore(digest, &blobUpload{Layer: layer})
	defer blobUploadManager.Delete(digest)
	ctx, cancel := context.WithCancel(context.Background())
	defer func() {
		if r := recover(); r != nil {
			t.Fatalf("VIOLATION C15: uploadBlob (joining push) panicked: %v", r)
		}
	}()
	// the client goes away once it has seen the first progress report of the joined upload
	err := uploadBlob(ctx, mp, layer, &registryOptions{Insecure: true}, func(api.ProgressResponse) { cancel() })
	t.Logf("uploadBlob: %v", err)
}
