package server

import (
	"crypto/sha256"
	"errors"
	"fmt"
	"os"
	"path/filepath"
	"testing"
)

// Oracle (C03) from the property statement: a freshly downloaded layer whose bytes do not hash to
// the manifest's digest must not stay in the store. PullModel removes it only when
// errors.Is(err, errDigestMismatch) holds for verifyBlob's error, so verifyBlob has to
//   - return nil for a blob whose SHA-256 is its digest (and only then),
//   - return an error recognised by errors.Is(err, errDigestMismatch) for a blob with other bytes,
//   - return some error for a blob that is not there.
// File contents are not part of the solver's witness (the file system is not modelled): the
// scenario is fixed, the witness only selects nothing. The test replays what the violated
// obligation (verifyBlob#post.*, verifyBlob#assert.*) is about on the real code.
func TestGovcReplay(t *testing.T) {
	_ = govcLoadWitness()
	models := t.TempDir()
	t.Setenv("OLLAMA_MODELS", models)

	published := []byte("ollama layer payload 0123456789\n")
	digest := fmt.Sprintf("sha256:%x", sha256.Sum256(published))
	fp, err := GetBlobsPath(digest)
	if err != nil {
		t.Fatalf("GetBlobsPath(%q): %v", digest, err)
	}
	if fp != filepath.Join(models, "blobs", "sha256-"+digest[7:]) {
		t.Fatalf("unexpected blob path %q", fp)
	}

	// missing blob
	if err := verifyBlob(digest); err == nil {
		t.Fatalf("REPRODUCED: verifyBlob returned nil for a blob that does not exist (%s)", fp)
	}

	// published bytes
	if err := os.WriteFile(fp, published, 0o644); err != nil {
		t.Fatal(err)
	}
	if err := verifyBlob(digest); err != nil {
		t.Fatalf("REPRODUCED: verifyBlob refused the published bytes: %v", err)
	}

	// one flipped bit, same length
	corrupt := append([]byte(nil), published...)
	corrupt[len(corrupt)/2] ^= 0x01
	if err := os.WriteFile(fp, corrupt, 0o644); err != nil {
		t.Fatal(err)
	}
	err = verifyBlob(digest)
	if err == nil {
		t.Fatalf("REPRODUCED: verifyBlob returned nil for a blob with a flipped bit")
	}
	if !errors.Is(err, errDigestMismatch) {
		t.Fatalf("REPRODUCED: verifyBlob reported the corrupt blob with an error that errors.Is(err, errDigestMismatch) does not recognise (%q): PullModel will not remove the blob and the next pull takes it for a verified cache hit", err)
	}

	// truncated
	if err := os.WriteFile(fp, published[:len(published)/2], 0o644); err != nil {
		t.Fatal(err)
	}
	if err := verifyBlob(digest); err == nil || !errors.Is(err, errDigestMismatch) {
		t.Fatalf("REPRODUCED: truncated blob: verifyBlob returned %v, want an error wrapping errDigestMismatch", err)
	}
}
