package model

import (
	"strings"
	"testing"
	"unicode/utf8"
)

// Property-level oracle (C20): encoding valid UTF-8 text without NUL and decoding the
// tokens returns the text exactly; all ids lie inside the vocabulary. Vocabulary: the
// llama 3.2 test vocabulary of process_text_test.go (covers every byte).
// The witness is the pre-tokenizer split handed to the loop body (arg0); it is replayed
// as text if it is valid UTF-8, and every byte value occurring in it is replayed alone
// (ASCII) or inside a two-byte character.
func TestGovcReplay(t *testing.T) {
	w := govcLoadWitness()
	tok := llama(t)
	check := func(s string) {
		if !utf8.ValidString(s) || strings.ContainsRune(s, 0) {
			return
		}
		ids, err := tok.Encode(s, false)
		if err != nil {
			t.Fatalf("Encode(%q): %v", s, err)
		}
		for _, id := range ids {
			if id < 0 || int(id) >= len(tok.vocab.Values) {
				t.Fatalf("REPRODUCED: Encode(%q) produced id %d outside the vocabulary of %d", s, id, len(tok.vocab.Values))
			}
		}
		got, err := tok.Decode(ids)
		if err != nil {
			t.Fatalf("Decode(%v): %v", ids, err)
		}
		if got != s {
			t.Fatalf("REPRODUCED: Decode(Encode(%q)) = %q (ids %v)", s, got, ids)
		}
	}
	split := w.Str("arg0")
	if len(split) > 24 {
		split = split[:24]
	}
	check(split)
	for i := 0; i < len(split); i++ {
		b := split[i]
		if b < utf8.RuneSelf {
			check(string(rune(b)))
			check("a" + string(rune(b)) + "b")
		} else {
			// a continuation byte inside U+0080..U+07FF, a lead byte in front of 0x80
			if b < 0xc0 {
				check(string([]byte{0xc2, b}))
				check(string([]byte{0xdf, b}))
			} else if b >= 0xc2 && b < 0xe0 {
				check(string([]byte{b, 0x80}))
			}
		}
	}
}
