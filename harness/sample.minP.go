package sample

import "testing"

// Property-level oracle (C18): min-p keeps exactly the tokens whose probability is at
// least p times the largest one; on a descending list that is a non-empty prefix.
func TestGovcReplay(t *testing.T) {
	_ = govcLoadWitness()
	lists := [][]float32{{1}, {0.5, 0.5}, {0.6, 0.3, 0.1}, {0.4, 0.3, 0.2, 0.1}, {0.25, 0.25, 0.25, 0.25}}
	for _, probs := range lists {
		for _, p := range []float32{0, 0.1, 0.3, 0.5, 0.75, 1} {
			ts := make([]token, len(probs))
			for i, v := range probs {
				ts[i] = token{id: int32(i), value: v}
			}
			got := minP(ts, p)
			want := 0
			for _, v := range probs {
				if v >= probs[0]*p {
					want++
				}
			}
			if len(got) != want || len(got) == 0 {
				t.Fatalf("REPRODUCED: minP(%v, %v) keeps %d tokens, the filter set has %d", probs, p, len(got), want)
			}
			for i := range got {
				if got[i].id != int32(i) {
					t.Fatalf("REPRODUCED: minP(%v, %v) does not keep the most probable tokens: %v", probs, p, got)
				}
			}
		}
	}
}
