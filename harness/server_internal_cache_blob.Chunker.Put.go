package blob

import (
	"bytes"
	"crypto/sha256"
	"os"
	"testing"
)

// Replay harness for (*Chunker).Put (property C08).
// Oracle: a blob that Get reports with the size it is stored under has content whose
// SHA-256 is its digest. The witness gives the blob size ((*c).size) and the chunk.
func TestGovcReplay(t *testing.T) {
	w := govcLoadWitness()
	size := min(max(w.Int("(*c).size"), 1), 1<<16)
	start := min(max(w.Int("chunk.Start"), 0), size)
	end := min(max(w.Int("chunk.End"), start-1), size-1)
	// keep "the chunk ends where the blob ends" when the witness says so
	if w.Int("chunk.End")+1 == w.Int("(*c).size") {
		end = size - 1
	}
	content := make([]byte, size)
	for i := range content {
		content[i] = byte(i*5 + 1)
	}
	c, err := Open(t.TempDir())
	if err != nil {
		t.Fatal(err)
	}
	d := DigestFromBytes(content)
	ck, err := c.Chunked(d, size)
	if err != nil {
		t.Fatal(err)
	}
	part := content[start : end+1]
	if err := ck.Put(Chunk{Start: start, End: end}, DigestFromBytes(part), bytes.NewReader(part)); err != nil {
		t.Fatalf("Put of a correct chunk failed: %v", err)
	}
	ck.Close() // the other chunks never arrive (their downloads failed)
	e, err := c.Get(d)
	if err != nil || e.Size != size {
		t.Logf("blob not reported complete: size=%d err=%v", e.Size, err)
		return
	}
	got, _ := os.ReadFile(c.GetFile(d))
	if sha256.Sum256(got) != d.sum {
		t.Fatalf("REPRODUCED: after only chunk [%d,%d] of a %d byte blob was stored, Get reports the blob with its full size %d but its content does not hash to its digest", start, end, size, e.Size)
	}
}
