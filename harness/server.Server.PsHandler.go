package server

import (
	"context"
	"net/http/httptest"
	"sync"
	"testing"
	"time"

	"github.com/gin-gonic/gin"
	"github.com/ollama/ollama/api"
)

// C15 oracle: listing running models while the scheduler loads/unloads causes no
// unsynchronised access to the loaded map or to runner state, and never touches a
// runner that was torn down. The failing obligations are lock-discipline obligations
// (map iteration without loadedMu, runner fields without refMu); they have no input
// witness. This history runs the real PsHandler against the scheduler's own critical
// sections (load: insert under loadedMu; expiry: unload + delete under refMu+loadedMu):
// the Go runtime aborts with "concurrent map iteration and map write" or PsHandler
// dereferences the nil model of an unloaded runner.
func TestGovcReplay(t *testing.T) {
	gin.SetMode(gin.TestMode)
	ctx, done := context.WithTimeout(context.Background(), 3*time.Second)
	defer done()
	sched := InitScheduler(ctx)
	srv := &Server{sched: sched}
	opts := api.DefaultOptions()
	var wg sync.WaitGroup
	wg.Add(1)
	go func() {
		defer wg.Done()
		for i := 0; ctx.Err() == nil && i < 200000; i++ {
			r := &runnerRef{llama: &mockLlm{estimatedVRAMByGPU: map[string]uint64{}}, model: &Model{ModelPath: "m", ShortName: "m"}, modelPath: "m", Options: &opts, numParallel: 1}
			// what load does
			sched.loadedMu.Lock()
			sched.loaded["m"] = r
			sched.loadedMu.Unlock()
			// what the expired case of processCompleted does
			r.refMu.Lock()
			sched.loadedMu.Lock()
			r.unload()
			delete(sched.loaded, "m")
			sched.loadedMu.Unlock()
			r.refMu.Unlock()
		}
	}()
	func() {
		defer func() {
			if r := recover(); r != nil {
				t.Fatalf("REPRODUCED: PsHandler panicked while the scheduler was unloading a runner: %v", r)
			}
		}()
		for i := 0; ctx.Err() == nil && i < 200000; i++ {
			c, _ := gin.CreateTestContext(httptest.NewRecorder())
			srv.PsHandler(c)
		}
	}()
	done()
	wg.Wait()
}
