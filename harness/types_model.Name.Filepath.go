package model

import (
	"path/filepath"
	"strings"
	"testing"
)

// Oracle from the property statement: the manifest path of an accepted name has exactly four
// components below the manifests directory, none of which can traverse; a name that is not
// usable must be refused (Filepath panics) rather than mapped to a path.
func c13PartOK(kind int, s string) bool {
	max := 80
	if kind == 0 {
		max = 350
	}
	if len(s) < 1 || len(s) > max {
		return false
	}
	alnum := func(c byte) bool {
		return c >= 'a' && c <= 'z' || c >= 'A' && c <= 'Z' || c >= '0' && c <= '9' || c == '_'
	}
	for i := 0; i < len(s); i++ {
		c := s[i]
		switch {
		case alnum(c):
		case i == 0:
			return false
		case c == '-':
		case c == '.' && kind != 1:
		case c == ':' && kind == 0:
		default:
			return false
		}
	}
	return true
}

func TestGovcReplay(t *testing.T) {
	w := govcLoadWitness()
	n := Name{Host: w.Str("n.Host"), Namespace: w.Str("n.Namespace"), Model: w.Str("n.Model"), Tag: w.Str("n.Tag")}
	ok := c13PartOK(0, n.Host) && c13PartOK(1, n.Namespace) && c13PartOK(2, n.Model) && c13PartOK(3, n.Tag)
	var p string
	panicked := func() (pn bool) {
		defer func() { pn = recover() != nil }()
		p = n.Filepath()
		return false
	}()
	if ok && panicked {
		t.Fatalf("REPRODUCED: Filepath panics on the usable name %#v", n)
	}
	if panicked {
		return
	}
	comps := strings.Split(p, string(filepath.Separator))
	if !ok || len(comps) != 4 || !filepath.IsLocal(p) || filepath.Clean(p) != p ||
		comps[0] != n.Host || comps[1] != n.Namespace || comps[2] != n.Model || comps[3] != n.Tag {
		t.Fatalf("REPRODUCED: %#v.Filepath() = %q: not four confined components (name usable: %v)", n, p, ok)
	}
}
