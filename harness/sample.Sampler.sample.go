package sample

import (
	"math"
	"math/rand/v2"
	"testing"
)

type govcCountingSource struct {
	src   rand.Source
	calls int
}

func (c *govcCountingSource) Uint64() uint64 { c.calls++; return c.src.Uint64() }

// Property-level oracle (C18): the returned token is one of the given tokens; with
// temperature zero it has a highest logit; a sampler that owns a seeded generator draws
// from it (and therefore not from the global generator) on every non-greedy call.
func TestGovcReplay(t *testing.T) {
	w := govcLoadWitness()
	inf := float32(math.Inf(1))
	vectors := [][]float32{{1}, {1, 1}, {0.5, 2, -1, 2}, {-inf, 0, -inf}, {3, 1, 2, 3}}
	for _, logits := range vectors {
		maxLogit := -inf
		for _, l := range logits {
			if l > maxLogit {
				maxLogit = l
			}
		}
		for _, temp := range []float32{0, 0.7, 1} {
			for _, k := range []int{int(w.Int("(*s).topK")), 0, 1, 2} {
				cs := &govcCountingSource{src: rand.NewPCG(1, 2)}
				s := &Sampler{rng: rand.New(cs), topK: k, topP: 0.95, minP: 0.05, temperature: temp}
				tokens := make([]token, len(logits))
				for i, l := range logits {
					tokens[i] = token{id: int32(i), value: l}
				}
				got, err := s.sample(tokens)
				if err != nil {
					continue
				}
				if got.id < 0 || int(got.id) >= len(logits) {
					t.Fatalf("REPRODUCED: sample(%v) temp %v top_k %d returns id %d: not one of the tokens", logits, temp, k, got.id)
				}
				if temp == 0 && logits[got.id] != maxLogit {
					t.Fatalf("REPRODUCED: sample(%v) at temperature 0 returns id %d (logit %v), highest logit is %v", logits, got.id, logits[got.id], maxLogit)
				}
				if temp != 0 && cs.calls == 0 {
					t.Fatalf("REPRODUCED: sample(%v) temp %v top_k %d did not draw from the sampler's seeded generator (global generator used: not reproducible)", logits, temp, k)
				}
			}
		}
	}
}
