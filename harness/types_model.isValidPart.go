package model

import "testing"

// Property-level oracle (C13), written from the property statement: a part is usable iff its
// length is within the limit of its kind, its first byte is alphanumeric or '_', and every
// other byte is alphanumeric, '_', '-', or '.' (not in a namespace), or ':' (host / digest only).
func c13PartOK(kind int, s string) bool {
	max := 80
	if kind == 0 {
		max = 350
	}
	if len(s) < 1 || len(s) > max {
		return false
	}
	alnum := func(c byte) bool {
		return c >= 'a' && c <= 'z' || c >= 'A' && c <= 'Z' || c >= '0' && c <= '9' || c == '_'
	}
	for i := 0; i < len(s); i++ {
		c := s[i]
		switch {
		case alnum(c):
		case i == 0:
			return false
		case c == '-':
		case c == '.' && kind != 1:
		case c == ':' && (kind == 0 || kind == 4):
		default:
			return false
		}
	}
	return true
}

func TestGovcReplay(t *testing.T) {
	w := govcLoadWitness()
	kind, s := int(w.Int("kind")), w.Str("s")
	got := isValidPart(partKind(kind), s)
	if want := c13PartOK(kind, s); got != want {
		t.Fatalf("REPRODUCED: isValidPart(%d, %q) = %v, want %v", kind, s, got, want)
	}
	if got {
		for i := 0; i < len(s); i++ {
			if s[i] == '/' || s[i] == '\\' || s[i] == 0 || (i == 0 && s[i] == '.') {
				t.Fatalf("REPRODUCED: isValidPart(%d, %q) accepts a path-unsafe byte at %d", kind, s, i)
			}
		}
	}
}
