package openai

import (
	"testing"

	"github.com/ollama/ollama/api"
)

// C17: the OpenAI usage block carries the native token counts.
func TestGovcReplay(t *testing.T) {
	w := govcLoadWitness()
	var r api.GenerateResponse
	r.PromptEvalCount = int(w.Int("r.Metrics.PromptEvalCount"))
	r.EvalCount = int(w.Int("r.Metrics.EvalCount"))
	u := toUsageGenerate(r)
	if u.PromptTokens != r.PromptEvalCount || u.CompletionTokens != r.EvalCount || u.TotalTokens != r.PromptEvalCount+r.EvalCount {
		t.Fatalf("REPRODUCED: toUsageGenerate(prompt_eval_count=%d, eval_count=%d) = %+v", r.PromptEvalCount, r.EvalCount, u)
	}
}
