package model

import (
	"slices"
	"testing"
)

// Property-level oracle (C20): only the vocabulary's special (CONTROL) tokens are matched
// literally in text; any other entry treated as special is cut out of ordinary text and
// its single token decodes to raw bytes, so the round trip breaks. Vocabulary: the
// llama 3.2 test vocabulary (entries 105 and 106 are the byte tokens "¬" and "®").
func TestGovcReplay(t *testing.T) {
	_ = govcLoadWitness()
	tok := llama(t)
	for _, sp := range tok.vocab.SpecialVocabulary() {
		i := slices.Index(tok.vocab.Values, sp)
		if i < 0 || tok.vocab.Types[i] != TOKEN_TYPE_CONTROL {
			for _, s := range []string{"Copyright " + sp + " 2024", sp} {
				ids, err := tok.Encode(s, false)
				if err != nil {
					t.Fatal(err)
				}
				got, _ := tok.Decode(ids)
				if got != s {
					t.Fatalf("REPRODUCED: vocabulary entry %d %q (type %d, not CONTROL) is treated as a special token: Decode(Encode(%q)) = %q (ids %v)", i, sp, tok.vocab.Types[i], s, got, ids)
				}
			}
			t.Fatalf("REPRODUCED: vocabulary entry %d %q (type %d, not CONTROL) is in SpecialVocabulary()", i, sp, tok.vocab.Types[i])
		}
	}
}
