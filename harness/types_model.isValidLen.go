package model

import "testing"

func TestGovcReplay(t *testing.T) {
	w := govcLoadWitness()
	kind, s := int(w.Int("kind")), w.Str("s")
	max := 80
	if kind == 0 {
		max = 350
	}
	got := isValidLen(partKind(kind), s)
	if want := len(s) >= 1 && len(s) <= max; got != want {
		t.Fatalf("REPRODUCED: isValidLen(%d, len %d) = %v, want %v", kind, len(s), got, want)
	}
}
