package common

import (
	"testing"
	"unicode/utf8"
)

// Oracle from the UTF-8 definition: the text ends with a proper prefix of a
// multi-byte encoding (lead byte seen, fewer continuation bytes than it announces).
func TestGovcReplay(t *testing.T) {
	w := govcLoadWitness()
	tok := w.Str("token")
	got := IncompleteUnicode(tok)
	want := false
	for i := 1; i <= 3 && i <= len(tok); i++ {
		c := tok[len(tok)-i]
		if c&0xc0 == 0x80 {
			continue
		}
		need := 1
		switch {
		case c&0xe0 == 0xc0:
			need = 2
		case c&0xf0 == 0xe0:
			need = 3
		case c&0xf8 == 0xf0:
			need = 4
		}
		want = i < need
		break
	}
	_ = utf8.RuneError
	if got != want {
		t.Fatalf("REPRODUCED: IncompleteUnicode(%q) = %v, want %v", tok, got, want)
	}
}
