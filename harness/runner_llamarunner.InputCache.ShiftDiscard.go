package llamarunner

import "testing"

// Property-level oracle (C07, context shift): same statement as the ollamarunner twin.
func TestGovcReplay(t *testing.T) {
	w := govcLoadWitness()
	ctx, n, keep := w.Int("(*c).numCtx"), w.Int("inputLen"), w.Int("numKeep")
	if !(0 <= keep && keep < ctx && 0 <= n && ctx < 1<<62 && n < 1<<62) {
		t.Skipf("witness outside the precondition: numCtx=%d inputLen=%d numKeep=%d", ctx, n, keep)
	}
	c := &InputCache{numCtx: int(ctx)}
	d := int64(c.ShiftDiscard(int(n), int(keep)))

	half := (ctx - keep) / 2
	if half < 1 {
		half = 1
	}
	switch {
	case d < 0 || d > n:
		t.Fatalf("REPRODUCED: ShiftDiscard(%d, %d) with numCtx %d = %d, outside [0, inputLen]", n, keep, ctx, d)
	case d > 0 && keep+d > n:
		t.Fatalf("REPRODUCED: ShiftDiscard(%d, %d) with numCtx %d = %d: range [keep, keep+discard) leaves the inputs", n, keep, ctx, d)
	case n-d >= ctx:
		t.Fatalf("REPRODUCED: ShiftDiscard(%d, %d) with numCtx %d = %d: no free cache entry after the shift", n, keep, ctx, d)
	case n <= ctx-half && d != 0:
		t.Fatalf("REPRODUCED: ShiftDiscard(%d, %d) with numCtx %d = %d: discards although %d entries are free", n, keep, ctx, d, ctx-n)
	case n == ctx && d != half:
		t.Fatalf("REPRODUCED: ShiftDiscard(%d, %d) with full context %d = %d, want half of the non-kept window = %d", n, keep, ctx, d, half)
	}
}
