package model

import (
	"strings"
	"testing"
)

func TestGovcReplay(t *testing.T) {
	w := govcLoadWitness()
	s, sep := w.Str("s"), w.Str("sep")
	before, after, ok := cutPromised(s, sep)
	i := strings.LastIndex(s, sep)
	if i < 0 {
		if ok || before != s || after != "" {
			t.Fatalf("REPRODUCED: cutPromised(%q, %q) = %q, %q, %v without an occurrence", s, sep, before, after, ok)
		}
		return
	}
	wb, wa := s[:i], s[i+len(sep):]
	if wb == "" {
		wb = MissingPart
	}
	if wa == "" {
		wa = MissingPart
	}
	if !ok || before != wb || after != wa {
		t.Fatalf("REPRODUCED: cutPromised(%q, %q) = %q, %q, %v; want %q, %q", s, sep, before, after, ok, wb, wa)
	}
}
