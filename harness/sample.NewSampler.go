package sample

import "testing"

// Property-level oracle (C18): with a fixed seed the sequence of sampled tokens is
// reproducible - two samplers built with the same seed produce the same draws.
func TestGovcReplay(t *testing.T) {
	w := govcLoadWitness()
	logits := []float32{0.1, 0.2, 0.3, 0.4, 0.5, 0.6, 0.7, 0.8, 0.9, 1.0, 1.1, 1.2}
	for _, seed := range []int{int(w.Int("seed")), 0, 1, 42, -7} {
		if seed == -1 {
			continue
		}
		draw := func() []int32 {
			s := NewSampler(1, int(w.Int("topK")), 1, 0, seed, nil)
			var ids []int32
			for range 16 {
				id, err := s.Sample(append([]float32(nil), logits...))
				if err != nil {
					t.Fatalf("unexpected error %v", err)
				}
				ids = append(ids, id)
			}
			return ids
		}
		a, b := draw(), draw()
		for i := range a {
			if a[i] != b[i] {
				t.Fatalf("REPRODUCED: seed %d is not reproducible: %v vs %v", seed, a, b)
			}
		}
	}
}
