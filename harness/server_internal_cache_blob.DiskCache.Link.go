package blob

import (
	"bytes"
	"errors"
	"testing"
)

// Replay harness for (*DiskCache).Link (property C08).
// Oracle: if Link(name, d) succeeds then Get(d) reports the blob as present and
// Resolve(name) returns d ("a name is linked only to a manifest blob that exists",
// "resolving a name returns the digest of exactly the bytes linked").
// The witness gives the size of the blob file that Link finds (ret.io/fs.(FileInfo).Size.1).

type govcFailingReader struct{ n int }

func (f *govcFailingReader) Read(p []byte) (int, error) {
	if f.n <= 0 {
		return 0, errors.New("source failed")
	}
	k := min(len(p), f.n)
	f.n -= k
	return k, nil
}

func TestGovcReplay(t *testing.T) {
	w := govcLoadWitness()
	size := min(max(w.Int("ret.io/fs.(FileInfo).Size.1"), 0), 4<<20)
	c, err := Open(t.TempDir())
	if err != nil {
		t.Fatal(err)
	}
	var d Digest
	if size == 0 {
		// a zero-length blob file is what a failed Put leaves behind (truncate on copy error)
		data := bytes.Repeat([]byte("x"), 100)
		d = DigestFromBytes(data)
		if err := c.Put(d, &govcFailingReader{n: 10}, 100); err == nil {
			t.Fatal("Put with a failing source succeeded")
		}
	} else {
		data := bytes.Repeat([]byte("m"), int(size))
		d = DigestFromBytes(data)
		if err := PutBytes(c, d, data); err != nil {
			t.Fatal(err)
		}
	}
	const name = "example.com/library/model:latest"
	if err := c.Link(name, d); err != nil {
		t.Logf("Link refused: %v", err)
		return
	}
	if _, err := c.Get(d); err != nil {
		t.Fatalf("REPRODUCED: Link(%q, %v) succeeded on a blob file of %d bytes, but Get reports the blob as absent: %v", name, d.Short(), size, err)
	}
	got, err := c.Resolve(name)
	if err != nil || got != d {
		t.Fatalf("REPRODUCED: Link(%q, %v) succeeded on a blob of %d bytes, but Resolve returns (%v, %v)", name, d.Short(), size, got.Short(), err)
	}
}
