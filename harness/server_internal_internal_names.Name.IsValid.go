package names

import "testing"

func c13PartOK(kind int, s string) bool {
	max := 80
	if kind == 0 {
		max = 350
	}
	if len(s) < 1 || len(s) > max {
		return false
	}
	alnum := func(c byte) bool {
		return c >= 'a' && c <= 'z' || c >= 'A' && c <= 'Z' || c >= '0' && c <= '9' || c == '_'
	}
	for i := 0; i < len(s); i++ {
		c := s[i]
		switch {
		case alnum(c):
		case i == 0:
			return false
		case c == '-':
		case c == '.' && kind != 1:
		case c == ':' && kind == 0:
		default:
			return false
		}
	}
	return true
}

// a name is valid iff the model part is usable and every other part is empty or usable
func TestGovcReplay(t *testing.T) {
	w := govcLoadWitness()
	n := Name{h: w.Str("n.h"), n: w.Str("n.n"), m: w.Str("n.m"), t: w.Str("n.t")}
	opt := func(kind int, s string) bool { return s == "" || c13PartOK(kind, s) }
	want := opt(0, n.h) && opt(1, n.n) && c13PartOK(2, n.m) && opt(3, n.t)
	if got := n.IsValid(); got != want {
		t.Fatalf("REPRODUCED: %#v.IsValid() = %v, want %v", n, got, want)
	}
}
