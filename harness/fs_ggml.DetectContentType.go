package ggml

import "testing"

func TestGovcReplay(t *testing.T) {
	w := govcLoadWitness()
	n := w.Int("b.len")
	if n < 0 || n > 4096 {
		n = 0
	}
	b := make([]byte, n)
	for i := range b {
		if i < 8 {
			b[i] = byte(w.Int("b[" + string(rune('0'+i)) + "]"))
		}
	}
	defer func() {
		if r := recover(); r != nil {
			t.Fatalf("REPRODUCED: DetectContentType panicked on a %d-byte buffer: %v", len(b), r)
		}
	}()
	DetectContentType(b)
}
