package llamarunner

import (
	"fmt"
	"reflect"
	"testing"
)

// Property-level oracle (C07): the result is the length of the longest common prefix of
// the two input sequences (inputs compared as values: token and embedding).
func TestGovcReplay(t *testing.T) {
	w := govcLoadWitness()
	build := func(name string) []input {
		n := w.Int(name + ".len")
		if n < 0 {
			n = 0
		}
		if n > 64 {
			n = 64 // elements beyond the 8 recorded ones are zero values
		}
		out := make([]input, n)
		for i := range out {
			if i < 8 {
				p := fmt.Sprintf("%s[%d]", name, i)
				out[i].token = int(w.Int(p + ".token"))
				if m := w.Int(p + ".embed.len"); m > 0 && m <= 16 {
					out[i].embed = make([]float32, m)
				}
			}
		}
		return out
	}
	a, b := build("a"), build("b")
	got := countCommonPrefix(a, b)

	if got < 0 || got > len(a) || got > len(b) {
		t.Fatalf("REPRODUCED: countCommonPrefix = %d outside [0, min(%d, %d)]", got, len(a), len(b))
	}
	for k := 0; k < got; k++ {
		if !reflect.DeepEqual(a[k], b[k]) {
			t.Fatalf("REPRODUCED: countCommonPrefix = %d but inputs differ at %d: %+v vs %+v", got, k, a[k], b[k])
		}
	}
	if got < len(a) && got < len(b) && reflect.DeepEqual(a[got], b[got]) {
		t.Fatalf("REPRODUCED: countCommonPrefix = %d but the inputs at %d are still equal (%+v)", got, got, a[got])
	}
}
