package model

import (
	"path/filepath"
	"strings"
	"testing"
)

// Oracle: a relative path is read as a name only if it has exactly four components that are
// all usable parts; everything else yields the zero Name.
func c13PartOK(kind int, s string) bool {
	max := 80
	if kind == 0 {
		max = 350
	}
	if len(s) < 1 || len(s) > max {
		return false
	}
	alnum := func(c byte) bool {
		return c >= 'a' && c <= 'z' || c >= 'A' && c <= 'Z' || c >= '0' && c <= '9' || c == '_'
	}
	for i := 0; i < len(s); i++ {
		c := s[i]
		switch {
		case alnum(c):
		case i == 0:
			return false
		case c == '-':
		case c == '.' && kind != 1:
		case c == ':' && kind == 0:
		default:
			return false
		}
	}
	return true
}

func TestGovcReplay(t *testing.T) {
	w := govcLoadWitness()
	s := w.Str("s")
	got := ParseNameFromFilepath(s)
	parts := strings.Split(s, string(filepath.Separator))
	var want Name
	if len(parts) == 4 && c13PartOK(0, parts[0]) && c13PartOK(1, parts[1]) && c13PartOK(2, parts[2]) && c13PartOK(3, parts[3]) {
		want = Name{Host: parts[0], Namespace: parts[1], Model: parts[2], Tag: parts[3]}
	}
	if got != want {
		t.Fatalf("REPRODUCED: ParseNameFromFilepath(%q) = %#v, want %#v", s, got, want)
	}
}
