package ggml

import (
	"bytes"
	"encoding/binary"
	"testing"
)

func TestGovcReplay(t *testing.T) {
	w := govcLoadWitness()
	length := uint64(w.Int("ret.io.CopyN.1.0"))
	if length > 1<<20 {
		length = 1 << 20
	}
	var buf bytes.Buffer
	binary.Write(&buf, binary.LittleEndian, length)
	buf.Write(make([]byte, length))
	llm := newGGUF(&containerGGUF{ByteOrder: binary.LittleEndian, Version: 1})
	defer func() {
		if r := recover(); r != nil {
			t.Fatalf("REPRODUCED: readGGUFV1String panicked on a declared string length of %d: %v", length, r)
		}
	}()
	readGGUFV1String(llm, &buf)
}
