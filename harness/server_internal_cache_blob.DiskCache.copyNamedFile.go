package blob

import (
	"bytes"
	"crypto/sha256"
	"os"
	"testing"
)

// Replay harness for (*DiskCache).copyNamedFile (property C08), driven through Put.
// Oracle: "A successful store makes the blob retrievable" with the size it was stored under
// and content whose SHA-256 is its digest. The witness gives the size.
func TestGovcReplay(t *testing.T) {
	w := govcLoadWitness()
	size := min(max(w.Int("size"), 0), 1<<16)
	data := bytes.Repeat([]byte("d"), int(size))
	d := DigestFromBytes(data)
	c, err := Open(t.TempDir())
	if err != nil {
		t.Fatal(err)
	}
	if err := c.Put(d, bytes.NewReader(data), size); err != nil {
		t.Logf("Put refused: %v", err)
		return
	}
	e, err := c.Get(d)
	if err != nil || e.Size != size {
		t.Fatalf("REPRODUCED: Put of a %d byte blob succeeded, but Get returns (size %d, %v)", size, e.Size, err)
	}
	got, _ := os.ReadFile(c.GetFile(d))
	if sha256.Sum256(got) != d.sum {
		t.Fatalf("REPRODUCED: Put of a %d byte blob succeeded, but the stored content does not hash to its digest", size)
	}
}
