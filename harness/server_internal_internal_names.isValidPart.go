package names

import "testing"

// Oracle (C13) from the property statement; this validator also lets the empty string pass
// (its callers test for "" separately), and has no digest kind.
func c13PartOK(kind int, s string) bool {
	max := 80
	if kind == 0 {
		max = 350
	}
	if len(s) > max {
		return false
	}
	alnum := func(c byte) bool {
		return c >= 'a' && c <= 'z' || c >= 'A' && c <= 'Z' || c >= '0' && c <= '9' || c == '_'
	}
	for i := 0; i < len(s); i++ {
		c := s[i]
		switch {
		case alnum(c):
		case i == 0:
			return false
		case c == '-':
		case c == '.' && kind != 1:
		case c == ':' && kind == 0:
		default:
			return false
		}
	}
	return true
}

func TestGovcReplay(t *testing.T) {
	w := govcLoadWitness()
	kind, s := int(w.Int("kind")), w.Str("s")
	got := isValidPart(kind, s)
	if want := c13PartOK(kind, s); got != want {
		t.Fatalf("REPRODUCED: names.isValidPart(%d, %q) = %v, want %v", kind, s, got, want)
	}
	if got {
		for i := 0; i < len(s); i++ {
			if s[i] == '/' || s[i] == '\\' || s[i] == 0 || (i == 0 && s[i] == '.') {
				t.Fatalf("REPRODUCED: names.isValidPart(%d, %q) accepts a path-unsafe byte at %d", kind, s, i)
			}
		}
	}
}
