package server

import (
	"context"
	"crypto/sha256"
	"encoding/json"
	"fmt"
	"net"
	"net/http"
	"os"
	"strconv"
	"strings"
	"sync"
	"testing"
	"time"

	"github.com/ollama/ollama/api"
)

// C03 oracle (property statement): "When pulling a model reports success, every layer named by the
// pulled manifest is present in the local store with exactly the manifest's ... SHA-256"; "when a
// pull fails ... the model name never resolves to a manifest with missing or corrupt layers".
//
// The failing PullModel obligations have no input witness (they are about the order of effects), so
// this harness replays the two scenarios they describe against the real code and a fake registry:
//
//	dup:   (loop2.inv4.keep) the manifest lists the same digest twice; the blob the CDN serves for
//	       it is corrupt. The second occurrence is a cache hit and overwrites skipVerify[digest].
//	retry: (assert.*@return.3/4/5) layer A is served corrupt, layer B fails (HEAD 500), the pull
//	       returns an error; the retry finds A under its final name, treats it as a cache hit and
//	       never verifies it.
//
// The scenario is chosen by the obligation name in the witness file (both are run without one).
func TestGovcReplay(t *testing.T) {
	obl := ""
	if p := os.Getenv("GOVC_WITNESS"); p != "" {
		if data, err := os.ReadFile(p); err == nil {
			var doc struct {
				Obligation string `json:"obligation"`
			}
			json.Unmarshal(data, &doc)
			obl = doc.Obligation
		}
	}
	if obl == "" || strings.Contains(obl, "loop2") {
		t.Run("dup", replayDuplicateDigest)
	}
	if obl == "" || strings.Contains(obl, "@return.") {
		t.Run("retry", replayRetryAfterFailedPull)
	}
}

type fakeRegistry struct {
	mu       sync.Mutex
	manifest []byte
	blobs    map[string][]byte // digest -> bytes served (possibly not matching the digest)
	failHead map[string]bool   // digest -> HEAD answers 500
	regAddr  string
	cdnAddr  string
}

// The registry listens on 127.0.0.1, the "CDN" on 127.0.0.2: blobDownload.run follows redirects
// only within one host name and takes the Location of the first redirect to another one.
func newFakeRegistry(t *testing.T) *fakeRegistry {
	r := &fakeRegistry{blobs: map[string][]byte{}, failHead: map[string]bool{}}
	regL, err := net.Listen("tcp", "127.0.0.1:0")
	if err != nil {
		t.Skipf("cannot listen: %v", err)
	}
	cdnL, err := net.Listen("tcp", "127.0.0.2:0")
	if err != nil {
		t.Skipf("cannot listen on 127.0.0.2: %v", err)
	}
	r.regAddr, r.cdnAddr = regL.Addr().String(), cdnL.Addr().String()
	reg := http.NewServeMux()
	reg.HandleFunc("/v2/library/m/manifests/latest", func(w http.ResponseWriter, req *http.Request) {
		r.mu.Lock()
		defer r.mu.Unlock()
		w.Header().Set("Content-Type", "application/vnd.docker.distribution.manifest.v2+json")
		w.Write(r.manifest)
	})
	reg.HandleFunc("/v2/library/m/blobs/", func(w http.ResponseWriter, req *http.Request) {
		d := strings.TrimPrefix(req.URL.Path, "/v2/library/m/blobs/")
		r.mu.Lock()
		data, ok := r.blobs[d]
		fail := r.failHead[d]
		r.mu.Unlock()
		switch {
		case !ok:
			http.NotFound(w, req)
		case fail:
			http.Error(w, "boom", http.StatusInternalServerError)
		case req.Method == http.MethodHead:
			w.Header().Set("Content-Length", strconv.Itoa(len(data)))
		default:
			http.Redirect(w, req, "http://"+r.cdnAddr+"/data/"+d, http.StatusTemporaryRedirect)
		}
	})
	cdn := http.NewServeMux()
	cdn.HandleFunc("/data/", func(w http.ResponseWriter, req *http.Request) {
		d := strings.TrimPrefix(req.URL.Path, "/data/")
		r.mu.Lock()
		data := r.blobs[d]
		r.mu.Unlock()
		from, to := 0, len(data)-1
		fmt.Sscanf(req.Header.Get("Range"), "bytes=%d-%d", &from, &to)
		if from < 0 || to >= len(data) || from > to {
			http.Error(w, "bad range", http.StatusRequestedRangeNotSatisfiable)
			return
		}
		w.Header().Set("Content-Length", strconv.Itoa(to-from+1))
		w.WriteHeader(http.StatusPartialContent)
		w.Write(data[from : to+1])
	})
	s1, s2 := &http.Server{Handler: reg}, &http.Server{Handler: cdn}
	go s1.Serve(regL)
	go s2.Serve(cdnL)
	t.Cleanup(func() { s1.Close(); s2.Close() })
	return r
}

func (r *fakeRegistry) setManifest(digests ...string) {
	m := Manifest{SchemaVersion: 2, MediaType: "application/vnd.docker.distribution.manifest.v2+json"}
	for _, d := range digests {
		m.Layers = append(m.Layers, Layer{MediaType: "application/vnd.ollama.image.model", Digest: d, Size: int64(len(r.blobs[d]))})
	}
	r.mu.Lock()
	r.manifest, _ = json.Marshal(m)
	r.mu.Unlock()
}

func digestOf(b []byte) string { return fmt.Sprintf("sha256:%x", sha256.Sum256(b)) }

func (r *fakeRegistry) pull(t *testing.T) error {
	ctx, cancel := context.WithTimeout(context.Background(), 60*time.Second)
	defer cancel()
	return PullModel(ctx, "http://"+r.regAddr+"/library/m:latest", &registryOptions{Insecure: true}, func(api.ProgressResponse) {})
}

// property-level oracle after a pull that reported success
func (r *fakeRegistry) checkStore(t *testing.T, what string) {
	mp := ParseModelPath("http://" + r.regAddr + "/library/m:latest")
	m, _, err := GetManifest(mp)
	if err != nil {
		t.Fatalf("%s: pull reported success but the name does not resolve: %v", what, err)
	}
	for _, l := range m.Layers {
		fp, _ := GetBlobsPath(l.Digest)
		data, err := os.ReadFile(fp)
		if err != nil {
			t.Errorf("REPRODUCED: %s: PullModel reported success and wrote the manifest, layer %s is missing: %v", what, l.Digest[7:19], err)
			continue
		}
		if got := digestOf(data); got != l.Digest {
			t.Errorf("REPRODUCED: %s: PullModel reported success and wrote the manifest, but blob %s has SHA-256 %s (never verified)", what, l.Digest[7:19], got[7:19])
		}
	}
}

func replayDuplicateDigest(t *testing.T) {
	t.Setenv("OLLAMA_MODELS", t.TempDir())
	r := newFakeRegistry(t)
	good := []byte(strings.Repeat("layer-data-", 100))
	d := digestOf(good)
	corrupt := append([]byte{}, good...)
	corrupt[17] ^= 0x40 // one flipped bit in transit
	r.blobs[d] = corrupt
	r.setManifest(d, d)
	err := r.pull(t)
	if err != nil {
		t.Logf("pull refused the corrupt blob: %v", err)
		return
	}
	r.checkStore(t, "manifest listing one digest twice")
}

func replayRetryAfterFailedPull(t *testing.T) {
	t.Setenv("OLLAMA_MODELS", t.TempDir())
	r := newFakeRegistry(t)
	goodA := []byte(strings.Repeat("layer-A-", 100))
	goodB := []byte(strings.Repeat("layer-B-", 100))
	a, b := digestOf(goodA), digestOf(goodB)
	corruptA := append([]byte{}, goodA...)
	corruptA[17] ^= 0x40
	r.blobs[a], r.blobs[b] = corruptA, goodB
	r.failHead[b] = true
	r.setManifest(a, b)
	if err := r.pull(t); err == nil {
		t.Fatalf("first pull unexpectedly succeeded")
	} else {
		t.Logf("first pull failed as arranged (layer B unavailable): %v", err)
	}
	r.mu.Lock()
	r.failHead[b] = false
	r.mu.Unlock()
	err := r.pull(t)
	if err != nil {
		t.Logf("retry refused the corrupt blob: %v", err)
		return
	}
	r.checkStore(t, "retry after a failed pull")
}
