package kvcache

import (
	"errors"
	"testing"
)

// Property-level oracle (C06, "a full cache is reported as an error, not by overwriting live
// entries"): findStartLoc either returns a run [loc, loc+batch) that lies inside the cache
// and consists of empty cells only, or ErrKvCacheFull - and the latter only if no such run
// exists. The witness gives the batch size and, per cell, whether it is occupied
// (len(c.cells[k].sequences)); beyond the recorded cells all 2^n occupancy patterns of a
// small cache are swept.
func TestGovcReplay(t *testing.T) {
	w := govcLoadWitness()
	check := func(occupied []bool, batch int) {
		c := &Causal{curBatchSize: batch, cells: make([]cacheCell, len(occupied))}
		for k, o := range occupied {
			if o {
				c.cells[k] = cacheCell{pos: int32(k), sequences: []int{7}}
			}
		}
		loc, err := c.findStartLoc()
		fits := func(s int) bool {
			if s < 0 || s+batch > len(occupied) {
				return false
			}
			for k := s; k < s+batch; k++ {
				if occupied[k] {
					return false
				}
			}
			return true
		}
		if err == nil {
			if !fits(loc) {
				t.Fatalf("REPRODUCED: findStartLoc() = %d for batch %d on occupancy %v: the run is not free (live cells would be overwritten) or leaves the cache", loc, batch, occupied)
			}
			return
		}
		if !errors.Is(err, ErrKvCacheFull) {
			t.Fatalf("REPRODUCED: unexpected error %v", err)
		}
		if batch >= 1 {
			for s := range occupied {
				if fits(s) {
					t.Fatalf("REPRODUCED: findStartLoc() reports a full cache for batch %d on occupancy %v although the run at %d is free", batch, occupied, s)
				}
			}
		}
	}
	n := int(w.Int("c.cells.len"))
	if n > 0 && n <= 16 {
		occ := make([]bool, n)
		for k := range occ {
			occ[k] = w.Int("c.cells["+itoaGovc(k)+"].sequences.len") != 0
		}
		check(occ, int(w.Int("c.curBatchSize")))
	}
	for size := 0; size <= 8; size++ {
		for pat := 0; pat < 1<<size; pat++ {
			occ := make([]bool, size)
			for k := range occ {
				occ[k] = pat&(1<<k) != 0
			}
			for batch := 0; batch <= size+1; batch++ {
				check(occ, batch)
			}
		}
	}
}

func itoaGovc(k int) string {
	if k == 0 {
		return "0"
	}
	s := ""
	for k > 0 {
		s = string(rune('0'+k%10)) + s
		k /= 10
	}
	return s
}
