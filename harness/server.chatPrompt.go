package server

import (
	"context"
	"fmt"
	"strings"
	"testing"

	"github.com/ollama/ollama/api"
	"github.com/ollama/ollama/template"
)

// Replay harness for chatPrompt (property C19).
//
// Inputs: the conversation is rebuilt from the witness when it describes one
// (msgs.len, msgs[k].Role, msgs[k].Images.len, (*opts).Runner.NumCtx and the token counts the
// tokenizer returned, ret.server.(tokenizeFunc).<n>.2); otherwise - obligations with quantified
// hypotheses end as unknown/timeout and carry no model - the known shape is replayed directly:
// [user, system, user(long)] with a context that does not fit system + latest message.
// Message contents are replaced by unique markers so that "appears in the prompt" is decidable.
//
// Oracle (from the property statement): the prompt contains the latest message; the retained
// messages form a suffix of the conversation, in the original order; every system message that
// precedes that suffix occurs in the prompt and no other dropped message does; images[k].ID == k,
// the number of images equals the number of images of the retained suffix and every image tag
// [img-k] occurs exactly once.
func TestGovcReplay(t *testing.T) {
	w := govcLoadWitness()

	tmpl, err := template.Parse(`{{- if .System }}{{ .System }} {{ end }}{{- if .Prompt }}{{ .Prompt }} {{ end }}{{- if .Response }}{{ .Response }} {{ end }}`)
	if err != nil {
		t.Fatal(err)
	}
	model := Model{Template: tmpl}

	var msgs []api.Message
	numCtx := 0
	scripted := map[int]int{} // n-th tokenizer call -> number of tokens
	_, described := w["msgs.len"]
	n := int(w.Int("msgs.len"))
	if described && n == 0 {
		// function-level oracle: chatPrompt must not panic (its only caller never passes an empty conversation)
		opts := api.Options{}
		chatPrompt(context.TODO(), &model, wordTokenizer(nil), &opts, nil, nil)
		return
	}
	if described && n >= 1 {
		if n > 8 {
			n = 8
		}
		for k := 0; k < n; k++ {
			role := w.Str(fmt.Sprintf("msgs[%d].Role", k))
			if role != "system" && role != "assistant" {
				role = "user"
			}
			m := api.Message{Role: role, Content: marker(k)}
			ni := int(w.Int(fmt.Sprintf("msgs[%d].Images.len", k)))
			if role != "system" {
				for j := 0; j < ni && j < 3; j++ {
					m.Images = append(m.Images, api.ImageData(fmt.Sprintf("image-%d-%d", k, j)))
				}
			}
			msgs = append(msgs, m)
		}
		numCtx = int(w.Int("(*opts).Runner.NumCtx"))
		for c := 1; c <= 16; c++ {
			if v, ok := w[fmt.Sprintf("ret.server.(tokenizeFunc).%d.2", c)]; ok && v != "" {
				scripted[c] = int(w.Int(fmt.Sprintf("ret.server.(tokenizeFunc).%d.2", c)))
			}
		}
		if w.Int("(*m).ProjectorPaths.ref") != 0 {
			model.ProjectorPaths = []string{"projector"}
		}
	} else {
		// directed replay of the shape the failed obligation describes: the walk stops (break) at a
		// system message that directly precedes the retained run
		// (system message + retained run exceed the context, the retained run alone is kept)
		msgs = []api.Message{
			{Role: "user", Content: marker(0)},
			{Role: "system", Content: marker(1)},
			{Role: "user", Content: marker(2) + strings.Repeat(" filler", 40)},
		}
		numCtx = 8
	}

	opts := api.Options{Runner: api.Runner{NumCtx: numCtx}}
	orig := make([]api.Message, len(msgs))
	copy(orig, msgs)
	prompt, images, err := chatPrompt(context.TODO(), &model, wordTokenizer(scripted), &opts, msgs, nil)
	if err != nil {
		t.Logf("chatPrompt returned an error (%v): nothing to check", err)
		return
	}
	shape := describe(orig, numCtx)

	// latest message
	last := len(orig) - 1
	if !strings.Contains(prompt, marker(last)) {
		t.Fatalf("REPRODUCED: the latest message is missing from the prompt %q for %s", prompt, shape)
	}
	// retained run = longest suffix whose markers all occur
	r := last
	for r > 0 && strings.Contains(prompt, marker(r-1)) {
		r--
	}
	// system messages preceding the retained run
	for k := 0; k < r; k++ {
		if orig[k].Role == "system" && !strings.Contains(prompt, marker(k)) {
			t.Fatalf("REPRODUCED: system message %d (%q) precedes the retained messages %d..%d but is missing from the prompt %q for %s", k, marker(k), r, last, prompt, shape)
		}
		if orig[k].Role != "system" && strings.Contains(prompt, marker(k)) {
			t.Fatalf("REPRODUCED: dropped non-system message %d occurs in the prompt %q (retained run %d..%d) for %s", k, prompt, r, last, shape)
		}
	}
	// original order
	pos := -1
	for k := r; k <= last; k++ {
		p := strings.Index(prompt, marker(k))
		if p < pos {
			t.Fatalf("REPRODUCED: retained messages are out of order in %q for %s", prompt, shape)
		}
		pos = p
	}
	// images
	want := 0
	for k := r; k <= last; k++ {
		want += len(orig[k].Images)
	}
	if len(images) != want {
		t.Fatalf("REPRODUCED: %d images returned, the retained messages %d..%d carry %d, for %s", len(images), r, last, want, shape)
	}
	for k, img := range images {
		if img.ID != k {
			t.Fatalf("REPRODUCED: images[%d].ID == %d for %s", k, img.ID, shape)
		}
		if c := strings.Count(prompt, fmt.Sprintf("[img-%d]", k)); c != 1 {
			t.Fatalf("REPRODUCED: image tag [img-%d] occurs %d times in %q for %s", k, c, prompt, shape)
		}
	}
}

func marker(k int) string { return fmt.Sprintf("<<m%d>>", k) }

func describe(msgs []api.Message, numCtx int) string {
	var sb strings.Builder
	sb.WriteString("[")
	for k, m := range msgs {
		if k > 0 {
			sb.WriteString(", ")
		}
		fmt.Fprintf(&sb, "%s(%d words, %d images)", m.Role, len(strings.Fields(m.Content)), len(m.Images))
	}
	fmt.Fprintf(&sb, "] with num_ctx=%d", numCtx)
	return sb.String()
}

// wordTokenizer counts whitespace-separated words unless the witness scripts the n-th call.
func wordTokenizer(scripted map[int]int) tokenizeFunc {
	calls := 0
	return func(_ context.Context, s string) ([]int, error) {
		calls++
		if n, ok := scripted[calls]; ok && n >= 0 && n < 1<<20 {
			return make([]int, n), nil
		}
		return make([]int, len(strings.Fields(s))), nil
	}
}
