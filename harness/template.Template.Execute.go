package template

import (
	"bytes"
	"fmt"
	"strings"
	"testing"

	"github.com/ollama/ollama/api"
)

// Replay harness for template.(*Template).Execute (property C19), obligation
// template.(*Template).Execute#assert.11@system.3 ("no pending system message is overwritten").
//
// The obligation speaks about the pending triple of the legacy (.System/.Prompt/.Response) path at the
// moment a system message is stored; its counterexample carries no conversation, so the known shapes
// are replayed directly: two system messages separated only by a message that leaves prompt and
// response empty (a tool message, or a user message with empty text).
//
// Oracle (from the property statement): the prompt contains every system message of the list that
// is handed to the template (chatPrompt hands over exactly the system messages that precede the
// retained messages, followed by the retained messages).
func TestGovcReplay(t *testing.T) {
	_ = govcLoadWitness()
	tmpl, err := Parse("[S:{{ .System }}][P:{{ .Prompt }}][R:{{ .Response }}]")
	if err != nil {
		t.Fatal(err)
	}
	cases := [][]api.Message{
		{{Role: "system", Content: "SYS-A"}, {Role: "tool", Content: "T"}, {Role: "system", Content: "SYS-B"}, {Role: "user", Content: "hello"}},
		{{Role: "system", Content: "SYS-A"}, {Role: "user", Content: ""}, {Role: "system", Content: "SYS-B"}, {Role: "user", Content: "hello"}},
	}
	for _, msgs := range cases {
		var b bytes.Buffer
		if err := tmpl.Execute(&b, Values{Messages: msgs}); err != nil {
			t.Fatal(err)
		}
		out := b.String()
		for k, m := range msgs {
			if m.Role == "system" && !strings.Contains(out, m.Content) {
				var roles []string
				for _, x := range msgs {
					roles = append(roles, fmt.Sprintf("%s:%q", x.Role, x.Content))
				}
				t.Fatalf("REPRODUCED: system message %d (%q) of [%s] is missing from the prompt %q of a legacy template", k, m.Content, strings.Join(roles, ", "), out)
			}
		}
	}
}
