package names

import (
	"strings"
	"testing"
)

func TestGovcReplay(t *testing.T) {
	w := govcLoadWitness()
	s, chars := w.Str("s"), w.Str("chars")
	var before, after string
	var sep byte
	func() {
		defer func() {
			if r := recover(); r != nil {
				t.Fatalf("REPRODUCED: cutLastAny(%q, %q) panics: %v", s, chars, r)
			}
		}()
		before, after, sep = cutLastAny(s, chars)
	}()
	i := strings.LastIndexAny(s, chars)
	if i < 0 {
		if before != "" || after != s || sep != 0 {
			t.Fatalf("REPRODUCED: cutLastAny(%q, %q) = %q, %q, %d without an occurrence", s, chars, before, after, sep)
		}
		return
	}
	if before != s[:i] || after != s[i+1:] || sep != s[i] {
		t.Fatalf("REPRODUCED: cutLastAny(%q, %q) = %q, %q, %q; last occurrence at %d", s, chars, before, after, sep, i)
	}
}
