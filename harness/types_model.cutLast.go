package model

import (
	"strings"
	"testing"
)

// Reference: split at the last occurrence of sep; no occurrence -> (s, "", false).
func TestGovcReplay(t *testing.T) {
	w := govcLoadWitness()
	s, sep := w.Str("s"), w.Str("sep")
	var before, after string
	var ok bool
	func() {
		defer func() {
			if r := recover(); r != nil {
				t.Fatalf("REPRODUCED: cutLast(%q, %q) panics: %v", s, sep, r)
			}
		}()
		before, after, ok = cutLast(s, sep)
	}()
	i := strings.LastIndex(s, sep)
	if i < 0 {
		if ok || before != s || after != "" {
			t.Fatalf("REPRODUCED: cutLast(%q, %q) = %q, %q, %v without an occurrence", s, sep, before, after, ok)
		}
		return
	}
	if !ok || before != s[:i] || after != s[i+len(sep):] || before+sep+after != s {
		t.Fatalf("REPRODUCED: cutLast(%q, %q) = %q, %q, %v; last occurrence at %d", s, sep, before, after, ok, i)
	}
}
