package server

import (
	"net/http"
	"os"
	"strings"
	"testing"

	"github.com/gin-gonic/gin"

	"github.com/ollama/ollama/api"
)

// Property-level oracle (C04): startup pruning leaves every blob that some manifest references.
//
// Shape of the counterexample of server.deleteUnusedLayers#loop1.inv3.keep@b8: PruneLayers keys
// its deleteMap by the colon spelling of every blob file name ("sha256:<hex>"), and
// deleteUnusedLayers un-marks digests by STRING; a manifest that records the dash spelling
// "sha256-<hex>" (POST /api/create {"files": {"m.gguf": "sha256-<hex>"}}) does not un-mark its
// own blob, so the startup prune removes the weights of a listed model.
func TestGovcReplay(t *testing.T) {
	gin.SetMode(gin.TestMode)
	t.Setenv("OLLAMA_MODELS", t.TempDir())
	var s Server

	_, digest := createBinFile(t, nil, nil)
	dash := strings.Replace(digest, ":", "-", 1)
	if w := createRequest(t, s.CreateHandler, api.CreateRequest{Name: "b", Files: map[string]string{"m.gguf": dash}}); w.Code != http.StatusOK {
		t.Fatalf("create b: status %d", w.Code)
	}

	// what Serve does at startup (after fixBlobs and the corrupt-manifest check)
	if _, err := Manifests(false); err != nil {
		t.Fatal(err)
	}
	if err := PruneLayers(); err != nil {
		t.Fatal(err)
	}

	ms, err := Manifests(false)
	if err != nil {
		t.Fatal(err)
	}
	for n, m := range ms {
		for _, l := range append(m.Layers, m.Config) {
			p, err := GetBlobsPath(l.Digest)
			if err != nil {
				t.Fatal(err)
			}
			if _, err := os.Stat(p); err != nil {
				t.Fatalf("REPRODUCED: startup prune removed blob %s that the listed model %s references as %q: %v", p, n.DisplayShortest(), l.Digest, err)
			}
		}
	}
}
