package kvcache

import (
	"fmt"
	"math"
	"testing"

	"github.com/ollama/ollama/ml"
	"github.com/ollama/ollama/model/input"
)

// Property-level oracle (C06, "each [entry] with the key/value data stored for it ... after
// defragmentation"): every live cell's K row is the row that was stored for the cell's
// (sequence, position). Rows are tagged on Put with the value pos+1 (one sequence per
// position value), so row j of the K tensor of a live cell j must read cells[j].pos+1.
//
// Shape of the counterexample of kvcache.(*Causal).defrag#loop2.inv6.keep (pending-run
// invariant "the metadata at pendingDst+k is the metadata of the cell whose row moveCells
// will copy there, i.e. pendingSrc+k"): defrag fills holes in ascending order from live
// cells in descending order and coalesces a run "src == pendingSrc-pendingLen && dst ==
// pendingDst+pendingLen" into ONE forward copy moveCells(pendingSrc, pendingDst, len),
// although inside such a run the sources descend while the destinations ascend. The solver
// has no finite witness for a quantified invariant; the concrete instance is fixed here
// (capacity 8, holes at 1, 2 and 7) and then all 256 hole patterns of capacity 8 are swept.
// The real Causal is driven with the package's own test backend (causal_test.go).
func TestGovcReplay(t *testing.T) {
	_ = govcLoadWitness

	// --- (1) through the public API: StartForward on a fragmented cache triggers defrag ---
	backend := &testBackend{}
	cache := NewCausalCache(func(ctx ml.Context, layer int, key, shift ml.Tensor) (ml.Tensor, error) { return key, nil })
	defer cache.Close()
	cache.Init(backend, ml.DTypeF16, 1, 8, 8)

	put := func(pos []int32, seqs []int) {
		ctx := backend.NewContext()
		defer ctx.Close()
		if err := cache.StartForward(ctx, input.Batch{Positions: pos, Sequences: seqs}, false); err != nil {
			t.Fatalf("StartForward: %v", err)
		}
		cache.SetLayer(0)
		vals := make([]float32, len(pos))
		for i, p := range pos {
			vals[i] = float32(p + 1)
		}
		tensor, _ := ctx.FromFloatSlice(vals, 1, 1, len(pos))
		cache.Put(ctx, tensor, tensor)
	}
	// cells 0..7 hold positions 0..7; cells 1, 2, 7 belong to sequence 1, the others to sequence 0
	put([]int32{0, 1, 2, 3, 4, 5, 6, 7}, []int{0, 1, 1, 0, 0, 0, 0, 1})
	if err := cache.Remove(1, 0, math.MaxInt32); err != nil {
		t.Fatalf("Remove: %v", err)
	}
	// holes at 1, 2, 7: no run of 3 -> defrag, then the batch goes to 5, 6, 7
	put([]int32{8, 9, 10}, []int{0, 0, 0})

	rows := cache.keys[0].(*testTensor).data
	var bad []string
	for j, cell := range cache.cells {
		if len(cell.sequences) != 0 && rows[j] != float32(cell.pos+1) {
			bad = append(bad, fmt.Sprintf("cell %d says pos %d but holds the K row stored for pos %d", j, cell.pos, int(rows[j])-1))
		}
	}
	if len(bad) > 0 {
		t.Errorf("REPRODUCED: capacity 8, holes at 1,2,7, 3-token batch forces defrag: %v (cells %+v, K rows %v)", bad, cache.cells, rows)
	}

	// --- (2) defrag() itself on every hole pattern of an 8-cell cache ---
	failing := 0
	first := ""
	for live := 0; live < 256; live++ {
		c := NewCausalCache(nil)
		c.Init(backend, ml.DTypeF16, 8, 1, 8)
		ctx := backend.NewContext()
		pos := []int32{0, 1, 2, 3, 4, 5, 6, 7}
		seqs := []int{0, 1, 2, 3, 4, 5, 6, 7}
		if err := c.StartForward(ctx, input.Batch{Positions: pos, Sequences: seqs}, false); err != nil {
			t.Fatal(err)
		}
		c.SetLayer(0)
		tensor, _ := ctx.FromFloatSlice([]float32{1, 2, 3, 4, 5, 6, 7, 8}, 1, 1, 8)
		c.Put(ctx, tensor, tensor)
		for j := 0; j < 8; j++ {
			if live&(1<<j) == 0 {
				if err := c.Remove(j, 0, math.MaxInt32); err != nil {
					t.Fatal(err)
				}
			}
		}
		before := 0
		for _, cell := range c.cells {
			if len(cell.sequences) != 0 {
				before++
			}
		}
		c.defrag()
		rows := c.keys[0].(*testTensor).data
		after := 0
		ok := true
		for j, cell := range c.cells {
			if len(cell.sequences) != 0 {
				after++
				if rows[j] != float32(cell.pos+1) {
					ok = false
				}
			}
		}
		if after != before {
			t.Errorf("REPRODUCED: defrag lost live entries: live mask %08b, %d before, %d after", live, before, after)
		}
		if !ok {
			failing++
			if first == "" {
				first = fmt.Sprintf("live mask %08b (bit j = cell j live): cells %+v, K rows %v", live, c.cells, rows)
			}
		}
	}
	if failing > 0 {
		t.Errorf("REPRODUCED: defrag leaves metadata and K rows disagreeing for %d of 256 hole patterns of an 8-cell cache; first: %s", failing, first)
	}
}
