package server

import (
	"context"
	"sync"
	"testing"
	"time"

	"github.com/ollama/ollama/api"
	"github.com/ollama/ollama/discover"
)

type govcPausingLlm struct {
	mockLlm
	name    string
	reached chan string
	resume  chan struct{}
	once    *sync.Once
}

func (p *govcPausingLlm) EstimatedVRAMByGPU(id string) uint64 {
	p.once.Do(func() {
		p.reached <- p.name
		<-p.resume
	})
	return 0
}

// C02 oracle: "every request ... receives exactly one reply ... never none ... for every interleaving of the
// scheduler's two loops". Replays the schedule behind processCompleted#lockorder.N.
// Schedule (two idle runners loaded): the pending loop is inside updateFreeSpace - it holds
// s.loadedMu and is busy with the first runner - when the keep-alive expiry of the OTHER runner is
// handled by processCompleted, which takes that runner's refMu and then waits for s.loadedMu.
// updateFreeSpace moves on to the other runner and waits for its refMu. Both scheduler loops and
// everything that needs loadedMu (/api/ps, every new request) hang forever.
func TestGovcReplay(t *testing.T) {
	ctx, done := context.WithCancel(context.Background())
	defer done()
	s := InitScheduler(ctx)
	go s.processCompleted(ctx)
	reached := make(chan string, 1)
	resume := make(chan struct{})
	once := &sync.Once{}
	runners := map[string]*runnerRef{}
	for _, n := range []string{"a", "b"} {
		r := &runnerRef{model: &Model{ModelPath: n}, modelPath: n, Options: &api.Options{}, sessionDuration: time.Minute, numParallel: 1,
			llama: &govcPausingLlm{name: n, reached: reached, resume: resume, once: once}}
		runners[n] = r
		s.loaded[n] = r
	}
	gpus := discover.GpuInfoList{{Library: "cuda", ID: "0"}}
	ufsDone := make(chan struct{})
	go func() {
		s.updateFreeSpace(gpus)
		close(ufsDone)
	}()
	first := <-reached // updateFreeSpace holds loadedMu and first.refMu
	other := "a"
	if first == "a" {
		other = "b"
	}
	s.expiredCh <- runners[other] // keep-alive timer of the other (idle) runner fired
	// give processCompleted time to take what it takes first (other.refMu before the repair,
	// nothing - it waits for loadedMu - after it)
	for i := 0; i < 500 && runners[other].refMu.TryLock(); i++ {
		runners[other].refMu.Unlock()
		time.Sleep(time.Millisecond)
	}
	time.Sleep(50 * time.Millisecond)
	close(resume) // updateFreeSpace goes on to the other runner
	select {
	case <-ufsDone:
	case <-time.After(5 * time.Second):
		t.Fatalf("VIOLATION: deadlock: updateFreeSpace holds loadedMu and waits for %s.refMu, processCompleted holds %s.refMu and waits for loadedMu", other, other)
	}
}
