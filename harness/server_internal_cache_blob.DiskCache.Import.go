package blob

import (
	"bytes"
	"testing"
)

// Replay harness for (*DiskCache).Import (property C08).
// Oracle: "A successful store makes the blob retrievable": if Import(r, size) succeeds then
// Get(d) reports the blob as present, with the size it was stored under and content that
// hashes to d. The witness gives the size parameter; the source delivers exactly that many bytes.
func TestGovcReplay(t *testing.T) {
	w := govcLoadWitness()
	size := int(min(max(w.Int("size"), 0), 1<<20))
	c, err := Open(t.TempDir())
	if err != nil {
		t.Fatal(err)
	}
	data := bytes.Repeat([]byte("i"), size)
	d, err := c.Import(bytes.NewReader(data), int64(size))
	if err != nil {
		t.Logf("Import refused: %v", err)
		return
	}
	if d != DigestFromBytes(data) {
		t.Fatalf("REPRODUCED: Import of %d bytes returned digest %v, content hashes to %v", size, d.Short(), DigestFromBytes(data).Short())
	}
	e, err := c.Get(d)
	if err != nil {
		t.Fatalf("REPRODUCED: Import(%d bytes) = (%v, nil), but Get reports the blob as absent: %v", size, d.Short(), err)
	}
	if e.Size != int64(size) {
		t.Fatalf("REPRODUCED: Import(%d bytes) succeeded, Get reports size %d", size, e.Size)
	}
}
