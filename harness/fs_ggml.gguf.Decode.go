package ggml

import (
	"bytes"
	"encoding/binary"
	"testing"
)

// Builds a minimal GGUF v3 file whose general.alignment is the witness value and
// decodes it through the public entry point.
func TestGovcReplay(t *testing.T) {
	w := govcLoadWitness()
	align := uint32(w.Int("ret.fs/ggml.(KV).Uint.1"))
	var buf bytes.Buffer
	buf.WriteString("GGUF")
	binary.Write(&buf, binary.LittleEndian, uint32(3))
	binary.Write(&buf, binary.LittleEndian, uint64(0)) // tensors
	binary.Write(&buf, binary.LittleEndian, uint64(1)) // kv pairs
	key := "general.alignment"
	binary.Write(&buf, binary.LittleEndian, uint64(len(key)))
	buf.WriteString(key)
	binary.Write(&buf, binary.LittleEndian, ggufTypeUint32)
	binary.Write(&buf, binary.LittleEndian, align)
	defer func() {
		if r := recover(); r != nil {
			t.Fatalf("REPRODUCED: ggml.Decode panicked on general.alignment = %d: %v", align, r)
		}
	}()
	Decode(bytes.NewReader(buf.Bytes()), 0)
}
