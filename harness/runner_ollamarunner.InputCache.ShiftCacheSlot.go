package ollamarunner

import (
	"errors"
	"math"
	"sort"
	"testing"

	"github.com/ollama/ollama/kvcache"
	"github.com/ollama/ollama/ml"
	"github.com/ollama/ollama/model/input"
)

// govcModelCache is an executable model of the cache-management half of kvcache.Cache:
// per sequence the set of positions held. Remove follows kvcache.Causal.Remove: cells in
// [begin, end) are dropped, cells at or after end move by begin-end, and only
// end == math.MaxInt32 means "to the end". failNext makes the next Remove fail without
// effect (a cache that cannot shift).
type govcModelCache struct {
	pos      map[int][]int32
	failNext bool
	calls    [][3]int64
}

func (m *govcModelCache) SetLayer(int)                                         {}
func (m *govcModelCache) Get(ml.Context) (ml.Tensor, ml.Tensor, ml.Tensor)     { return nil, nil, nil }
func (m *govcModelCache) Put(ml.Context, ml.Tensor, ml.Tensor)                 {}
func (m *govcModelCache) SetConfig(ml.CacheConfig)                             {}
func (m *govcModelCache) Init(ml.Backend, ml.DType, int, int, int)             {}
func (m *govcModelCache) Close()                                               {}
func (m *govcModelCache) StartForward(ml.Context, input.Batch, bool) error     { return nil }
func (m *govcModelCache) CanResume(int, int32) bool                            { return true }
func (m *govcModelCache) CopyPrefix(src, dst int, n int32) {
	m.pos[dst] = nil
	for _, p := range m.pos[src] {
		if p < n {
			m.pos[dst] = append(m.pos[dst], p)
		}
	}
}

func (m *govcModelCache) Remove(seq int, begin, end int32) error {
	m.calls = append(m.calls, [3]int64{int64(seq), int64(begin), int64(end)})
	if m.failNext {
		m.failNext = false
		return kvcache.ErrNotSupported
	}
	var offset int32
	if end != math.MaxInt32 {
		offset = begin - end
	}
	var out []int32
	for _, p := range m.pos[seq] {
		switch {
		case p >= begin && p < end:
		case p >= end:
			out = append(out, p+offset)
		default:
			out = append(out, p)
		}
	}
	m.pos[seq] = out
	return nil
}

// Property-level oracle (C07): after ShiftCacheSlot - success or reprocessing error - the
// cache holds for the slot's sequence exactly the positions 0..len(slot.Inputs)-1, the
// recorded inputs are old[:keep] ++ old[keep+d:], and the inputs handed back for
// reprocessing are that same sequence.
//
// Inputs from the witness: (*c).numCtx, (*slot).Id, (*slot).Inputs.len, numKeep and whether
// the first Remove fails (ret.kvcache.(Cache).Remove.1 != 0). A witness without values
// (solver status unknown) replays the smallest scenario: numCtx 4, 4 inputs, keep 1, a
// cache that cannot shift.
func TestGovcReplay(t *testing.T) {
	w := govcLoadWitness()
	numCtx, n, keep, id := int32(w.Int("(*c).numCtx")), w.Int("(*slot).Inputs.len"), int32(w.Int("numKeep")), int(w.Int("(*slot).Id"))
	fail := w.Int("ret.kvcache.(Cache).Remove.1") != 0
	if numCtx <= 0 || n <= 0 || n > 4096 {
		numCtx, n, keep, id, fail = 4, 4, 1, 0, true
	}
	if keep < 0 || keep >= numCtx {
		t.Skipf("witness outside the precondition: numCtx=%d keep=%d", numCtx, keep)
	}
	old := make([]input.Input, n)
	mc := &govcModelCache{pos: map[int][]int32{}, failNext: fail}
	for i := range old {
		old[i] = input.Input{Token: int32(100 + i)}
		mc.pos[id] = append(mc.pos[id], int32(i))
	}
	slot := &InputCacheSlot{Id: id, Inputs: append([]input.Input{}, old...)}
	c := &InputCache{numCtx: numCtx, enabled: true, slots: []InputCacheSlot{}, cache: mc}
	discard := c.ShiftDiscard(int32(n), keep)

	err := c.ShiftCacheSlot(slot, keep)

	held := append([]int32{}, mc.pos[id]...)
	sort.Slice(held, func(i, j int) bool { return held[i] < held[j] })
	if len(held) != len(slot.Inputs) {
		t.Fatalf("REPRODUCED: after ShiftCacheSlot (err=%v, Remove calls %v) the slot records %d inputs but the cache holds %d entries for sequence %d (positions %v)",
			err, mc.calls, len(slot.Inputs), len(held), id, held)
	}
	for i, p := range held {
		if int(p) != i {
			t.Fatalf("REPRODUCED: cache positions %v of sequence %d are not 0..%d", held, id, len(held)-1)
		}
	}
	want := append(append([]input.Input{}, old[:keep]...), old[keep+discard:]...)
	var re *ErrReprocessInputs
	switch {
	case errors.As(err, &re):
		if len(re.Inputs) != len(want) {
			t.Fatalf("REPRODUCED: %d inputs returned for reprocessing, want %d", len(re.Inputs), len(want))
		}
		for i := range want {
			if re.Inputs[i].Token != want[i].Token {
				t.Fatalf("REPRODUCED: reprocess input %d is token %d, want %d", i, re.Inputs[i].Token, want[i].Token)
			}
		}
	case err == nil && discard > 0:
		if len(slot.Inputs) != len(want) {
			t.Fatalf("REPRODUCED: %d inputs recorded after the shift, want %d", len(slot.Inputs), len(want))
		}
		for i := range want {
			if slot.Inputs[i].Token != want[i].Token {
				t.Fatalf("REPRODUCED: recorded input %d is token %d, want %d", i, slot.Inputs[i].Token, want[i].Token)
			}
		}
	}
}
