package server

import (
	"strings"
	"testing"
)

// C03 oracle: no registry response crashes the server. getValue parses the value of
// `key="..."` out of a WWW-Authenticate header that the registry chooses freely.
// The witness gives len(header), the key and the result of strings.Index(header, key+"=");
// the header is rebuilt so that the real strings.Index returns exactly that position:
// filler bytes that occur neither in the key nor in "=" up to the match, then key+"=", then
// the witness bytes (filler beyond the 24 recorded ones).
func TestGovcReplay(t *testing.T) {
	w := govcLoadWitness()
	key := w.Str("key")
	if strings.ContainsAny(key, "=") {
		key = strings.ReplaceAll(key, "=", "k")
	}
	n := int(w.Int("header.len"))
	idx := int(w.Int("ret.strings.Index.1"))
	if n < 0 {
		n = 0
	}
	if n > 1<<20 {
		// keep the distance of the match from the END of the header (that is what the
		// parser's bounds depend on) when the witness length is capped
		if fromEnd := n - idx; idx >= 0 && fromEnd >= 0 && fromEnd <= 1<<20 {
			idx = 1<<20 - fromEnd
		}
		n = 1 << 20
	}
	filler := byte('x')
	for strings.IndexByte(key+"=\"", filler) >= 0 {
		filler++
	}
	var header string
	pat := key + "="
	if idx < 0 || idx+len(pat) > n {
		// key not found: a header without the pattern
		header = strings.Repeat(string(filler), n)
	} else {
		b := make([]byte, n)
		for i := range b {
			b[i] = filler
		}
		copy(b[idx:], pat)
		for i := idx + len(pat); i < n && i < 24; i++ {
			c := byte(w.Int("header[" + itoa(i) + "]"))
			if c != 0 {
				b[i] = c
			}
		}
		header = string(b)
	}
	if got := strings.Index(header, pat); got != idx && idx >= 0 && idx+len(pat) <= n {
		t.Logf("note: rebuilt header has the key at %d, witness said %d", got, idx)
	}
	defer func() {
		if r := recover(); r != nil {
			t.Fatalf("REPRODUCED: getValue(%q, %q) panicked: %v", clip(header), key, r)
		}
	}()
	getValue(header, key)
}

func itoa(i int) string {
	if i == 0 {
		return "0"
	}
	s := ""
	for i > 0 {
		s = string(rune('0'+i%10)) + s
		i /= 10
	}
	return s
}

func clip(s string) string {
	if len(s) > 80 {
		return s[:40] + "..." + s[len(s)-37:]
	}
	return s
}
