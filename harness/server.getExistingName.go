package server

import (
	"net/http"
	"testing"

	"github.com/gin-gonic/gin"

	"github.com/ollama/ollama/api"
	"github.com/ollama/ollama/types/model"
)

// Property-level oracle (C04, "no two listed models differ only by letter case"):
//
//	(a) getExistingName(n) differs from n at most by letter case;
//	(b) no listed name is a case variant of the result without being the result itself
//	    (so if some listed name EqualFolds the request, the result IS that listed name and a
//	    create/copy/pull under the result replaces it instead of adding a second model).
//
// Shape of the counterexample of server.getExistingName#loop1.inv2.keep@b15/@b16 (the solver's
// strings are opaque ids; the concrete instance is fixed here): the function canonicalises part
// by part against EVERY scanned name in map iteration order and never assigns its `set` tracker,
// so with h/ns/Foo:t and h/ns2/foo:t listed, the request h/ns/foo:t takes Model "Foo" from the
// first and then Model "foo" from the second whenever the map yields them in that order. The
// outcome depends on Go's randomized map iteration order, hence the loop.
func TestGovcReplay(t *testing.T) {
	gin.SetMode(gin.TestMode)
	t.Setenv("OLLAMA_MODELS", t.TempDir())
	var s Server

	// Store: h/ns/Foo:t created through POST /api/create; h/ns2/foo:t written as a manifest file
	// under exactly that name. The default handlers would re-spell the second one (they all pass
	// through getExistingName, which keeps one spelling per part position across the store);
	// a store gets such a pair from the experimental client (OLLAMA_EXPERIMENT=client2:
	// registry.Local pull -> blob.DiskCache.Link matches whole names only and otherwise writes
	// the name as given), from a release that still had case-sensitive names, or from copying
	// a models directory.
	_, digest := createBinFile(t, nil, nil)
	stream := false
	if w := createRequest(t, s.CreateHandler, api.CreateRequest{Name: "h/ns/Foo:t", Files: map[string]string{"m.gguf": digest}, Stream: &stream}); w.Code != http.StatusOK {
		t.Fatalf("create h/ns/Foo:t: status %d: %s", w.Code, w.Body.String())
	}
	first, err := ParseNamedManifest(model.ParseName("h/ns/Foo:t"))
	if err != nil {
		t.Fatal(err)
	}
	if err := WriteManifest(model.ParseName("h/ns2/foo:t"), first.Config, first.Layers); err != nil {
		t.Fatal(err)
	}

	req := model.ParseName("h/ns/foo:t")
	if !req.IsValid() {
		t.Fatalf("request name %v is not valid", req)
	}

	check := func(got model.Name) (bad string) {
		existing, err := Manifests(false)
		if err != nil {
			t.Fatal(err)
		}
		if !got.EqualFold(req) {
			return "result " + got.String() + " differs from the request " + req.String() + " by more than letter case"
		}
		for e := range existing {
			if e.EqualFold(got) && e != got {
				return "result " + got.String() + " differs only by letter case from the listed model " + e.String()
			}
		}
		return ""
	}

	for i := 0; i < 200; i++ {
		got, err := getExistingName(req)
		if err != nil {
			t.Fatal(err)
		}
		bad := check(got)
		if bad == "" {
			continue
		}
		// end to end: POST /api/create under the request name until the store lists two
		// models that differ only by letter case
		for j := 0; j < 200; j++ {
			w := createRequest(t, s.CreateHandler, api.CreateRequest{Name: req.String(), Files: map[string]string{"m.gguf": digest}, Stream: &stream})
			if w.Code != http.StatusOK {
				t.Fatalf("create %s: status %d: %s", req, w.Code, w.Body.String())
			}
			listed, err := Manifests(false)
			if err != nil {
				t.Fatal(err)
			}
			for a := range listed {
				for b := range listed {
					if a != b && a.EqualFold(b) {
						t.Fatalf("REPRODUCED: getExistingName(%s) = %s on call %d: %s; POST /api/create %s (attempt %d) then left two listed models that differ only by letter case: %s and %s", req, got, i+1, bad, req, j+1, a, b)
					}
				}
			}
		}
		t.Fatalf("REPRODUCED: getExistingName(%s) = %s on call %d: %s", req, got, i+1, bad)
	}
	t.Logf("getExistingName(%s) returned a listed name on 200 calls", req)
}
