package sample

import (
	"math"
	"testing"
)

// Property-level oracle (C18, "with temperature zero it returns a highest-logit token"):
// greedy returns one of the given tokens and no token has a larger logit.
// Float values are uninterpreted in the solver, so the witness only fixes the length;
// the values run over a small grid with ties, infinities and NaN.
func TestGovcReplay(t *testing.T) {
	w := govcLoadWitness()
	n := int(w.Int("tokens.len"))
	if n < 1 {
		n = 1
	}
	if n > 4 {
		n = 4
	}
	grid := []float32{0, 1, -1, 2, float32(math.Inf(1)), float32(math.Inf(-1)), float32(math.NaN())}
	for _, m := range []int{n, 1, 2, 3, 4} {
		idx := make([]int, m)
		for {
			tokens := make([]token, m)
			for i := range tokens {
				tokens[i] = token{id: int32(i), value: grid[idx[i]]}
			}
			got := greedy(tokens)
			member := false
			for _, tk := range tokens {
				if tk.id == got.id && (tk.value == got.value || (tk.value != tk.value && got.value != got.value)) {
					member = true
				}
			}
			if !member {
				t.Fatalf("REPRODUCED: greedy(%v) = %v is not one of the tokens", tokens, got)
			}
			for _, tk := range tokens {
				if tk.value > got.value {
					t.Fatalf("REPRODUCED: greedy(%v) = %v but token %v has a higher logit", tokens, got, tk)
				}
			}
			k := 0
			for k < m {
				idx[k]++
				if idx[k] < len(grid) {
					break
				}
				idx[k] = 0
				k++
			}
			if k == m {
				break
			}
		}
	}
}
