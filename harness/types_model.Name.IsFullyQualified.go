package model

import (
	"strings"
	"testing"
)

// oracle from the property statement (see types_model.isValidPart.go)
func c13PartOK(kind int, s string) bool {
	max := 80
	if kind == 0 {
		max = 350
	}
	if len(s) < 1 || len(s) > max {
		return false
	}
	alnum := func(c byte) bool {
		return c >= 'a' && c <= 'z' || c >= 'A' && c <= 'Z' || c >= '0' && c <= '9' || c == '_'
	}
	for i := 0; i < len(s); i++ {
		c := s[i]
		switch {
		case alnum(c):
		case i == 0:
			return false
		case c == '-':
		case c == '.' && kind != 1:
		case c == ':' && kind == 0:
		default:
			return false
		}
	}
	return true
}

func TestGovcReplay(t *testing.T) {
	w := govcLoadWitness()
	n := Name{Host: w.Str("n.Host"), Namespace: w.Str("n.Namespace"), Model: w.Str("n.Model"), Tag: w.Str("n.Tag")}
	want := c13PartOK(0, n.Host) && c13PartOK(1, n.Namespace) && c13PartOK(2, n.Model) && c13PartOK(3, n.Tag)
	if got := n.IsFullyQualified(); got != want {
		t.Fatalf("REPRODUCED: %#v.IsFullyQualified() = %v, want %v", n, got, want)
	}
	if n.IsFullyQualified() {
		for _, p := range []string{n.Host, n.Namespace, n.Model, n.Tag} {
			if strings.ContainsAny(p, "/\\\x00") || p[0] == '.' {
				t.Fatalf("REPRODUCED: fully qualified name %#v has the path-unsafe part %q", n, p)
			}
		}
	}
}
