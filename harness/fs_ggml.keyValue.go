package ggml

import "testing"

// The failing obligation is the unchecked val.(T): a key stored with another
// dynamic type than the accessor asks for. Directed replay: uint64 stored, uint32 read.
func TestGovcReplay(t *testing.T) {
	kv := KV{"general.alignment": uint64(32)}
	defer func() {
		if r := recover(); r != nil {
			t.Fatalf("REPRODUCED: KV.Uint panicked on a key holding a uint64: %v", r)
		}
	}()
	kv.Uint("general.alignment", 32)
}
