package server

import (
	"path/filepath"
	"strings"
	"testing"
)

func c13PartOK(kind int, s string) bool {
	max := 80
	if kind == 0 {
		max = 350
	}
	if len(s) < 1 || len(s) > max {
		return false
	}
	alnum := func(c byte) bool {
		return c >= 'a' && c <= 'z' || c >= 'A' && c <= 'Z' || c >= '0' && c <= '9' || c == '_'
	}
	for i := 0; i < len(s); i++ {
		c := s[i]
		switch {
		case alnum(c):
		case i == 0:
			return false
		case c == '-':
		case c == '.' && kind != 1:
		case c == ':' && kind == 0:
		default:
			return false
		}
	}
	return true
}

// Oracle (C13): refused, or manifests/<host>/<namespace>/<model>/<tag> with four usable parts.
func TestGovcReplay(t *testing.T) {
	w := govcLoadWitness()
	mp := ModelPath{ProtocolScheme: w.Str("mp.ProtocolScheme"), Registry: w.Str("mp.Registry"), Namespace: w.Str("mp.Namespace"),
		Repository: w.Str("mp.Repository"), Tag: w.Str("mp.Tag")}
	models := t.TempDir()
	t.Setenv("OLLAMA_MODELS", models)
	ok := c13PartOK(0, mp.Registry) && c13PartOK(1, mp.Namespace) && c13PartOK(2, mp.Repository) && c13PartOK(3, mp.Tag)
	p, err := mp.GetManifestPath()
	if (err == nil) != ok {
		t.Fatalf("REPRODUCED: %#v.GetManifestPath() = %q, %v; usable: %v", mp, p, err, ok)
	}
	if err != nil {
		if p != "" {
			t.Fatalf("REPRODUCED: refused model path still yields %q", p)
		}
		return
	}
	root := filepath.Join(models, "manifests")
	rel, rerr := filepath.Rel(root, p)
	if rerr != nil || !filepath.IsLocal(rel) || len(strings.Split(rel, string(filepath.Separator))) != 4 ||
		rel != strings.Join([]string{mp.Registry, mp.Namespace, mp.Repository, mp.Tag}, string(filepath.Separator)) {
		t.Fatalf("REPRODUCED: %#v.GetManifestPath() = %q is not four components below %q", mp, p, root)
	}
}
