package model

import (
	"fmt"
	"strings"
	"testing"
	"unicode/utf8"
)

// govcSPMVocab builds a small byte-fallback SentencePiece vocabulary that covers every
// byte: <unk>, <s>, </s>, the 256 byte tokens <0x00>..<0xFF> and a few pieces.
func govcSPMVocab() *Vocabulary {
	v := &Vocabulary{
		Values: []string{"<unk>", "<s>", "</s>"},
		Types:  []uint32{TOKEN_TYPE_UNKNOWN, TOKEN_TYPE_CONTROL, TOKEN_TYPE_CONTROL},
		Scores: []float32{0, 0, 0},
	}
	for b := 0; b < 256; b++ {
		v.Values = append(v.Values, fmt.Sprintf("<0x%02X>", b))
		v.Types = append(v.Types, TOKEN_TYPE_BYTE)
		v.Scores = append(v.Scores, 0)
	}
	for i, p := range []string{"▁", "a", "b", "A", "<", ">", "0", "x", "4", "1", "▁a", "ab", "<0", "<0x", "<0x4", "<0x41"} {
		v.Values = append(v.Values, p)
		v.Types = append(v.Types, TOKEN_TYPE_NORMAL)
		v.Scores = append(v.Scores, -float32(i))
	}
	return v
}

// Property-level oracle (C20): Decode(Encode(s)) == s for valid UTF-8 text without NUL,
// ids inside the vocabulary; SentencePiece family, byte-fallback vocabulary.
func TestGovcReplay(t *testing.T) {
	w := govcLoadWitness()
	spm := NewSentencePieceModel(govcSPMVocab())
	texts := []string{w.Str("s"), "a b", "ab ba", "é", "日本", "a  b", "<0x41>", "b<0x41>", "x <0x41> x", "▁", "a▁b"}
	for _, s := range texts {
		if len(s) > 64 {
			s = s[:64]
		}
		if !utf8.ValidString(s) || strings.ContainsRune(s, 0) {
			continue
		}
		ids, err := spm.Encode(s, false)
		if err != nil {
			t.Fatal(err)
		}
		for _, id := range ids {
			if id < 0 || int(id) >= len(spm.vocab.Values) {
				t.Fatalf("REPRODUCED: Encode(%q) produced id %d outside the vocabulary", s, id)
			}
		}
		got, err := spm.Decode(ids)
		if err != nil {
			t.Fatal(err)
		}
		if got != s {
			t.Fatalf("REPRODUCED: SentencePiece Decode(Encode(%q)) = %q (ids %v)", s, got, ids)
		}
	}
}
