package common

import (
	"strings"
	"testing"
)

// Property-level oracle (C14): a reported stop is one of the stops, occurs in the text,
// and no stop starts earlier in the text (otherwise cutting at the reported stop leaves
// another stop in the output); "no stop" is reported only if none occurs.
func TestGovcReplay(t *testing.T) {
	w := govcLoadWitness()
	check := func(seq string, stops []string) {
		found, stop := FindStop(seq, stops)
		if found {
			member := false
			for _, s := range stops {
				member = member || s == stop
			}
			if !member || !strings.Contains(seq, stop) {
				t.Fatalf("REPRODUCED: FindStop(%q, %q) = true, %q: not a stop contained in the text", seq, stops, stop)
			}
			at := strings.Index(seq, stop)
			for _, s := range stops {
				if i := strings.Index(seq, s); i >= 0 && i < at {
					t.Fatalf("REPRODUCED: FindStop(%q, %q) = %q (at %d) but stop %q starts earlier (at %d): text before the cut %q still contains a stop", seq, stops, stop, at, s, i, seq[:at])
				}
			}
		} else {
			for _, s := range stops {
				if strings.Contains(seq, s) {
					t.Fatalf("REPRODUCED: FindStop(%q, %q) = false but %q occurs", seq, stops, s)
				}
			}
			if stop != "" {
				t.Fatalf("REPRODUCED: FindStop returned false with stop %q", stop)
			}
		}
	}
	check(w.Str("sequence"), w.Strs("stops"))
	// the solver's strings interpret the uninterpreted predicates freely; the failing
	// obligation (earliest stop) has this concrete shape:
	check("ab", []string{"b", "a"})
}
