package common

import (
	"strings"
	"testing"
)

// Property-level oracle (C14): a reported stop is one of the stops and occurs in the
// text; "no stop" is reported only if none of the stops occurs.
func TestGovcReplay(t *testing.T) {
	w := govcLoadWitness()
	seq, stops := w.Str("sequence"), w.Strs("stops")
	found, stop := FindStop(seq, stops)
	if found {
		member := false
		for _, s := range stops {
			member = member || s == stop
		}
		if !member || !strings.Contains(seq, stop) {
			t.Fatalf("REPRODUCED: FindStop(%q, %q) = true, %q: not a stop contained in the text", seq, stops, stop)
		}
	} else {
		for _, s := range stops {
			if strings.Contains(seq, s) {
				t.Fatalf("REPRODUCED: FindStop(%q, %q) = false but %q occurs", seq, stops, s)
			}
		}
		if stop != "" {
			t.Fatalf("REPRODUCED: FindStop returned false with stop %q", stop)
		}
	}
}
