package blob

import (
	"os"
	"path/filepath"
	"testing"
)

// Replay harness for (*DiskCache).Unlink (property C08, history clause).
// Oracle (doc comment of Unlink): "If an error occurs, it returns ok false, and the error."
// The witness says os.Remove fails with an error other than ErrNotExist; a manifest path
// that is a non-empty directory makes it do so.
func TestGovcReplay(t *testing.T) {
	c, err := Open(t.TempDir())
	if err != nil {
		t.Fatal(err)
	}
	dir := filepath.Join(c.dir, "manifests", "example.com", "library", "model", "latest")
	if err := os.MkdirAll(filepath.Join(dir, "sub"), 0o777); err != nil {
		t.Fatal(err)
	}
	ok, err := c.Unlink("example.com/library/model:latest")
	if ok && err != nil {
		t.Fatalf("REPRODUCED: Unlink returned ok=true together with the error %v; nothing was removed", err)
	}
}
