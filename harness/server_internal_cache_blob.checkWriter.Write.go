package blob

import (
	"bytes"
	"crypto/sha256"
	"errors"
	"fmt"
	"testing"
)

// Replay harness for (*checkWriter).Write (property C08).
//
// Oracle (property level): after any sequence of Write calls, a sink that holds exactly
// `size` bytes holds bytes whose SHA-256 is the digest; the sink never holds more than
// `size` bytes; after an error every later Write returns that error and writes nothing;
// a nil error means the whole chunk was accepted.
//
// The witness gives the state before the call ((*w).size, (*w).n, (*w).err), len(p) and
// what the underlying writer answers (ret.io.(Writer).Write.1.{0,1}). The content is not
// part of the witness, so the call is replayed with the right continuation of the blob
// and with a corrupted one. A small-scope sweep over short call sequences follows.

type govcSink struct {
	buf     bytes.Buffer
	planned bool
	n       int   // bytes to accept on the next call when planned
	err     error // error to return on the next call when planned
}

func (s *govcSink) Write(p []byte) (int, error) {
	if s.planned {
		s.planned = false
		n := min(max(s.n, 0), len(p))
		s.buf.Write(p[:n])
		err := s.err
		if n < len(p) && err == nil {
			err = errors.New("short write") // io.Writer contract
		}
		return n, err
	}
	return s.buf.Write(p)
}

func govcBlob(n int) []byte {
	b := make([]byte, n)
	for i := range b {
		b[i] = byte(i*7 + 3)
	}
	return b
}

func govcOracle(t *testing.T, what string, sink *govcSink, size int64, d Digest) {
	t.Helper()
	if int64(sink.buf.Len()) > size {
		t.Fatalf("REPRODUCED: %s: sink holds %d bytes, more than size %d", what, sink.buf.Len(), size)
	}
	if int64(sink.buf.Len()) == size && sha256.Sum256(sink.buf.Bytes()) != d.sum {
		t.Fatalf("REPRODUCED: %s: sink holds exactly size=%d bytes but their SHA-256 is not the digest", what, size)
	}
}

func govcClamp(v, lo, hi int64) int64 { return min(max(v, lo), hi) }

func TestGovcReplay(t *testing.T) {
	w := govcLoadWitness()
	size := govcClamp(w.Int("(*w).size"), 0, 1<<16)
	// keep the distance to the end of the blob, which is what the branches depend on
	n := govcClamp(size-(w.Int("(*w).size")-w.Int("(*w).n")), 0, size)
	l := govcClamp(w.Int("p.len"), 0, 1<<16)
	wn := int(govcClamp(w.Int("ret.io.(Writer).Write.1.0"), 0, l))
	var werr error
	if w.Int("ret.io.(Writer).Write.1.1") != 0 {
		werr = errors.New("underlying write failed")
	}
	preErr := w.Int("(*w).err") != 0

	for _, corrupt := range []bool{false, true} {
		what := fmt.Sprintf("size=%d n=%d len(p)=%d underlying=(%d,%v) preErr=%v corrupt=%v", size, n, l, wn, werr, preErr, corrupt)
		content := govcBlob(int(max(size, n+l)))
		d := Digest{sha256.Sum256(content[:size])}
		sink := &govcSink{}
		cw := &checkWriter{d: d, size: size, h: sha256.New(), w: sink}
		prefix := append([]byte{}, content[:n]...)
		chunk := append([]byte{}, content[n:n+l]...)
		if corrupt {
			if len(chunk) > 0 {
				chunk[len(chunk)-1] ^= 0xff
			} else if len(prefix) > 0 {
				prefix[0] ^= 0xff
			}
		}
		if n > 0 && n < size {
			if _, err := cw.Write(prefix); err != nil {
				t.Logf("%s: cannot reach the state (prefix write: %v)", what, err)
				continue
			}
		} else if n > 0 {
			// n == size: reach the state in two steps so that the last one is the gated one
			cw.Write(prefix[:n-1])
			cw.Write(prefix[n-1:])
		}
		govcOracle(t, what+" (before)", sink, size, d)
		earlier := errors.New("earlier error")
		if preErr && cw.err == nil {
			cw.err = earlier
		}
		before := sink.buf.Len()
		stickyBefore := cw.err
		sink.planned, sink.n, sink.err = true, wn, werr
		got, err := cw.Write(chunk)
		sink.planned = false
		govcOracle(t, what, sink, size, d)
		if stickyBefore != nil && (got != 0 || err != stickyBefore || sink.buf.Len() != before) {
			t.Fatalf("REPRODUCED: %s: Write after an error returned (%d, %v) and the sink went from %d to %d bytes", what, got, err, before, sink.buf.Len())
		}
		if err == nil && got != len(chunk) {
			t.Fatalf("REPRODUCED: %s: Write returned (%d, nil) for %d bytes", what, got, len(chunk))
		}
		if err == nil && sink.buf.Len() != before+len(chunk) {
			t.Fatalf("REPRODUCED: %s: Write returned nil but the sink took %d of %d bytes", what, sink.buf.Len()-before, len(chunk))
		}
		if err != nil {
			at := sink.buf.Len()
			got2, err2 := cw.Write([]byte{1})
			if got2 != 0 || err2 == nil || sink.buf.Len() != at {
				t.Fatalf("REPRODUCED: %s: Write after the error %v returned (%d, %v), sink %d -> %d bytes", what, err, got2, err2, at, sink.buf.Len())
			}
			govcOracle(t, what+" (after error)", sink, size, d)
		}
	}

	// small-scope sweep: blobs of 0..4 bytes, every split into chunks of 0..3 bytes (up to 4
	// calls), every position of one corrupted byte, every short write of the underlying writer.
	for size := 0; size <= 4; size++ {
		content := govcBlob(size + 3)
		d := Digest{sha256.Sum256(content[:size])}
		var rec func(cw *checkWriter, sink *govcSink, off, calls int, trace string)
		run := func(trace string, feed [][]byte, short []int) {
			sink := &govcSink{}
			cw := &checkWriter{d: d, size: int64(size), h: sha256.New(), w: sink}
			for i, c := range feed {
				if short[i] >= 0 {
					sink.planned, sink.n = true, short[i]
				}
				cw.Write(c)
				sink.planned = false
				govcOracle(t, trace, sink, int64(size), d)
			}
		}
		_ = rec
		lens := []int{0, 1, 2, 3}
		for _, a := range lens {
			for _, b := range lens {
				for _, c := range lens {
					if a+b+c > len(content) {
						continue
					}
					for bad := -1; bad < a+b+c; bad++ {
						for shortAt := -1; shortAt < 3; shortAt++ {
							src := append([]byte{}, content[:a+b+c]...)
							if bad >= 0 {
								src[bad] ^= 0xff
							}
							feed := [][]byte{src[:a], src[a : a+b], src[a+b : a+b+c]}
							short := []int{-1, -1, -1}
							if shortAt >= 0 {
								short[shortAt] = len(feed[shortAt]) / 2
							}
							run(fmt.Sprintf("sweep size=%d chunks=%d,%d,%d corrupt@%d short@%d", size, a, b, c, bad, shortAt), feed, short)
						}
					}
				}
			}
		}
	}
}
