package server

import (
	"context"
	"testing"
	"time"

	"github.com/ollama/ollama/api"
)

// C01 oracle: a runner that has been shut down is never handed to a request.
// The failing obligation is "the runner sent on successCh has llama != nil": its
// counterexample is a STATE (the runner was unloaded between the reload check and
// useLoadedRunner), reached on the real code by this history, one step at a time:
//   1. runner r is loaded and idle; needsReload(r, req) says false (processPending would now
//      call useLoadedRunner),
//   2. before that call an expiry event for r is processed by the real processCompleted loop
//      (keep_alive ran out / explicit unload): refCount is 0, so it unloads and Close()s r,
//   3. useLoadedRunner(r) hands r to the request.
func TestGovcReplay(t *testing.T) {
	ctx, done := context.WithTimeout(context.Background(), 5*time.Second)
	defer done()
	s := InitScheduler(ctx)
	llm1 := &mockLlm{estimatedVRAMByGPU: map[string]uint64{}}
	opts := api.DefaultOptions()
	m := &Model{ModelPath: "model-a"}
	r := &runnerRef{llama: llm1, model: m, modelPath: "model-a", Options: &opts, numParallel: 1, sessionDuration: time.Millisecond}
	s.loaded["model-a"] = r
	req := &LlmRequest{ctx: ctx, model: m, opts: api.DefaultOptions(), successCh: make(chan *runnerRef, 1), errCh: make(chan error, 1)}

	if r.needsReload(ctx, req) {
		t.Skip("needsReload wants a reload: the window does not open with these options")
	}
	go s.processCompleted(ctx)
	s.expiredCh <- r
	select {
	case <-s.unloadedCh:
	case <-ctx.Done():
		t.Fatal("timeout waiting for the unload")
	}
	if !llm1.closeCalled {
		t.Fatal("runner was not closed by the expiry: history did not unfold as intended")
	}
	req.useLoadedRunner(r, s.finishedReqCh)
	select {
	case got := <-req.successCh:
		if got.llama == nil || llm1.closeCalled {
			t.Fatalf("REPRODUCED: the request was handed runner %q after it was shut down (Close called: %v, llama == nil: %v, refCount now %d)", got.modelPath, llm1.closeCalled, got.llama == nil, got.refCount)
		}
	case err := <-req.errCh:
		t.Logf("request got error %v", err)
	default:
		t.Log("request got no runner: it must be rescheduled (fixed behaviour)")
	}
}
