package server

import (
	"path/filepath"
	"strings"
	"testing"
)

// Oracle (C13) from the property statement: a digest is refused unless it is "sha256", one
// of ':' '-', and 64 hex digits; an accepted digest names blobs/sha256-<hex> directly below
// the models directory (only ':' is rewritten, to '-').
func TestGovcReplay(t *testing.T) {
	w := govcLoadWitness()
	d := w.Str("digest")
	models := t.TempDir()
	t.Setenv("OLLAMA_MODELS", models)
	ok := len(d) == 71 && d[:6] == "sha256" && (d[6] == ':' || d[6] == '-')
	for i := 7; ok && i < len(d); i++ {
		c := d[i]
		ok = c >= '0' && c <= '9' || c >= 'a' && c <= 'f' || c >= 'A' && c <= 'F'
	}
	p, err := GetBlobsPath(d)
	if d == "" {
		if err == nil && p != filepath.Join(models, "blobs") {
			t.Fatalf("REPRODUCED: GetBlobsPath(\"\") = %q", p)
		}
		return
	}
	if err == nil && !ok {
		t.Fatalf("REPRODUCED: GetBlobsPath(%q) accepted: %q", d, p)
	}
	if err != nil && ok {
		t.Fatalf("REPRODUCED: GetBlobsPath(%q) refused a well-formed digest: %v", d, err)
	}
	if err == nil {
		file := "sha256-" + d[7:]
		if p != filepath.Join(models, "blobs", file) || strings.ContainsAny(file, "/\\\x00") {
			t.Fatalf("REPRODUCED: GetBlobsPath(%q) = %q, want blobs/%s", d, p, file)
		}
	}
}
