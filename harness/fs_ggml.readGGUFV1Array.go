package ggml

import (
	"bytes"
	"encoding/binary"
	"testing"
)

func TestGovcReplay(t *testing.T) {
	w := govcLoadWitness()
	typ := uint32(w.Int("ret.fs/ggml.readGGUF.1.0"))
	n := uint32(w.Int("ret.fs/ggml.readGGUF.2.0"))
	if n > 1<<16 {
		n = 1 << 16
	}
	for _, max := range []int{-1, 1024} {
		var buf bytes.Buffer
		binary.Write(&buf, binary.LittleEndian, typ)
		binary.Write(&buf, binary.LittleEndian, n)
		buf.Write(make([]byte, 16*int(n)+64))
		llm := newGGUF(&containerGGUF{ByteOrder: binary.LittleEndian, Version: 1, maxArraySize: max})
		func() {
			defer func() {
				if r := recover(); r != nil {
					t.Fatalf("REPRODUCED: readGGUFV1Array panicked on element type %d, count %d (maxArraySize %d): %v", typ, n, max, r)
				}
			}()
			readGGUFV1Array(llm, &buf)
		}()
	}
}
