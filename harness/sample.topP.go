package sample

import "testing"

// Property-level oracle (C18): top-p keeps a non-empty prefix of the (sorted) list -
// the shortest prefix whose cumulative probability exceeds p, or everything.
func TestGovcReplay(t *testing.T) {
	_ = govcLoadWitness()
	lists := [][]float32{{1}, {0.5, 0.5}, {0.6, 0.3, 0.1}, {0.4, 0.3, 0.2, 0.1}, {0.25, 0.25, 0.25, 0.25}}
	for _, probs := range lists {
		for _, p := range []float32{0, 0.1, 0.3, 0.5, 0.65, 0.9, 0.95, 1} {
			ts := make([]token, len(probs))
			for i, v := range probs {
				ts[i] = token{id: int32(i), value: v}
			}
			func() {
				defer func() {
					if r := recover(); r != nil {
						t.Fatalf("REPRODUCED: topP(%v, %v) panics: %v", probs, p, r)
					}
				}()
				got := topP(ts, p)
				if len(got) == 0 || len(got) > len(ts) {
					t.Fatalf("REPRODUCED: topP(%v, %v) returns %d tokens", probs, p, len(got))
				}
				var sum float32
				want := len(ts)
				for i, v := range probs {
					sum += v
					if sum > p && p != 1 {
						want = i + 1
						break
					}
				}
				if len(got) != want {
					t.Fatalf("REPRODUCED: topP(%v, %v) keeps %d tokens, the smallest prefix above p has %d", probs, p, len(got), want)
				}
				for i := range got {
					if got[i].id != int32(i) {
						t.Fatalf("REPRODUCED: topP(%v, %v) is not a prefix: %v", probs, p, got)
					}
				}
			}()
		}
	}
}
