package model

import "testing"

// govcGPT2Table is openai/gpt-2 encoder.py bytes_to_unicode(): printable bytes stand for
// themselves, the others are numbered in increasing order from U+0100.
func govcGPT2Table() [256]rune {
	var tab [256]rune
	n := rune(0)
	for b := 0; b < 256; b++ {
		if (b >= '!' && b <= '~') || (b >= 0xa1 && b <= 0xac) || (b >= 0xae && b <= 0xff) {
			tab[b] = rune(b)
		} else {
			tab[b] = 0x100 + n
			n++
		}
	}
	return tab
}

// Property-level oracle (C20): decoding the token of a byte gives back that byte, for a
// vocabulary that covers every byte (one token per byte, spelled with the GPT-2 table),
// so any text's bytes survive Decode.
func TestGovcReplay(t *testing.T) {
	_ = govcLoadWitness()
	tab := govcGPT2Table()
	values := make([]string, 256)
	for b := range values {
		values[b] = string(tab[b])
	}
	bpe := BytePairEncoding{vocab: &Vocabulary{Values: values}}
	for b := 1; b < 256; b++ {
		got, err := bpe.Decode([]int32{int32(b)})
		if err != nil {
			t.Fatal(err)
		}
		if got != string([]byte{byte(b)}) {
			t.Fatalf("REPRODUCED: Decode of the token for byte 0x%02x (rune U+%04X) = %q", b, tab[b], got)
		}
	}
}
