package names

import (
	"strings"
	"testing"
)

// The model part never contains a separator the parser splits at; over-long input is refused.
func TestGovcReplay(t *testing.T) {
	w := govcLoadWitness()
	s := w.Str("s")
	n := Parse(s)
	if strings.ContainsAny(n.m, "/:") {
		t.Fatalf("REPRODUCED: Parse(%q) has model part %q", s, n.m)
	}
	if len(s) > MaxNameLength && (n.h != "" || n.n != "" || n.m != "" || n.t != "") {
		t.Fatalf("REPRODUCED: Parse of %d bytes = %#v", len(s), n)
	}
}
