package server

import (
	"os"
	"strings"
	"testing"
)

// C03 oracle: no registry response crashes the server. parseRegistryChallenge is what
// makeRequestWithRetry calls on the WWW-Authenticate header of a 401 response; it has no
// index expression of its own, the panic is getValue's (obligation server.getValue#safe.slice.1).
// Directed replay through the production entry point: the shape of the getValue witness
// (key found, fewer than two bytes after "key=") is rebuilt for the three keys the parser
// asks for. With GOVC_WITNESS pointing at a getValue witness its header length is used.
func TestGovcReplay(t *testing.T) {
	n := 0
	if os.Getenv("GOVC_WITNESS") != "" {
		w := govcLoadWitness()
		n = int(w.Int("header.len"))
		if s := w.Str("authStr"); s != "" {
			tryChallenge(t, s)
		}
	}
	if n > 1<<16 {
		n = 1 << 16
	}
	for _, tail := range []string{`realm=`, `realm="x",service=`, `realm="x",service="y",scope=`, `scope="`} {
		pad := ""
		if n > len(tail) {
			pad = strings.Repeat("x", n-len(tail)-1) + ","
		}
		tryChallenge(t, "Bearer "+pad+tail)
	}
}

func tryChallenge(t *testing.T, h string) {
	defer func() {
		if r := recover(); r != nil {
			show := h
			if len(show) > 80 {
				show = show[:30] + "..." + show[len(show)-40:]
			}
			t.Errorf("REPRODUCED: parseRegistryChallenge(%q) panicked: %v", show, r)
		}
	}()
	parseRegistryChallenge(h)
}
