package ollamarunner

import "testing"

// Property-level oracle (C07, context shift): with 0 <= numKeep < numCtx the range
// [numKeep, numKeep+discard) lies inside the inputs, after discarding it at least one
// cache entry is free, nothing is discarded while enough entries are free, and a full
// context loses half of its non-kept window (at least one entry).
func TestGovcReplay(t *testing.T) {
	w := govcLoadWitness()
	numCtx, inputLen, numKeep := int32(w.Int("(*c).numCtx")), int32(w.Int("inputLen")), int32(w.Int("numKeep"))
	if !(0 <= numKeep && numKeep < numCtx && 0 <= inputLen) {
		t.Skipf("witness outside the precondition: numCtx=%d inputLen=%d numKeep=%d", numCtx, inputLen, numKeep)
	}
	c := &InputCache{numCtx: numCtx}
	d := int64(c.ShiftDiscard(inputLen, numKeep))

	ctx, n, keep := int64(numCtx), int64(inputLen), int64(numKeep)
	half := (ctx - keep) / 2
	if half < 1 {
		half = 1
	}
	switch {
	case d < 0 || d > n:
		t.Fatalf("REPRODUCED: ShiftDiscard(%d, %d) with numCtx %d = %d, outside [0, inputLen]", n, keep, ctx, d)
	case d > 0 && keep+d > n:
		t.Fatalf("REPRODUCED: ShiftDiscard(%d, %d) with numCtx %d = %d: range [keep, keep+discard) leaves the inputs", n, keep, ctx, d)
	case n-d >= ctx:
		t.Fatalf("REPRODUCED: ShiftDiscard(%d, %d) with numCtx %d = %d: no free cache entry after the shift", n, keep, ctx, d)
	case n <= ctx-half && d != 0:
		t.Fatalf("REPRODUCED: ShiftDiscard(%d, %d) with numCtx %d = %d: discards although %d entries are free", n, keep, ctx, d, ctx-n)
	case n == ctx && d != half:
		t.Fatalf("REPRODUCED: ShiftDiscard(%d, %d) with full context %d = %d, want half of the non-kept window = %d", n, keep, ctx, d, half)
	}
}
