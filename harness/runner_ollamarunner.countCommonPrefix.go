package ollamarunner

import (
	"fmt"
	"testing"

	"github.com/ollama/ollama/model/input"
)

// Property-level oracle (C07): the result is the length of the longest common prefix of
// the two input sequences, two inputs being the same when Token and MultimodalHash agree.
func TestGovcReplay(t *testing.T) {
	w := govcLoadWitness()
	build := func(name string) []input.Input {
		n := w.Int(name + ".len")
		if n < 0 {
			n = 0
		}
		if n > 64 {
			n = 64 // elements beyond the 8 recorded ones are zero values
		}
		out := make([]input.Input, n)
		for i := range out {
			if i < 8 {
				p := fmt.Sprintf("%s[%d]", name, i)
				out[i] = input.Input{
					Token:          int32(w.Int(p + ".Token")),
					MultimodalHash: uint64(w.Int(p + ".MultimodalHash")),
					SameBatch:      int(w.Int(p + ".SameBatch")),
				}
			}
		}
		return out
	}
	a, b := build("a"), build("b")
	got := int(countCommonPrefix(a, b))

	same := func(x, y input.Input) bool { return x.Token == y.Token && x.MultimodalHash == y.MultimodalHash }
	if got < 0 || got > len(a) || got > len(b) {
		t.Fatalf("REPRODUCED: countCommonPrefix = %d outside [0, min(%d, %d)]", got, len(a), len(b))
	}
	for k := 0; k < got; k++ {
		if !same(a[k], b[k]) {
			t.Fatalf("REPRODUCED: countCommonPrefix = %d but inputs differ at %d: %+v vs %+v", got, k, a[k], b[k])
		}
	}
	if got < len(a) && got < len(b) && same(a[got], b[got]) {
		t.Fatalf("REPRODUCED: countCommonPrefix = %d but the inputs at %d are still the same (%+v)", got, got, a[got])
	}
}
