#!/bin/bash
# Copies the contract files developed under /verif/contracts into /repo as
# comment-only files behind the `verif` build tag and commits them there (hook commit).
set -e
cd /verif/contracts
changed=0
for f in $(find . -name 'verif_contracts*.go'); do
  d=$(dirname "$f"); b=$(basename "$f")
  if ! cmp -s "$f" "/repo/$d/$b"; then
    cp "$f" "/repo/$d/$b"; git -C /repo add "$d/$b"; changed=1
  fi
done
if [ $changed = 1 ]; then
  git -C /repo commit -qm "verif: contract comment files (build tag verif) for /verif/govc" 
fi
# record hook commits in MANIFEST
commits=$(git -C /repo log --format=%H --grep='^verif: contract comment files' | tac | python3 -c "import sys,json; print(json.dumps(sys.stdin.read().split()))")
python3 - "$commits" <<'PY'
import json,sys
m=json.load(open('/verif/MANIFEST.json')); m['hooks']['source_commits']=json.loads(sys.argv[1]); json.dump(m,open('/verif/MANIFEST.json','w'),indent=1)
PY
echo "synced; hook commits: $commits"
./bin/govc snapshot-locals >/dev/null 2>&1 || true   # rename-robustness snapshot of local variable names
