package main

import (
	"fmt"
	"go/types"
	"math/big"
	"strings"
)

// ---------- SMT term helpers (terms are strings) ----------

func sAnd(xs ...string) string {
	var ys []string
	for _, x := range xs {
		if x == "true" || x == "" {
			continue
		}
		if x == "false" {
			return "false"
		}
		ys = append(ys, x)
	}
	switch len(ys) {
	case 0:
		return "true"
	case 1:
		return ys[0]
	}
	return "(and " + strings.Join(ys, " ") + ")"
}

func sOr(xs ...string) string {
	var ys []string
	for _, x := range xs {
		if x == "false" || x == "" {
			continue
		}
		if x == "true" {
			return "true"
		}
		ys = append(ys, x)
	}
	switch len(ys) {
	case 0:
		return "false"
	case 1:
		return ys[0]
	}
	return "(or " + strings.Join(ys, " ") + ")"
}

func sNot(x string) string {
	switch x {
	case "true":
		return "false"
	case "false":
		return "true"
	}
	if strings.HasPrefix(x, "(not ") && balancedTail(x[5:len(x)-1]) {
		return x[5 : len(x)-1]
	}
	return "(not " + x + ")"
}

func balancedTail(s string) bool {
	d := 0
	for i := 0; i < len(s); i++ {
		switch s[i] {
		case '(':
			d++
		case ')':
			d--
			if d < 0 {
				return false
			}
			if d == 0 && i != len(s)-1 {
				return false
			}
		case ' ':
			if d == 0 {
				return false
			}
		}
	}
	return d == 0
}

func sImp(a, b string) string {
	if a == "true" {
		return b
	}
	if a == "false" || b == "true" {
		return "true"
	}
	return "(=> " + a + " " + b + ")"
}

func sIte(c, a, b string) string {
	if c == "true" {
		return a
	}
	if c == "false" {
		return b
	}
	if a == b {
		return a
	}
	return "(ite " + c + " " + a + " " + b + ")"
}

func sEq(a, b string) string {
	if a == b {
		return "true"
	}
	return "(= " + a + " " + b + ")"
}

func sApp(f string, args ...string) string {
	if len(args) == 0 {
		return f
	}
	return "(" + f + " " + strings.Join(args, " ") + ")"
}

func sInt(n int64) string {
	if n < 0 {
		return fmt.Sprintf("(- %d)", -n)
	}
	return fmt.Sprintf("%d", n)
}

func sBig(n *big.Int) string {
	if n.Sign() < 0 {
		return "(- " + new(big.Int).Neg(n).String() + ")"
	}
	return n.String()
}

func sSel(arr string, idx ...string) string {
	t := arr
	for _, i := range idx {
		t = "(select " + t + " " + i + ")"
	}
	return t
}

// sStore builds a nested store: arr[idx0][idx1]... := v
func sStore(arr string, idx []string, v string) string {
	if len(idx) == 0 {
		return v
	}
	if len(idx) == 1 {
		return "(store " + arr + " " + idx[0] + " " + v + ")"
	}
	inner := sStore("(select "+arr+" "+idx[0]+")", idx[1:], v)
	return "(store " + arr + " " + idx[0] + " " + inner + ")"
}

// ---------- type classification ----------

type Leaf struct {
	Path []int // field indices; -1 = array element step
	Sort string
	T    types.Type // go type of the leaf scalar
	Dims int        // number of array element steps on the path
}

func (l Leaf) PathKey() string {
	var sb strings.Builder
	for _, p := range l.Path {
		if p < 0 {
			sb.WriteString("/[]")
		} else {
			fmt.Fprintf(&sb, "/%d", p)
		}
	}
	return sb.String()
}

func arraySort(elem string, dims int) string {
	s := elem
	for i := 0; i < dims; i++ {
		s = "(Array Int " + s + ")"
	}
	return s
}

// slice leaves: ref, off, len, cap. pointer leaves: ref, idx.
const (
	slRef = 0
	slOff = 1
	slLen = 2
	slCap = 3
)

type typeInfo struct {
	leaves []Leaf
}

var leafCache = map[types.Type][]Leaf{}

func typeLeaves(T types.Type) []Leaf {
	if l, ok := leafCache[T]; ok {
		return l
	}
	var out []Leaf
	var walk func(t types.Type, path []int, dims int)
	add := func(sort string, t types.Type, path []int, dims int, sub ...int) {
		p := append(append([]int{}, path...), sub...)
		out = append(out, Leaf{Path: p, Sort: sort, T: t, Dims: dims})
	}
	walk = func(t types.Type, path []int, dims int) {
		switch u := t.Underlying().(type) {
		case *types.Basic:
			switch {
			case u.Info()&types.IsBoolean != 0:
				add("Bool", t, path, dims)
			case u.Info()&types.IsInteger != 0:
				add("Int", t, path, dims)
			case u.Info()&types.IsFloat != 0:
				add("F", t, path, dims)
			case u.Info()&types.IsString != 0:
				add("Int", t, path, dims)
			case u.Info()&types.IsComplex != 0:
				add("Int", t, path, dims)
			default: // unsafe.Pointer, untyped nil
				add("Int", t, path, dims)
			}
		case *types.Pointer:
			add("Int", t, path, dims, 1000)
			add("Int", t, path, dims, 1001)
		case *types.Slice:
			add("Int", t, path, dims, 1000)
			add("Int", t, path, dims, 1001)
			add("Int", t, path, dims, 1002)
			add("Int", t, path, dims, 1003)
		case *types.Map, *types.Chan, *types.Signature, *types.Interface:
			add("Int", t, path, dims)
		case *types.Struct:
			for i := 0; i < u.NumFields(); i++ {
				walk(u.Field(i).Type(), append(append([]int{}, path...), i), dims)
			}
		case *types.Array:
			walk(u.Elem(), append(append([]int{}, path...), -1), dims+1)
		case *types.Tuple:
			for i := 0; i < u.Len(); i++ {
				walk(u.At(i).Type(), append(append([]int{}, path...), i), dims)
			}
		case *types.TypeParam:
			add("Int", t, path, dims)
		default:
			add("Int", t, path, dims)
		}
	}
	walk(T, nil, 0)
	leafCache[T] = out
	return out
}

// Val is a symbolic Go value: one SMT term per leaf of its type. A leaf under k
// array steps is an SMT array of dimension k.
type Val struct {
	T types.Type
	L []string
	// For pointers: static sub-object path below the (ref, idx) element.
	Path []Step
	// For pointers: the element type the (ref, idx) pair indexes (heap root).
	Root types.Type
	// math: spec-level mathematical integer / bool with no Go type
	Math string // "int" | "bool" | ""
	// closure info
	Closure *closureInfo
	// for interface values built by MakeInterface in the function under analysis:
	// the concrete value that was boxed
	Box *Val
}

type Step struct {
	Field int    // >= 0: field index
	Index string // if Field < 0: SMT index term
}

func (v *Val) term() string {
	if len(v.L) != 1 {
		panic(fmt.Sprintf("term() on multi-leaf value of type %v (%d leaves)", v.T, len(v.L)))
	}
	return v.L[0]
}

func mathInt(t string) *Val  { return &Val{L: []string{t}, Math: "int"} }
func mathBool(t string) *Val { return &Val{L: []string{t}, Math: "bool"} }

func isInteger(t types.Type) bool {
	b, ok := t.Underlying().(*types.Basic)
	return ok && b.Info()&types.IsInteger != 0
}
func isUnsigned(t types.Type) bool {
	b, ok := t.Underlying().(*types.Basic)
	return ok && b.Info()&types.IsUnsigned != 0
}
func isString(t types.Type) bool {
	b, ok := t.Underlying().(*types.Basic)
	return ok && b.Info()&types.IsString != 0
}
func isBool(t types.Type) bool {
	b, ok := t.Underlying().(*types.Basic)
	return ok && b.Info()&types.IsBoolean != 0
}
func isFloat(t types.Type) bool {
	b, ok := t.Underlying().(*types.Basic)
	return ok && b.Info()&types.IsFloat != 0
}

func intBits(t types.Type) int {
	b, ok := t.Underlying().(*types.Basic)
	if !ok {
		return 64
	}
	switch b.Kind() {
	case types.Int8, types.Uint8:
		return 8
	case types.Int16, types.Uint16:
		return 16
	case types.Int32, types.Uint32:
		return 32
	}
	return 64
}

func intRange(t types.Type) (lo, hi *big.Int) {
	bits := uint(intBits(t))
	if isUnsigned(t) {
		hi = new(big.Int).Sub(new(big.Int).Lsh(big.NewInt(1), bits), big.NewInt(1))
		return big.NewInt(0), hi
	}
	hi = new(big.Int).Sub(new(big.Int).Lsh(big.NewInt(1), bits-1), big.NewInt(1))
	lo = new(big.Int).Neg(new(big.Int).Lsh(big.NewInt(1), bits-1))
	return lo, hi
}

func pow2(n uint) *big.Int { return new(big.Int).Lsh(big.NewInt(1), n) }

// rangeAssume returns the formula saying that term t is within the range of its
// integer type.
func intRangeFormula(t string, T types.Type) string {
	lo, hi := intRange(T)
	return "(and (<= " + sBig(lo) + " " + t + ") (<= " + t + " " + sBig(hi) + "))"
}

// typeKey is the heap-root name of a type.
func typeKey(t types.Type) string {
	t = types.Unalias(t)
	s := types.TypeString(t, func(p *types.Package) string { return p.Path() })
	s = strings.ReplaceAll(s, modulePath+"/", "")
	if len(s) > 80 {
		// long anonymous struct types: hash
		h := uint32(2166136261)
		for i := 0; i < len(s); i++ {
			h = (h ^ uint32(s[i])) * 16777619
		}
		s = fmt.Sprintf("%s~%08x", s[:40], h)
	}
	return s
}

func smtIdent(s string) string {
	// quoted symbol; | and \ cannot appear
	s = strings.ReplaceAll(s, "|", "!")
	s = strings.ReplaceAll(s, "\\", "!")
	return "|" + s + "|"
}
