package main

import (
	"fmt"
	"os"
)

func main() {
	if len(os.Args) < 2 {
		fmt.Fprintln(os.Stderr, "usage: govc dump <pkg> <func> | check <prop> [--tier quick|thorough]")
		os.Exit(2)
	}
	switch os.Args[1] {
	case "dump":
		P, err := LoadProgram([]string{os.Args[2]})
		if err != nil {
			fmt.Fprintln(os.Stderr, err)
			os.Exit(2)
		}
		if len(os.Args) < 4 {
			for k := range P.Funcs {
				fmt.Println(ShortKey(k))
			}
			return
		}
		f := P.FindFunc(os.Args[3])
		if f == nil {
			fmt.Fprintln(os.Stderr, "no such function")
			os.Exit(2)
		}
		f.WriteTo(os.Stdout)
	default:
		os.Exit(cmdMain(os.Args[1:]))
	}
}
