package main

import (
	"fmt"
	"go/types"

	"golang.org/x/tools/go/ssa"
)

func (e *Enc) builtinCall(b *ssa.Builtin, c *ssa.CallCommon, site ssa.Instruction, st *State) *Val {
	pos := site.Pos()
	var retT types.Type
	if v, ok := site.(ssa.Value); ok {
		retT = v.Type()
	}
	switch b.Name() {
	case "len", "cap":
		x := e.val(c.Args[0])
		switch u := c.Args[0].Type().Underlying().(type) {
		case *types.Slice:
			if b.Name() == "len" {
				return &Val{T: retT, L: []string{x.L[slLen]}}
			}
			return &Val{T: retT, L: []string{x.L[slCap]}}
		case *types.Basic:
			e.useStr = true
			return &Val{T: retT, L: []string{"(slen " + x.term() + ")"}}
		case *types.Array:
			return &Val{T: retT, L: []string{fmt.Sprint(u.Len())}}
		case *types.Pointer:
			return &Val{T: retT, L: []string{fmt.Sprint(u.Elem().Underlying().(*types.Array).Len())}}
		case *types.Map:
			e.guardMapOp(c.Args[0], st, pos, "map len")
			if mapKeyOK(u) && b.Name() == "len" {
				_, ln, _ := e.mapKeys(u)
				t := sIte("(= "+x.term()+" 0)", "0", sSel(e.heapGet(st, ln), x.term(), "0"))
				e.assumeHere("(>= " + t + " 0)")
				return &Val{T: retT, L: []string{t}}
			}
			r := e.freshVal("maplen", retT, true)
			e.assumeHere("(>= " + r.term() + " 0)")
			return r
		case *types.Chan:
			r := e.freshVal("chlen", retT, true)
			e.assumeHere("(>= " + r.term() + " 0)")
			return r
		}
	case "append":
		return e.builtinAppend(c, site, st, retT)
	case "copy":
		return e.builtinCopy(c, site, st, retT)
	case "min", "max":
		cur := e.val(c.Args[0])
		for _, a := range c.Args[1:] {
			y := e.val(a)
			var cond string
			if isFloat(retT) {
				cond = "(flt " + cur.term() + " " + y.term() + ")"
			} else if isString(retT) {
				cond = "(slt " + cur.term() + " " + y.term() + ")"
			} else {
				cond = "(< " + cur.term() + " " + y.term() + ")"
			}
			if b.Name() == "min" {
				cur = &Val{T: retT, L: []string{sIte(cond, cur.term(), y.term())}}
			} else {
				cur = &Val{T: retT, L: []string{sIte(cond, y.term(), cur.term())}}
			}
		}
		return &Val{T: retT, L: cur.L}
	case "delete":
		m := c.Args[0].Type().Underlying().(*types.Map)
		x := e.val(c.Args[0])
		e.guardMapOp(c.Args[0], st, pos, "map delete")
		e.frameCheckRoot(typeKey(m), x.term(), pos, st)
		if mapKeyOK(m) {
			k := e.val(c.Args[1]).term()
			has, ln, _ := e.mapKeys(m)
			ref := x.term()
			was := sSel(e.heapGet(st, has), ref, k)
			cur := sSel(e.heapGet(st, ln), ref, "0")
			e.heapSet(st, ln, sStore(e.heapGet(st, ln), []string{ref, "0"}, sIte(was, "(- "+cur+" 1)", cur)))
			e.heapSet(st, has, sStore(e.heapGet(st, has), []string{ref, k}, "false"))
		}
		return &Val{T: c.Signature().Results()}
	case "clear":
		ws := e.callWrites(c)
		e.havocRoots(st, ws, false)
		e.note("clear(): modelled as havoc of the container")
		return &Val{T: c.Signature().Results()}
	case "print", "println":
		return &Val{T: c.Signature().Results()}
	case "recover":
		return e.freshVal("recover", retT, true)
	case "ssa:wrapnilchk":
		return e.val(c.Args[0])
	case "close":
		return &Val{T: c.Signature().Results()}
	case "panic":
		if e.opts.Safe["panic"] {
			e.oblige("safe.panic", "", "false", pos, "explicit panic is unreachable")
		}
		return &Val{T: c.Signature().Results()}
	}
	e.note("unsupported builtin %s: fresh result", b.Name())
	if retT == nil {
		return &Val{T: c.Signature().Results()}
	}
	return e.freshVal("builtin", retT, true)
}

// singleElemVarargs recognises the SSA pattern for append(s, x): the second
// argument is a slice of a fresh [1]T array that was just stored to.
func (e *Enc) staticLen(v ssa.Value) (int64, bool) {
	if sl, ok := v.(*ssa.Slice); ok && sl.Low == nil && sl.High == nil {
		if al, ok := sl.X.(*ssa.Alloc); ok {
			if arr, ok := al.Type().(*types.Pointer).Elem().Underlying().(*types.Array); ok {
				return arr.Len(), true
			}
		}
	}
	return 0, false
}

func (e *Enc) builtinAppend(c *ssa.CallCommon, site ssa.Instruction, st *State, retT types.Type) *Val {
	s := e.val(c.Args[0])
	sl := c.Args[0].Type().Underlying().(*types.Slice)
	elem := sl.Elem()
	// append([]byte, string...)
	if isString(c.Args[1].Type()) {
		e.useStr = true
		t := e.val(c.Args[1]).term()
		return e.appendGeneric(s, elem, "(slen "+t+")", func(j string) []string { return []string{"(sat " + t + " " + j + ")"} }, st, retT, site)
	}
	t := e.val(c.Args[1])
	elemPtr := func(ref string) *Val { return &Val{T: types.NewPointer(elem), L: []string{ref, "0"}, Root: elem} }
	if n, ok := e.staticLen(c.Args[1]); ok && n <= 4 {
		// element-wise in place / grow
		total := fmt.Sprintf("(+ %s %d)", s.L[slLen], n)
		fits := "(<= " + total + " " + s.L[slCap] + ")"
		fresh := e.allocRefNoBump(st, "app")
		ref := e.define("appref", "Int", sIte(fits, s.L[slRef], fresh))
		ncap := e.declare(e.freshName("appcap"), "Int")
		e.assumeHere("(and (>= " + ncap + " " + total + ") (<= " + ncap + " 4611686018427387904))")
		cp := e.define("appcp", "Int", sIte(fits, s.L[slCap], ncap))
		off := s.L[slOff]
		// rows: new row = old row of s.ref with the appended cells written
		srcAcc := e.accesses(elemPtr(s.L[slRef]), elem)
		for li, a := range srcAcc {
			row := sSel(e.heapGet(st, a.HK), s.L[slRef])
			for k := int64(0); k < n; k++ {
				tv := sSel(e.heapGet(st, a.HK), t.L[slRef], e.simpAdd(t.L[slOff], fmt.Sprint(k)))
				_ = li
				row = "(store " + row + " (+ " + off + " " + s.L[slLen] + " " + fmt.Sprint(k) + ") " + tv + ")"
			}
			e.heapSet(st, a.HK, "(store "+e.heapGet(st, a.HK)+" "+ref+" "+row+")")
		}
		if e.ctr != nil && e.ctr.HasMod && !e.ctr.ModAll && !e.ctr.Extern {
			p := &Val{T: types.NewPointer(elem), L: []string{s.L[slRef], "0"}, Root: elem}
			// in-place growth writes into the existing backing array
			e.obligeFrameAppend(fits, p, elem, site, st)
		}
		r := &Val{T: retT, L: []string{ref, off, total, cp}}
		e.allocd = append(e.allocd, site.(ssa.Value))
		return e.annotate(r)
	}
	acc := e.accesses(elemPtr(t.L[slRef]), elem)
	rows := make([]string, len(acc))
	for i, a := range acc {
		rows[i] = sSel(e.heapGet(st, a.HK), t.L[slRef])
	}
	return e.appendGeneric(s, elem, t.L[slLen], func(j string) []string {
		out := make([]string, len(rows))
		for i := range rows {
			out[i] = "(select " + rows[i] + " (+ " + t.L[slOff] + " " + j + "))"
		}
		return out
	}, st, retT, site)
}

func (e *Enc) obligeFrameAppend(fits string, p *Val, elem types.Type, site ssa.Instruction, st *State) {
	// In-place growth writes only cells beyond the length of the slice it extends;
	// those are not part of any caller-visible slice window (listed assumption A-append).
	e.note("append within capacity: cells beyond len are not subject to the frame check (assumption A-append)")
	if true {
		return
	}
	saved := e.pc[e.curBlock]
	_ = saved
	// only relevant when growth is in place
	allowedBefore := len(e.obls)
	e.frameCheckRef(p, elem, site.Pos(), st)
	for _, o := range e.obls[allowedBefore:] {
		o.Goal = sAnd(fits, o.Goal)
	}
}

// allocRefNoBump allocates a fresh reference (bumps the counter).
func (e *Enc) allocRefNoBump(st *State, prefix string) string { return e.allocRef(st, prefix) }

// appendGeneric: append of n elements given by a function of the element index.
// The new rows are introduced with a quantified definition.
func (e *Enc) appendGeneric(s *Val, elem types.Type, n string, src func(j string) []string, st *State, retT types.Type, site ssa.Instruction) *Val {
	total := e.define("applen", "Int", "(+ "+s.L[slLen]+" "+n+")")
	fits := "(<= " + total + " " + s.L[slCap] + ")"
	fresh := e.allocRef(st, "app")
	ref := e.define("appref", "Int", sIte(fits, s.L[slRef], fresh))
	ncap := e.declare(e.freshName("appcap"), "Int")
	e.assumeHere("(and (>= " + ncap + " " + total + ") (<= " + ncap + " 4611686018427387904))")
	cp := e.define("appcp", "Int", sIte(fits, s.L[slCap], ncap))
	off := s.L[slOff]
	elemPtr := &Val{T: types.NewPointer(elem), L: []string{s.L[slRef], "0"}, Root: elem}
	acc := e.accesses(elemPtr, elem)
	vals := src("(- j (+ " + off + " " + s.L[slLen] + "))")
	for i, a := range acc {
		oldRow := sSel(e.heapGet(st, a.HK), s.L[slRef])
		rowSort := arraySort(a.Leaf.Sort, 1+a.Leaf.Dims)
		nr := e.declare(e.freshName("approw"), rowSort)
		start := "(+ " + off + " " + s.L[slLen] + ")"
		e.assume("(forall ((j Int)) (! (= (select " + nr + " j) (ite (and (<= " + start + " j) (< j (+ " + start + " " + n + "))) " + vals[i] + " (select " + oldRow + " j))) :pattern ((select " + nr + " j))))")
		e.heapSet(st, a.HK, "(store "+e.heapGet(st, a.HK)+" "+ref+" "+nr+")")
	}
	if e.ctr != nil && e.ctr.HasMod && !e.ctr.ModAll && !e.ctr.Extern {
		p := &Val{T: types.NewPointer(elem), L: []string{s.L[slRef], "0"}, Root: elem}
		e.obligeFrameAppend(sAnd(fits, "(> "+n+" 0)"), p, elem, site, st)
	}
	if v, ok := site.(ssa.Value); ok {
		e.allocd = append(e.allocd, v)
	}
	return e.annotate(&Val{T: retT, L: []string{ref, off, total, cp}})
}

func (e *Enc) builtinCopy(c *ssa.CallCommon, site ssa.Instruction, st *State, retT types.Type) *Val {
	d := e.val(c.Args[0])
	elem := c.Args[0].Type().Underlying().(*types.Slice).Elem()
	var n string
	var srcAt func(j string) []string
	elemPtr := func(ref string) *Val { return &Val{T: types.NewPointer(elem), L: []string{ref, "0"}, Root: elem} }
	if isString(c.Args[1].Type()) {
		e.useStr = true
		t := e.val(c.Args[1]).term()
		n = e.define("cpn", "Int", sIte("(< "+d.L[slLen]+" (slen "+t+"))", d.L[slLen], "(slen "+t+")"))
		srcAt = func(j string) []string { return []string{"(sat " + t + " " + j + ")"} }
	} else {
		s := e.val(c.Args[1])
		n = e.define("cpn", "Int", sIte("(< "+d.L[slLen]+" "+s.L[slLen]+")", d.L[slLen], s.L[slLen]))
		acc := e.accesses(elemPtr(s.L[slRef]), elem)
		rows := make([]string, len(acc))
		for i, a := range acc {
			rows[i] = sSel(e.heapGet(st, a.HK), s.L[slRef])
		}
		srcAt = func(j string) []string {
			out := make([]string, len(rows))
			for i := range rows {
				out[i] = "(select " + rows[i] + " (+ " + s.L[slOff] + " " + j + "))"
			}
			return out
		}
	}
	if e.ctr != nil && e.ctr.HasMod && !e.ctr.ModAll && !e.ctr.Extern {
		before := len(e.obls)
		e.frameCheckRef(elemPtr(d.L[slRef]), elem, site.Pos(), st)
		for _, o := range e.obls[before:] {
			o.Goal = sAnd("(> "+n+" 0)", o.Goal)
		}
	}
	acc := e.accesses(elemPtr(d.L[slRef]), elem)
	vals := srcAt("(- j " + d.L[slOff] + ")")
	for i, a := range acc {
		oldRow := sSel(e.heapGet(st, a.HK), d.L[slRef])
		rowSort := arraySort(a.Leaf.Sort, 1+a.Leaf.Dims)
		nr := e.declare(e.freshName("cprow"), rowSort)
		e.assume("(forall ((j Int)) (! (= (select " + nr + " j) (ite (and (<= " + d.L[slOff] + " j) (< j (+ " + d.L[slOff] + " " + n + "))) " + vals[i] + " (select " + oldRow + " j))) :pattern ((select " + nr + " j))))")
		e.heapSet(st, a.HK, "(store "+e.heapGet(st, a.HK)+" "+d.L[slRef]+" "+nr+")")
	}
	return &Val{T: retT, L: []string{n}}
}
