package main

import (
	"fmt"
	"go/token"
	"go/types"
	"strings"

	"golang.org/x/tools/go/ssa"
)

// calleeKey names the callee of a call for contract lookup.
func (e *Enc) calleeKey(c *ssa.CallCommon) (string, *ssa.Function) {
	if c.IsInvoke() {
		return ifaceMethodKey(c.Value.Type(), c.Method.Name()), nil
	}
	if fn := c.StaticCallee(); fn != nil {
		if o := fn.Origin(); o != nil {
			return FuncKey(o), fn
		}
		return FuncKey(fn), fn
	}
	// call through a package-level function variable: named after the variable
	if u, ok := c.Value.(*ssa.UnOp); ok {
		if g, ok := u.X.(*ssa.Global); ok && g.Pkg != nil {
			return g.Pkg.Pkg.Path() + "." + g.Name(), nil
		}
	}
	// call through a function-typed struct field: keyed by the field, pkg.(T).field
	if u, ok := c.Value.(*ssa.UnOp); ok {
		if fa, ok := u.X.(*ssa.FieldAddr); ok {
			if pt, ok := fa.X.Type().Underlying().(*types.Pointer); ok {
				if nt, ok := types.Unalias(pt.Elem()).(*types.Named); ok && nt.Obj().Pkg() != nil {
					if stt, ok := nt.Underlying().(*types.Struct); ok {
						return nt.Obj().Pkg().Path() + ".(" + nt.Obj().Name() + ")." + stt.Field(fa.Field).Name(), nil
					}
				}
			}
		}
	}
	// call through a value of a named function type: keyed by the type, pkg.(TypeName)
	if _, isClosure := c.Value.(*ssa.MakeClosure); !isClosure {
		if n, ok := types.Unalias(c.Value.Type()).(*types.Named); ok {
			if _, isSig := n.Underlying().(*types.Signature); isSig && n.Obj().Pkg() != nil {
				return n.Obj().Pkg().Path() + ".(" + n.Obj().Name() + ")", nil
			}
		}
	}
	return "", nil
}

func ifaceMethodKey(t types.Type, method string) string {
	t = types.Unalias(t)
	if n, ok := t.(*types.Named); ok {
		pkg := ""
		if n.Obj().Pkg() != nil {
			pkg = n.Obj().Pkg().Path() + "."
		}
		return pkg + "(" + n.Obj().Name() + ")." + method
	}
	return "(interface)." + method
}

var purePkgs = map[string]string{
	"strings": "*", "strconv": "*", "unicode": "*", "unicode/utf8": "*", "unicode/utf16": "*", "math": "*", "math/bits": "*",
	"errors": "*", "log/slog": "*", "log": "*", "path": "*", "cmp": "*", "runtime": "*", "reflect": "DeepEqual,TypeOf,ValueOf",
	"fmt":           "Sprintf,Sprint,Sprintln,Errorf",
	"path/filepath": "Join,Clean,Base,Dir,Ext,Rel,Abs,IsAbs,ToSlash,FromSlash,Split,SplitList,VolumeName,Match,IsLocal",
	"bytes":         "Equal,Compare,Contains,ContainsAny,ContainsRune,Count,HasPrefix,HasSuffix,Index,IndexAny,IndexByte,IndexRune,LastIndex,LastIndexByte,Repeat,TrimSpace,Trim,TrimPrefix,TrimSuffix,TrimLeft,TrimRight,Split,Join,Fields,ToLower,ToUpper,EqualFold,Clone,NewReader,NewBuffer,NewBufferString,Cut",
	"slices":        "Contains,Index,Equal,Max,Min,BinarySearch,Clone,Compare,IsSorted",
	"sort":          "SearchInts,SearchStrings",
	"time":          "*", "os": "Getenv,LookupEnv,Getpid,Hostname,Environ,IsNotExist,IsExist,IsPermission",
	"encoding/hex": "EncodeToString,DecodeString,EncodedLen,DecodedLen",
	"encoding/binary": "(littleEndian).Uint16,(littleEndian).Uint32,(littleEndian).Uint64,(bigEndian).Uint16,(bigEndian).Uint32,(bigEndian).Uint64,Size",
	"maps":         "Keys,Values,Clone",
	"context":      "*", "sync/atomic": "*", "hash/maphash": "*", "crypto/sha256": "Sum256,New",
	"encoding/base64": "*", "net/url": "*", "regexp": "*", "io": "NopCloser,LimitReader,MultiReader,NewSectionReader,TeeReader,MultiWriter,NewOffsetWriter",
	"github.com/ollama/ollama/format":    "*",
	"github.com/ollama/ollama/envconfig": "*",
	"github.com/ollama/ollama/version":   "*",
	"golang.org/x/text/unicode/norm":     "*",
}

func isPureExtern(key string) bool {
	if key == "" {
		return false
	}
	// split "pkg/path.Func" or "pkg/path.(*T).M"
	pkg, name := key, ""
	if i := strings.Index(key, ".("); i >= 0 {
		pkg, name = key[:i], key[i+1:]
	} else if i := strings.LastIndex(key, "."); i >= 0 {
		pkg, name = key[:i], key[i+1:]
	}
	allow, ok := purePkgs[pkg]
	if !ok {
		// (error).Error and fmt.Stringer-style calls
		if key == "(error).Error" || strings.HasSuffix(key, ".String") || strings.HasSuffix(key, ").Error") {
			return true
		}
		return false
	}
	if allow == "*" {
		// receivers that mutate: strings.Builder, time.Timer, context cancel funcs are
		// objects owned by the caller; treat methods on pointer receivers of these
		// packages as touching only that receiver (not tracked).
		return true
	}
	for _, a := range strings.Split(allow, ",") {
		if a == name {
			return true
		}
	}
	return false
}

func isLockOp(key string) bool {
	switch key {
	case "sync.(*Mutex).Lock", "sync.(*Mutex).Unlock", "sync.(*RWMutex).Lock", "sync.(*RWMutex).Unlock",
		"sync.(*RWMutex).RLock", "sync.(*RWMutex).RUnlock", "sync.(*Mutex).TryLock", "sync.(*RWMutex).TryLock", "sync.(*RWMutex).TryRLock":
		return true
	}
	return false
}

func (e *Enc) execCall(ins *ssa.Call, st *State) {
	e.vals[ins] = e.callCommon(&ins.Call, ins, st, false)
}

func (e *Enc) callCommon(c *ssa.CallCommon, site ssa.Instruction, st *State, deferred bool) *Val {
	pos := site.Pos()
	resT := c.Signature().Results()
	var retT types.Type = resT
	if resT.Len() == 1 {
		retT = resT.At(0).Type()
	}
	if b, ok := c.Value.(*ssa.Builtin); ok {
		if !deferred && e.ctr != nil && len(e.ctr.AssertAts) > 0 {
			// operands of the builtin are arg0, arg1, ... (append(s, x): arg1 is the slice
			// of appended elements, arg1[0] the first one)
			ba := map[string]*Val{}
			for i, a := range c.Args {
				if v, ok := e.vals[a]; ok {
					ba[fmt.Sprintf("arg%d", i)] = v
				} else if _, isConst := a.(*ssa.Const); isConst {
					ba[fmt.Sprintf("arg%d", i)] = e.val(a)
				}
			}
			e.fireAssertAt("call", b.Name(), pos, st, ba, "true")
		}
		return e.builtinCall(b, c, site, st)
	}
	e.curDeferred = deferred
	e.fireAssertAtCall(c, pos, st, true)
	e.curDeferred = false
	key, fn := e.calleeKey(c)
	var args []*Val
	if c.IsInvoke() {
		args = append(args, e.val(c.Value))
	}
	for _, a := range c.Args {
		args = append(args, e.val(a))
	}
	var cinfo *closureInfo
	if key == "" {
		fv := e.val(c.Value)
		if fv.Closure != nil {
			cinfo = fv.Closure
			fn = cinfo.Fn
			key = FuncKey(fn)
		}
	} else if mc, ok := c.Value.(*ssa.MakeClosure); ok {
		cinfo = e.val(mc).Closure
	}
	e.callOrd[key]++
	if isLockOp(key) {
		r := e.lockOp(key, c, args, pos, st, retT)
		e.fireAssertAtCallAfter(c, pos, st, r)
		return r
	}
	ctr := e.DB.Funcs[key]
	if ctr != nil {
		ctr.UsedExtern = true
		r := e.applyContract(ctr, key, fn, c, args, cinfo, st, pos, retT)
		e.fireAssertAtCallAfter(c, pos, st, r)
		return r
	}
	// no contract
	for i, a := range args {
		if len(a.Path) > 0 && !isPureExtern(key) {
			e.note("interior pointer passed as argument %d to %s without contract: callee writes through it are havocked by root type", i, ShortKey(key))
		}
	}
	if !isPureExtern(key) {
		for _, a := range args {
			e.markPublished(a)
		}
		ws := e.callWrites(c)
		e.havocRoots(st, ws, true)
		na := e.declare(e.freshName("al_call"), "Int")
		e.assume("(>= " + na + " " + st.alloc + ")")
		st.alloc = na
		if e.ctr != nil && e.ctr.HasMod && !e.ctr.ModAll && e.ctr.Opts["frame"] != "assume" && (ws.all || len(ws.roots) > 0) {
			e.oblige("frame", "", "false", pos, "call to "+ShortKey(key)+" without contract inside a function with a modifies clause")
		}
	}
	if retT == nil || resT.Len() == 0 {
		e.fireAssertAtCallAfter(c, pos, st, nil)
		return &Val{T: resT}
	}
	r := e.freshVal("ret_"+sanitize(lastName(key)), retT, false)
	e.assumeHere(e.typeInvFormula(st, r))
	e.recordRet(ShortKey(key), e.callOrd[key], r)
	e.fireAssertAtCallAfter(c, pos, st, r)
	return r
}

// recordRet keeps scalar call results as witness terms, so a counterexample says
// which values the callees returned (label ret.<callee>.<n-th call>[.leaf]).
func (e *Enc) recordRet(short string, nth int, r *Val) {
	if r == nil || r.T == nil || len(e.retWit) > 300 {
		return
	}
	lv := typeLeaves(r.T)
	for i, l := range r.L {
		if i >= len(lv) || lv[i].Dims > 0 || lv[i].Sort == "F" {
			continue
		}
		label := fmt.Sprintf("ret.%s.%d", short, nth)
		if len(r.L) > 1 {
			label += fmt.Sprintf(".%d", i)
		}
		e.retWit = append(e.retWit, WitnessTerm{label, l})
	}
}

func lastName(key string) string {
	if i := strings.LastIndex(key, "."); i >= 0 {
		return key[i+1:]
	}
	return key
}

// applyContract: assert requires, havoc modifies, assume ensures.
func (e *Enc) applyContract(ctr *Contract, key string, fn *ssa.Function, c *ssa.CallCommon, args []*Val, cinfo *closureInfo, st *State, pos token.Pos, retT types.Type) *Val {
	env := map[string]envEntry{}
	sig := c.Signature()
	names := []string{}
	if c.IsInvoke() {
		names = append(names, "this")
	} else if sig.Recv() != nil {
		n := sig.Recv().Name()
		if n == "" || n == "_" {
			n = "this"
		}
		names = append(names, n)
	} else if fn != nil && fn.Signature.Recv() != nil {
		n := fn.Signature.Recv().Name()
		if n == "" || n == "_" {
			n = "this"
		}
		names = append(names, n)
	}
	for i := 0; i < sig.Params().Len(); i++ {
		n := sig.Params().At(i).Name()
		if n == "" || n == "_" {
			n = fmt.Sprintf("arg%d", i)
		}
		names = append(names, n)
	}
	if fn != nil && len(fn.Params) == len(args) {
		names = names[:0]
		for _, p := range fn.Params {
			names = append(names, p.Name())
		}
	}
	for i, a := range args {
		if i < len(names) {
			env[names[i]] = envEntry{V: a}
		}
		env[fmt.Sprintf("arg%d", i)] = envEntry{V: a}
	}
	if len(args) > 0 {
		env["this"] = envEntry{V: args[0]}
	}
	if cinfo != nil && fn != nil {
		for i, fv := range fn.FreeVars {
			if i < len(cinfo.Bindings) {
				_, isPtr := fv.Type().Underlying().(*types.Pointer)
				env[fv.Name()] = envEntry{V: cinfo.Bindings[i], IsAddr: isPtr}
			}
		}
	}
	short := ShortKey(key)
	nth := e.callOrd[key]
	for i, rq := range ctr.Requires {
		ctx := &specCtx{env: env, st: st, old: st, pkg: ctr.Pkg}
		f := e.evalBoolCtx(rq, ctx)
		e.oblige("pre", fmt.Sprintf("pre@%s.%d#%d", short, nth, i+1), f, pos, "precondition of "+short+": "+rq.Src)
	}
	old := st.clone()
	// frame
	if !ctr.Pure {
		if ctr.HasMod && !ctr.ModAll {
			for _, m := range ctr.Modifies {
				e.havocDesignator(m, env, st, old, ctr.Pkg)
			}
			e.frameCheckCall(ctr, env, old, pos)
		} else if ctr.ModAll {
			e.havocAll(st, "modifies *")
		} else {
			ws := e.callWrites(c)
			e.havocRoots(st, ws, true)
		}
		na := e.declare(e.freshName("al_call"), "Int")
		e.assume("(>= " + na + " " + st.alloc + ")")
		st.alloc = na
	}
	var r *Val
	if sig.Results().Len() == 0 {
		r = &Val{T: sig.Results()}
	} else if ctr.Pure {
		// deterministic: the same function of argument values and the heap roots read
		r = e.pureApp(e.pureName(ctr, key), e.pureArgs(ctr, args, st), retT)
		e.assumeHere(e.typeInvFormula(st, r))
	} else {
		r = e.freshVal("ret_"+sanitize(lastName(key)), retT, false)
		e.assumeHere(e.typeInvFormula(st, r))
	}
	e.recordRet(short, nth, r)
	// named results of the callee are usable in its ensures
	if rs := sig.Results(); rs.Len() > 0 && r != nil && len(r.L) > 0 {
		for i := 0; i < rs.Len(); i++ {
			n := rs.At(i).Name()
			if fn != nil && fn.Signature.Results().Len() == rs.Len() && fn.Signature.Results().At(i).Name() != "" {
				n = fn.Signature.Results().At(i).Name()
			}
			if n == "" || n == "_" {
				continue
			}
			if _, clash := env[n]; clash {
				continue
			}
			if rs.Len() == 1 {
				env[n] = envEntry{V: r}
			} else {
				env[n] = envEntry{V: e.tupleElem(r, i)}
			}
		}
	}
	for _, en := range ctr.Ensures {
		ctx := &specCtx{env: env, st: st, old: old, result: r, pkg: ctr.Pkg, resSig: sig.Results()}
		f := e.evalBoolCtx(en, ctx)
		e.assumeHere(f)
	}
	return r
}

func (e *Enc) pureName(ctr *Contract, key string) string { return ShortKey(key) }

// pureArgs: argument values plus version tokens of the heap roots the function reads.
func (e *Enc) pureArgs(ctr *Contract, args []*Val, st *State) []*Val {
	out := append([]*Val{}, args...)
	if ctr.HasReads {
		for _, r := range ctr.Reads {
			if r == "none" {
				continue
			}
			out = append(out, mathInt(e.verToken(st, r)))
		}
		return out
	}
	g := st.gver
	if g == "" {
		g = "0"
	}
	return append(out, mathInt(g))
}

// havocDesignator: forget the content of the designated location(s).
func (e *Enc) havocDesignator(m Clause, env map[string]envEntry, st, old *State, pkg string) {
	ctx := &specCtx{env: env, st: old, old: old, pkg: pkg}
	d := e.evalDesignator(m.E, ctx)
	if d == nil {
		e.fail("cannot interpret modifies designator %q", m.Src)
	}
	switch d.kind {
	case "all":
		e.havocAll(st, "modifies through an interface of unknown dynamic type")
	case "none":
	case "loc":
		for _, a := range e.accesses(d.ptr, d.T) {
			fresh := e.declare(e.freshName("mod"), arraySort(a.Leaf.Sort, a.Leaf.Dims))
			e.heapSet(st, a.HK, sStore(e.heapGet(st, a.HK), a.Idx, fresh))
		}
		if d.ghosts {
			for k, hk := range e.hkeys {
				if strings.HasPrefix(k, typeKey(types.Typ[types.UnsafePointer])+"/ghost_") {
					fresh := e.declare(e.freshName("modg"), "Int")
					e.heapSet(st, hk, sStore(e.heapGet(st, hk), []string{d.ptr.L[0], d.ptr.L[1]}, fresh))
				}
			}
		}
	case "row":
		// all elements of a slice: replace the backing row
		elemPtr := &Val{T: types.NewPointer(d.T), L: []string{d.slice.L[slRef], "0"}, Root: d.T}
		for _, a := range e.accesses(elemPtr, d.T) {
			fresh := e.declare(e.freshName("modrow"), arraySort(a.Leaf.Sort, 1+a.Leaf.Dims))
			// a nil slice has no cells: nothing is written through it
			row := sIte("(= "+d.slice.L[slRef]+" 0)", sSel(e.heapGet(st, a.HK), d.slice.L[slRef]), fresh)
			e.heapSet(st, a.HK, "(store "+e.heapGet(st, a.HK)+" "+d.slice.L[slRef]+" "+row+")")
		}
	case "anyrow":
		// every array of this element type: replace the whole heap component
		elemPtr := &Val{T: types.NewPointer(d.T), L: []string{"0", "0"}, Root: d.T}
		for _, a := range e.accesses(elemPtr, d.T) {
			e.heapSet(st, a.HK, e.declare(e.freshName("modany"), a.HK.Sort))
		}
	case "map":
		mt := d.T.Underlying().(*types.Map)
		if mapKeyOK(mt) {
			has, ln, vals := e.mapKeys(mt)
			for _, hk := range append([]*heapKey{has, ln}, vals...) {
				fresh := e.declare(e.freshName("modmap"), arraySort(hk.Leaf.Sort, 1))
				e.heapSet(st, hk, "(store "+e.heapGet(st, hk)+" "+d.ref+" "+fresh+")")
			}
		}
	case "ghostarr":
		fresh := e.declare(e.freshName("modga"), "(Array Int Int)")
		e.heapSet(st, d.hk, sStore(e.heapGet(st, d.hk), d.idx, fresh))
	case "ghostloc":
		fresh := e.declare(e.freshName("modg"), "Int")
		e.heapSet(st, d.hk, sStore(e.heapGet(st, d.hk), d.idx, fresh))
	case "ghost":
		sortName := "Int"
		st.ghost[d.ghost] = e.declare(e.freshName("gh"), sortName)
	}
}

type designator struct {
	kind  string // loc | row | map | ghost
	ptr   *Val
	T     types.Type
	slice *Val
	ref   string
	ghost string
	hk     *heapKey
	idx    []string
	ghosts bool // also forget the ghost fields of the object
}

// ---------- frame checking (functions that declare modifies) ----------

func (e *Enc) frameCheckStore(addr *Val, ins *ssa.Store, st *State) {
	if e.ctr == nil || !e.ctr.HasMod || e.ctr.ModAll || e.ctr.Extern || e.ctr.Opts["frame"] == "assume" {
		return
	}
	e.frameCheckRef(addr, ins.Val.Type(), ins.Pos(), st)
}

func (e *Enc) frameCheckRoot(root string, ref string, pos token.Pos, st *State) {
	if e.ctr == nil || !e.ctr.HasMod || e.ctr.ModAll || e.ctr.Extern || e.ctr.Opts["frame"] == "assume" {
		return
	}
	allowed := []string{"(> " + ref + " alloc0)"}
	env := e.paramEnv()
	for _, m := range e.ctr.Modifies {
		d := e.evalDesignator(m.E, &specCtx{env: env, st: e.entry, old: e.entry, pkg: e.ctr.Pkg})
		if d != nil && d.kind == "map" && typeKey(d.T.Underlying()) == root {
			allowed = append(allowed, "(= "+ref+" "+d.ref+")")
		}
	}
	e.oblige("frame", "", sOr(allowed...), pos, "map written is fresh or listed in modifies")
}

func (e *Enc) frameCheckRef(addr *Val, T types.Type, pos token.Pos, st *State) {
	// allowed if the object was allocated by this call (or there is no object: nil slice)
	allowed := []string{"(> " + addr.L[0] + " alloc0)"}
	if e.frameNilOK {
		allowed = append(allowed, "(= "+addr.L[0]+" 0)")
	}
	env := e.paramEnv()
	accs := e.accesses(addr, T)
	for _, m := range e.ctr.Modifies {
		d := e.evalDesignator(m.E, &specCtx{env: env, st: e.entry, old: e.entry, pkg: e.ctr.Pkg})
		if d == nil {
			continue
		}
		switch d.kind {
		case "loc":
			dacc := e.accesses(d.ptr, d.T)
			// every written leaf must be among the designated leaves at the same indices
			covered := len(accs) > 0
			var conds []string
			for _, a := range accs {
				found := false
				for _, b := range dacc {
					if a.HK.Key == b.HK.Key && len(a.Idx) == len(b.Idx) {
						found = true
						var eqs []string
						for i := range a.Idx {
							eqs = append(eqs, sEq(a.Idx[i], b.Idx[i]))
						}
						conds = append(conds, sAnd(eqs...))
						break
					}
					if a.HK.Key == b.HK.Key && len(b.Idx) == 1 && len(a.Idx) == 2 {
						// element of a designated embedded array
						found = true
						conds = append(conds, sEq(a.Idx[0], b.Idx[0]))
						break
					}
				}
				if !found {
					covered = false
					break
				}
			}
			if covered {
				allowed = append(allowed, sAnd(conds...))
			}
		case "row":
			elemPtr := &Val{T: types.NewPointer(d.T), L: []string{d.slice.L[slRef], "0"}, Root: d.T}
			dacc := e.accesses(elemPtr, d.T)
			covered := len(accs) > 0
			for _, a := range accs {
				found := false
				for _, b := range dacc {
					if a.HK.Key == b.HK.Key {
						found = true
					}
				}
				if !found {
					covered = false
				}
			}
			if covered {
				allowed = append(allowed, sEq(addr.L[0], d.slice.L[slRef]))
			}
		case "anyrow":
			elemPtr := &Val{T: types.NewPointer(d.T), L: []string{"0", "0"}, Root: d.T}
			dacc := e.accesses(elemPtr, d.T)
			covered := len(accs) > 0
			for _, a := range accs {
				found := false
				for _, b := range dacc {
					if a.HK.Key == b.HK.Key {
						found = true
					}
				}
				if !found {
					covered = false
				}
			}
			if covered {
				allowed = append(allowed, "true")
			}
		}
	}
	e.oblige("frame", "", sOr(allowed...), pos, "store target is fresh or listed in modifies")
}

// frameCheckCall: inside a function with a modifies clause, a callee's modifies set
// must be covered. Conservative: each callee designator must syntactically denote a
// location allowed for this function (checked through the same machinery by
// evaluating the designator to locations).
func (e *Enc) frameCheckCall(callee *Contract, env map[string]envEntry, old *State, pos token.Pos) {
	if e.ctr == nil || !e.ctr.HasMod || e.ctr.ModAll || e.ctr.Extern || e.ctr.Opts["frame"] == "assume" {
		return
	}
	for _, m := range callee.Modifies {
		d := e.evalDesignator(m.E, &specCtx{env: env, st: old, old: old, pkg: callee.Pkg})
		if d == nil {
			continue
		}
		switch d.kind {
		case "loc":
			e.frameCheckRef(d.ptr, d.T, pos, old)
		case "row":
			p := &Val{T: types.NewPointer(d.T), L: []string{d.slice.L[slRef], d.slice.L[slOff]}, Root: d.T}
			e.frameNilOK = true
			e.frameCheckRef(p, d.T, pos, old)
			e.frameNilOK = false
		case "map":
			e.frameCheckRoot(typeKey(d.T.Underlying()), d.ref, pos, old)
		case "anyrow":
			ok := false
			for _, mm := range e.ctr.Modifies {
				dd := e.evalDesignator(mm.E, &specCtx{env: e.paramEnv(), st: e.entry, old: e.entry, pkg: e.ctr.Pkg})
				if dd != nil && dd.kind == "anyrow" && typeKey(dd.T) == typeKey(d.T) {
					ok = true
				}
			}
			if !ok {
				e.oblige("frame", "", "false", pos, "callee modifies anyrow("+typeKey(d.T)+"), which this function's modifies clause does not list")
			}
		}
	}
}

// ---------- assert-at ----------

func (e *Enc) fireAssertAtCall(c *ssa.CallCommon, pos token.Pos, st *State, before bool) {
	if e.ctr == nil || len(e.ctr.AssertAts) == 0 {
		return
	}
	key, _ := e.calleeKey(c)
	if key == "" {
		if fv, ok := e.vals[c.Value]; ok && fv.Closure != nil {
			key = FuncKey(fv.Closure.Fn)
		}
	}
	extra := map[string]*Val{}
	i := 0
	if c.IsInvoke() {
		extra["recv"] = e.val(c.Value)
		extra["arg0"] = extra["recv"]
		i = 1
	}
	for _, a := range c.Args {
		extra[fmt.Sprintf("arg%d", i)] = e.val(a)
		i++
	}
	e.fireAssertAt("call", ShortKey(key), pos, st, extra, "true")
}

func (e *Enc) callSiteExtras(c *ssa.CallCommon) (string, map[string]*Val) {
	key, _ := e.calleeKey(c)
	if key == "" {
		if fv, ok := e.vals[c.Value]; ok && fv.Closure != nil {
			key = FuncKey(fv.Closure.Fn)
		}
	}
	extra := map[string]*Val{}
	i := 0
	if c.IsInvoke() {
		extra["recv"] = e.val(c.Value)
		extra["arg0"] = extra["recv"]
		i = 1
	}
	for _, a := range c.Args {
		extra[fmt.Sprintf("arg%d", i)] = e.val(a)
		i++
	}
	return ShortKey(key), extra
}

func (e *Enc) fireAssertAtCallAfter(c *ssa.CallCommon, pos token.Pos, st *State, r *Val) {
	if e.ctr == nil || (len(e.ctr.AssertAts) == 0 && len(e.ctr.GhostAts) == 0) {
		return
	}
	name, extra := e.callSiteExtras(c)
	if r != nil && r.T != nil && len(r.L) > 0 {
		extra["result"] = r
	}
	e.fireAt("call", name, false, pos, st, extra, "true")
}

func (e *Enc) fireAssertAt(kind, name string, pos token.Pos, st *State, extra map[string]*Val, cond string) {
	e.fireAt(kind, name, true, pos, st, extra, cond)
}

// fireAt runs the assert-at / assume-at / ghost-at clauses attached to a site.
func (e *Enc) fireAt(kind, name string, before bool, pos token.Pos, st *State, extra map[string]*Val, cond string) {
	if e.ctr == nil {
		return
	}
	mkctx := func() *specCtx {
		var ctx *specCtx
		if e.curBlock != nil {
			ctx = e.ctxAt(e.curBlock, e.curInstrIndex()+1, st)
		} else {
			ctx = &specCtx{env: e.paramEnv(), st: st, old: e.entry, pkg: e.ctr.Pkg}
		}
		for k, v := range extra {
			if k == "result" {
				ctx.result = v
				continue
			}
			ctx.env[k] = envEntry{V: v}
		}
		return ctx
	}
	when := "b"
	if !before {
		when = "a"
	}
	for i := range e.ctr.AssertAts {
		aa := &e.ctr.AssertAts[i]
		if aa.SelKind != kind || aa.Before != before {
			continue
		}
		if aa.Callee != "" {
			// "Close!" selects explicit calls only, "Close~" deferred executions only
			pat := aa.Callee
			if strings.HasSuffix(pat, "!") {
				if e.curDeferred {
					continue
				}
				pat = strings.TrimSuffix(pat, "!")
			} else if strings.HasSuffix(pat, "~") {
				if !e.curDeferred {
					continue
				}
				pat = strings.TrimSuffix(pat, "~")
			}
			if !matchCallee(pat, name) {
				continue
			}
		}
		cntKey := fmt.Sprintf("aa:%d", i)
		e.ords[cntKey]++
		if aa.Ord != 0 && aa.Ord != e.ords[cntKey] {
			continue
		}
		e.ords[fmt.Sprintf("aa-matched:%d", i)]++
		// a clause that cannot be evaluated at THIS site (e.g. it names a variable that is not in
		// scope at a newly added call the selector also matches) fails as its own obligation
		// instead of discarding every obligation of the function
		f, berr := func() (f string, berr string) {
			defer func() {
				if r := recover(); r != nil {
					if ee, ok := r.(encErr); ok {
						berr = string(ee)
						return
					}
					panic(r)
				}
			}()
			return e.evalBoolCtx(aa.C, mkctx()), ""
		}()
		if berr != "" {
			if aa.Assume {
				e.note("assume-at %s %s: cannot be evaluated at this site, NOT assumed: %s", kind, name, berr)
				continue
			}
			e.oblige("assert", fmt.Sprintf("assert.%d@%s.%d", i+1, name, e.ords[cntKey]), sImp(cond, "false"), pos, "assert-at "+kind+" "+name+": the clause cannot be bound at this site (it holds nowhere): "+berr)
			continue
		}
		if aa.Assume {
			e.assumeHere(sImp(cond, f))
			e.note("assume-at %s %s: %s (explicit assumption, not proved)", kind, name, aa.C.Src)
			continue
		}
		// vacuity guard: the site itself must be reachable under everything assumed so
		// far (a contradictory extern contract or invariant would prove anything here)
		{
			pc := "true"
			if e.curBlock != nil {
				pc = e.pc[e.curBlock]
			}
			e.obls = append(e.obls, &Obligation{Name: ShortKey(e.key) + "#" + fmt.Sprintf("cover.assert.%d@%s.%d", i+1, name, e.ords[cntKey]), Fn: e.key, Kind: "cover",
				Pos: e.pos(pos), Prefix: len(e.asserts), Goal: sAnd(pc, cond), Expect: "sat", Desc: "assert-at site is reachable under the assumptions (vacuity guard)", enc: e})
		}
		e.oblige("assert", fmt.Sprintf("assert.%d@%s.%d", i+1, name, e.ords[cntKey]), sImp(cond, f), pos, "assert-at "+kind+" "+name+": "+aa.C.Src)
	}
	for i := range e.ctr.GhostAts {
		ga := &e.ctr.GhostAts[i]
		if ga.SelKind != kind || (kind != "entry" && ga.Before != before) {
			continue
		}
		if ga.Callee != "" {
			pat := ga.Callee
			if strings.HasSuffix(pat, "!") {
				if e.curDeferred {
					continue
				}
				pat = strings.TrimSuffix(pat, "!")
			} else if strings.HasSuffix(pat, "~") {
				if !e.curDeferred {
					continue
				}
				pat = strings.TrimSuffix(pat, "~")
			}
			if !matchCallee(pat, name) {
				continue
			}
		}
		cntKey := fmt.Sprintf("ga:%d:%s", i, when)
		e.ords[cntKey]++
		if ga.Ord != 0 && ga.Ord != e.ords[cntKey] {
			continue
		}
		e.ords[fmt.Sprintf("ga-matched:%d", i)]++
		v := e.evalSpec(ga.C.E, mkctx())
		if strings.ContainsAny(ga.Var, ".[") {
			// ghost field / ghost array element of an object: x.ghost_f := e, x.ghost_a[i] := e
			lhs, err := ParseSpec(ga.Var)
			if err != nil {
				e.fail("ghost-at: cannot parse left-hand side %q: %v", ga.Var, err)
			}
			d := e.evalDesignator(lhs, mkctx())
			if d == nil || d.kind != "ghostloc" {
				e.fail("ghost-at: left-hand side %q must be a ghost variable, x.ghost_f or x.ghost_a[i]", ga.Var)
			}
			e.heapSet(st, d.hk, sStore(e.heapGet(st, d.hk), d.idx, v.L[0]))
			continue
		}
		st.ghost["g:"+ga.Var] = e.define("ghost", "Int", v.L[0])
	}
}

func matchCallee(pat, name string) bool {
	return pat == name || strings.HasSuffix(name, "."+pat) || strings.HasSuffix(name, ")."+pat) || strings.HasSuffix(name, pat)
}

func (e *Enc) curInstrIndex() int {
	if e.curInstr == nil {
		return 0
	}
	return instrIndex(e.curInstr)
}

// ---------- locks (ghost held-set) ----------

// ---------- locks: ghost lock state, guarded fields, lock invariants ----------

// heldLoc: the lock state of a mutex is a ghost cell of the mutex object, one array per
// static position of the mutex inside its object (so it survives re-loading the
// owner pointer). Root "lockstate" is never havocked by calls: a callee is assumed
// not to release the caller's locks.
func (e *Enc) heldLoc(mu *Val) (*heapKey, []string) {
	var pk strings.Builder
	rootKey := "?"
	if mu.Root != nil {
		rootKey = typeKey(mu.Root)
	}
	for _, s := range mu.Path {
		fmt.Fprintf(&pk, "/%d", s.Field)
	}
	k := "lockstate/" + rootKey + pk.String()
	hk, ok := e.hkeys[k]
	if !ok {
		hk = &heapKey{Key: k, Root: "lockstate", Leaf: Leaf{Sort: "Bool"}, Sort: arraySort("Bool", 2)}
		e.hkeys[k] = hk
	}
	return hk, []string{mu.L[0], mu.L[1]}
}

func (e *Enc) heldTerm(st *State, mu *Val) string {
	hk, idx := e.heldLoc(mu)
	return sSel(e.heapGet(st, hk), idx...)
}

func (e *Enc) lockOp(key string, c *ssa.CallCommon, args []*Val, pos token.Pos, st *State, retT types.Type) *Val {
	mu := args[0]
	hk, idx := e.heldLoc(mu)
	// declared lock order: acquiring the FIRST mutex of an order while a SECOND one is held
	private := false
	if owner, _, named, mf := ownerOfMutex(mu); named != "" {
		private = owner != nil && len(owner.L) > 0 && e.allocRefs[owner.L[0]] && !e.published[owner.L[0]]
		if !strings.HasSuffix(key, "Unlock") {
			for _, lo := range e.DB.LockOrders {
				if lo.Pkg+"."+lo.First != named+"."+mf {
					continue
				}
				if t, ok := st.ghost["b:anyheld:"+lo.Pkg+"."+lo.Second]; ok {
					e.oblige("lockorder", fmt.Sprintf("lockorder.%d", e.nextOrd("lockorder")), "(not "+t+")", pos,
						"lock order "+lo.First+" < "+lo.Second+": "+lo.First+" is acquired while a "+lo.Second+" may be held (deadlock with a goroutine that takes them in the declared order)")
				}
			}
		}
	}
	isSecond := func(named, mf string) bool {
		for _, lo := range e.DB.LockOrders {
			if lo.Pkg+"."+lo.Second == named+"."+mf {
				return true
			}
		}
		return false
	}
	switch {
	case strings.HasSuffix(key, ".TryLock") || strings.HasSuffix(key, ".TryRLock"):
		// acquires the mutex iff it returns true; what the mutex protects is forgotten
		// either way (an over-approximation when it returns false)
		ok := e.declare(e.freshName("trylock"), "Bool")
		was := sSel(e.heapGet(st, hk), idx...)
		e.onAcquire(mu, st, pos)
		e.heapSet(st, hk, sStore(e.heapGet(st, hk), idx, sIte(ok, "true", was)))
		if _, _, named, mf := ownerOfMutex(mu); named != "" {
			k := "b:anyheld:" + named + "." + mf
			if old, have := st.ghost[k]; have {
				st.ghost[k] = e.define("g", "Bool", sIte(ok, "true", old))
			}
		}
		return &Val{T: types.Typ[types.Bool], L: []string{ok}}
	case strings.HasSuffix(key, ".Lock") || strings.HasSuffix(key, ".RLock"):
		e.onAcquire(mu, st, pos)
		e.heapSet(st, hk, sStore(e.heapGet(st, hk), idx, "true"))
		if _, _, named, mf := ownerOfMutex(mu); named != "" {
			// (the mutex of an object still private to this call cannot be part of a lock cycle)
			if !(private && isSecond(named, mf)) {
				st.ghost["b:anyheld:"+named+"."+mf] = "true"
			}
		}
	case strings.HasSuffix(key, ".Unlock") || strings.HasSuffix(key, ".RUnlock"):
		e.onRelease(mu, st, pos)
		e.heapSet(st, hk, sStore(e.heapGet(st, hk), idx, "false"))
		if _, _, named, mf := ownerOfMutex(mu); named != "" {
			st.ghost["b:anyheld:"+named+"."+mf] = "false"
		}
	}
	return &Val{T: c.Signature().Results()}
}

// ownerOfMutex: for a mutex reached as &obj.mu returns the owner pointer, its struct
// type and the mutex field name.
func ownerOfMutex(mu *Val) (owner *Val, st *types.Struct, named string, field string) {
	if len(mu.Path) == 0 || mu.Root == nil {
		return nil, nil, "", ""
	}
	// walk the path from the root type
	var cur types.Type = mu.Root
	for i, s := range mu.Path {
		stt, ok := cur.Underlying().(*types.Struct)
		if !ok || s.Field < 0 || s.Field >= stt.NumFields() {
			return nil, nil, "", ""
		}
		if i == len(mu.Path)-1 {
			owner = &Val{T: types.NewPointer(cur), L: mu.L, Root: mu.Root, Path: append([]Step{}, mu.Path[:i]...)}
			n := ""
			if nt, ok := types.Unalias(cur).(*types.Named); ok && nt.Obj().Pkg() != nil {
				n = nt.Obj().Pkg().Path() + "." + nt.Obj().Name()
			}
			return owner, stt, n, stt.Field(s.Field).Name()
		}
		cur = stt.Field(s.Field).Type()
	}
	return nil, nil, "", ""
}

// onAcquire: other goroutines may have changed what the mutex protects: forget the
// guarded fields of the owner, then assume the lock invariant.
func (e *Enc) onAcquire(mu *Val, st *State, pos token.Pos) {
	owner, stt, named, mfield := ownerOfMutex(mu)
	if owner == nil || named == "" {
		return
	}
	if e.allocRefs[owner.L[0]] && !e.published[owner.L[0]] {
		return // the object is still private to this call: nobody else changed it
	}
	// other goroutines may also have allocated objects (and stored them in what the mutex
	// protects): advance the allocation counter, the forgotten cells refer to objects
	// that exist now
	{
		na := e.declare(e.freshName("al_lock"), "Int")
		e.assume("(>= " + na + " " + st.alloc + ")")
		st.alloc = na
	}
	for i := 0; i < stt.NumFields(); i++ {
		g := e.DB.Guards[named+"."+stt.Field(i).Name()]
		if g == nil {
			continue
		}
		mine := false
		for _, m := range g.Mutexes {
			if m == mfield {
				mine = true
			}
		}
		if !mine {
			continue
		}
		// readers-writer protocol: a writer of this field holds ALL of its mutexes, so if
		// this goroutine already holds another one of them nobody can have written it
		keep := "false"
		if len(g.Mutexes) > 1 {
			var others []string
			for _, m := range g.Mutexes {
				if m == mfield {
					continue
				}
				if strings.HasPrefix(m, "(") {
					mm := strings.TrimPrefix(m, "(")
					if k := strings.Index(mm, ")."); k > 0 {
						if t, ok := st.ghost["b:anyheld:"+g.Pkg+"."+mm[:k]+"."+mm[k+2:]]; ok {
							others = append(others, t)
						}
					}
					continue
				}
				for j := 0; j < stt.NumFields(); j++ {
					if stt.Field(j).Name() == m {
						omu := &Val{T: types.NewPointer(stt.Field(j).Type()), L: owner.L, Root: owner.Root, Path: append(append([]Step{}, owner.Path...), Step{Field: j})}
						others = append(others, e.heldTerm(st, omu))
					}
				}
			}
			keep = sOr(others...)
		}
		ft := stt.Field(i).Type()
		fp := &Val{T: types.NewPointer(ft), L: owner.L, Root: owner.Root, Path: append(append([]Step{}, owner.Path...), Step{Field: i})}
		if mt, isMap := ft.Underlying().(*types.Map); isMap {
			// the entries of the map change, the field keeps pointing to the same map
			mv := e.load(st, fp, ft)
			if mapKeyOK(mt) {
				has, ln, vals := e.mapKeys(mt)
				lvs := typeLeaves(mt.Elem())
				for j, hk := range append([]*heapKey{has, ln}, vals...) {
					fresh := e.declare(e.freshName("lkmap"), arraySort(hk.Leaf.Sort, 1))
					if j >= 2 && j-2 < len(lvs) && isRefLeaf(lvs[j-2]) {
						e.assume("(forall ((k Int)) (! (<= (select " + fresh + " k) " + st.alloc + ") :pattern ((select " + fresh + " k))))")
					}
					e.heapSet(st, hk, "(store "+e.heapGet(st, hk)+" "+mv.L[0]+" "+sIte(keep, sSel(e.heapGet(st, hk), mv.L[0]), fresh)+")")
				}
			}
			continue
		}
		for _, a := range e.accesses(fp, ft) {
			fresh := e.declare(e.freshName("lk_"+stt.Field(i).Name()), arraySort(a.Leaf.Sort, a.Leaf.Dims))
			e.heapSet(st, a.HK, sStore(e.heapGet(st, a.HK), a.Idx, sIte(keep, sSel(e.heapGet(st, a.HK), a.Idx...), fresh)))
		}
		nv := e.load(st, fp, ft) // re-assume type invariants of the new content
		_ = nv
	}
	if li := e.DB.LockInvs[named+"."+mfield]; li != nil {
		ctx := &specCtx{env: map[string]envEntry{"this": {V: owner}}, st: st, old: e.entry, pkg: li.Pkg}
		e.assumeHere(e.evalBoolCtx(li.C, ctx))
	}
}

func (e *Enc) onRelease(mu *Val, st *State, pos token.Pos) {
	owner, _, named, mfield := ownerOfMutex(mu)
	if owner == nil || named == "" {
		return
	}
	if li := e.DB.LockInvs[named+"."+mfield]; li != nil {
		ctx := &specCtx{env: map[string]envEntry{"this": {V: owner}}, st: st, old: e.entry, pkg: li.Pkg}
		e.oblige("lockinv", "", e.evalBoolCtx(li.C, ctx), pos, "lock invariant of "+named+"."+mfield+" holds at release: "+li.C.Src)
	}
}

// guardCheck: an access to a guarded field needs one of its mutexes held (or the
// object is fresh: allocated by this call and not yet published).
func (e *Enc) guardCheck(fa *ssa.FieldAddr, base *Val, st *State, pos token.Pos, what string) {
	if len(e.DB.Guards) == 0 || e.opts.Safe["noguard"] {
		return
	}
	pt, ok := fa.X.Type().Underlying().(*types.Pointer)
	if !ok {
		return
	}
	nt, ok := types.Unalias(pt.Elem()).(*types.Named)
	if !ok || nt.Obj().Pkg() == nil {
		return
	}
	stt, ok := nt.Underlying().(*types.Struct)
	if !ok {
		return
	}
	fname := stt.Field(fa.Field).Name()
	g := e.DB.Guards[nt.Obj().Pkg().Path()+"."+nt.Obj().Name()+"."+fname]
	if g == nil {
		return
	}
	alts := []string{}
	for _, m := range g.Mutexes {
		if strings.HasPrefix(m, "(") {
			// "(T).mu": the mutex of the (single) T instance, tracked per type
			mm := strings.TrimPrefix(m, "(")
			k := strings.Index(mm, ").")
			if k > 0 {
				gk := "b:anyheld:" + g.Pkg + "." + mm[:k] + "." + mm[k+2:]
				if t, ok := st.ghost[gk]; ok {
					alts = append(alts, t)
				}
			}
			continue
		}
		for i := 0; i < stt.NumFields(); i++ {
			if stt.Field(i).Name() == m {
				mu := &Val{T: types.NewPointer(stt.Field(i).Type()), L: base.L, Root: base.Root, Path: append(append([]Step{}, base.Path...), Step{Field: i})}
				if mu.Root == nil {
					mu.Root = ptrRoot(pt.Elem())
				}
				alts = append(alts, e.heldTerm(st, mu))
			}
		}
	}
	// several mutexes = readers-writer protocol: a reader holds any one of them, so a
	// writer has to hold all of them
	cond, conj := sOr(alts...), " or "
	if what == "write" && len(g.Mutexes) > 1 {
		cond, conj = sAnd(alts...), " and "
		if len(alts) < len(g.Mutexes) {
			cond = "false"
		}
	}
	cond = sOr("(> "+base.L[0]+" alloc0)", cond)
	e.oblige("guard", fmt.Sprintf("guard.%s.%d", fname, e.nextOrd("guard."+fname)), cond, pos, what+" of "+nt.Obj().Name()+"."+fname+" needs "+strings.Join(g.Mutexes, conj)+" held")
}

func (e *Enc) nextOrd(k string) int { e.ords[k]++; return e.ords[k] }

// guardedMapOperand: the map operand of a map operation was loaded from a guarded field.
func (e *Enc) guardMapOp(m ssa.Value, st *State, pos token.Pos, what string) {
	if len(e.DB.Guards) == 0 {
		return
	}
	if u, ok := m.(*ssa.UnOp); ok {
		if fa, ok := u.X.(*ssa.FieldAddr); ok {
			e.guardCheck(fa, e.val(fa.X), st, pos, what)
		}
	}
}

// ---------- postconditions, cover ----------

func (e *Enc) checkPost() {
	if e.ctr == nil {
		return
	}
	sigRes := e.fn.Signature.Results()
	for ri, rp := range e.retVals {
		var r *Val
		if len(rp.vals) == 1 {
			r = rp.vals[0]
		} else if len(rp.vals) > 1 {
			r = &Val{T: sigRes}
			for _, v := range rp.vals {
				r.L = append(r.L, v.L...)
			}
		}
		env := e.paramEnv()
		// named results
		for i := 0; i < sigRes.Len(); i++ {
			if n := sigRes.At(i).Name(); n != "" && n != "_" && i < len(rp.vals) {
				env[n] = envEntry{V: rp.vals[i]}
			}
		}
		for i, en := range e.ctr.Ensures {
			ctx := &specCtx{env: env, st: rp.state, old: e.entry, result: r, pkg: e.ctr.Pkg, resSig: sigRes}
			f := e.evalBoolCtx(en, ctx)
			name := fmt.Sprintf("post.%d@ret%d", i+1, ri+1)
			e.obligeSplit(rp.pc, "post", name, f, rp.pos, "postcondition: "+en.Src, rp.block)
		}
	}
}

// coverQueries: vacuity guards. The entry assumptions must be satisfiable and at
// least one return must be reachable.
func (e *Enc) coverQueries() {
	// every assert-at / ghost-at clause must have matched at least one site of the function as it
	// is now: a clause whose site was deleted (or whose ordinal no longer exists) would otherwise
	// pass silently. Reported as an obligation of its own that cannot be discharged.
	if e.ctr != nil {
		for i := range e.ctr.AssertAts {
			aa := &e.ctr.AssertAts[i]
			if aa.Assume || e.ords[fmt.Sprintf("aa-matched:%d", i)] > 0 {
				continue
			}
			if strings.TrimSpace(aa.C.Src) == "false" {
				continue // a prohibition ("this is never called here"): no site is what it asks for
			}
			sel := aa.SelKind + " " + aa.Callee
			if aa.Ord != 0 {
				sel += fmt.Sprintf(" #%d", aa.Ord)
			}
			e.obls = append(e.obls, &Obligation{Name: ShortKey(e.key) + "#" + fmt.Sprintf("assert.%d@nosite", i+1), Fn: e.key, Kind: "assert",
				Prefix: 0, Goal: "true", PC: "true", Expect: "unsat", Desc: "assert-at " + strings.TrimSpace(sel) + ": the selector matches no site in the function (the site it was written for is gone): " + aa.C.Src, enc: e})
		}
		for i := range e.ctr.GhostAts {
			ga := &e.ctr.GhostAts[i]
			if ga.SelKind == "entry" || e.ords[fmt.Sprintf("ga-matched:%d", i)] > 0 {
				continue
			}
			sel := ga.SelKind + " " + ga.Callee
			if ga.Ord != 0 {
				sel += fmt.Sprintf(" #%d", ga.Ord)
			}
			e.obls = append(e.obls, &Obligation{Name: ShortKey(e.key) + "#" + fmt.Sprintf("ghost.%d@nosite", i+1), Fn: e.key, Kind: "assert",
				Prefix: 0, Goal: "true", PC: "true", Expect: "unsat", Desc: "ghost-at " + strings.TrimSpace(sel) + ": the selector matches no site in the function (the site it was written for is gone): " + ga.Var + " := " + ga.C.Src, enc: e})
		}
	}
	var pcs []string
	for _, rp := range e.retVals {
		pcs = append(pcs, rp.pc)
	}
	if len(pcs) == 0 {
		return
	}
	o := &Obligation{Name: ShortKey(e.key) + "#cover.return", Fn: e.key, Kind: "cover", Prefix: len(e.asserts),
		Goal: sOr(pcs...), Expect: "sat", Desc: "some return is reachable under the assumptions (vacuity guard)", enc: e}
	e.obls = append(e.obls, o)
}

func (e *Enc) emitGlobalAxioms() {
	// opt strzero on: the zero value of a string (term 0, e.g. a field of a zero-initialised struct)
	// is the empty string. Universally true, but kept opt-in: as a prelude axiom it changed the
	// solvers' behaviour on a few fragile nonlinear queries of other properties.
	if e.ctr != nil && e.ctr.Opts["strzero"] == "on" {
		e.assume("(= sempty 0)")
	}
	for _, ax := range e.DB.Axioms {
		ctx := &specCtx{env: map[string]envEntry{}, st: e.entry, old: e.entry, pkg: ax.Pkg}
		if !e.axiomRelevant(ax) {
			continue
		}
		f := e.evalBoolCtx(ax.C, ctx)
		e.assume(f)
	}
}

func (e *Enc) axiomRelevant(ax Axiom) bool {
	// axioms are included when they belong to the package of the function or of a
	// contract it may call; cheap rule: same package or "global" package marker.
	return ax.Pkg == e.fn.Pkg.Pkg.Path() || ax.Pkg == "global"
}
