package main

import (
	"os"
	"fmt"
	"go/constant"
	"go/token"
	"go/types"
	"math/big"
	"sort"
	"strings"

	"golang.org/x/tools/go/ssa"
)

// Run generates all obligations of the function.
func (e *Enc) Run() (err error) {
	defer func() {
		if r := recover(); r != nil {
			if ee, ok := r.(encErr); ok {
				err = fmt.Errorf("%s: %s", ShortKey(e.key), string(ee))
				return
			}
			if os.Getenv("GOVC_PANIC") != "" {
				panic(r)
			}
			// an internal failure of the generator on this function: the obligations
			// cannot be produced, which is reported like a binding failure (never as success)
			err = fmt.Errorf("%s: internal error of the condition generator: %v", ShortKey(e.key), r)
		}
	}()
	fn := e.fn
	if len(fn.Blocks) == 0 {
		return fmt.Errorf("%s has no body", e.key)
	}
	if err := e.computeLoops(); err != nil {
		return err
	}
	e.computeEscapes()

	st := &State{heap: map[string]string{}, rootEpoch: map[string]int{}, ghost: map[string]string{}}
	st.alloc = e.declare("alloc0", "Int")
	e.assume("(>= alloc0 0)")
	e.curState = st
	// parameters and free variables
	for _, p := range fn.Params {
		v := e.freshVal("p_"+p.Name(), p.Type(), false)
		e.vals[p] = v
		e.assume(e.typeInvFormula(st, v))
	}
	for _, fv := range fn.FreeVars {
		v := e.freshVal("fv_"+fv.Name(), fv.Type(), false)
		e.vals[fv] = v
		e.assume(e.typeInvFormula(st, v))
	}
	// WLOG normalisation of window offsets: rows can be re-indexed per backing array, so
	// the first parameter slice that refers to a backing array starts at offset 0 (no
	// assumption anywhere constrains absolute cell indices). A later slice parameter is
	// normalised too unless it shares its backing array with an earlier one.
	{
		type sl struct {
			ref, off string
			elem     string
		}
		var seen []sl
		for _, p := range fn.Params {
			v := e.vals[p]
			for i, lf := range typeLeaves(p.Type()) {
				if st, ok := lf.T.Underlying().(*types.Slice); ok && lf.Dims == 0 && lf.Path[len(lf.Path)-1] == 1000 {
					cur := sl{v.L[i], v.L[i+1], typeKey(st.Elem())}
					alts := []string{"(= " + cur.off + " 0)"}
					for _, o := range seen {
						if o.elem == cur.elem {
							alts = append(alts, "(= "+cur.ref+" "+o.ref+")")
						}
					}
					e.assume(sOr(alts...))
					seen = append(seen, cur)
				}
			}
		}
	}
	if fn.Signature.Recv() != nil && len(fn.Params) > 0 {
		if _, ok := fn.Params[0].Type().Underlying().(*types.Pointer); ok {
			e.assume("(> " + e.vals[fn.Params[0]].L[0] + " 0)")
		}
	}
	// type-level lock flags ("(T).mu" in a guarded declaration): symbolic at entry, so
	// that `requires heldany(T.mu)` can constrain them
	{
		var keys []string
		for _, g := range e.DB.Guards {
			for _, m := range g.Mutexes {
				if strings.HasPrefix(m, "(") {
					mm := strings.TrimPrefix(m, "(")
					if k := strings.Index(mm, ")."); k > 0 {
						keys = append(keys, "b:anyheld:"+g.Pkg+"."+mm[:k]+"."+mm[k+2:])
					}
				}
			}
		}
		for _, lo := range e.DB.LockOrders {
			keys = append(keys, "b:anyheld:"+lo.Pkg+"."+lo.First, "b:anyheld:"+lo.Pkg+"."+lo.Second)
		}
		sort.Strings(keys)
		for _, k := range keys {
			if _, ok := st.ghost[k]; !ok {
				st.ghost[k] = e.declare(e.freshName("anyheld0"), "Bool")
			}
		}
	}
	e.entry = st.clone()
	e.entry.heap = st.heap // share lazily created initial arrays
	e.pc[fn.Blocks[0]] = "true"
	e.in[fn.Blocks[0]] = st

	// preconditions
	if e.ctr != nil {
		env := e.paramEnv()
		for _, c := range e.ctr.Requires {
			f := e.evalBool(c, env, st, nil, nil)
			e.assume(f)
		}
	}
	if e.ctr != nil && e.ctr.Opts["frame"] == "assume" {
		e.note("the modifies clause of this function is ASSUMED for its body (opt frame assume): frame obligations are not generated")
	}
	e.emitGlobalAxioms()
	e.curBlock = fn.Blocks[0]
	e.fireAt("entry", "entry", true, fn.Pos(), st, map[string]*Val{}, "true")

	order := e.topoOrder()
	for _, b := range order {
		e.execBlock(b)
	}
	e.checkPost()
	e.coverQueries()
	return nil
}

type encErr string

func (e *Enc) fail(f string, a ...any) { panic(encErr(fmt.Sprintf(f, a...))) }

func (e *Enc) paramEnv() map[string]envEntry {
	env := map[string]envEntry{}
	for _, p := range e.fn.Params {
		env[p.Name()] = envEntry{V: e.vals[p]}
	}
	for _, fv := range e.fn.FreeVars {
		if _, ok := fv.Type().Underlying().(*types.Pointer); ok {
			env[fv.Name()] = envEntry{V: e.vals[fv], IsAddr: true}
		} else {
			env[fv.Name()] = envEntry{V: e.vals[fv]}
		}
	}
	return env
}

// edge condition from block b to its succ slot k
func (e *Enc) edge(b *ssa.BasicBlock, slot int) string {
	return e.edgeCond[[2]int{b.Index, slot}]
}

func succSlot(from, to *ssa.BasicBlock, nth int) int {
	c := 0
	for i, s := range from.Succs {
		if s == to {
			if c == nth {
				return i
			}
			c++
		}
	}
	return -1
}

// incoming returns, for each predecessor slot of b, the edge condition (or "" if the
// predecessor has not been executed: unreachable or back edge).
func (e *Enc) incoming(b *ssa.BasicBlock) []string {
	conds := make([]string, len(b.Preds))
	seen := map[*ssa.BasicBlock]int{}
	for i, p := range b.Preds {
		nth := seen[p]
		seen[p]++
		if _, ok := e.out[p]; !ok {
			continue
		}
		slot := succSlot(p, b, nth)
		conds[i] = e.edge(p, slot)
	}
	return conds
}

func (e *Enc) execBlock(b *ssa.BasicBlock) {
	e.curBlock = b
	li := e.loops[b]
	if b.Index != 0 {
		conds := e.incoming(b)
		var live []int
		for i, c := range conds {
			if c == "" {
				continue
			}
			if li != nil && b.Dominates(b.Preds[i]) {
				continue
			}
			live = append(live, i)
		}
		if len(live) == 0 {
			// unreachable
			e.pc[b] = "false"
			st := &State{heap: map[string]string{}, rootEpoch: map[string]int{}, ghost: map[string]string{}, alloc: "alloc0", epoch: e.newEpoch()}
			e.in[b] = st
		} else {
			var cs []string
			for _, i := range live {
				cs = append(cs, conds[i])
			}
			if e.liveIn == nil {
				e.liveIn = map[*ssa.BasicBlock][]string{}
			}
			e.liveIn[b] = cs
			pcName := e.declare(fmt.Sprintf("pc!%d", b.Index), "Bool")
			e.assume("(= " + pcName + " " + sOr(cs...) + ")")
			e.pc[b] = pcName
			e.in[b] = e.mergeStates(b, live, conds)
		}
	}
	st := e.in[b].clone()
	e.curState = st
	if li != nil && e.pc[b] != "false" {
		e.loopHeader(b, li, st)
	} else {
		// ordinary phis
		conds := e.incoming(b)
		for _, ins := range b.Instrs {
			phi, ok := ins.(*ssa.Phi)
			if !ok {
				break
			}
			e.vals[phi] = e.mergePhi(phi, conds, nil)
		}
	}
	for _, ins := range b.Instrs {
		if _, ok := ins.(*ssa.Phi); ok {
			continue
		}
		e.curInstr = ins
		e.execInstr(ins, st)
	}
	e.out[b] = st
	e.checkBackEdges(b, st)
}

func (e *Enc) mergePhi(phi *ssa.Phi, conds []string, skip func(i int) bool) *Val {
	var cur *Val
	b := phi.Block()
	for i := len(phi.Edges) - 1; i >= 0; i-- {
		if conds[i] == "" || (skip != nil && skip(i)) {
			continue
		}
		_ = b
		v := e.val(phi.Edges[i])
		if cur == nil {
			cur = v
			continue
		}
		cur = e.iteVal(conds[i], v, cur, phi.Type())
	}
	if cur == nil {
		return e.freshVal("phi_"+phi.Comment, phi.Type(), false)
	}
	// name it to keep terms small
	out := &Val{T: phi.Type(), Root: cur.Root, Path: cur.Path, Closure: cur.Closure}
	for i, lf := range typeLeaves(phi.Type()) {
		out.L = append(out.L, e.define("phi_"+sanitize(phi.Comment), arraySort(lf.Sort, lf.Dims), cur.L[i]))
	}
	e.annotate(out)
	return out
}

func sanitize(s string) string {
	var sb strings.Builder
	for _, r := range s {
		if r >= 'a' && r <= 'z' || r >= 'A' && r <= 'Z' || r >= '0' && r <= '9' || r == '_' {
			sb.WriteRune(r)
		}
	}
	if sb.Len() == 0 {
		return "v"
	}
	return sb.String()
}

func (e *Enc) iteVal(c string, a, b *Val, T types.Type) *Val {
	out := &Val{T: T, Root: a.Root}
	if len(a.L) != len(b.L) {
		e.fail("ite of values with different shapes (%v)", T)
	}
	for i := range a.L {
		out.L = append(out.L, sIte(c, a.L[i], b.L[i]))
	}
	// pointer paths must agree in shape
	if len(a.Path) != len(b.Path) {
		if len(a.L) == 2 && (a.L[0] == "0" || b.L[0] == "0") {
			// nil merged with interior pointer: keep the non-nil shape
			if a.L[0] == "0" {
				out.Path, out.Root = b.Path, b.Root
			} else {
				out.Path, out.Root = a.Path, a.Root
			}
		} else {
			e.note("pointer phi with different interior paths: treated as opaque pointer (imprecise)")
			fv := e.freshVal("optr", T, true)
			return fv
		}
	} else if len(a.Path) > 0 {
		for i := range a.Path {
			if a.Path[i].Field != b.Path[i].Field {
				e.note("pointer phi with different interior paths: treated as opaque pointer (imprecise)")
				return e.freshVal("optr", T, true)
			}
			st := Step{Field: a.Path[i].Field}
			if st.Field < 0 {
				st.Index = sIte(c, a.Path[i].Index, b.Path[i].Index)
			}
			out.Path = append(out.Path, st)
		}
		if a.Root != nil && b.Root != nil && !types.Identical(a.Root, b.Root) {
			e.note("pointer phi with different roots: opaque")
			return e.freshVal("optr", T, true)
		}
	}
	if a.Closure != nil && b.Closure != nil && a.Closure.Fn == b.Closure.Fn {
		out.Closure = a.Closure
	}
	return out
}

func (e *Enc) mergeStates(b *ssa.BasicBlock, live []int, conds []string) *State {
	if len(live) == 1 {
		return e.out[b.Preds[live[0]]].clone()
	}
	first := e.out[b.Preds[live[0]]]
	ns := &State{heap: map[string]string{}, rootEpoch: map[string]int{}, ghost: map[string]string{}, epoch: first.epoch}
	sameEpoch := true
	keys := map[string]bool{}
	gkeys := map[string]bool{}
	roots := map[string]bool{}
	for _, i := range live {
		s := e.out[b.Preds[i]]
		if s.epoch != first.epoch {
			sameEpoch = false
		}
		for k := range s.heap {
			keys[k] = true
		}
		for k := range s.ghost {
			gkeys[k] = true
		}
		for r := range s.rootEpoch {
			roots[r] = true
		}
	}
	if !sameEpoch {
		ns.epoch = e.newEpoch()
	}
	for r := range roots {
		same := true
		v0, ok0 := first.rootEpoch[r]
		for _, i := range live {
			s := e.out[b.Preds[i]]
			v, ok := s.rootEpoch[r]
			if ok != ok0 || v != v0 {
				same = false
			}
		}
		if same && sameEpoch {
			if ok0 {
				ns.rootEpoch[r] = v0
			}
		} else {
			ns.rootEpoch[r] = e.newEpoch()
		}
	}
	ks := make([]string, 0, len(keys))
	for k := range keys {
		ks = append(ks, k)
	}
	sort.Strings(ks)
	for _, k := range ks {
		hk := e.hkeys[k]
		var cur string
		allSame := true
		for j := len(live) - 1; j >= 0; j-- {
			i := live[j]
			t := e.heapGet(e.out[b.Preds[i]], hk)
			if cur == "" {
				cur = t
			} else {
				if t != cur {
					allSame = false
				}
				cur = sIte(conds[i], t, cur)
			}
		}
		if allSame {
			ns.heap[k] = cur
		} else {
			ns.heap[k] = e.define("hm", hk.Sort, cur)
		}
	}
	// version tokens
	{
		ns.ver = map[string]string{}
		roots := map[string]bool{}
		for _, i := range live {
			for r := range e.out[b.Preds[i]].ver {
				roots[r] = true
			}
		}
		for r := range roots {
			v0 := e.verToken(first, r)
			same := true
			for _, i := range live {
				if e.verToken(e.out[b.Preds[i]], r) != v0 {
					same = false
				}
			}
			if same {
				ns.ver[r] = v0
			} else {
				e.nver++
				ns.ver[r] = fmt.Sprintf("%d", e.nver)
			}
		}
		ns.gver = first.gver
		for _, i := range live {
			if e.out[b.Preds[i]].gver != first.gver {
				e.nver++
				ns.gver = fmt.Sprintf("%d", e.nver)
				break
			}
		}
	}
	// allocation counter
	{
		var cur string
		for j := len(live) - 1; j >= 0; j-- {
			i := live[j]
			t := e.out[b.Preds[i]].alloc
			if cur == "" {
				cur = t
			} else {
				cur = sIte(conds[i], t, cur)
			}
		}
		ns.alloc = e.define("al", "Int", cur)
	}
	gs := make([]string, 0, len(gkeys))
	for k := range gkeys {
		gs = append(gs, k)
	}
	sort.Strings(gs)
	for _, k := range gs {
		var cur string
		ok := true
		for j := len(live) - 1; j >= 0; j-- {
			i := live[j]
			t, has := e.out[b.Preds[i]].ghost[k]
			if !has {
				ok = false
				break
			}
			if cur == "" {
				cur = t
			} else {
				cur = sIte(conds[i], t, cur)
			}
		}
		if ok {
			ns.ghost[k] = e.define("g", ghostSort(k), cur)
		}
	}
	return ns
}

// ---------- values ----------

func (e *Enc) val(v ssa.Value) *Val {
	if x, ok := e.vals[v]; ok {
		return x
	}
	switch v := v.(type) {
	case *ssa.Const:
		return e.constVal(v)
	case *ssa.Global:
		// address of a package-level variable: a fixed object per global
		name := smtIdent("glob:" + v.Pkg.Pkg.Path() + "." + v.Name())
		e.declare(name, "Int")
		e.assume("(and (> " + name + " 0) (<= " + name + " alloc0))")
		pv := &Val{T: v.Type(), L: []string{name, "0"}}
		e.annotate(pv)
		// distinct globals of the same type are distinct objects
		e.vals[v] = pv
		for ov, ovv := range e.vals {
			if og, ok := ov.(*ssa.Global); ok && og != v && types.Identical(og.Type(), v.Type()) {
				e.assume("(not (= " + name + " " + ovv.L[0] + "))")
			}
		}
		return pv
	case *ssa.Function:
		name := smtIdent("fn:" + FuncKey(v))
		e.declare(name, "Int")
		e.assume("(> " + name + " 0)")
		fv := &Val{T: v.Type(), L: []string{name}, Closure: &closureInfo{Fn: v}}
		e.vals[v] = fv
		return fv
	case *ssa.Builtin:
		return &Val{T: v.Type(), L: []string{"0"}}
	}
	// value from a block not executed (unreachable): fresh
	e.note("use of value %s defined in unexecuted block", v.Name())
	fv := e.freshVal("undef", v.Type(), false)
	e.vals[v] = fv
	return fv
}

func (e *Enc) constVal(c *ssa.Const) *Val {
	T := c.Type()
	if c.Value == nil {
		return e.zeroVal(T)
	}
	switch u := T.Underlying().(type) {
	case *types.Basic:
		switch {
		case u.Info()&types.IsBoolean != 0:
			if constant.BoolVal(c.Value) {
				return &Val{T: T, L: []string{"true"}}
			}
			return &Val{T: T, L: []string{"false"}}
		case u.Info()&types.IsInteger != 0:
			n, ok := new(big.Int).SetString(c.Value.ExactString(), 10)
			if !ok {
				if i64, ok2 := constant.Int64Val(constant.ToInt(c.Value)); ok2 {
					n = big.NewInt(i64)
				} else {
					e.fail("bad int const %v", c.Value)
				}
			}
			return &Val{T: T, L: []string{sBig(n)}}
		case u.Info()&types.IsString != 0:
			return &Val{T: T, L: []string{e.strLit(constant.StringVal(c.Value))}}
		case u.Info()&types.IsFloat != 0:
			return &Val{T: T, L: []string{e.floatConst(c.Value)}}
		}
	}
	e.note("unsupported constant %v of type %v: fresh", c.Value, T)
	return e.freshVal("const", T, false)
}

func (e *Enc) floatConst(v constant.Value) string {
	f, _ := constant.Float64Val(v)
	if f == 0 {
		return "fzero"
	}
	s := fmt.Sprintf("%g", f)
	name := smtIdent("fc:" + s)
	e.declare(name, "F")
	return name
}

// ---------- instruction semantics ----------

func (e *Enc) execInstr(ins ssa.Instruction, st *State) {
	switch ins := ins.(type) {
	case *ssa.DebugRef:
	case *ssa.Alloc:
		e.execAlloc(ins, st)
	case *ssa.BinOp:
		e.vals[ins] = e.binop(ins.Op, e.val(ins.X), e.val(ins.Y), ins.Type(), ins.Pos(), ins)
	case *ssa.UnOp:
		e.execUnOp(ins, st)
	case *ssa.Call:
		e.execCall(ins, st)
	case *ssa.ChangeType:
		x := e.val(ins.X)
		e.vals[ins] = &Val{T: ins.Type(), L: x.L, Root: x.Root, Path: x.Path, Closure: x.Closure}
	case *ssa.ChangeInterface:
		x := e.val(ins.X)
		e.vals[ins] = &Val{T: ins.Type(), L: x.L, Box: x.Box, Closure: x.Closure}
	case *ssa.Convert:
		e.vals[ins] = e.convert(e.val(ins.X), ins.Type(), st, ins.Pos())
	case *ssa.MultiConvert:
		e.note("MultiConvert: fresh result")
		e.vals[ins] = e.freshVal("mconv", ins.Type(), true)
	case *ssa.MakeInterface:
		x := e.val(ins.X)
		e.vals[ins] = e.makeInterface(x, ins.X.Type())
	case *ssa.MakeClosure:
		fn := ins.Fn.(*ssa.Function)
		name := e.declare(e.freshName("clo"), "Int")
		e.assume("(> " + name + " 0)")
		ci := &closureInfo{Fn: fn}
		for _, b := range ins.Bindings {
			ci.Bindings = append(ci.Bindings, e.val(b))
		}
		e.vals[ins] = &Val{T: ins.Type(), L: []string{name}, Closure: ci}
	case *ssa.MakeMap:
		e.execMakeMap(ins, st)
	case *ssa.MakeChan:
		ref := e.allocRef(st, "chan")
		e.vals[ins] = &Val{T: ins.Type(), L: []string{ref}}
		if c, ok := constOf(e.val(ins.Size)); ok && c.IsInt64() {
			if e.chanRoom == nil {
				e.chanRoom = map[string]int{}
			}
			e.chanRoom[ref] = int(c.Int64())
		}
	case *ssa.MakeSlice:
		e.execMakeSlice(ins, st)
	case *ssa.Slice:
		e.execSlice(ins, st)
	case *ssa.SliceToArrayPointer:
		x := e.val(ins.X)
		e.vals[ins] = e.annotate(&Val{T: ins.Type(), L: []string{x.L[slRef], x.L[slOff]}})
		e.note("SliceToArrayPointer: length check not modelled")
	case *ssa.FieldAddr:
		x := e.val(ins.X)
		e.nilCheck(x, ins.Pos(), "field address of nil pointer")
		nv := &Val{T: ins.Type(), L: x.L, Root: x.Root}
		nv.Path = append(append([]Step{}, x.Path...), Step{Field: ins.Field})
		e.vals[ins] = nv
	case *ssa.Field:
		x := e.val(ins.X)
		e.vals[ins] = e.fieldOf(x, ins.Field)
	case *ssa.IndexAddr:
		e.execIndexAddr(ins, st)
	case *ssa.Index:
		e.execIndex(ins, st)
	case *ssa.Lookup:
		e.execLookup(ins, st)
	case *ssa.Select:
		e.execSelect(ins, st)
	case *ssa.Range:
		e.execRange(ins, st)
	case *ssa.Next:
		e.execNext(ins, st)
	case *ssa.TypeAssert:
		e.execTypeAssert(ins, st)
	case *ssa.Extract:
		t := e.val(ins.Tuple)
		e.vals[ins] = e.tupleElem(t, ins.Index)
	case *ssa.Jump:
		e.edgeCond[[2]int{ins.Block().Index, 0}] = e.pc[ins.Block()]
	case *ssa.If:
		c := e.val(ins.Cond).term()
		b := ins.Block()
		pc := e.pc[b]
		n1 := e.declare(fmt.Sprintf("e!%d!t", b.Index), "Bool")
		n2 := e.declare(fmt.Sprintf("e!%d!f", b.Index), "Bool")
		e.assume("(= " + n1 + " " + sAnd(pc, c) + ")")
		e.assume("(= " + n2 + " " + sAnd(pc, sNot(c)) + ")")
		e.edgeCond[[2]int{b.Index, 0}] = n1
		e.edgeCond[[2]int{b.Index, 1}] = n2
	case *ssa.Return:
		e.execReturn(ins, st)
	case *ssa.Panic:
		if e.opts.Safe["panic"] {
			e.oblige("safe.panic", "", "false", ins.Pos(), "explicit panic is unreachable")
		}
	case *ssa.RunDefers:
		e.execRunDefers(ins, st)
	case *ssa.Go:
		e.execGo(ins, st)
	case *ssa.Defer:
		e.execDefer(ins, st)
	case *ssa.Send:
		e.execSend(ins, st)
	case *ssa.Store:
		addr := e.val(ins.Addr)
		v := e.val(ins.Val)
		e.nilCheck(addr, ins.Pos(), "store through nil pointer")
		if fa, ok := ins.Addr.(*ssa.FieldAddr); ok {
			e.guardCheck(fa, e.val(fa.X), st, ins.Pos(), "write")
		}
		e.frameCheckStore(addr, ins, st)
		e.escapeCheck(ins.Val, v, "stored to memory")
		if e.ctr != nil && len(e.ctr.AssertAts)+len(e.ctr.GhostAts) > 0 {
			// assert-at store <name> #k : the assignment to the local variable / captured
			// variable / field called <name>; `stored` is the value being written
			name := ""
			switch a := ins.Addr.(type) {
			case *ssa.Alloc:
				name = a.Comment
			case *ssa.FreeVar:
				name = a.Name()
			case *ssa.Parameter:
				name = a.Name() // *p = v through a pointer parameter p
			case *ssa.FieldAddr:
				if pt, ok := a.X.Type().Underlying().(*types.Pointer); ok {
					if stt, ok := pt.Elem().Underlying().(*types.Struct); ok {
						name = stt.Field(a.Field).Name()
					}
				}
			}
			if name != "" {
				e.fireAt("store", name, true, ins.Pos(), st, map[string]*Val{"stored": v}, "true")
			}
		}
		e.store(st, addr, ins.Val.Type(), v)
		if al, ok := ins.Addr.(*ssa.Alloc); ok {
			if e.allocVal == nil {
				e.allocVal = map[*ssa.Alloc]*Val{}
			}
			e.allocVal[al] = v
		} else if _, isLocal := addrBase(ins.Addr).(*ssa.Alloc); !isLocal || e.published[addr.L[0]] {
			e.markPublished(v)
		} else if !e.nonEsc[addrBase(ins.Addr)] && e.published[addr.L[0]] {
			e.markPublished(v)
		}
	case *ssa.MapUpdate:
		e.execMapUpdate(ins, st)
	default:
		e.note("unsupported instruction %T: result fresh, heap havocked", ins)
		if v, ok := ins.(ssa.Value); ok {
			e.vals[v] = e.freshVal("unk", v.Type(), true)
		}
		e.havocAll(st, "unsupported instruction")
	}
}

// capturedClosure: the free variable refers to a parent's variable whose single
// assignment is a closure literal.
func (e *Enc) capturedClosure(fv *ssa.FreeVar) *ssa.Function {
	f := e.fn
	cur := fv
	for depth := 0; depth < 4 && f.Parent() != nil; depth++ {
		parent := f.Parent()
		idx := -1
		for i, x := range f.FreeVars {
			if x == cur {
				idx = i
			}
		}
		var bound ssa.Value
		for _, b := range parent.Blocks {
			for _, ins := range b.Instrs {
				if mc, ok := ins.(*ssa.MakeClosure); ok && mc.Fn == ssa.Value(f) && idx >= 0 && idx < len(mc.Bindings) {
					bound = mc.Bindings[idx]
				}
			}
		}
		switch bv := bound.(type) {
		case *ssa.Alloc:
			var stored ssa.Value
			n := 0
			if refs := bv.Referrers(); refs != nil {
				for _, r := range *refs {
					if st, ok := r.(*ssa.Store); ok && st.Addr == ssa.Value(bv) {
						stored = st.Val
						n++
					}
				}
			}
			if n == 1 {
				if mc, ok := stored.(*ssa.MakeClosure); ok {
					if cf, ok := mc.Fn.(*ssa.Function); ok {
						return cf
					}
				}
			}
			return nil
		case *ssa.FreeVar:
			f, cur = parent, bv
			continue
		}
		return nil
	}
	return nil
}

// stableLocalAlloc: a local variable cell (captured by closures) that is assigned exactly
// once in this function and never by a closure: its value is that assignment's value,
// whatever unknown code runs in between.
func (e *Enc) stableLocalAlloc(al *ssa.Alloc) bool {
	if r, ok := e.stableAlloc[al]; ok {
		return r
	}
	if e.stableAlloc == nil {
		e.stableAlloc = map[*ssa.Alloc]bool{}
	}
	res := func() bool {
		refs := al.Referrers()
		if refs == nil {
			return false
		}
		stores := 0
		var closures []*ssa.MakeClosure
		for _, r := range *refs {
			switch x := r.(type) {
			case *ssa.Store:
				if x.Addr != ssa.Value(al) {
					return false // the address itself is stored somewhere
				}
				stores++
			case *ssa.UnOp, *ssa.DebugRef:
			case *ssa.MakeClosure:
				closures = append(closures, x)
			default:
				return false
			}
		}
		if stores != 1 {
			return false
		}
		var storesTo func(f *ssa.Function, fv *ssa.FreeVar) bool
		storesTo = func(f *ssa.Function, fv *ssa.FreeVar) bool {
			for _, b := range f.Blocks {
				for _, ins := range b.Instrs {
					switch x := ins.(type) {
					case *ssa.Store:
						if x.Addr == ssa.Value(fv) {
							return true
						}
					case *ssa.MakeClosure:
						for k, bd := range x.Bindings {
							if bd == ssa.Value(fv) {
								if inner, ok := x.Fn.(*ssa.Function); ok && k < len(inner.FreeVars) && storesTo(inner, inner.FreeVars[k]) {
									return true
								}
							}
						}
					}
				}
			}
			// any other use of the address than load/store/closure capture
			if refs := fv.Referrers(); refs != nil {
				for _, r := range *refs {
					switch r.(type) {
					case *ssa.Store, *ssa.UnOp, *ssa.DebugRef, *ssa.MakeClosure:
					default:
						return true
					}
				}
			}
			return false
		}
		for _, mc := range closures {
			f, ok := mc.Fn.(*ssa.Function)
			if !ok {
				return false
			}
			for k, bd := range mc.Bindings {
				if bd == ssa.Value(al) && k < len(f.FreeVars) && storesTo(f, f.FreeVars[k]) {
					return false
				}
			}
		}
		return true
	}()
	e.stableAlloc[al] = res
	return res
}

// stableFreeVar: the captured variable is assigned only before the closure is created
// (in the parent) and never inside this closure.
func (e *Enc) stableFreeVar(fv *ssa.FreeVar) bool {
	if _, ok := fv.Type().Underlying().(*types.Pointer); !ok {
		return false
	}
	// no store to it inside this closure (or closures nested in it)
	var storesIn func(f *ssa.Function, target func(ssa.Value) bool) bool
	storesIn = func(f *ssa.Function, target func(ssa.Value) bool) bool {
		for _, b := range f.Blocks {
			for _, ins := range b.Instrs {
				if st, ok := ins.(*ssa.Store); ok && target(st.Addr) {
					return true
				}
			}
		}
		return false
	}
	if storesIn(e.fn, func(a ssa.Value) bool { return a == ssa.Value(fv) }) {
		return false
	}
	parent := e.fn.Parent()
	if parent == nil {
		return false
	}
	// which value of the parent is bound to this free variable?
	idx := -1
	for i, f := range e.fn.FreeVars {
		if f == fv {
			idx = i
		}
	}
	var bound ssa.Value
	var mcBlock *ssa.BasicBlock
	mcIdx := -1
	for _, b := range parent.Blocks {
		for i, ins := range b.Instrs {
			if mc, ok := ins.(*ssa.MakeClosure); ok && mc.Fn == ssa.Value(e.fn) && idx >= 0 && idx < len(mc.Bindings) {
				bound = mc.Bindings[idx]
				mcBlock, mcIdx = b, i
			}
		}
	}
	al, ok := bound.(*ssa.Alloc)
	if !ok {
		return false
	}
	// stores in the parent must precede the closure creation (dominate it); other
	// closures of the parent must not store to it either
	for _, b := range parent.Blocks {
		for i, ins := range b.Instrs {
			if st, ok := ins.(*ssa.Store); ok && st.Addr == ssa.Value(al) {
				if b == mcBlock && i < mcIdx {
					continue
				}
				if b != mcBlock && b.Dominates(mcBlock) {
					continue
				}
				return false
			}
		}
	}
	for _, sib := range parent.AnonFuncs {
		for j, f := range sib.FreeVars {
			_ = j
			// find sibling's binding of the same alloc
			for _, b := range parent.Blocks {
				for _, ins := range b.Instrs {
					if mc, ok := ins.(*ssa.MakeClosure); ok && mc.Fn == ssa.Value(sib) {
						for k, bd := range mc.Bindings {
							if bd == ssa.Value(al) && k < len(sib.FreeVars) && sib.FreeVars[k] == f {
								if storesIn(sib, func(a ssa.Value) bool { return a == ssa.Value(f) }) {
									return false
								}
							}
						}
					}
				}
			}
		}
	}
	return true
}

func (e *Enc) nilCheck(p *Val, pos token.Pos, what string) {
	if !e.opts.Safe["nil"] {
		return
	}
	if len(p.L) == 2 {
		e.oblige("safe.nil", "", "(not (= "+p.L[0]+" 0))", pos, what)
	}
}

// escapeCheck notes when a pointer with a static interior path flows somewhere
// that only keeps its (ref, idx) pair.
func (e *Enc) escapeCheck(sv ssa.Value, v *Val, where string) {
	if len(v.Path) > 0 {
		e.note("interior pointer (%s) %s: sub-object path is lost (aliasing through it is not tracked)", sv.Name(), where)
	}
}

func (e *Enc) fieldOf(x *Val, field int) *Val {
	st, ok := x.T.Underlying().(*types.Struct)
	if !ok {
		e.fail("fieldOf on non-struct %v", x.T)
	}
	off := 0
	for i := 0; i < field; i++ {
		off += len(typeLeaves(st.Field(i).Type()))
	}
	ft := st.Field(field).Type()
	n := len(typeLeaves(ft))
	return e.annotate(&Val{T: ft, L: x.L[off : off+n]})
}

func (e *Enc) tupleElem(t *Val, idx int) *Val {
	tt, ok := t.T.(*types.Tuple)
	if !ok {
		e.fail("extract from non-tuple %v", t.T)
	}
	off := 0
	for i := 0; i < idx; i++ {
		off += len(typeLeaves(tt.At(i).Type()))
	}
	ft := tt.At(idx).Type()
	n := len(typeLeaves(ft))
	out := &Val{T: ft, L: t.L[off : off+n]}
	return e.annotate(out)
}

// markPublished: a reference to an object allocated by this call leaves the function's
// private state (stored into shared memory, passed to unknown code, sent, captured by
// a spawned goroutine). Until then nobody else can touch the object.
func (e *Enc) markPublished(v *Val) {
	if v == nil {
		return
	}
	for _, l := range v.L {
		if e.allocRefs[l] {
			if e.published == nil {
				e.published = map[string]bool{}
			}
			e.published[l] = true
		}
	}
	if v.Closure != nil {
		for _, b := range v.Closure.Bindings {
			e.markPublished(b)
		}
	}
}

func (e *Enc) allocRef(st *State, prefix string) string {
	ref := e.declare(e.freshName(prefix), "Int")
	if e.allocRefs == nil {
		e.allocRefs = map[string]bool{}
	}
	e.allocRefs[ref] = true
	e.assume("(= " + ref + " (+ " + st.alloc + " 1))")
	st.alloc = ref
	return ref
}

func (e *Enc) execAlloc(ins *ssa.Alloc, st *State) {
	ref := e.allocRef(st, "new_"+sanitize(ins.Comment))
	p := &Val{T: ins.Type(), L: []string{ref, "0"}}
	e.annotate(p)
	e.vals[ins] = p
	e.allocd = append(e.allocd, ins)
	e.zeroInit(st, p.Root, ref)
	// ghost fields of a new object start at 0
	for g := range e.DB.GhostFields {
		hk := e.hkeyNamed(types.Typ[types.UnsafePointer], "/"+g, "Int")
		e.heapSet(st, hk, sStore(e.heapGet(st, hk), []string{ref, "0"}, "0"))
	}
}

// zeroInit sets the whole row of object ref to zero in every heap array of root.
func (e *Enc) zeroInit(st *State, root types.Type, ref string) {
	for _, lf := range typeLeaves(root) {
		if lf.Dims > 0 {
			// embedded array of the object at (ref, 0): zero its element row
			p := &Val{T: types.NewPointer(root), L: []string{ref, "0"}, Root: root}
			for _, a := range e.accesses(p, root) {
				if len(a.Idx) == 1 {
					e.heapSet(st, a.HK, "(store "+e.heapGet(st, a.HK)+" "+a.Idx[0]+" "+zeroOfSort(arraySort(a.Leaf.Sort, 1))+")")
				}
			}
			break
		}
	}
	for _, lf := range typeLeaves(root) {
		if lf.Dims > 0 {
			continue
		}
		hk := e.hkey(root, lf.PathKey(), lf, 0)
		rowSort := arraySort(lf.Sort, 1)
		e.heapSet(st, hk, "(store "+e.heapGet(st, hk)+" "+ref+" "+zeroOfSort(rowSort)+")")
	}
}

func (e *Enc) execUnOp(ins *ssa.UnOp, st *State) {
	x := e.val(ins.X)
	switch ins.Op {
	case token.MUL:
		e.nilCheck(x, ins.Pos(), "load through nil pointer")
		if e.isSharedAddr(ins.X) {
			e.vals[ins] = e.freshVal("shared", ins.Type(), true)
			return
		}
		if fa, ok := ins.X.(*ssa.FieldAddr); ok {
			// map-typed guarded fields are checked at the map operation
			if _, isMap := ins.Type().Underlying().(*types.Map); !isMap {
				e.guardCheck(fa, e.val(fa.X), st, ins.Pos(), "read")
			}
		}
		if al, ok := ins.X.(*ssa.Alloc); ok {
			if v, ok := e.allocVal[al]; ok && e.stableLocalAlloc(al) {
				e.vals[ins] = v
				return
			}
		}
		if fv, ok := ins.X.(*ssa.FreeVar); ok && e.stableFreeVar(fv) {
			// a captured variable that nobody assigns after the capture: one value
			if v, ok := e.stableFV[fv]; ok {
				e.vals[ins] = v
				return
			}
			v := e.load(st, x, ins.Type())
			nv := &Val{T: v.T, Root: v.Root, Path: v.Path}
			for i, lf := range typeLeaves(v.T) {
				nv.L = append(nv.L, e.define("fv_"+sanitize(fv.Name()), arraySort(lf.Sort, lf.Dims), v.L[i]))
			}
			// a captured function variable assigned once to a closure literal keeps
			// its static identity (the closure's own bindings are not known here)
			if cf := e.capturedClosure(fv); cf != nil {
				nv.Closure = &closureInfo{Fn: cf}
			}
			if e.stableFV == nil {
				e.stableFV = map[*ssa.FreeVar]*Val{}
			}
			e.stableFV[fv] = e.annotate(nv)
			e.vals[ins] = nv
			return
		}
		e.vals[ins] = e.load(st, x, ins.Type())
	case token.NOT:
		e.vals[ins] = &Val{T: ins.Type(), L: []string{sNot(x.term())}}
	case token.SUB:
		if isFloat(ins.Type()) {
			e.vals[ins] = &Val{T: ins.Type(), L: []string{"(fneg " + x.term() + ")"}}
			return
		}
		e.vals[ins] = &Val{T: ins.Type(), L: []string{e.wrap("(- "+x.term()+")", ins.Type(), false)}}
	case token.XOR:
		T := ins.Type()
		if isUnsigned(T) {
			_, hi := intRange(T)
			e.vals[ins] = &Val{T: T, L: []string{"(- " + sBig(hi) + " " + x.term() + ")"}}
		} else {
			e.vals[ins] = &Val{T: T, L: []string{"(- (- " + x.term() + ") 1)"}}
		}
	case token.ARROW:
		// channel receive: arbitrary value
		if ins.CommaOk {
			tt := ins.Type().(*types.Tuple)
			v := e.freshVal("recv", tt.At(0).Type(), true)
			ok := e.declare(e.freshName("recvok"), "Bool")
			e.vals[ins] = &Val{T: ins.Type(), L: append(append([]string{}, v.L...), ok)}
		} else {
			e.vals[ins] = e.freshVal("recv", ins.Type(), true)
		}
		if e.ctr != nil && e.ctr.Opts["nonblocking"] == "on" {
			e.oblige("nonblock", "", "false", ins.Pos(), "channel receive can block")
		}
		e.afterBlockingOp(st, "channel receive")
	default:
		e.fail("unop %v", ins.Op)
	}
}

// wrap reduces a mathematical result to the machine range of T. narrow says the
// value is known to be off by at most one modulus (add/sub of in-range operands).
func (e *Enc) wrap(t string, T types.Type, narrow bool) string {
	if !isInteger(T) {
		return t
	}
	bits := intBits(T)
	sfx := fmt.Sprintf("%d", bits)
	if isUnsigned(T) {
		if narrow {
			return "(wrapu" + sfx + " " + t + ")"
		}
		return "(mod " + t + " " + pow2(uint(bits)).String() + ")"
	}
	if narrow {
		return "(wraps" + sfx + " " + t + ")"
	}
	return "(wrapms" + sfx + " " + t + ")"
}

func constOf(v *Val) (*big.Int, bool) {
	if len(v.L) != 1 {
		return nil, false
	}
	s := v.L[0]
	neg := false
	if strings.HasPrefix(s, "(- ") && strings.HasSuffix(s, ")") {
		neg = true
		s = s[3 : len(s)-1]
	}
	n, ok := new(big.Int).SetString(s, 10)
	if !ok {
		return nil, false
	}
	if neg {
		n.Neg(n)
	}
	return n, true
}

func (e *Enc) binop(op token.Token, x, y *Val, T types.Type, pos token.Pos, ins ssa.Instruction) *Val {
	xt := x.T
	mk := func(t string) *Val { return &Val{T: T, L: []string{t}} }
	switch {
	case isInteger(xt) && (op == token.SHL || op == token.SHR):
		return mk(e.shift(op, x, y, T, pos))
	case isInteger(xt):
		a, b := x.term(), y.term()
		if (op == token.ADD || op == token.SUB || op == token.MUL) && !isUnsigned(T) && e.ctr != nil && e.ctr.Opts["overflow"] == "check" && e.curBlock != nil {
			// signed arithmetic: prove that it does not overflow, then use the
			// mathematical result (keeps index arithmetic linear and ite-free)
			sym := map[token.Token]string{token.ADD: "+", token.SUB: "-", token.MUL: "*"}[op]
			t := "(" + sym + " " + a + " " + b + ")"
			e.oblige("safe.overflow", "", intRangeFormula(t, T), pos, "signed "+sym+" does not overflow")
			return mk(t)
		}
		switch op {
		case token.ADD:
			return mk(e.wrap("(+ "+a+" "+b+")", T, true))
		case token.SUB:
			return mk(e.wrap("(- "+a+" "+b+")", T, true))
		case token.MUL:
			return mk(e.wrap("(* "+a+" "+b+")", T, false))
		case token.QUO:
			if e.opts.Safe["div"] {
				if c, ok := constOf(y); !ok || c.Sign() == 0 {
					e.oblige("safe.div", "", "(not (= "+b+" 0))", pos, "division by zero")
				}
			}
			if _, isConst := constOf(y); !isConst && e.ctr != nil && strings.Contains(e.ctr.Opts["abstract"], "div") {
				// quotient by a variable divisor as an uninterpreted function with range
				// facts (sound over-approximation; keeps the query linear)
				r := "(udiv " + a + " " + b + ")"
				e.assumeHere("(=> (and (>= " + a + " 0) (> " + b + " 0)) (and (<= 0 " + r + ") (<= " + r + " " + a + ")))")
				e.assumeHere(intRangeFormula(r, T))
				return mk(r)
			}
			if isUnsigned(T) {
				return mk("(gdiv " + a + " " + b + ")")
			}
			return mk(e.wrap("(gdiv "+a+" "+b+")", T, true))
		case token.REM:
			if e.opts.Safe["div"] {
				if c, ok := constOf(y); !ok || c.Sign() == 0 {
					e.oblige("safe.div", "", "(not (= "+b+" 0))", pos, "modulo by zero")
				}
			}
			if _, isConst := constOf(y); !isConst && e.ctr != nil && strings.Contains(e.ctr.Opts["abstract"], "mod") {
				// remainder by a variable divisor as an uninterpreted function with its
				// range facts (sound over-approximation; keeps the query linear)
				r := "(umod " + a + " " + b + ")"
				e.assumeHere("(and (=> (and (>= " + a + " 0) (> " + b + " 0)) (and (<= 0 " + r + ") (< " + r + " " + b + ") (<= " + r + " " + a + "))) (=> (and (<= " + a + " 0) (> " + b + " 0)) (and (<= " + r + " 0) (< (- " + b + ") " + r + "))))")
				return mk(r)
			}
			return mk("(gmod " + a + " " + b + ")")
		case token.AND, token.OR, token.XOR, token.AND_NOT:
			return mk(e.bitop(op, x, y, T))
		case token.EQL:
			return mk(sEq(a, b))
		case token.NEQ:
			return mk(sNot(sEq(a, b)))
		case token.LSS:
			return mk("(< " + a + " " + b + ")")
		case token.LEQ:
			return mk("(<= " + a + " " + b + ")")
		case token.GTR:
			return mk("(> " + a + " " + b + ")")
		case token.GEQ:
			return mk("(>= " + a + " " + b + ")")
		}
	case isFloat(xt):
		a, b := x.term(), y.term()
		switch op {
		case token.ADD:
			return mk("(fadd " + a + " " + b + ")")
		case token.SUB:
			return mk("(fsub " + a + " " + b + ")")
		case token.MUL:
			return mk("(fmul " + a + " " + b + ")")
		case token.QUO:
			return mk("(fdiv " + a + " " + b + ")")
		case token.EQL:
			return mk("(feq " + a + " " + b + ")")
		case token.NEQ:
			return mk("(not (feq " + a + " " + b + "))")
		case token.LSS:
			return mk("(flt " + a + " " + b + ")")
		case token.LEQ:
			return mk("(fle " + a + " " + b + ")")
		case token.GTR:
			return mk("(flt " + b + " " + a + ")")
		case token.GEQ:
			return mk("(fle " + b + " " + a + ")")
		}
	case isString(xt):
		e.useStr = true
		a, b := x.term(), y.term()
		switch op {
		case token.ADD:
			r := e.declare(e.freshName("cat"), "Int")
			e.assume("(= " + r + " (scat " + a + " " + b + "))")
			e.assume("(= (slen " + r + ") (+ (slen " + a + ") (slen " + b + ")))")
			return mk(r)
		case token.EQL:
			return mk(e.strEq(a, b))
		case token.NEQ:
			return mk(sNot(e.strEq(a, b)))
		case token.LSS:
			return mk("(slt " + a + " " + b + ")")
		case token.GTR:
			return mk("(slt " + b + " " + a + ")")
		case token.LEQ:
			return mk("(not (slt " + b + " " + a + "))")
		case token.GEQ:
			return mk("(not (slt " + a + " " + b + "))")
		}
	case isBool(xt):
		a, b := x.term(), y.term()
		switch op {
		case token.EQL:
			return mk(sEq(a, b))
		case token.NEQ:
			return mk(sNot(sEq(a, b)))
		case token.AND, token.LAND:
			return mk(sAnd(a, b))
		case token.OR, token.LOR:
			return mk(sOr(a, b))
		}
	default:
		// pointers, interfaces, maps, chans, funcs, structs, arrays: leafwise equality
		if op == token.EQL || op == token.NEQ {
			var eqs []string
			if _, isSlice := xt.Underlying().(*types.Slice); isSlice {
				// only comparison with nil is legal
				var s *Val = x
				if c, ok := constOf(&Val{L: []string{x.L[0]}}); ok && c.Sign() == 0 {
					s = y
				}
				eqs = append(eqs, "(= "+s.L[0]+" 0)")
			} else if _, isIface := xt.Underlying().(*types.Interface); isIface && len(y.L) == 1 {
				eqs = append(eqs, sEq(x.L[0], y.L[0]))
			} else if _, isPtr := xt.Underlying().(*types.Pointer); isPtr && len(x.L) == 2 && len(y.L) == 2 && len(x.Path) == len(y.Path) {
				// nil is ref 0 whatever the index
				eqs = append(eqs, "(= "+x.L[0]+" "+y.L[0]+")", "(or (= "+x.L[0]+" 0) (= "+x.L[1]+" "+y.L[1]+"))")
				for i := range x.Path {
					if x.Path[i].Field != y.Path[i].Field {
						eqs = append(eqs, "(= "+x.L[0]+" 0)")
					}
				}
			} else {
				if len(x.L) != len(y.L) {
					e.note("comparison of differently shaped values: fresh bool")
					return e.freshVal("cmp", T, false)
				}
				leaves := typeLeaves(xt)
				for i := range x.L {
					if i < len(leaves) && leaves[i].Sort == "F" {
						eqs = append(eqs, "(feq "+x.L[i]+" "+y.L[i]+")")
					} else if i < len(leaves) && isString(leaves[i].T) && leaves[i].Dims == 0 {
						eqs = append(eqs, e.strEq(x.L[i], y.L[i]))
					} else {
						eqs = append(eqs, sEq(x.L[i], y.L[i]))
					}
				}
				// interior paths
				if len(x.Path) != len(y.Path) {
					if len(x.L) == 2 && (x.L[0] == "0" || y.L[0] == "0") {
						eqs = []string{sEq(x.L[0], y.L[0])}
					} else {
						e.note("comparison of pointers with different interior paths: fresh bool")
						return e.freshVal("cmp", T, false)
					}
				}
			}
			r := sAnd(eqs...)
			if op == token.NEQ {
				r = sNot(r)
			}
			return mk(r)
		}
	}
	e.note("unsupported binop %v on %v: fresh", op, xt)
	return e.freshVal("binop", T, true)
}

// strEq: identity of string ids, with content-extensionality for literals of
// length <= 8 (equal content and length imply equal id).
func (e *Enc) strEq(a, b string) string {
	e.useStr = true
	return "(= " + a + " " + b + ")"
}

func (e *Enc) shift(op token.Token, x, y *Val, T types.Type, pos token.Pos) string {
	a := x.term()
	bits := intBits(T)
	if !isUnsigned(y.T) && e.opts.Safe["shift"] {
		if c, ok := constOf(y); !ok || c.Sign() < 0 {
			e.oblige("safe.shift", "", "(>= "+y.term()+" 0)", pos, "negative shift count")
		}
	}
	if c, ok := constOf(y); ok && c.IsInt64() {
		k := c.Int64()
		if k >= int64(bits) {
			if op == token.SHL || isUnsigned(T) {
				return "0"
			}
			return "(ite (< " + a + " 0) (- 1) 0)"
		}
		p := pow2(uint(k)).String()
		if op == token.SHL {
			return e.wrap("(* "+a+" "+p+")", T, false)
		}
		return "(div " + a + " " + p + ")"
	}
	// 1 << n and friends: use pow2 function with defining axioms on demand
	b := y.term()
	if op == token.SHL {
		return e.wrap("(* "+a+" (pow2 "+b+"))", T, false)
	}
	return "(div " + a + " (pow2 " + b + "))"
}

// bitop encodes &, |, ^, &^ exactly when one operand is a constant, otherwise as
// an uninterpreted function with range facts.
func (e *Enc) bitop(op token.Token, x, y *Val, T types.Type) string {
	bits := intBits(T)
	mod := pow2(uint(bits))
	cx, okx := constOf(x)
	cy, oky := constOf(y)
	if okx && !oky && op != token.AND_NOT {
		x, y, cx, cy, okx, oky = y, x, cy, cx, oky, okx
	}
	if oky {
		a := x.term()
		m := new(big.Int).Set(cy)
		if m.Sign() < 0 {
			m.Add(m, mod)
		}
		// unsigned view of a
		ua := a
		if !isUnsigned(T) {
			ua = "(mod " + a + " " + mod.String() + ")"
		}
		if op == token.AND_NOT {
			m = new(big.Int).Xor(m, new(big.Int).Sub(mod, big.NewInt(1)))
			op = token.AND
		}
		andMask := func(mask *big.Int) string {
			// sum over runs of set bits
			var parts []string
			i := 0
			for i < bits {
				if mask.Bit(i) == 0 {
					i++
					continue
				}
				j := i
				for j < bits && mask.Bit(j) == 1 {
					j++
				}
				// bits [i, j)
				part := ua
				if i > 0 {
					part = "(div " + part + " " + pow2(uint(i)).String() + ")"
				}
				if j < bits {
					part = "(mod " + part + " " + pow2(uint(j-i)).String() + ")"
				}
				if i > 0 {
					part = "(* " + part + " " + pow2(uint(i)).String() + ")"
				}
				parts = append(parts, part)
				i = j
			}
			if len(parts) == 0 {
				return "0"
			}
			if len(parts) == 1 {
				return parts[0]
			}
			return "(+ " + strings.Join(parts, " ") + ")"
		}
		var u string
		switch op {
		case token.AND:
			u = andMask(m)
		case token.OR:
			// a | m = (a & ^m) + m
			nm := new(big.Int).Xor(m, new(big.Int).Sub(mod, big.NewInt(1)))
			u = "(+ " + andMask(nm) + " " + m.String() + ")"
		case token.XOR:
			// a ^ m = (a & ^m) + (m - (a & m))
			nm := new(big.Int).Xor(m, new(big.Int).Sub(mod, big.NewInt(1)))
			u = "(+ " + andMask(nm) + " (- " + m.String() + " " + andMask(m) + "))"
		}
		if !isUnsigned(T) {
			return e.wrap(u, T, true)
		}
		return u
	}
	fn := map[token.Token]string{token.AND: "ubvand", token.OR: "ubvor", token.XOR: "ubvxor", token.AND_NOT: "ubvandnot"}[op]
	r := e.declare(e.freshName(fn), "Int")
	e.assume("(= " + r + " (" + fn + " " + x.term() + " " + y.term() + "))")
	e.assume(intRangeFormula(r, T))
	if isUnsigned(T) || true {
		a, b := x.term(), y.term()
		switch op {
		case token.AND:
			e.assume("(=> (and (>= " + a + " 0) (>= " + b + " 0)) (and (<= 0 " + r + ") (<= " + r + " " + a + ") (<= " + r + " " + b + ")))")
		case token.OR:
			e.assume("(=> (and (>= " + a + " 0) (>= " + b + " 0)) (and (>= " + r + " " + a + ") (>= " + r + " " + b + ") (<= " + r + " (+ " + a + " " + b + "))))")
		}
	}
	return r
}

func (e *Enc) convert(x *Val, T types.Type, st *State, pos token.Pos) *Val {
	from := x.T
	mk := func(t string) *Val { return e.annotate(&Val{T: T, L: []string{t}}) }
	switch {
	case isInteger(from) && isInteger(T):
		flo, fhi := intRange(from)
		tlo, thi := intRange(T)
		if flo.Cmp(tlo) >= 0 && fhi.Cmp(thi) <= 0 {
			return mk(x.term())
		}
		return mk(e.wrap(x.term(), T, false))
	case isInteger(from) && isFloat(T):
		return mk("(i2f " + x.term() + ")")
	case isFloat(from) && isInteger(T):
		r := e.freshVal("f2i", T, true)
		e.assume("(= " + r.term() + " (f2i" + fmt.Sprint(intBits(T)) + " " + x.term() + "))")
		return r
	case isFloat(from) && isFloat(T):
		if intBitsFloat(from) == intBitsFloat(T) {
			return mk(x.term())
		}
		return mk("(fconv" + fmt.Sprint(intBitsFloat(T)) + " " + x.term() + ")")
	case isString(T) && isInteger(from):
		r := e.freshVal("runestr", T, true)
		e.assume("(<= (slen " + r.term() + ") 4)")
		return r
	case isString(T):
		// []byte / []rune -> string
		if sl, ok := from.Underlying().(*types.Slice); ok {
			r := e.freshVal("bstr", T, true)
			if isInteger(sl.Elem()) && intBits(sl.Elem()) == 8 {
				e.assume("(= (slen " + r.term() + ") " + x.L[slLen] + ")")
				row := e.sliceRow(st, x, sl.Elem())
				if row != "" {
					e.assume("(forall ((i Int)) (! (=> (and (<= 0 i) (< i " + x.L[slLen] + ")) (= (sat " + r.term() + " i) (select " + row + " (+ " + x.L[slOff] + " i)))) :pattern ((sat " + r.term() + " i))))")
				}
			}
			return r
		}
	case isString(from):
		if sl, ok := T.Underlying().(*types.Slice); ok {
			ref := e.allocRef(st, "sbytes")
			r := e.annotate(&Val{T: T, L: []string{ref, "0", "", ""}})
			if isInteger(sl.Elem()) && intBits(sl.Elem()) == 8 {
				r.L[slLen] = "(slen " + x.term() + ")"
				cp := e.declare(e.freshName("cap"), "Int")
				e.assume("(>= " + cp + " (slen " + x.term() + "))")
				r.L[slCap] = cp
				// content
				hk := e.hkey(sl.Elem(), "", typeLeaves(sl.Elem())[0], 0)
				row := e.declare(e.freshName("row"), "(Array Int Int)")
				e.assume("(forall ((i Int)) (! (=> (and (<= 0 i) (< i (slen " + x.term() + "))) (= (select " + row + " i) (sat " + x.term() + " i))) :pattern ((select " + row + " i))))")
				e.heapSet(st, hk, "(store "+e.heapGet(st, hk)+" "+ref+" "+row+")")
			} else {
				ln := e.declare(e.freshName("len"), "Int")
				e.assume("(and (>= " + ln + " 0) (<= " + ln + " (slen " + x.term() + ")))")
				r.L[slLen], r.L[slCap] = ln, ln
			}
			return r
		}
	}
	if types.Identical(from.Underlying(), T.Underlying()) || len(typeLeaves(from)) == len(typeLeaves(T)) {
		if _, ok := T.Underlying().(*types.Pointer); ok {
			// pointer conversion (incl. unsafe): keep the pair, re-root
			return e.annotate(&Val{T: T, L: x.L})
		}
		return e.annotate(&Val{T: T, L: x.L, Root: x.Root, Path: x.Path})
	}
	e.note("unsupported conversion %v -> %v: fresh", from, T)
	return e.freshVal("conv", T, true)
}

func intBitsFloat(t types.Type) int {
	if b, ok := t.Underlying().(*types.Basic); ok && b.Kind() == types.Float32 {
		return 32
	}
	return 64
}

// sliceRow returns the SMT row array of a slice of scalar elements.
func (e *Enc) sliceRow(st *State, s *Val, elem types.Type) string {
	lv := typeLeaves(elem)
	if len(lv) != 1 || lv[0].Dims != 0 {
		return ""
	}
	hk := e.hkey(elem, "", lv[0], 0)
	return sSel(e.heapGet(st, hk), s.L[slRef])
}

func (e *Enc) makeInterface(x *Val, T types.Type) *Val {
	if _, ok := T.Underlying().(*types.Interface); ok {
		return &Val{T: T, L: x.L}
	}
	if len(x.Path) > 0 {
		e.note("interior pointer boxed into interface: sub-object path lost")
	}
	box := e.boxName(T)
	term := sApp(box, x.L...)
	r := e.declare(e.freshName("iface"), "Int")
	e.assume("(= " + r + " " + term + ")")
	e.assume("(> " + r + " 0)")
	e.assume(fmt.Sprintf("(= (itag %s) %d)", r, e.tagOf(T)))
	for i := range x.L {
		e.assume("(= (" + e.unboxName(T, i) + " " + r + ") " + x.L[i] + ")")
	}
	if _, isPtr := T.Underlying().(*types.Pointer); isPtr && len(x.L) == 2 {
		e.assume("(= (ifaceobj " + r + ") " + x.L[0] + ")")
	}
	return &Val{T: types.NewInterfaceType(nil, nil), L: []string{r}, Closure: x.Closure, Box: x}
}

func (e *Enc) execTypeAssert(ins *ssa.TypeAssert, st *State) {
	x := e.val(ins.X)
	T := ins.AssertedType
	var ok string
	var v *Val
	if _, isIface := T.Underlying().(*types.Interface); isIface {
		okc := e.declare(e.freshName("taok"), "Bool")
		e.assume("(=> (= " + x.L[0] + " 0) (not " + okc + "))")
		if types.IsInterface(ins.X.Type()) {
			if it, ok2 := ins.X.Type().Underlying().(*types.Interface); ok2 {
				if tt, ok3 := T.Underlying().(*types.Interface); ok3 && types.Implements(it, tt) && false {
					_ = tt
				}
			}
		}
		ok = okc
		v = &Val{T: T, L: []string{sIte(okc, x.L[0], "0")}}
	} else {
		ok = fmt.Sprintf("(= (itag %s) %d)", x.L[0], e.tagOf(T))
		v = &Val{T: T}
		for i := range typeLeaves(T) {
			v.L = append(v.L, "("+e.unboxName(T, i)+" "+x.L[0]+")")
		}
		e.annotate(v)
	}
	if ins.CommaOk {
		z := e.zeroVal(T)
		out := &Val{T: ins.Type()}
		for i := range v.L {
			out.L = append(out.L, sIte(ok, v.L[i], z.L[i]))
		}
		out.L = append(out.L, ok)
		e.vals[ins] = out
		// type invariants of the unboxed value hold when ok
		e.assumeHere(sImp(ok, e.typeInvFormula(st, v)))
		return
	}
	if e.opts.Safe["typeassert"] {
		e.oblige("safe.typeassert", "", ok, ins.Pos(), "unchecked type assertion to "+typeShort(T))
	}
	e.assumeHere(e.typeInvFormula(st, v))
	e.vals[ins] = v
}

func (e *Enc) execMakeSlice(ins *ssa.MakeSlice, st *State) {
	ln, cp := e.val(ins.Len).term(), e.val(ins.Cap).term()
	if e.opts.Safe["makeslice"] {
		_, lc := constOf(e.val(ins.Len))
		_, cc := constOf(e.val(ins.Cap))
		if !(lc && cc) {
			e.oblige("safe.makeslice", "", "(and (<= 0 "+ln+") (<= "+ln+" "+cp+"))", ins.Pos(), "make: len out of range")
		}
	}
	if b, ok := e.allocBudget(); ok {
		e.oblige("safe.alloc", "", "(<= "+cp+" "+b+")", ins.Pos(), "allocation within budget")
	}
	ref := e.allocRef(st, "mk")
	elem := ins.Type().Underlying().(*types.Slice).Elem()
	e.zeroInit(st, elem, ref)
	e.vals[ins] = e.annotate(&Val{T: ins.Type(), L: []string{ref, "0", ln, cp}})
	e.allocd = append(e.allocd, ins)
}

func (e *Enc) allocBudget() (string, bool) {
	if e.ctr == nil {
		return "", false
	}
	b, ok := e.ctr.Opts["alloc-budget"]
	if !ok {
		return "", false
	}
	c, err := ParseSpec(b)
	if err != nil {
		e.fail("alloc-budget: %v", err)
	}
	v := e.evalSpec(c, &specCtx{env: e.paramEnv(), st: e.curState, old: e.entry})
	return v.term(), true
}

func (e *Enc) execSlice(ins *ssa.Slice, st *State) {
	x := e.val(ins.X)
	var lo, hi, mx string
	if ins.Low != nil {
		lo = e.val(ins.Low).term()
	} else {
		lo = "0"
	}
	switch u := ins.X.Type().Underlying().(type) {
	case *types.Basic: // string
		e.useStr = true
		s := x.term()
		if ins.High != nil {
			hi = e.val(ins.High).term()
		} else {
			hi = "(slen " + s + ")"
		}
		if e.opts.Safe["slice"] {
			e.oblige("safe.slice", "", "(and (<= 0 "+lo+") (<= "+lo+" "+hi+") (<= "+hi+" (slen "+s+")))", ins.Pos(), "string slice bounds")
		}
		r := e.declare(e.freshName("sub"), "Int")
		e.assume("(= " + r + " (ssub " + s + " " + lo + " " + hi + "))")
		e.assumeHere("(= (slen " + r + ") (- " + hi + " " + lo + "))")
		e.assume("(forall ((i Int)) (! (=> (and (<= 0 i) (< i (- " + hi + " " + lo + "))) (= (sat " + r + " i) (sat " + s + " (+ " + lo + " i)))) :pattern ((sat " + r + " i))))")
		e.vals[ins] = &Val{T: ins.Type(), L: []string{r}}
	case *types.Slice:
		if ins.High != nil {
			hi = e.val(ins.High).term()
		} else {
			hi = x.L[slLen]
		}
		if ins.Max != nil {
			mx = e.val(ins.Max).term()
		} else {
			mx = x.L[slCap]
		}
		if e.opts.Safe["slice"] {
			e.oblige("safe.slice", "", "(and (<= 0 "+lo+") (<= "+lo+" "+hi+") (<= "+hi+" "+mx+") (<= "+mx+" "+x.L[slCap]+"))", ins.Pos(), "slice bounds")
		}
		e.vals[ins] = e.annotate(&Val{T: ins.Type(), L: []string{
			x.L[slRef], e.simpAdd(x.L[slOff], lo), e.simpSub(hi, lo), e.simpSub(mx, lo)}})
	case *types.Pointer: // *array
		arr := u.Elem().Underlying().(*types.Array)
		n := fmt.Sprint(arr.Len())
		if ins.High != nil {
			hi = e.val(ins.High).term()
		} else {
			hi = n
		}
		if ins.Max != nil {
			mx = e.val(ins.Max).term()
		} else {
			mx = n
		}
		if e.opts.Safe["slice"] && (ins.Low != nil || ins.High != nil || ins.Max != nil) {
			e.oblige("safe.slice", "", "(and (<= 0 "+lo+") (<= "+lo+" "+hi+") (<= "+hi+" "+mx+") (<= "+mx+" "+n+"))", ins.Pos(), "array slice bounds")
		}
		x = e.rowPtr(x, arr)
		e.vals[ins] = e.annotate(&Val{T: ins.Type(), L: []string{
			x.L[0], e.simpAdd(x.L[1], lo), e.simpSub(hi, lo), e.simpSub(mx, lo)}})
	default:
		e.fail("slice of %v", ins.X.Type())
	}
}

func (e *Enc) simpAdd(a, b string) string {
	if a == "0" {
		return b
	}
	if b == "0" {
		return a
	}
	return "(+ " + a + " " + b + ")"
}
func (e *Enc) simpSub(a, b string) string {
	if b == "0" {
		return a
	}
	return "(- " + a + " " + b + ")"
}

func (e *Enc) execIndexAddr(ins *ssa.IndexAddr, st *State) {
	x := e.val(ins.X)
	i := e.val(ins.Index).term()
	switch u := ins.X.Type().Underlying().(type) {
	case *types.Slice:
		if e.opts.Safe["index"] {
			e.oblige("safe.index", "", "(and (<= 0 "+i+") (< "+i+" "+x.L[slLen]+"))", ins.Pos(), "slice index in range")
		}
		e.vals[ins] = &Val{T: ins.Type(), L: []string{x.L[slRef], e.simpAdd(x.L[slOff], i)}, Root: u.Elem()}
	case *types.Pointer:
		arr := u.Elem().Underlying().(*types.Array)
		if e.opts.Safe["index"] {
			if c, ok := constOf(e.val(ins.Index)); !(ok && c.Sign() >= 0 && c.Cmp(big.NewInt(arr.Len())) < 0) {
				e.oblige("safe.index", "", fmt.Sprintf("(and (<= 0 %s) (< %s %d))", i, i, arr.Len()), ins.Pos(), "array index in range")
			}
		}
		e.nilCheck(x, ins.Pos(), "index of nil array pointer")
		x = e.rowPtr(x, arr)
		e.vals[ins] = &Val{T: ins.Type(), L: []string{x.L[0], e.simpAdd(x.L[1], i)}, Root: x.Root}
	default:
		e.fail("IndexAddr on %v", ins.X.Type())
	}
}

func (e *Enc) execIndex(ins *ssa.Index, st *State) {
	x := e.val(ins.X)
	i := e.val(ins.Index).term()
	switch u := ins.X.Type().Underlying().(type) {
	case *types.Array:
		if e.opts.Safe["index"] {
			if c, ok := constOf(e.val(ins.Index)); !(ok && c.Sign() >= 0 && c.Cmp(big.NewInt(u.Len())) < 0) {
				e.oblige("safe.index", "", fmt.Sprintf("(and (<= 0 %s) (< %s %d))", i, i, u.Len()), ins.Pos(), "array index in range")
			}
		}
		v := &Val{T: ins.Type()}
		for _, l := range x.L {
			v.L = append(v.L, "(select "+l+" "+i+")")
		}
		e.vals[ins] = e.annotate(v)
		e.assumeTypeInv(st, v, true)
	case *types.Basic: // string (generic code)
		e.vals[ins] = e.strIndex(x.term(), i, ins.Type(), ins.Pos())
	default:
		e.fail("Index on %v", ins.X.Type())
	}
}

func (e *Enc) strIndex(s, i string, T types.Type, pos token.Pos) *Val {
	e.useStr = true
	if e.opts.Safe["index"] {
		e.oblige("safe.index", "", "(and (<= 0 "+i+") (< "+i+" (slen "+s+")))", pos, "string index in range")
	}
	t := "(sat " + s + " " + i + ")"
	e.assumeHere("(and (<= 0 " + t + ") (<= " + t + " 255))")
	return &Val{T: T, L: []string{t}}
}

func (e *Enc) execReturn(ins *ssa.Return, st *State) {
	var vs []*Val
	for _, r := range ins.Results {
		vs = append(vs, e.val(r))
	}
	{
		extra := map[string]*Val{}
		if len(vs) == 1 {
			extra["result"] = vs[0]
		} else if len(vs) > 1 {
			rv := &Val{T: e.fn.Signature.Results()}
			for _, v := range vs {
				rv.L = append(rv.L, v.L...)
			}
			extra["result"] = rv
		}
		e.fireAssertAt("return", "return", ins.Pos(), st, extra, "true")
	}
	e.retVals = append(e.retVals, retPoint{block: ins.Block(), pc: e.pc[ins.Block()], vals: vs, state: st.clone(), pos: ins.Pos()})
}
