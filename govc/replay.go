package main

import (
	"encoding/json"
	"fmt"
	"os"
	"os/exec"
	"path/filepath"
	"strings"
)

// harnessFor returns the replay harness (a Go test injected by overlay) for a function.
func harnessFor(fn string) string {
	name := strings.NewReplacer("/", "_", "*", "", "(", "", ")", "").Replace(fn)
	p := filepath.Join(verifDir(), "harness", name+".go")
	if _, err := os.Stat(p); err == nil {
		return p
	}
	return ""
}

// runReplay injects the harness into the function's package and runs it against
// the real code with the witness. Returns (reproduced, output).
func runReplay(replayPath string) (bool, string) {
	data, err := os.ReadFile(replayPath)
	if err != nil {
		return false, err.Error()
	}
	var doc struct {
		Function string `json:"function"`
	}
	if err := json.Unmarshal(data, &doc); err != nil {
		return false, err.Error()
	}
	h := harnessFor(doc.Function)
	if h == "" {
		return false, "no replay harness for " + doc.Function
	}
	// package dir: function key is "<dir>.<name>"; dir ends at the last '/'-segment's first '.'
	fn := doc.Function
	slash := strings.LastIndex(fn, "/")
	dot := strings.Index(fn[slash+1:], ".")
	pkgDir := fn[:slash+1+dot]
	pkgName := ""
	hsrc, _ := os.ReadFile(h)
	for _, ln := range strings.Split(string(hsrc), "\n") {
		if strings.HasPrefix(ln, "package ") {
			pkgName = strings.TrimSpace(strings.TrimPrefix(ln, "package "))
			break
		}
	}
	work, err := os.MkdirTemp("", "govc-replay-")
	if err != nil {
		return false, err.Error()
	}
	defer os.RemoveAll(work)
	helperT, _ := os.ReadFile(filepath.Join(verifDir(), "harness", "_helper.go.tmpl"))
	helper := strings.Replace(string(helperT), "package PKG", "package "+pkgName, 1)
	hp := filepath.Join(work, "helper_test.go")
	os.WriteFile(hp, []byte(helper), 0o644)
	repo := repoDir()
	ov := map[string]any{"Replace": map[string]string{
		filepath.Join(repo, pkgDir, "govc_replay_test.go"):        h,
		filepath.Join(repo, pkgDir, "govc_replay_helper_test.go"): hp,
	}}
	ovData, _ := json.Marshal(ov)
	ovPath := filepath.Join(work, "overlay.json")
	os.WriteFile(ovPath, ovData, 0o644)
	cmd := exec.Command("bash", "-c", fmt.Sprintf("ulimit -v 8000000; exec go test -overlay %s -vet=off -timeout 60s -run '^TestGovcReplay$' -count=1 ./%s", ovPath, pkgDir))
	cmd.Dir = repo
	if abs, err := filepath.Abs(replayPath); err == nil {
		replayPath = abs
	}
	cmd.Env = append(os.Environ(), "GOFLAGS=-mod=mod", "GOPROXY=off", "GOVC_WITNESS="+replayPath)
	out, _ := cmd.CombinedOutput()
	s := string(out)
	return strings.Contains(s, "REPRODUCED") || strings.Contains(s, "panic:") || strings.Contains(s, "fatal error:"), s
}

func tryReplay(id, replayPath string, cfg PropConfig, r *OblResult) bool {
	ok, out := runReplay(replayPath)
	// append the replay transcript to the replay file
	data, err := os.ReadFile(replayPath)
	if err == nil {
		var doc map[string]any
		if json.Unmarshal(data, &doc) == nil {
			if len(out) > 6000 {
				out = out[:6000] + "...(truncated)"
			}
			doc["replay_reproduced"] = ok
			doc["replay_output"] = out
			nd, _ := json.MarshalIndent(doc, "", " ")
			os.WriteFile(replayPath, nd, 0o644)
		}
	}
	return ok
}

func cmdReplay(id, path string) int {
	ok, out := runReplay(path)
	fmt.Println(out)
	if ok {
		fmt.Printf("VIOLATION property=%s replay=%s\n", id, path)
		return 1
	}
	data, _ := os.ReadFile(path)
	var doc map[string]any
	json.Unmarshal(data, &doc)
	fmt.Printf("replay of %v did not reproduce on the current tree (obligation %v, solver status %v)\n", path, doc["obligation"], doc["solver_status"])
	return 0
}
