package main

// Robustness against pure renames of local variables: contracts name locals (loop
// invariants, assert-at). A snapshot of every function under contract (taken on the
// tree the contracts were written for) records, per top-level function, its variables in
// declaration order with their types. When a name used by a contract no longer resolves,
// the variable that now sits at the same declaration ordinal with the same type is used
// instead (and the substitution is noted in the evidence). Anything else - a different
// type, a different number of variables before it - is a binding failure as before.

import (
	"encoding/json"
	"fmt"
	"go/ast"
	"go/types"
	"os"
	"path/filepath"
	"sort"
	"strings"

	"golang.org/x/tools/go/ssa"
)

type LocalDesc struct {
	Name string `json:"name"`
	Type string `json:"type"`
}

func topFunc(f *ssa.Function) *ssa.Function {
	for f.Parent() != nil {
		f = f.Parent()
	}
	return f
}

// localsOf lists the variables (parameters, results, locals, closure parameters) defined
// inside the top-level declaration that contains f, in source order.
func localsOf(P *Program, f *ssa.Function) []LocalDesc {
	top := topFunc(f)
	node := top.Syntax()
	if node == nil || top.Pkg == nil {
		return nil
	}
	pkg := P.Pkgs[top.Pkg.Pkg.Path()]
	if pkg == nil || pkg.TypesInfo == nil {
		return nil
	}
	type item struct {
		pos  int
		desc LocalDesc
	}
	var items []item
	qual := func(p *types.Package) string { return p.Path() }
	ast.Inspect(node, func(n ast.Node) bool {
		id, ok := n.(*ast.Ident)
		if !ok {
			return true
		}
		if obj, ok := pkg.TypesInfo.Defs[id]; ok && obj != nil {
			if v, ok := obj.(*types.Var); ok && !v.IsField() {
				items = append(items, item{int(id.Pos()), LocalDesc{Name: id.Name, Type: types.TypeString(v.Type(), qual)}})
			}
		}
		return true
	})
	sort.Slice(items, func(i, j int) bool { return items[i].pos < items[j].pos })
	out := make([]LocalDesc, len(items))
	for i, it := range items {
		out[i] = it.desc
	}
	return out
}

func localsSnapshotPath() string { return filepath.Join(verifDir(), "locals.json") }

var localsSnap map[string][]LocalDesc
var localsSnapLoaded bool

func loadLocalsSnapshot() map[string][]LocalDesc {
	if localsSnapLoaded {
		return localsSnap
	}
	localsSnapLoaded = true
	data, err := os.ReadFile(localsSnapshotPath())
	if err != nil {
		return nil
	}
	_ = json.Unmarshal(data, &localsSnap)
	return localsSnap
}

// renamedLocal: the current name of the variable that the snapshot knows as `name` in the
// function being verified, or "".
func (e *Enc) renamedLocal(name string) string {
	snap := loadLocalsSnapshot()
	if snap == nil || e.fn == nil {
		return ""
	}
	top := topFunc(e.fn)
	old := snap[ShortKey(FuncKey(top))]
	if old == nil {
		return ""
	}
	cur := localsOf(e.P, e.fn)
	if len(cur) != len(old) {
		return "" // variables were added or removed: ordinals are not comparable
	}
	for _, c := range cur {
		if c.Name == name {
			return "" // the name still exists (just not visible here): not a rename
		}
	}
	cand := ""
	for i, o := range old {
		if o.Name != name {
			continue
		}
		if cur[i].Type != o.Type || cur[i].Name == name {
			return ""
		}
		if cand != "" && cand != cur[i].Name {
			return "" // the old name denoted several variables that now differ
		}
		cand = cur[i].Name
	}
	return cand
}

// cmdSnapshotLocals writes the snapshot for every function named in props/*.json.
func cmdSnapshotLocals(args []string) int {
	files, _ := filepath.Glob(filepath.Join(verifDir(), "props", "*.json"))
	pkgsWanted := map[string]bool{}
	var fnames []string
	for _, f := range files {
		data, err := os.ReadFile(f)
		if err != nil {
			continue
		}
		var cfg PropConfig
		if json.Unmarshal(data, &cfg) != nil {
			continue
		}
		for _, p := range cfg.Packages {
			pkgsWanted[p] = true
		}
		fnames = append(fnames, cfg.Functions...)
	}
	var pkgs []string
	for p := range pkgsWanted {
		pkgs = append(pkgs, p)
	}
	sort.Strings(pkgs)
	P, err := LoadProgram(pkgs)
	if err != nil {
		fmt.Fprintln(os.Stderr, "cannot load packages:", err)
		return 2
	}
	out := map[string][]LocalDesc{}
	for _, fn := range fnames {
		f := P.FindFunc(fn)
		if f == nil {
			fmt.Fprintln(os.Stderr, "warning: function not found:", fn)
			continue
		}
		top := topFunc(f)
		k := ShortKey(FuncKey(top))
		if _, ok := out[k]; !ok {
			out[k] = localsOf(P, f)
		}
	}
	data, _ := json.MarshalIndent(out, "", " ")
	if err := os.WriteFile(localsSnapshotPath(), data, 0o644); err != nil {
		fmt.Fprintln(os.Stderr, err)
		return 2
	}
	fmt.Printf("locals snapshot: %d functions -> %s\n", len(out), localsSnapshotPath())
	return 0
}

var _ = strings.HasPrefix
