package main

import (
	"fmt"
	"go/types"
	"os"
	"os/exec"
	"sort"
	"strings"
)

func newBareEnc(P *Program, DB *ContractDB, key string) *Enc {
	e := &Enc{P: P, DB: DB, key: key}
	e.declSet = map[string]bool{}
	e.noteSet = map[string]bool{}
	e.ords = map[string]int{}
	e.hkeys = map[string]*heapKey{}
	e.lits = map[string]string{}
	e.tags = map[string]int{}
	e.specDecl = map[string]bool{}
	e.boxDecl = map[string]bool{}
	e.callOrd = map[string]int{}
	e.opts.Safe = defaultSafe()
	st := &State{heap: map[string]string{}, rootEpoch: map[string]int{}, ghost: map[string]string{}}
	st.alloc = e.declare("alloc0", "Int")
	e.entry = st
	e.curState = st
	return e
}

// lemmaFormula builds (requires => ensures) with the parameters bound to the given values.
func (e *Enc) lemmaParts(l *Lemma, bound map[string]*Val) (req, ens string) {
	ctx := &specCtx{env: map[string]envEntry{}, st: e.entry, old: e.entry, pkg: l.Pkg, bound: bound}
	var rs, es []string
	for _, c := range l.Requires {
		rs = append(rs, e.evalBoolCtx(c, ctx))
	}
	for _, c := range l.Ensures {
		es = append(es, e.evalBoolCtx(c, ctx))
	}
	return sAnd(rs...), sAnd(es...)
}

func (e *Enc) lemmaBound(l *Lemma, suffix string) (map[string]*Val, []string, []string) {
	bound := map[string]*Val{}
	var binders, guards []string
	for _, p := range l.Params {
		name := smtIdent(p.Name + suffix)
		switch p.Type {
		case "int":
			bound[p.Name] = mathInt(name)
			binders = append(binders, "("+name+" Int)")
		case "bool":
			bound[p.Name] = mathBool(name)
			binders = append(binders, "("+name+" Bool)")
		case "string":
			bound[p.Name] = &Val{T: types.Typ[types.String], L: []string{name}}
			binders = append(binders, "("+name+" Int)")
			guards = append(guards, "(>= (slen "+name+") 0)")
			e.useStr = true
		default:
			if strings.HasPrefix(p.Type, "[]") {
				el := e.resolveTypeName(p.Type[2:], l.Pkg)
				if el == nil {
					e.fail("lemma %s: unknown type %s", l.Name, p.Type)
				}
				lv := typeLeaves(el)
				row := smtIdent(p.Name + suffix + "?row")
				off := smtIdent(p.Name + suffix + "?off")
				ln := smtIdent(p.Name + suffix + "?len")
				bound[p.Name] = &Val{T: types.NewSlice(el), L: []string{"?row:" + row, off, ln, ln}}
				binders = append(binders, "("+row+" (Array Int "+lv[0].Sort+"))", "("+off+" Int)", "("+ln+" Int)")
				guards = append(guards, "(>= "+off+" 0)", "(>= "+ln+" 0)")
				continue
			}
			T := e.resolveTypeName(p.Type, l.Pkg)
			if T == nil {
				e.fail("lemma %s: unknown type %s", l.Name, p.Type)
			}
			lv := typeLeaves(T)
			if len(lv) != 1 {
				e.fail("lemma %s: composite parameter type %s", l.Name, p.Type)
			}
			bound[p.Name] = &Val{T: T, L: []string{name}}
			binders = append(binders, "("+name+" "+lv[0].Sort+")")
			if isInteger(T) {
				guards = append(guards, intRangeFormula(name, T))
			}
		}
	}
	return bound, binders, guards
}

// lemmaAxiom: the universally quantified statement, for use as an assumption.
func (e *Enc) lemmaAxiom(l *Lemma) string {
	qvCounter++
	bound, binders, guards := e.lemmaBound(l, fmt.Sprintf("?L%d", qvCounter))
	req, ens := e.lemmaParts(l, bound)
	body := sImp(sAnd(append(guards, req)...), ens)
	if len(binders) == 0 {
		return body
	}
	return "(forall (" + strings.Join(binders, " ") + ") " + body + ")"
}

func lemmaObligations(P *Program, DB *ContractDB, cfg PropConfig) (*Enc, []*Obligation, error) {
	var names []string
	for n, l := range DB.Lemmas {
		if _, ok := P.Pkgs[l.Pkg]; ok {
			names = append(names, n)
		}
	}
	sort.Strings(names)
	var all []*Obligation
	var last *Enc
	for _, n := range names {
		l := DB.Lemmas[n]
		e := newBareEnc(P, DB, l.Pkg+".lemma:"+l.Name)
		var err error
		func() {
			defer func() {
				if r := recover(); r != nil {
					if ee, ok := r.(encErr); ok {
						err = fmt.Errorf("lemma %s: %s", l.Name, string(ee))
						return
					}
					panic(r)
				}
			}()
			bound, binders, guards := e.lemmaBound(l, "")
			for _, b := range binders {
				// (name sort)
				b = strings.TrimSuffix(strings.TrimPrefix(b, "("), ")")
				// name may be quoted with spaces? names have none
				k := strings.Index(b, " ")
				if strings.HasPrefix(b, "|") {
					k = strings.Index(b[1:], "|") + 2
				}
				e.declare(b[:k], strings.TrimSpace(b[k:]))
			}
			for _, g := range guards {
				e.assume(g)
			}
			for _, u := range l.Uses {
				other, ok := DB.Lemmas[u]
				if !ok {
					e.fail("lemma %s uses unknown lemma %s", l.Name, u)
				}
				e.assume(e.lemmaAxiom(other))
			}
			req, ens := e.lemmaParts(l, bound)
			e.assume(req)
			if l.Induct != "" {
				iv, ok := bound[l.Induct]
				if !ok {
					e.fail("lemma %s: induction variable %s is not a parameter", l.Name, l.Induct)
				}
				// induction hypothesis at n-1, all other parameters universally quantified
				qvCounter++
				b2, binders2, guards2 := e.lemmaBound(l, fmt.Sprintf("?IH%d", qvCounter))
				ihReq, ihEns := e.lemmaParts(l, b2)
				link := "(= " + b2[l.Induct].L[0] + " (- " + iv.L[0] + " 1))"
				ih := "(forall (" + strings.Join(binders2, " ") + ") " + sImp(sAnd(append(guards2, link, "(>= "+b2[l.Induct].L[0]+" 0)", ihReq)...), ihEns) + ")"
				e.assume(ih)
			}
			e.obligeAt("true", "lemma", "lemma."+l.Name, ens, 0, "lemma "+l.Name)
		}()
		if err != nil {
			return nil, nil, err
		}
		all = append(all, e.obls...)
		last = e
	}
	return last, all, nil
}

func runBounded(b BoundedCheck) (bool, string) {
	cmd := exec.Command("bash", "-c", b.Cmd)
	cmd.Dir = verifDir()
	cmd.Env = append(os.Environ(), "GOFLAGS=-mod=mod", "GOPROXY=off")
	out, err := cmd.CombinedOutput()
	return err == nil, string(out)
}
